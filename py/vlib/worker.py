"""Client for the p11worker JSON-lines executor.  One Worker = one process = one PKCS#11 application."""
import json
import os
import select
import subprocess
import tempfile

VERIF = os.path.dirname(os.path.dirname(os.path.dirname(os.path.abspath(__file__))))
BUILD = os.environ.get("VERIF_BUILD", os.path.join(VERIF, ".build"))

CALL_TIMEOUT = float(os.environ.get("VERIF_CALL_TIMEOUT", "120"))


class WorkerDied(Exception):
    def __init__(self, how, detail="", stderr=""):
        Exception.__init__(self, "%s %s" % (how, detail))
        self.how = how          # 'exit' | '_exit' | 'abort' | 'signal' | 'asan' | 'eof' | 'hang'
        self.detail = detail
        self.stderr = stderr


class Worker:
    def __init__(self, variant="ossl-asan", conf=None, binary="p11worker", extra_env=None, wrapper=None):
        self.variant = variant
        self.path = os.path.join(BUILD, variant, binary)
        env = dict(os.environ)
        env["ASAN_OPTIONS"] = "detect_leaks=0:abort_on_error=0:handle_abort=1:symbolize=1:print_summary=1:detect_stack_use_after_return=0"
        env["UBSAN_OPTIONS"] = "print_stacktrace=1:halt_on_error=1"
        if conf:
            env["SOFTHSM2_CONF"] = conf
        if extra_env:
            env.update(extra_env)
        self.errf = tempfile.TemporaryFile(prefix="p11w-err-", dir="/dev/shm")
        cmd = [self.path]
        if wrapper:
            cmd = list(wrapper) + cmd
        self.p = subprocess.Popen(cmd, stdin=subprocess.PIPE, stdout=subprocess.PIPE, stderr=self.errf, env=env,
                                  bufsize=0)
        self.buf = b""
        self.dead = None
        self.ncalls = 0
        self.log = None       # optional list collecting (cmd, resp)

    # -- low level ---------------------------------------------------------------------------------
    def _readline(self, timeout):
        while b"\n" not in self.buf:
            r, _, _ = select.select([self.p.stdout], [], [], timeout)
            if not r:
                return None
            chunk = os.read(self.p.stdout.fileno(), 1 << 20)
            if not chunk:
                return b""
            self.buf += chunk
        line, self.buf = self.buf.split(b"\n", 1)
        return line

    def stderr_text(self):
        try:
            self.errf.seek(0)
            return self.errf.read().decode("latin-1")[-20000:]
        except Exception:
            return ""

    def _die(self, how, detail=""):
        try:
            self.p.kill()
        except Exception:
            pass
        try:
            self.p.wait(timeout=5)
        except Exception:
            pass
        err = self.stderr_text()
        if how == "eof":
            if "AddressSanitizer" in err or "runtime error:" in err:
                how = "asan"
            elif self.p.returncode is not None and self.p.returncode < 0:
                how = "signal"
                detail = str(-self.p.returncode)
        self.dead = WorkerDied(how, detail, err)
        raise self.dead

    def send(self, cmd):
        if self.dead:
            raise self.dead
        try:
            self.p.stdin.write((json.dumps(cmd) + "\n").encode())
        except (BrokenPipeError, OSError):
            self._die("eof")

    def recv(self, timeout=None, step_ok=False):
        """Returns the next response; raises WorkerDied. With step_ok, step events are returned too."""
        died = None
        while True:
            line = self._readline(timeout or CALL_TIMEOUT)
            if line is None:
                self._die("hang")
            if line == b"":
                if died:
                    self._die(died["died"], str(died.get("code")))
                self._die("eof")
            try:
                r = json.loads(line)
            except ValueError:
                continue
            if "died" in r:
                died = r
                continue
            if "step" in r and not step_ok:
                # not in stepping mode: let it run
                self.p.stdin.write(b"\n")
                continue
            return r

    def call(self, fn, **kw):
        cmd = {"fn": fn}
        cmd.update(kw)
        self.send(cmd)
        r = self.recv()
        self.ncalls += 1
        if "error" in r:
            raise RuntimeError("worker protocol error: %s (cmd=%r)" % (r["error"], cmd))
        if self.log is not None:
            self.log.append((cmd, r))
        return r

    def batch(self, cmds):
        r = self.call("batch", cmds=cmds)
        return r["results"]

    def __getattr__(self, name):
        if name.startswith("C_") or name in ("census", "findall", "readattrs", "probe", "fsmode", "fsreport", "ping",
                                              "umask", "rlimit_fsize"):
            return lambda **kw: self.call(name, **kw)
        raise AttributeError(name)

    def close(self):
        if self.p.poll() is None:
            try:
                self.p.stdin.write(b'{"fn":"quit"}\n')
                self.p.stdin.close()
                self.p.wait(timeout=10)
            except Exception:
                try:
                    self.p.kill()
                    self.p.wait(timeout=5)
                except Exception:
                    pass
        try:
            self.p.stdout.close()
        except Exception:
            pass
        try:
            self.errf.close()
        except Exception:
            pass

    def kill(self):
        try:
            self.p.kill()
            self.p.wait(timeout=5)
        except Exception:
            pass
        self.close()
