"""Common driver of every check: build -> replay tier -> generated search (sharded) -> evidence -> exit code.

A check module provides a subclass of Check with
    pid, level, variants            class attributes
    rule                            text: how cases are generated and what makes one non-trivial
    strategy(tier)                  hypothesis strategy producing one *program* (plain JSON-able value)
    run_program(ctx, program)       execute + judge; raise Violation on a deviation; record stats on ctx
    budget(tier)                    -> dict(examples=.., shards=..)
    extra(ctx, tier)                optional non-hypothesis legs (exhaustive enumerations ...)
"""
import collections
import hashlib
import json
import os
import subprocess
import sys
import time
import traceback

VERIF = os.path.dirname(os.path.dirname(os.path.dirname(os.path.abspath(__file__))))
sys.path.insert(0, os.path.join(VERIF, "py"))

from vlib import kf as kfmod  # noqa: E402
from vlib.env import Env  # noqa: E402
from vlib.worker import WorkerDied  # noqa: E402


class Violation(Exception):
    def __init__(self, what, program=None, detail=None):
        Exception.__init__(self, what)
        self.what = what
        self.program = program
        self.detail = detail


class Vacuous(Exception):
    pass


def phash(program):
    return hashlib.sha1(json.dumps(program, sort_keys=True, default=str).encode()).hexdigest()[:16]


class Ctx:
    """Per-process run context: scratch env, statistics, known-finding registry."""

    def __init__(self, pid, tier, seed, replaying=False):
        self.pid = pid
        self.tier = tier
        self.seed = seed
        self.env = Env(pid)
        self.kf = kfmod.Registry(pid)
        self.evaluations = 0
        self.steps = 0
        self.nontrivial = set()
        self.labels = collections.Counter()
        self.samples = []
        self.worker_deaths = 0
        self.replaying = replaying
        self.extra = {}
        self.shared = {}      # templates etc. cached per process

    # statistics ---------------------------------------------------------------------------------
    def case(self, program, nontrivial, labels=(), sample=None):
        self.evaluations += 1
        h = phash(program)
        if nontrivial:
            self.nontrivial.add(h)
        for l in labels:
            self.labels[l] += 1
        if len(self.samples) < 4 and (nontrivial or len(self.samples) < 1):
            self.samples.append(sample if sample is not None else program)

    def label(self, l, n=1):
        self.labels[l] += n

    def known(self, sig):
        """True iff the deviation is a listed *open* finding (then it is counted and printed once)."""
        return self.kf.match(sig)

    def dump(self):
        return {"evaluations": self.evaluations, "steps": self.steps, "nontrivial": sorted(self.nontrivial),
                "labels": dict(self.labels), "samples": self.samples, "worker_deaths": self.worker_deaths,
                "kf_hits": self.kf.hits, "extra": self.extra}


class Check:
    pid = "C00"
    level = "exploration"
    variants = ["ossl-asan"]      # add "ref" when the check needs the reference-crypto worker
    rule = ""
    assumptions = []
    essential_labels = {}      # label -> minimum count (quick tier); below => vacuous (exit 2)

    def strategy(self, tier):
        raise NotImplementedError

    def run_program(self, ctx, program):
        raise NotImplementedError

    def budget(self, tier):
        return {"examples": 100, "shards": 8} if tier == "quick" else {"examples": 400, "shards": 16}

    def extra(self, ctx, tier, shard, nshards):
        return None

    def setup(self, ctx):
        pass

    def describe(self, program):
        return program

    def on_worker_death(self, ctx, program, d):
        """The library process died (crash, exit(), abort, sanitizer report, hang) in the middle of a case.  No listed
        property can hold for a call that never returns, so by default this is a violation of the running check."""
        if d.how == "hang":
            # a call that did not return within the time limit is inconclusive (load, not a verdict): counted, never a violation
            ctx.extra["inconclusive_hangs"] = ctx.extra.get("inconclusive_hangs", 0) + 1
            return None
        tail = [l for l in (d.stderr or "").splitlines() if "ERROR:" in l or "SUMMARY" in l or " #0 " in l or " #1 " in l or " #2 " in l or " #3 " in l][:6]
        return Violation("the library process died during the case (%s %s)%s" % (d.how, d.detail, (": " + " | ".join(x.strip()[:160] for x in tail)) if tail else ""), program)


# -------------------------------------------------------------------------------------------------
def build(variants):
    cmd = [sys.executable if sys.executable and "python" in os.path.basename(sys.executable) else "python3",
           os.path.join(VERIF, "build", "gen.py"), "--quiet"] + list(variants)
    p = subprocess.run(cmd, stdout=subprocess.PIPE, stderr=subprocess.STDOUT, text=True)
    if p.returncode != 0:
        sys.stdout.write(p.stdout[-6000:])
        print("BUILD FAILED (harness problem, not a verdict)")
        sys.exit(2)


def repo_tree_id():
    try:
        head = subprocess.run(["git", "-C", "/repo", "rev-parse", "HEAD"], stdout=subprocess.PIPE, text=True).stdout.strip()
        diff = subprocess.run(["git", "-C", "/repo", "diff", "HEAD", "--", "src"], stdout=subprocess.PIPE).stdout
        return head[:12] + ("+dirty:" + hashlib.sha1(diff).hexdigest()[:8] if diff else "")
    except Exception:
        return "unknown"


def hyp_search(check, ctx, tier, examples, seed):
    """Run hypothesis; returns None or the (shrunk) Violation."""
    from hypothesis import HealthCheck, Phase, given, settings
    from hypothesis import seed as hseed
    from hypothesis.errors import Flaky
    try:
        from hypothesis.errors import FlakyFailure
    except ImportError:  # pragma: no cover
        FlakyFailure = Flaky

    state = {"last": None, "first": None}

    def body(program):
        try:
            check.run_program(ctx, program)
        except Violation as v:
            v.program = program
            state["last"] = v
            if state["first"] is None:
                state["first"] = v
            raise
        except WorkerDied as d:
            ctx.worker_deaths += 1
            if len(ctx.extra.setdefault("worker_death_samples", [])) < 3:
                ctx.extra["worker_death_samples"].append({"how": d.how, "detail": d.detail, "stderr_tail": d.stderr[-600:], "program": program})
            v = check.on_worker_death(ctx, program, d)
            if v is not None:
                v.program = program
                state["last"] = v
                if state["first"] is None:
                    state["first"] = v
                raise v

    t = given(check.strategy(tier))(body)
    t = settings(max_examples=examples, database=None, deadline=None, derandomize=False, report_multiple_bugs=False,
                 phases=[Phase.generate, Phase.shrink],
                 suppress_health_check=[HealthCheck.too_slow, HealthCheck.data_too_large, HealthCheck.large_base_example],
                 print_blob=False)(t)
    t = hseed(seed)(t)
    try:
        t()
    except Violation as v:
        return v
    except (Flaky, FlakyFailure):
        # the final replay of the shrunk example passed: report the last failing program seen; the
        # confirmation replays below decide whether it counts
        return state["last"] or state["first"]
    return None


def run_shard(check, tier, seed, shard, nshards, examples, outpath):
    ctx = Ctx(check.pid, tier, seed)
    res = {"violation": None, "error": None}
    try:
        check.setup(ctx)
        try:
            v = check.extra(ctx, tier, shard, nshards)
        except Violation as ve:
            v = ve
        if v is None and examples > 0:
            v = hyp_search(check, ctx, tier, examples, seed * 1000 + shard)
        if v is not None:
            res["violation"] = {"what": v.what, "program": v.program, "detail": v.detail}
    except Vacuous as e:
        res["error"] = "vacuous: %s" % e
    except Exception:
        res["error"] = traceback.format_exc()
    finally:
        ctx.env.cleanup()
    res["stats"] = ctx.dump()
    with open(outpath, "w") as f:
        json.dump(res, f, default=str)


def confirm(check, tier, seed, program, times=3):
    """Replay a violating program in fresh contexts; returns (reproduced_count, last Violation)."""
    n = 0
    last = None
    for _ in range(times):
        ctx = Ctx(check.pid, tier, seed, replaying=True)
        try:
            check.setup(ctx)
            try:
                check.run_program(ctx, program)
            except Violation as v:
                n += 1
                last = v
            except WorkerDied as d:
                v = check.on_worker_death(ctx, program, d)
                if v is not None:
                    n += 1
                    last = v
        finally:
            ctx.env.cleanup()
    return n, last


def write_evidence(check, tier, seed, merged, wall, violations, extra_cov=None):
    cov = {
        "evaluations": merged["evaluations"],
        "distinct_nontrivial": len(merged["nontrivial"]),
        "rule": check.rule,
        "samples": merged["samples"][:5] or ["(no sample recorded)"],
        "steps_executed": merged["steps"],
        "labels": dict(sorted(merged["labels"].items())),
        "known_finding_hits": merged["kf_hits"],
        "worker_deaths": merged["worker_deaths"],
        "build_variants": check.variants,
        "repo_tree": repo_tree_id(),
        "shards": merged.get("shards", 1),
    }
    cov.update(merged.get("extra", {}))
    if extra_cov:
        cov.update(extra_cov)
    ev = {"property_id": check.pid, "tier": tier, "seed": seed, "level": check.level, "coverage": cov,
          "assumptions": list(check.assumptions), "wall_s": round(wall, 2), "violations": violations}
    evdir = os.environ.get("VERIF_EVIDENCE_DIR", os.path.join(VERIF, "evidence"))
    os.makedirs(evdir, exist_ok=True)
    path = os.path.join(evdir, "%s.json" % check.pid)
    try:
        import jsonschema
        schema = json.load(open("/root/.vp/EVIDENCE.schema.json"))
        jsonschema.validate(ev, schema)
    except ImportError:
        pass
    except Exception as e:  # schema violation: still write, but say so
        print("evidence does not validate: %s" % str(e)[:300])
    with open(path, "w") as f:
        json.dump(ev, f, indent=1, default=str)
    return path


def merge(parts):
    m = {"evaluations": 0, "steps": 0, "nontrivial": set(), "labels": collections.Counter(), "samples": [],
         "worker_deaths": 0, "kf_hits": collections.Counter(), "extra": {}, "shards": len(parts)}
    for p in parts:
        s = p["stats"]
        m["evaluations"] += s["evaluations"]
        m["steps"] += s["steps"]
        m["nontrivial"].update(s["nontrivial"])
        m["labels"].update(s["labels"])
        for x in s["samples"]:
            if len(m["samples"]) < 5:
                m["samples"].append(x)
        m["worker_deaths"] += s["worker_deaths"]
        m["kf_hits"].update(s["kf_hits"])
        for k, v in s.get("extra", {}).items():
            if isinstance(v, bool):
                m["extra"][k] = m["extra"].get(k, True) and v
            elif isinstance(v, (int, float)):
                m["extra"][k] = m["extra"].get(k, 0) + v
            elif isinstance(v, list):
                m["extra"].setdefault(k, [])
                if len(m["extra"][k]) < 8:
                    m["extra"][k].extend(v[:8 - len(m["extra"][k])])
            else:
                m["extra"].setdefault(k, v)
    m["kf_hits"] = dict(m["kf_hits"])
    return m


def main(check_cls, argv=None):
    argv = list(sys.argv[1:] if argv is None else argv)
    check = check_cls()
    seed = int(os.environ.get("VERIF_SEED", "1") or "1")
    if argv and argv[0] == "--shard":
        # internal: --shard i n tier examples out
        i, n, tier, examples, out = int(argv[1]), int(argv[2]), argv[3], int(argv[4]), argv[5]
        run_shard(check, tier, seed, i, n, examples, out)
        return 0
    if argv and argv[0] == "replay":
        build(check.variants)
        program = json.load(open(argv[1]))
        program = program.get("program", program) if isinstance(program, dict) else program
        n, v = confirm(check, "quick", seed, program, times=1)
        if n:
            print("VIOLATION property=%s replay=%s" % (check.pid, os.path.abspath(argv[1])))
            print("  " + v.what)
            return 1
        print("replay passed")
        return 0
    tier = argv[0] if argv else os.environ.get("VERIF_TIER", "quick")
    if tier not in ("quick", "thorough"):
        tier = "quick"
    t0 = time.time()
    build(check.variants)
    violations = []   # (what, program, path)

    # 1. replay tier ---------------------------------------------------------------------------------
    rdir = os.path.join(VERIF, "replays", check.pid)
    nreplays = 0
    if os.path.isdir(rdir):
        for fn in sorted(os.listdir(rdir)):
            if not fn.endswith(".json"):
                continue
            doc = json.load(open(os.path.join(rdir, fn)))
            program = doc.get("program", doc) if isinstance(doc, dict) else doc
            nreplays += 1
            n, v = confirm(check, tier, seed, program, times=1)
            if n:
                violations.append((v.what, program, os.path.join(rdir, fn)))

    # 1b. open known findings: each listed finding has a deterministic probe; it is reported while it still manifests
    kf_probe_hits = {}
    reg0 = kfmod.Registry(check.pid)
    for e in reg0.entries:
        if e.get("status", "open").startswith("open") and hasattr(check, "probe_known"):
            ctx = Ctx(check.pid, tier, seed, replaying=True)
            try:
                check.setup(ctx)
                if check.probe_known(ctx, e):
                    kf_probe_hits[e["id"]] = kf_probe_hits.get(e["id"], 0) + 1
            except Exception:
                harness_note = traceback.format_exc()
                print("known-finding probe %s failed to run:\n%s" % (e["id"], harness_note[-800:]))
            finally:
                ctx.env.cleanup()

    # 2. generated search, sharded ----------------------------------------------------------------
    b = check.budget(tier)
    nshards = int(os.environ.get("VERIF_SHARDS", b.get("shards", 8)))
    examples = b.get("examples", 100)
    per = (examples + nshards - 1) // nshards if examples else 0
    tmp = Env(check.pid + ".drv")
    procs = []
    modfile = sys.modules[check_cls.__module__].__file__
    for i in range(nshards):
        out = os.path.join(tmp.root, "shard%d.json" % i)
        cmd = [sys.executable, modfile, "--shard", str(i), str(nshards), tier, str(per), out]
        procs.append((subprocess.Popen(cmd, stdout=subprocess.PIPE, stderr=subprocess.STDOUT, text=True), out))
    parts = []
    harness_errors = []
    for p, out in procs:
        so, _ = p.communicate()
        try:
            parts.append(json.load(open(out)))
        except Exception:
            harness_errors.append("shard produced no result: rc=%s\n%s" % (p.returncode, (so or "")[-3000:]))
    tmp.cleanup()
    for part in parts:
        if part.get("error"):
            harness_errors.append(part["error"])
    merged = merge(parts) if parts else merge([])
    merged["extra"]["replays_run"] = nreplays
    for kid, n in kf_probe_hits.items():
        merged["kf_hits"][kid] = merged["kf_hits"].get(kid, 0) + n

    # 3. confirm violations (3 fresh replays) -------------------------------------------------------
    unconfirmed = 0
    seen = set()
    for part in parts:
        v = part.get("violation")
        if not v:
            continue
        h = phash(v["program"])
        if h in seen:
            continue
        seen.add(h)
        n, last = confirm(check, tier, seed, v["program"], times=3)
        if n == 0:
            unconfirmed += 1
            # not a verdict (three fresh replays passed) - kept in the evidence so that it can be looked at
            merged["extra"].setdefault("unconfirmed_samples", [])
            if len(merged["extra"]["unconfirmed_samples"]) < 6:
                merged["extra"]["unconfirmed_samples"].append({"what": str(v.get("what"))[:600], "program": v["program"]})
            continue
        vdir = os.path.join(os.environ.get("VERIF_VIOLATIONS_DIR", os.path.join(VERIF, "violations")), check.pid)
        os.makedirs(vdir, exist_ok=True)
        path = os.path.join(vdir, "%s.json" % h)
        with open(path, "w") as f:
            json.dump({"property": check.pid, "seed": seed, "tier": tier, "what": last.what, "detail": last.detail,
                       "reproduced": "%d/3" % n, "program": v["program"]}, f, indent=1, default=str)
        violations.append((last.what, v["program"], path))
    merged["extra"]["unconfirmed_flaky_failures"] = unconfirmed

    wall = time.time() - t0
    evpath = write_evidence(check, tier, seed, merged, wall, len(violations))

    # 4. verdict ------------------------------------------------------------------------------------
    reg = kfmod.Registry(check.pid)
    # one line per LISTED open finding of this property (met in this run or not: the list is the committed file, never written here)
    for e in reg.entries:
        if not e.get("status", "open").startswith("open"):
            continue
        n = merged["kf_hits"].get(e["id"], 0)
        print("KNOWN-FINDING: property=%s %s [%s, %s]" % (check.pid, e["what"], e["id"], ("%d hits" % n) if n else "not met in this run"))
    if merged["worker_deaths"]:
        print("NOTE: the library process died or timed out in %d case(s) (samples: worker_death_samples in the evidence); a death is reported as a "
              "violation of this check, a time-out (%d) is inconclusive and only counted" % (merged["worker_deaths"], merged["extra"].get("inconclusive_hangs", 0)))
    print("%s %s seed=%d: %d cases, %d distinct non-trivial, %d steps, %.1fs, evidence %s" % (
        check.pid, tier, seed, merged["evaluations"], len(merged["nontrivial"]), merged["steps"], wall, evpath))
    if violations:
        for what, program, path in violations:
            print("VIOLATION property=%s replay=%s" % (check.pid, path))
            print("  " + what.replace("\n", "\n  ")[:2000])
        return 1
    if harness_errors:
        print("HARNESS PROBLEM (no verdict):")
        for e in harness_errors[:3]:
            print(e[-3000:])
        return 2
    # vacuity floors
    floors = getattr(check, "essential_labels", {})
    scale = 1 if tier == "quick" else 4
    for lab, mn in floors.items():
        if merged["labels"].get(lab, 0) < mn * scale:
            print("VACUOUS GENERATOR (no verdict): label %s seen %d < %d" % (lab, merged["labels"].get(lab, 0), mn * scale))
            return 2
    if len(merged["nontrivial"]) < 2:
        print("VACUOUS (no verdict): fewer than 2 non-trivial cases")
        return 2
    return 0
