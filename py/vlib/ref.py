"""Client of the reference-crypto worker (native/refworker.cpp: Botan 2 + nettle, no OpenSSL)."""
import json
import os
import subprocess

from .worker import BUILD


class RefError(Exception):
    pass


class Ref:
    def __init__(self):
        self.p = subprocess.Popen([os.path.join(BUILD, "ref", "refworker")], stdin=subprocess.PIPE, stdout=subprocess.PIPE, bufsize=0)
        self.f = self.p.stdout
        self.buf = b""
        self.calls = 0

    def call(self, op, **kw):
        kw["op"] = op
        for k, v in list(kw.items()):
            if isinstance(v, (bytes, bytearray)):
                kw[k] = bytes(v).hex()
        self.p.stdin.write((json.dumps(kw) + "\n").encode())
        while b"\n" not in self.buf:
            c = os.read(self.f.fileno(), 1 << 20)
            if not c:
                raise RuntimeError("refworker died")
            self.buf += c
        line, self.buf = self.buf.split(b"\n", 1)
        self.calls += 1
        r = json.loads(line)
        if "error" in r:
            raise RefError(r["error"])
        return r

    def out(self, op, **kw):
        return bytes.fromhex(self.call(op, **kw)["out"])

    def ok(self, op, **kw):
        try:
            return bool(self.call(op, **kw)["ok"])
        except RefError:
            return False

    def close(self):
        try:
            self.p.stdin.close()
            self.p.wait(timeout=5)
        except Exception:
            self.p.kill()
