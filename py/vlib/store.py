"""Independent decoder of the on-disk token format (file backend), written from the format description, not from the
code (DESIGN.md 1.7).

object file  = generation:8 (big endian) then (type:8, kind:8, value)* with kind 1 bool (1 byte: 0x00 / non-zero),
               2 ulong (8), 3 bytes (len:8 + data), 4 attribute map (len:8 + entries (type:8, kind:8, value)*),
               5 mechanism set (count:8 + 8 each)
PIN blob     = salt(8) | IV(16) | AES-256-CBC-PKCS7(key = RFC 4880 iterated-salted SHA-256(PIN), 'RJR' | master key(32))
private byte strings = IV(16) | AES-256-CBC-PKCS7(master key, value)
AES comes from the reference worker (Botan), never from the code under test.
"""
import hashlib
import os
import struct

from . import consts as K

VENDOR = 0x80000000 + 0x5348
OS_TOKENLABEL, OS_TOKENSERIAL, OS_TOKENFLAGS, OS_SOPIN, OS_USERPIN = (VENDOR + i for i in range(1, 6))
PBE_ITERATION_BASE_COUNT = 1500


class FormatError(Exception):
    pass


def _u64(b, pos):
    if pos + 8 > len(b):
        raise FormatError("truncated integer at %d" % pos)
    return struct.unpack(">Q", b[pos:pos + 8])[0], pos + 8


def _value(b, pos, kind, nested=False):
    if kind == 1:
        if pos + 1 > len(b):
            raise FormatError("truncated boolean")
        if b[pos] not in (0x00, 0xFF):
            raise FormatError("boolean encoded as 0x%02x (the format writes 0x00 / 0xFF)" % b[pos])
        return ("bool", b[pos] != 0, b[pos]), pos + 1
    if kind == 2:
        v, pos = _u64(b, pos)
        return ("ulong", v), pos
    if kind == 3:
        n, pos = _u64(b, pos)
        if pos + n > len(b):
            raise FormatError("truncated byte string (%d > %d)" % (n, len(b) - pos))
        return ("bytes", b[pos:pos + n]), pos + n
    if kind == 5:
        n, pos = _u64(b, pos)
        out = []
        for _ in range(n):
            v, pos = _u64(b, pos)
            out.append(v)
        return ("mechs", sorted(out)), pos
    if kind == 4 and not nested:
        n, pos = _u64(b, pos)
        end = pos + n
        if end > len(b):
            raise FormatError("truncated attribute map")
        m = {}
        while pos < end:
            t, pos = _u64(b, pos)
            k, pos = _u64(b, pos)
            v, pos = _value(b, pos, k, nested=True)
            m[t] = v
        if pos != end:
            raise FormatError("attribute map length mismatch")
        return ("map", m), pos
    raise FormatError("unknown attribute kind %d" % kind)


def decode_object(data):
    """-> (generation, {type: (kind, value ...)})"""
    if len(data) < 8:
        raise FormatError("file shorter than the generation field (%d bytes)" % len(data))
    gen, pos = _u64(data, 0)
    attrs = {}
    while pos < len(data):
        t, pos = _u64(data, pos)
        k, pos = _u64(data, pos)
        v, pos = _value(data, pos, k)
        attrs[t] = v
    return gen, attrs


def pbe_key(pin, salt):
    it = PBE_ITERATION_BASE_COUNT + salt[-1]
    d = hashlib.sha256(salt + pin).digest()
    for _ in range(it - 1):
        d = hashlib.sha256(d).digest()
    return d


class TokenDir:
    """One token directory decoded independently."""

    def __init__(self, path, ref):
        self.path = path
        self.ref = ref
        self.files = sorted(os.listdir(path))
        self.raw = {}
        for f in self.files:
            p = os.path.join(path, f)
            if os.path.isfile(p):
                with open(p, "rb") as fh:
                    self.raw[f] = fh.read()
        self.token = decode_object(self.raw["token.object"])[1] if "token.object" in self.raw else None
        self.objects = {}
        self.errors = {}
        for f, data in self.raw.items():
            if f.endswith(".object") and f != "token.object":
                try:
                    self.objects[f] = decode_object(data)[1]
                except FormatError as e:
                    self.errors[f] = str(e)

    def _aes_cbc_dec(self, key, iv, data):
        return self.ref.out("cipher", alg="AES", mode="CBC_PAD", dir="dec", key=key, iv=iv, data=data)

    def master_key(self, pin, so=False):
        """unwrap the master key with a PIN; -> 32 bytes or None (wrong PIN / no blob)"""
        if self.token is None:
            return None
        blob = self.token.get(OS_SOPIN if so else OS_USERPIN)
        if not blob or blob[0] != "bytes" or len(blob[1]) < 8 + 16 + 16:
            return None
        b = blob[1]
        salt, iv, enc = b[:8], b[8:24], b[24:]
        try:
            plain = self._aes_cbc_dec(pbe_key(pin, salt), iv, enc)
        except Exception:
            return None
        if plain[:3] != b"RJR" or len(plain) != 35:
            return None
        return plain[3:]

    def decrypt(self, key, blob):
        if len(blob) < 32 or len(blob) % 16:
            raise FormatError("encrypted attribute has impossible length %d" % len(blob))
        return self._aes_cbc_dec(key, blob[:16], blob[16:])

    def label(self):
        v = self.token.get(OS_TOKENLABEL) if self.token else None
        return v[1].decode("latin-1").rstrip() if v else None

    def serial(self):
        v = self.token.get(OS_TOKENSERIAL) if self.token else None
        return v[1].decode("latin-1") if v else None

    def plain_objects(self, key=None):
        """-> {filename: {type: python value}} with private byte strings decrypted when key is given (None otherwise)"""
        out = {}
        for f, attrs in self.objects.items():
            priv = attrs.get(K.CKA_PRIVATE, ("bool", False))[1]
            d = {}
            for t, v in attrs.items():
                if v[0] == "bytes":
                    val = v[1]
                    if priv and len(val):
                        if key is None:
                            val = None
                        else:
                            try:
                                val = self.decrypt(key, val)
                            except Exception as e:
                                val = "UNDECRYPTABLE(%s)" % e
                    d[t] = val.hex() if isinstance(val, (bytes, bytearray)) else val
                elif v[0] == "map":
                    d[t] = sorted((tt, vv[1].hex() if vv[0] == "bytes" else vv[1]) for tt, vv in v[1].items())
                else:
                    d[t] = v[1]
            out[f] = d
        return out

    def ivs(self):
        """all IVs of encrypted byte strings of private objects (to check freshness)"""
        out = []
        for f, attrs in self.objects.items():
            if attrs.get(K.CKA_PRIVATE, ("bool", False))[1]:
                for t, v in attrs.items():
                    if v[0] == "bytes" and len(v[1]) >= 32:
                        out.append((f, t, v[1][:16]))
        return out


def token_dirs(tokendir, ref):
    out = []
    for d in sorted(os.listdir(tokendir)):
        p = os.path.join(tokendir, d)
        if os.path.isdir(p):
            out.append(TokenDir(p, ref))
    return out


def all_file_bytes(tokendir):
    """every byte of every regular file below the token directory: {relative path: bytes}"""
    out = {}
    for root, dirs, files in os.walk(tokendir):
        for f in files:
            p = os.path.join(root, f)
            try:
                with open(p, "rb") as fh:
                    out[os.path.relpath(p, tokendir)] = fh.read()
            except OSError:
                pass
    return out


# ---------------------------------------------------------------------------------------------------------------------
# SQLite backend: independent decoder (format description: one database `sqlite3.db` per token directory; tables
# attribute_boolean / attribute_integer / attribute_binary / attribute_array (value, type, object_id); arrays are
# mechanism sets (native 8-byte integers) or attribute maps (type:8 native, kind:4 native {1 bool(1 byte), 2 integer(8),
# 3 binary(len:8 + data), 5 mechanism set(len:8 + data)}); the token's own attributes (label, serial, flags, PIN blobs) are the
# attributes of one of the objects; PIN blobs and private byte strings are encrypted exactly as in the file backend).
def _decode_db_array(t, b):
    if t == K.C["CKA_ALLOWED_MECHANISMS"]:
        if len(b) % 8:
            raise FormatError("mechanism set of %d bytes" % len(b))
        return ("mechs", sorted(struct.unpack("<%dQ" % (len(b) // 8), b)))
    m = {}
    pos = 0
    while pos < len(b):
        if pos + 12 > len(b):
            raise FormatError("attribute map entry header overruns")
        tt, kk = struct.unpack("<QI", b[pos:pos + 12])
        pos += 12
        if kk == 1:
            m[tt] = ("bool", b[pos] != 0, b[pos])
            pos += 1
        elif kk == 2:
            m[tt] = ("ulong", struct.unpack("<Q", b[pos:pos + 8])[0])
            pos += 8
        elif kk in (3, 5):
            n = struct.unpack("<Q", b[pos:pos + 8])[0]
            pos += 8
            if pos + n > len(b):
                raise FormatError("attribute map value overruns")
            m[tt] = ("bytes", b[pos:pos + n]) if kk == 3 else ("mechs", sorted(struct.unpack("<%dQ" % (n // 8), b[pos:pos + n])))
            pos += n
        else:
            raise FormatError("attribute map entry of kind %d" % kk)
    return ("map", m)


class DbTokenDir(TokenDir):
    """One token directory of the SQLite backend, decoded with Python's sqlite3 (not with the code under test)."""

    def __init__(self, path, ref):
        import sqlite3
        self.path = path
        self.ref = ref
        self.files = sorted(os.listdir(path))
        self.raw = {}
        self.objects = {}
        self.errors = {}
        self.token = None
        db = os.path.join(path, "sqlite3.db")
        con = sqlite3.connect("file:%s?mode=ro" % db, uri=True)
        try:
            objs = {}
            for (oid,) in con.execute("select id from object"):
                objs[oid] = {}
            for oid, t, v in con.execute("select object_id, type, value from attribute_boolean"):
                objs.setdefault(oid, {})[t] = ("bool", bool(v), v)
            for oid, t, v in con.execute("select object_id, type, value from attribute_integer"):
                objs.setdefault(oid, {})[t] = ("ulong", v & 0xFFFFFFFFFFFFFFFF if isinstance(v, int) else v)
            for oid, t, v in con.execute("select object_id, type, value from attribute_binary"):
                if t == K.C["CKA_ALLOWED_MECHANISMS"]:
                    objs.setdefault(oid, {})[t] = _decode_db_array(t, bytes(v) if v is not None else b"")       # mechanism sets live in the binary table
                else:
                    objs.setdefault(oid, {})[t] = ("bytes", bytes(v) if v is not None else b"")
            for oid, t, v in con.execute("select object_id, type, value from attribute_array"):
                try:
                    objs.setdefault(oid, {})[t] = _decode_db_array(t, bytes(v) if v is not None else b"")
                except (FormatError, struct.error, IndexError) as e:
                    self.errors["object %d" % oid] = "%s: %s" % (K.name("CKA", t), e)
        except sqlite3.Error as e:
            raise FormatError("sqlite3.db cannot be read: %s" % e)
        finally:
            con.close()
        for oid, attrs in objs.items():
            if OS_TOKENLABEL in attrs:
                self.token = attrs
            elif attrs:
                self.objects["object %d" % oid] = attrs


def token_dirs(tokendir, ref):        # noqa: F811  (replaces the file-only version above)
    out = []
    for d in sorted(os.listdir(tokendir)):
        p = os.path.join(tokendir, d)
        if os.path.isdir(p):
            out.append(DbTokenDir(p, ref) if os.path.isfile(os.path.join(p, "sqlite3.db")) else TokenDir(p, ref))
    return out
