"""Fault-injection leg shared by C05 (clause: a call that could not persist its effect must not return CKR_OK) and C09
(clause: a call that fails because a file-system operation failed has no effect).

One case = (scenario, object-management call, which file-system operation of the call fails, once or sticky, errno).
The scenario and the calls are those of the crash-point check C16 (two tokens, a private key, a multi-buffer data object, a
certificate).  A fault-free traced run of the same call supplies the list of operations to choose from and the reference
'after' view; the faulted run supplies rv, the view inside the same process and the view of a fresh process.
"""
import os
import shutil
import sys

from hypothesis import strategies as st

from . import consts as K
from .env import hx
from .objects import T, base_template

sys.path.insert(0, os.path.join(os.path.dirname(os.path.abspath(__file__)), "..", "..", "checks"))

RW = K.CKF_SERIAL_SESSION | K.CKF_RW_SESSION
CALLS = ["create_small", "create_large", "create_rsa", "create_private", "set_large", "set_small", "set_private", "copy", "destroy"]
# the key-generation / unwrap / derive paths: each stores the key material in a second transaction with its own commit tail
KEYPATH = ["genkey", "genpair_ec", "gen_des3", "gen_generic", "genpair_rsa", "genpair_ed", "genpair_dsa", "genpair_dh", "unwrap_secret", "unwrap_rsa",
           "derive_sym", "derive_dh", "derive_concat"]


def strategy():
    return st.fixed_dictionaries({"fault": st.just(True), "call": st.sampled_from(CALLS + CALLS + KEYPATH), "size": st.one_of(st.integers(0, 200), st.integers(3900, 4300), st.integers(8000, 9000)),
                                  "bsize": st.integers(4000, 9000), "seed": st.integers(0, 255), "extra_objs": st.integers(0, 1),
                                  # which operation: a position among the operations that really touch the disk (open, truncate, flush, close, lock,
                                  # remove, rename, directory listing) mostly, any operation (incl. the buffered fwrite/fread) sometimes
                                  "pos": st.integers(0, 9999), "anyop": st.sampled_from([False, False, False, True]),
                                  "sticky": st.booleans(), "errno": st.sampled_from(["", "", "ENOSPC", "EIO", "EACCES", "EMFILE"])})


def _c16():
    import c16
    return c16.C16()


def prepare(chk16, ctx, prog, stage, tpl):
    """the C16 scenario up to the point where the call is issued -> (w, s, objs, pins, val, t0, t1)"""
    w = stage.fresh()
    t0, t1 = tpl.tokens
    sd = prog["seed"]
    pins = {t0.label: ([t0.so_pin], [t0.user_pin]), t1.label: ([t1.so_pin], [t1.user_pin])}
    s = w.C_OpenSession(slot=t0.slot, flags=RW)["h"]
    if w.C_Login(s=s, user=K.CKU_USER, pin=hx(t0.user_pin))["rv"] != 0:
        raise RuntimeError("scenario: login failed")
    big = bytes((sd + i * 7) & 0xFF for i in range(prog["bsize"]))
    objs = {}

    def mk(label, tpl_):
        r = w.C_CreateObject(s=s, tpl=tpl_ + T(("CKA_LABEL", label.encode())))
        if r["rv"] != 0:
            raise RuntimeError("scenario setup: %s %s" % (label, K.rvname(r["rv"])))
        objs[label] = r["h"]
    mk("A-private-aes", T(("CKA_CLASS", "CKO_SECRET_KEY"), ("CKA_KEY_TYPE", "CKK_AES"), ("CKA_VALUE", bytes((sd + i) & 0xFF for i in range(32))), ("CKA_TOKEN", True),
                        ("CKA_PRIVATE", True), ("CKA_SENSITIVE", False), ("CKA_EXTRACTABLE", True)))
    mk("B-big-data", T(("CKA_CLASS", "CKO_DATA"), ("CKA_TOKEN", True), ("CKA_PRIVATE", False), ("CKA_VALUE", big), ("CKA_APPLICATION", b"app")))
    mk("C-cert", T(*base_template("cert_x509", sd)) + T(("CKA_TOKEN", True), ("CKA_PRIVATE", False), ("CKA_ISSUER", big[::-1])))
    for i in range(prog["extra_objs"]):
        mk("X-extra-%d" % i, T(("CKA_CLASS", "CKO_DATA"), ("CKA_TOKEN", True), ("CKA_PRIVATE", bool(i % 2)), ("CKA_VALUE", b"extra-%d" % i * 3)))
    val = bytes((sd * 3 + i * 5) & 0xFF for i in range(prog["size"]))
    if prog["call"] in KEYPATH:
        import c16
        c16.prepare_extra(w, s, objs, sd)
    return w, s, objs, pins, val, t0, t1


def strip(view, mask=False):
    """views compared on PINs and objects (token flags change with every login attempt)"""
    if view is None:
        return None
    for r in (view.values() if mask else []):
        # random material of keys made by the call itself (labels N-new*) is compared by presence only (a DH / DSA value may
        # have a leading zero octet less in one run than in another)
        for name, attrs in (r.get("objs") or {}).items():
            if name.startswith("N-new"):
                for t in (str(K.CKA_VALUE), str(K.CKA_MODULUS)):
                    if isinstance(attrs.get(t), str) and not attrs[t].startswith(("ERR", "raw")):
                        attrs[t] = "present" if attrs[t] else "empty"
    return {lab: {"so": r.get("so"), "user": r.get("user"), "objs": r.get("objs"), "error": r.get("error")} for lab, r in view.items()}


def reference(ctx, prog, stage, tpl):
    """fault-free traced run of the call -> (rv, list of operation names, view of a fresh process afterwards)"""
    chk16 = ctx.shared.get("_c16") or ctx.shared.setdefault("_c16", _c16())
    mask = prog["call"].startswith("gen")
    w, s, objs, pins, val, t0, t1 = prepare(chk16, ctx, prog, stage, tpl)
    w.fsmode(mode="trace", dir=stage.sb.tokendir)
    ref_rv = chk16.do_call(w, s, prog["call"], prog, val, objs, t0, t1, {k: (list(v[0]), list(v[1])) for k, v in pins.items()})
    rep = w.fsreport(trace=True)
    w.fsmode(mode="off")
    trace = rep["trace"]
    ops = [t.get("op") if isinstance(t, dict) else t[0] for t in trace]
    w.C_Finalize()
    stage.w.close()
    stage.w = None
    ref_new = strip(chk16.view_of_tree(ctx, stage.sb.tokendir, pins), mask)
    return ref_rv, ops, ref_new


def eligible_ops(ops, anyop):
    return [i for i, o in enumerate(ops) if anyop or o not in ("fwrite", "fread")]


SWEEP_PROG = {"fault": True, "size": 100, "bsize": 5000, "seed": 7, "extra_objs": 0, "pos": 0, "anyop": False, "errno": ""}


def sweep_cells(ctx, tier, shard, nshards, stage, tpl):
    """Deterministic small-scope sweep of the fault leg (no generator involved): for EVERY call kind, the operations of the call that really
    touch the disk are failed one at a time - thorough: every one of them, once and sticky; quick: each of the last 32 (the transaction that
    stores the key material / the final commit) once and sticky, and every 24th of the others.  Yields programs with an exact operation index."""
    cells = []
    for call in CALLS + KEYPATH:
        prog = dict(SWEEP_PROG, call=call, sticky=False)
        key = ("ref", call)
        if key not in ctx.shared:
            ctx.shared[key] = reference(ctx, prog, stage, tpl)
        n = len(eligible_ops(ctx.shared[key][1], False))
        for i in range(n):
            tail = i >= n - 32
            if tier != "quick" or tail:
                cells.append(dict(prog, kidx=i, sticky=False, sweep=True))
                cells.append(dict(prog, kidx=i, sticky=True, sweep=True))
            elif i % 24 == 7:
                cells.append(dict(prog, kidx=i, sticky=bool((i // 24) % 2), sweep=True))
    return [c for j, c in enumerate(cells) if j % nshards == shard], len(cells)


def run(ctx, prog, stage, tpl):
    """-> dict(rv, fired, op, old, mem, disk, ref_rv, ref_new) or None when the chosen operation does not exist"""
    chk16 = ctx.shared.get("_c16") or ctx.shared.setdefault("_c16", _c16())
    mask = prog["call"].startswith("gen")
    # 1. fault-free traced run: operations of the call and the reference 'after' view (the sweep computes it once per call kind)
    key = ("ref", prog["call"])
    if prog.get("sweep") and all(prog.get(f) == v for f, v in SWEEP_PROG.items()):
        if key not in ctx.shared:
            ctx.shared[key] = reference(ctx, prog, stage, tpl)
        ref_rv, ops, ref_new = ctx.shared[key]
    else:
        ref_rv, ops, ref_new = reference(ctx, prog, stage, tpl)
    eligible = eligible_ops(ops, prog["anyop"])
    if not eligible:
        return None
    k = eligible[prog["pos"] % len(eligible)]
    if prog.get("kidx") is not None:
        if prog["kidx"] >= len(eligible):
            return None
        k = eligible[prog["kidx"]]
    if prog.get("opname"):
        named = [i for i in eligible if ops[i] == prog["opname"]]
        if not named:
            return None
        k = named[prog["pos"] % len(named)]
    # 2. the faulted run on a fresh copy of the same scenario
    w, s, objs, pins, val, t0, t1 = prepare(chk16, ctx, prog, stage, tpl)
    old = strip(chk16.view_of_tree(ctx, stage.sb.tokendir, pins), mask)
    w.fsmode(mode="fault", k=k, sticky=bool(prog["sticky"]), kind=prog["errno"], dir=stage.sb.tokendir)
    rv = chk16.do_call(w, s, prog["call"], prog, val, objs, t0, t1, {k_: (list(v[0]), list(v[1])) for k_, v in pins.items()})
    rep2 = w.fsreport(trace=True)
    w.fsmode(mode="off")
    fired = [t for t in rep2["trace"] if (t.get("res") if isinstance(t, dict) else t[2]) == -1]
    # 3. the view inside the same process (a fresh session pair), then of a fresh process
    try:
        w.C_Logout(s=s)
    except Exception:
        pass
    mem = strip(chk16.view(w, None, pins), mask)
    try:
        w.C_Finalize()
    except Exception:
        pass
    stage.w.close()
    stage.w = None
    disk = strip(chk16.view_of_tree(ctx, stage.sb.tokendir, pins), mask)
    ctx.steps += 2
    return {"rv": rv, "fired": len(fired), "op": ops[k], "k": k, "nops": len(ops), "old": old, "mem": mem, "disk": disk, "ref_rv": ref_rv, "ref_new": ref_new}


def diff(a, b):
    """short description of how view b differs from view a"""
    if a is None or b is None:
        return "view unavailable (C_Initialize failed): %s / %s" % (a is None, b is None)
    out = []
    for lab in sorted(set(a) | set(b)):
        ra, rb = a.get(lab), b.get(lab)
        if ra is None or rb is None:
            out.append("token %s %s" % (lab, "appeared" if ra is None else "disappeared"))
            continue
        for f in ("so", "user", "error"):
            if ra.get(f) != rb.get(f):
                out.append("token %s: %s %s -> %s" % (lab, f, ra.get(f), rb.get(f)))
        oa, ob = ra.get("objs") or {}, rb.get("objs") or {}
        for o in sorted(set(oa) | set(ob)):
            if o not in ob:
                out.append("token %s: object %s gone" % (lab, o))
            elif o not in oa:
                out.append("token %s: object %s appeared with %d attributes" % (lab, o, len(ob[o])))
            elif oa[o] != ob[o]:
                ch = [K.name("CKA", int(t)) for t in set(oa[o]) | set(ob[o]) if oa[o].get(t) != ob[o].get(t)]
                out.append("token %s: object %s changed in %s" % (lab, o, ",".join(sorted(ch))))
    return "; ".join(out[:6]) or "(equal)"


TARGET = {"set_large": "C-cert", "set_small": "C-cert", "set_private": "A-private-aes", "destroy": "C-cert", "copy": None, "create_small": None, "create_large": None,
          "create_rsa": None, "create_private": None}
TARGET.update({c: None for c in KEYPATH})


def classify(call, a, b, in_process):
    """deviation kinds between the view before (a) and a view after a FAILED call (b):
    -> (set of kinds that belong to the listed known finding, list of descriptions of anything else)"""
    kinds, other = set(), []
    if b is None:
        return kinds, ["no view: C_Initialize failed in a fresh process"]
    for lab in sorted(set(a) | set(b)):
        ra, rb = a.get(lab), b.get(lab)
        if rb is None:
            if in_process and lab == "tok0":
                kinds.add("token_invalid_in_process")
            else:
                other.append("token %s disappeared" % lab)
            continue
        if ra is None:
            other.append("token %s appeared" % lab)
            continue
        for f in ("so", "user", "error"):
            if ra.get(f) != rb.get(f):
                other.append("token %s: %s %s -> %s" % (lab, f, ra.get(f), rb.get(f)))
        oa, ob = ra.get("objs") or {}, rb.get("objs") or {}
        for o in sorted(set(oa) | set(ob)):
            new_object = o not in oa
            if new_object:
                if lab == "tok0" and TARGET.get(call) is None and (o.startswith("#") or o.startswith("N-new") or o.endswith("'")):
                    kinds.add("partial_object_left")
                elif lab == "tok0" and call.startswith("set") and o.startswith("#"):
                    kinds.add("target_object_lost_or_changed")         # the target, now without its label
                else:
                    other.append("token %s: object %s appeared" % (lab, o))
            elif o not in ob or oa[o] != ob[o]:
                if lab == "tok0" and o == TARGET.get(call):
                    kinds.add("target_object_lost_or_changed")
                else:
                    other.append("token %s: object %s %s" % (lab, o, "gone" if o not in ob else "changed"))
    return kinds, other
