"""PKCS#11 constants scraped from /repo/src/lib/pkcs11/pkcs11.h so the two sides cannot drift."""
import os
import re

REPO = os.environ.get("VERIF_REPO", "/repo")
_HDR = os.path.join(REPO, "src/lib/pkcs11/pkcs11.h")

C = {}          # name -> int
REV = {}        # prefix -> {int: name}


def _eval(expr, env):
    expr = re.sub(r"\(unsigned long\)", "", expr)
    expr = re.sub(r"(0x[0-9a-fA-F]+|\d+)[uU]?[lL]*", r"\1", expr)
    expr = expr.replace("-1L", "-1")
    try:
        v = eval(expr, {"__builtins__": {}}, env)
    except Exception:
        return None
    if isinstance(v, int):
        return v & 0xFFFFFFFFFFFFFFFF
    return None


def _load():
    pat = re.compile(r"^#define\s+(CK[A-Z]?_[A-Z0-9_a-z]+)\s+(.+?)\s*(/\*.*)?$")
    for line in open(_HDR, encoding="latin-1"):
        m = pat.match(line)
        if not m:
            continue
        name, expr = m.group(1), m.group(2)
        v = _eval(expr, C)
        if v is None:
            continue
        C[name] = v
    for name, v in C.items():
        pfx = name.split("_")[0]
        REV.setdefault(pfx, {})
        # first definition wins (aliases come later in the header)
        REV[pfx].setdefault(v, name)


_load()
C["CK_UNAVAILABLE_INFORMATION"] = 0xFFFFFFFFFFFFFFFF
C["CK_INVALID_HANDLE"] = 0
UNAVAILABLE = 0xFFFFFFFFFFFFFFFF


def c(name):
    """name or int -> int"""
    if isinstance(name, int):
        return name
    return C[name]


def name(prefix, v):
    return REV.get(prefix, {}).get(v, "%s_0x%x" % (prefix, v))


def rvname(v):
    return name("CKR", v)


globals().update({k: v for k, v in C.items()})
