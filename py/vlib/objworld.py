"""Object world: executes object-management histories against the library and keeps a reference model.

Shared by C01, C09, C11, C19 (and reused by C05/C06/C08).  A *program* is a list of abstract operations (plain JSON);
session and object references are indices resolved modulo everything ever issued, so every sub-sequence of a program is
executable (effective shrinking) and stale handles are part of the generated space.

The model records, per object, the attribute values read back through the creating session right after the successful
mutation (the creator can always read what it created); later views of any session are compared against that.
"""
from hypothesis import strategies as st

from . import consts as K
from .env import hx
from .objects import (A, CENSUS_ATTRS, CLASSES, LIGHT_CLASSES, T, base_template, census, class_kind, decode_census,
                      default_private, kind_of, optional_attrs, show)
from .runner import Violation

BOGUS_SESSION = 0x7FFFFFF1
BOGUS_OBJECT = 0x7FFFFFF2

VALUES = {
    "CKA_ID": [b"", b"id-0", b"id-1", b"id-2" * 12],
    "CKA_APPLICATION": [b"app-0", b"app-1", b""],
    "CKA_OBJECT_ID": [b"\x06\x03\x55\x04\x03", b"\x06\x03\x55\x04\x0a"],
    "CKA_VALUE": [b"", b"value-1", b"W" * 300, b"\x00\x01\x02", bytes(range(256)) * 17, b"Z" * 4096, b"Y" * 4095],
    "CKA_SUBJECT": [b"subj-0", b"subj-1", b""],
    "CKA_ISSUER": [b"issuer-0", b"issuer-1"],
    "CKA_SERIAL_NUMBER": [b"\x02\x01\x01", b"\x02\x01\x02"],
    "CKA_START_DATE": [b"20240101", b""],
    "CKA_END_DATE": [b"20301231", b""],
    "CKA_ALLOWED_MECHANISMS": [["CKM_AES_GCM", "CKM_AES_CBC", "CKM_AES_ECB"], ["CKM_AES_CBC"], ["CKM_RSA_PKCS", "CKM_SHA256_RSA_PKCS"], []],
    "CKA_WRAP_TEMPLATE": [[("CKA_EXTRACTABLE", True)], [("CKA_CLASS", "CKO_SECRET_KEY"), ("CKA_LABEL", b"wt")], [("CKA_LABEL", b"only")],
                          [("CKA_KEY_TYPE", "CKK_AES"), ("CKA_SENSITIVE", False), ("CKA_ID", b"")],
                          # elements that the store keeps as byte strings whatever their PKCS#11 type (a nested mechanism list, a flag outside the fixed lists)
                          [("CKA_ALLOWED_MECHANISMS", ["CKM_AES_ECB", "CKM_AES_CBC"]), ("CKA_EXTRACTABLE", True)], [("CKA_DESTROYABLE", False), ("CKA_LABEL", b"nested")]],
    "CKA_UNWRAP_TEMPLATE": [[("CKA_SENSITIVE", True)], [("CKA_KEY_TYPE", "CKK_AES"), ("CKA_ID", b"ut")], [("CKA_CLASS", "CKO_SECRET_KEY"), ("CKA_ID", b"last-is-bytes" * 3)]],
}
BOOLS = [True, False]


def value_of(name, idx):
    if name in VALUES:
        v = VALUES[name]
        return v[idx % len(v)]
    if kind_of(name) == "bool":
        return BOOLS[idx % 2]
    raise KeyError(name)


# kinds of template corruption (C09): inserted at a position of an otherwise valid template
BAD_KINDS = ["unknown_type", "readonly_local", "readonly_always_sensitive", "wrong_size_bool", "other_class_attr",
             "keygen_mech", "wrong_size_ulong", "drop_required", "dup_conflict"]


def corrupt(tpl, cls, pos, kind, op):
    """-> (new template, description).  `tpl` is a list of worker-format entries."""
    tpl = list(tpl)
    pos = pos % (len(tpl) + 1)
    if kind == "unknown_type":
        tpl.insert(pos, [0x0000F123, "bytes", "0102"])
    elif kind == "readonly_local":
        tpl.insert(pos, A("CKA_LOCAL", True))
    elif kind == "readonly_always_sensitive":
        tpl.insert(pos, A("CKA_ALWAYS_SENSITIVE", True))
    elif kind == "keygen_mech":
        tpl.insert(pos, A("CKA_KEY_GEN_MECHANISM", "CKM_AES_KEY_GEN"))
    elif kind == "wrong_size_bool":
        tpl.insert(pos, [K.CKA_MODIFIABLE, "bytes", "0101"])
    elif kind == "wrong_size_ulong":
        tpl.insert(pos, [K.CKA_CERTIFICATE_CATEGORY if class_kind(cls) == "cert" else K.CKA_KEY_TYPE if op != "create" else K.CKA_CLASS, "bytes", "01"])
    elif kind == "other_class_attr":
        other = "CKA_MODULUS_BITS" if cls not in ("rsa_pub",) else "CKA_VALUE_LEN"
        tpl.insert(pos, A(other, 1024))
    elif kind == "drop_required":
        # remove the last class-specific mandatory attribute (only meaningful for create)
        for i in range(len(tpl) - 1, -1, -1):
            if tpl[i][0] in (K.CKA_VALUE, K.CKA_SUBJECT, K.CKA_PUBLIC_EXPONENT, K.CKA_EC_PARAMS, K.CKA_PRIME, K.CKA_MODULUS):
                del tpl[i]
                break
        else:
            tpl.insert(pos, [0x0000F124, "bytes", ""])
    elif kind == "dup_conflict":
        tpl.insert(pos, [K.CKA_TOKEN, "bytes", "010203"])   # wrongly sized CKA_TOKEN late in the template
    return tpl


class Obj:
    def __init__(self, oid, tok, token, private, owner, cls, label):
        self.oid = oid
        self.tok = tok
        self.token = token
        self.private = private
        self.owner = owner          # creating session handle for session objects
        self.cls = cls
        self.label = label
        self.attrs = {}             # attrtype -> value as read back
        self.handle = None
        self.alive = True
        self.how = "create"

    def flag(self, name, default=True):
        v = self.attrs.get(K.C[name])
        return default if v is None else bool(v)


class World:
    def __init__(self, ctx, w, tokens, prog, check_views="fail", probe_handles=False, judge_access=True, stage=None, ref=None):
        self.ctx = ctx
        self.w = w
        self.stage = stage          # needed by the restart / reinit operations
        self.ref = ref              # reference worker: enables the independent decode of the token directory
        self.tokens = tokens
        self.prog = prog
        self.slots = [t.slot for t in tokens]
        self.login = [None for _ in tokens]
        self.sessions = {}          # handle -> (tok, rw)
        self.ever_sessions = []
        self.objs = {}              # oid -> Obj
        self.issued = []            # every object handle ever issued: (handle, oid)
        self.hmap = {}              # currently valid handle -> oid
        self.all_handles = set()    # every handle value (sessions and objects) ever issued
        self.next_oid = 0
        self.step = -1
        self.check_views = check_views      # 'fail' (after failing calls) | 'always' | 'never'
        self.probe_handles = probe_handles
        self.judge_access = judge_access
        self.labels = set()
        self.counts = {}
        self.nontrivial = False
        self.after_step = None      # optional hook(op, rv) called after every operation

    # -- helpers -------------------------------------------------------------------------------------
    def V(self, what):
        return Violation("step %d %s: %s" % (self.step, self.prog[self.step] if 0 <= self.step < len(self.prog) else "", what), self.prog)

    def count(self, k, n=1):
        self.counts[k] = self.counts.get(k, 0) + n

    def sess(self, i):
        return self.ever_sessions[i % len(self.ever_sessions)] if self.ever_sessions else BOGUS_SESSION

    def live_sess(self, i):
        """prefer a live session (most ops are only interesting through one)"""
        live = [h for h in self.ever_sessions if h in self.sessions]
        return live[i % len(live)] if live else self.sess(i)

    def objref(self, i, tok=None, live=False):
        """-> (handle, oid or None).  Resolved over everything ever issued (stale handles included)."""
        pool = self.issued
        if tok is not None:
            # handles are only ever used through sessions of their own token (cross-token use of a handle is outside
            # the stated properties: the library performs no slot check there, see DESIGN.md section 7)
            pool = [(h, o) for h, o in pool if self.objs[o].tok == tok]
        if live:
            p2 = [(h, o) for h, o in pool if self.hmap.get(h) == o]
            if p2:
                pool = p2
        if not pool:
            return BOGUS_OBJECT, None
        return pool[i % len(pool)]

    def tok_sessions(self, tok):
        return [h for h, (t, _) in self.sessions.items() if t == tok]

    def state(self, sh):
        """-> (tok, rw, login) or None for a dead session"""
        if sh not in self.sessions:
            return None
        tok, rw = self.sessions[sh]
        return tok, rw, self.login[tok]

    def can_read(self, sh, o):
        st_ = self.state(sh)
        return st_ is not None and (not o.private or st_[2] == "user")

    def can_write(self, sh, o_token, o_private):
        st_ = self.state(sh)
        if st_ is None:
            return False
        if o_private and st_[2] != "user":
            return False
        if o_token and not st_[1]:
            return False
        return True

    def visible(self, sh):
        st_ = self.state(sh)
        if st_ is None:
            return []
        tok, _, login = st_
        return [o for o in self.objs.values() if o.alive and o.tok == tok and (not o.private or login == "user")]

    def new_handle(self, h, oid, what):
        if h in self.all_handles and self.hmap.get(h) != oid:
            raise self.V("%s returned handle %d which was issued before for something else" % (what, h))
        if self.hmap.get(h) == oid:
            return
        self.all_handles.add(h)
        self.issued.append((h, oid))
        self.hmap[h] = oid
        self.objs[oid].handle = h

    def kill_handle(self, o):
        if o.handle is not None:
            self.hmap.pop(o.handle, None)
            o.handle = None

    def kill_obj(self, o):
        self.kill_handle(o)
        o.alive = False

    # -- model transitions for session events -------------------------------------------------------
    def on_session_closed(self, sh):
        tok, _ = self.sessions.pop(sh)
        for o in self.objs.values():
            if o.alive and not o.token and o.owner == sh:
                self.kill_obj(o)
        if not self.tok_sessions(tok):
            self.on_all_closed(tok)

    def on_all_closed(self, tok):
        for sh in self.tok_sessions(tok):
            del self.sessions[sh]
        for o in self.objs.values():
            if o.tok != tok:
                continue
            if not o.token and o.alive:
                self.kill_obj(o)
            else:
                self.kill_handle(o)
        self.login[tok] = None

    def on_logout(self, tok):
        self.login[tok] = None
        for o in self.objs.values():
            if o.tok == tok and o.private:
                if o.token:
                    self.kill_handle(o)
                elif o.alive:
                    self.kill_obj(o)

    # -- reading back --------------------------------------------------------------------------------
    def readback(self, sh, h):
        r = self.w.readattrs(s=sh, o=h, types=CENSUS_ATTRS)
        d = decode_census({"0": r["attrs"]})[0]
        return d

    def identify(self, sh, h):
        """map an unknown handle returned by a search to a model object through its marker label"""
        r = self.w.readattrs(s=sh, o=h, types=[K.CKA_LABEL])["attrs"]
        rv, val, _ = r[str(K.CKA_LABEL)]
        if rv != 0 or val is None:
            return None
        lab = bytes.fromhex(val)
        for o in self.objs.values():
            if o.label == lab:
                return o
        return None

    # -- the view oracle -----------------------------------------------------------------------------
    def check_view(self, sh, why):
        """C_FindObjects(all) + all attributes through session sh must equal the model's visible set."""
        if sh not in self.sessions:
            return
        rv, objs = census(self.w, sh)
        if rv != K.CKR_OK:
            raise self.V("%s: census through session %d failed: %s" % (why, sh, K.rvname(rv)))
        want = {o.oid: o for o in self.visible(sh)}
        seen = set()
        for h, attrs in objs.items():
            oid = self.hmap.get(h)
            if oid is None:
                lab = attrs.get(K.CKA_LABEL)
                o = None
                if isinstance(lab, str) and not lab.startswith(("ERR:", "raw:")):
                    for cand in self.objs.values():
                        if cand.label == bytes.fromhex(lab):
                            o = cand
                if o is None:
                    raise self.V("%s: session %d sees an object the model does not know (handle %d): %s" % (why, sh, h, show(attrs)))
                if o.handle is not None and o.handle != h:
                    raise self.V("%s: object %d has two valid handles (%d and %d)" % (why, o.oid, o.handle, h))
                self.new_handle(h, o.oid, "C_FindObjects")
                oid = o.oid
            if oid in seen:
                raise self.V("%s: object %d returned twice by C_FindObjects" % (why, oid))
            seen.add(oid)
            o = self.objs[oid]
            if oid not in want:
                raise self.V("%s: session %d sees object %d (%s, alive=%s, private=%s, tok=%d) that must not be visible (login=%s)" % (
                    why, sh, oid, o.cls, o.alive, o.private, o.tok, self.login[self.sessions[sh][0]]))
            if attrs != o.attrs:
                diff = {K.name("CKA", t): (o.attrs.get(t), attrs.get(t)) for t in set(attrs) | set(o.attrs) if attrs.get(t) != o.attrs.get(t)}
                raise self.V("%s: object %d (%s) attributes differ from the last committed state (model, seen): %s" % (why, oid, o.cls, diff))
        missing = set(want) - seen
        if missing:
            raise self.V("%s: session %d does not find object(s) %s (%s)" % (why, sh, sorted(missing), [self.objs[m].cls for m in missing]))

    def check_all_views(self, why, every=False):
        """all sessions of one token share the login state, hence the view: two sessions per token suffice
        (the first and the last opened), unless every=True"""
        per_tok = {}
        for sh in self.ever_sessions:
            if sh in self.sessions:
                per_tok.setdefault(self.sessions[sh][0], []).append(sh)
        for tok, lst in sorted(per_tok.items()):
            for sh in (lst if every else sorted(set([lst[0], lst[-1]]))):
                self.check_view(sh, why)

    def probe_sweep(self, why):
        """C11: every handle ever issued is alive exactly when the model says so."""
        sess_list = self.ever_sessions
        res = self.w.probe(sessions=sess_list)["sessions"]
        for h, r in zip(sess_list, res):
            alive = h in self.sessions
            if (r[0] == K.CKR_OK) != alive:
                raise self.V("%s: session handle %d %s" % (why, h, "is rejected although open" if alive else "still works although closed"))
        # object handles: through a live session of their own token
        pairs = []
        meta = []
        for h, oid in self.issued[-200:]:
            o = self.objs[oid]
            ts = self.tok_sessions(o.tok)
            if not ts:
                continue
            pairs.append([ts[0], h])
            meta.append((h, oid))
        if pairs:
            res = self.w.probe(objects=pairs)["objects"]
            for (h, oid), rv in zip(meta, res):
                alive = self.hmap.get(h) == oid
                if (rv == K.CKR_OK) != alive:
                    o = self.objs[oid]
                    raise self.V("%s: object handle %d (object %d %s token=%s private=%s) %s: C_GetObjectSize -> %s" % (
                        why, h, oid, o.cls, o.token, o.private,
                        "must keep working" if alive else "must be invalid", K.rvname(rv)))
        # handles of tokens without any session: all dead by the property; probe through a temporary session
        for tok in range(len(self.tokens)):
            if self.tok_sessions(tok):
                continue
            hs = [(h, oid) for h, oid in self.issued[-200:] if self.objs[oid].tok == tok]
            if not hs:
                continue
            r = self.w.C_OpenSession(slot=self.slots[tok], flags=K.CKF_SERIAL_SESSION)
            if r["rv"] != K.CKR_OK:
                continue
            tmp = r["h"]
            if tmp in self.all_handles:
                raise self.V("%s: C_OpenSession returned handle %d which was issued before" % (why, tmp))
            self.all_handles.add(tmp)
            res = self.w.probe(objects=[[tmp, h] for h, _ in hs])["objects"]
            self.w.C_CloseSession(s=tmp)
            self.ever_sessions.append(tmp)
            for (h, oid), rv in zip(hs, res):
                if rv == K.CKR_OK:
                    raise self.V("%s: object handle %d survived the closing of all sessions of its token" % (why, h))

    # -- operations ----------------------------------------------------------------------------------
    def run(self):
        for self.step, op in enumerate(self.prog):
            self.ctx.steps += 1
            rv = getattr(self, "op_" + op[0])(*op[1:])
            failed = rv is not None and rv != K.CKR_OK
            self.count("op_" + op[0])
            if failed:
                self.count("failed_calls")
                self.count("failed_" + op[0])
            if self.after_step is not None:
                self.after_step(op, rv)
            if self.check_views == "always" or (self.check_views == "fail" and failed and op[0] in (
                    "create", "copy", "set", "destroy", "gen", "genpair", "unwrap", "derive")):
                self.check_all_views("after %s -> %s" % (op[0], K.rvname(rv) if rv is not None else "-"))
                self.count("views_checked")
            elif self.check_views == "access" and op[0] in ("open", "close", "closeall", "login", "logout") and rv == K.CKR_OK:
                self.check_all_views("after %s" % op[0])
                self.count("views_checked")
            elif self.check_views == "lifecycle" and op[0] in ("close", "closeall", "logout", "destroy") and rv == K.CKR_OK:
                self.check_all_views("after %s" % op[0])
                self.count("views_checked")
            if self.probe_handles:
                self.probe_sweep("after %s" % op[0])

    def op_open(self, tok, rw):
        tok = tok % len(self.tokens)
        r = self.w.C_OpenSession(slot=self.slots[tok], flags=K.CKF_SERIAL_SESSION | (K.CKF_RW_SESSION if rw else 0))
        if r["rv"] == K.CKR_OK:
            h = r["h"]
            if h in self.all_handles:
                raise self.V("C_OpenSession returned handle %d which was issued before" % h)
            self.all_handles.add(h)
            self.sessions[h] = (tok, bool(rw))
            self.ever_sessions.append(h)
        return r["rv"]

    def op_close(self, si):
        sh = self.sess(si)
        rv = self.w.C_CloseSession(s=sh)["rv"]
        if rv == K.CKR_OK:
            if sh not in self.sessions:
                raise self.V("C_CloseSession succeeded on dead handle %d" % sh)
            self.on_session_closed(sh)
        return rv

    def op_closeall(self, tok):
        tok = tok % len(self.tokens)
        rv = self.w.C_CloseAllSessions(slot=self.slots[tok])["rv"]
        if rv == K.CKR_OK:
            self.on_all_closed(tok)
        return rv

    def op_login(self, si, who):
        sh = self.live_sess(si)
        st_ = self.state(sh)
        tok = st_[0] if st_ else 0
        pin = self.tokens[tok].user_pin if who == "USER" else self.tokens[tok].so_pin
        rv = self.w.C_Login(s=sh, user=K.CKU_USER if who == "USER" else K.CKU_SO, pin=hx(pin))["rv"]
        if rv == K.CKR_OK and st_:
            self.login[tok] = "user" if who == "USER" else "so"
        return rv

    def op_logout(self, si):
        sh = self.live_sess(si)
        st_ = self.state(sh)
        rv = self.w.C_Logout(s=sh)["rv"]
        if rv == K.CKR_OK and st_:
            self.on_logout(st_[0])
        return rv

    def _marker(self):
        oid = self.next_oid
        self.next_oid += 1
        return oid, b"m%d" % oid

    def _extras(self, cls, extras):
        out = []
        allowed = optional_attrs(cls)
        for name, idx in extras:
            if name not in allowed or name == "CKA_LABEL":
                continue
            if any(K.C[name] == e[0] for e in out):
                continue
            out.append(A(name, value_of(name, idx)))
        return out

    def _register(self, sh, h, oid, tok, token, private, cls, label, how):
        o = Obj(oid, tok, token, private, None if token else sh, cls, label)
        o.how = how
        self.objs[oid] = o
        self.new_handle(h, oid, how)
        o.attrs = self.readback(sh, h)
        # effect-based facts
        tv = o.attrs.get(K.CKA_TOKEN)
        pv = o.attrs.get(K.CKA_PRIVATE)
        if tv is not None:
            o.token = bool(tv)
            if not o.token:
                o.owner = sh
        if pv is not None:
            o.private = bool(pv)
        return o

    def _judge_creation(self, sh, o, what):
        """C01 creation clauses, effect based."""
        if not self.judge_access:
            return
        st_ = self.state(sh)
        if st_ is None:
            raise self.V("%s succeeded through a dead session" % what)
        tok, rw, login = st_
        if o.private and login != "user":
            raise self.V("%s created a private object in a session where the user is not logged in (login=%s)" % (what, login))
        if o.token and not rw:
            raise self.V("%s created a token object through a read-only session" % what)

    def op_create(self, si, cls, variant, token, private, extras, bad):
        sh = self.live_sess(si)
        st_ = self.state(sh)
        oid, label = self._marker()
        tpl = T(*base_template(cls, variant))
        if token is not None:
            tpl.append(A("CKA_TOKEN", token))
        if private is not None:
            tpl.append(A("CKA_PRIVATE", private))
        tpl.append(A("CKA_LABEL", label))
        tpl += self._extras(cls, extras)
        if bad:
            tpl = corrupt(tpl, cls, bad[0], bad[1], "create")
        r = self.w.C_CreateObject(s=sh, tpl=tpl)
        rv = r["rv"]
        if rv == K.CKR_OK:
            if st_ is None:
                raise self.V("C_CreateObject succeeded through dead session %d" % sh)
            eff_private = private if private is not None else default_private(cls)
            o = self._register(sh, r["h"], oid, st_[0], bool(token), eff_private, cls, label, "C_CreateObject")
            self._judge_creation(sh, o, "C_CreateObject")
            # supplied values must be what is read back
            for e in tpl:
                if e[0] in o.attrs and e[1] in ("bool", "ulong", "bytes", "mechs", "tpl") and e[0] not in (0x0000F123, 0x0000F124):
                    want = e[2]
                    have = o.attrs[e[0]]
                    if e[1] == "bool":
                        want = bool(want)
                    elif e[1] == "mechs":
                        want = sorted(set(want))
                    elif e[1] == "tpl":
                        want = sorted((x[0], bool(x[2]) if x[1] == "bool" else x[2]) for x in want)
                        have = sorted((x[0], x[1]) for x in have) if isinstance(have, list) else have
                    if have != want and not bad:
                        raise self.V("C_CreateObject: attribute %s read back as %r, supplied %r" % (K.name("CKA", e[0]), have, want))
        else:
            if r.get("h", 0) not in (0, None) and False:
                pass
            if bad:
                self.count("create_rejected_bad_template")
                if bad[0] % (len(tpl)) > 0:
                    self.labels.add("template_invalid_at_pos>0")
        return rv

    def op_copy(self, si, oi, token, private, extras, bad):
        sh = self.live_sess(si)
        st_ = self.state(sh)
        h, src_oid = self.objref(oi, tok=st_[0] if st_ else None)
        src = self.objs.get(src_oid) if src_oid is not None else None
        oid, label = self._marker()
        tpl = []
        if token is not None:
            tpl.append(A("CKA_TOKEN", token))
        if private is not None:
            tpl.append(A("CKA_PRIVATE", private))
        tpl.append(A("CKA_LABEL", label))
        if src is not None:
            tpl += self._extras(src.cls, [e for e in extras if e[0] in ("CKA_ID", "CKA_SUBJECT", "CKA_APPLICATION")])
        if bad:
            tpl = corrupt(tpl, src.cls if src else "data", bad[0], bad[1], "copy")
        r = self.w.C_CopyObject(s=sh, o=h, tpl=tpl)
        rv = r["rv"]
        src_live = src is not None and self.hmap.get(h) == src_oid
        if rv == K.CKR_OK:
            if not src_live:
                raise self.V("C_CopyObject succeeded on dead object handle %d" % h)
            if self.judge_access and not self.can_read(sh, src):
                raise self.V("C_CopyObject copied private object %d through a session that may not read it" % src_oid)
            eff_token = token if token is not None else src.token
            eff_private = private if private is not None else src.private
            o = self._register(sh, r["h"], oid, st_[0], eff_token, eff_private, src.cls, label, "C_CopyObject")
            self._judge_creation(sh, o, "C_CopyObject")
            if src.private and not o.private:
                raise self.V("C_CopyObject turned private object %d into a public copy" % src_oid)
            if self.judge_access and not src.flag("CKA_COPYABLE"):
                raise self.V("C_CopyObject copied an object whose CKA_COPYABLE is false")
        else:
            if r.get("h", 0) != 0:
                raise self.V("failed C_CopyObject (%s) stored handle %d in *phNewObject" % (K.rvname(rv), r["h"]))
            if bad and src_live and self.can_read(sh, src):
                self.count("copy_rejected_bad_template")
        return rv

    SETTABLE = {"data": ["CKA_APPLICATION", "CKA_VALUE", "CKA_OBJECT_ID"], "cert": ["CKA_ID", "CKA_ISSUER", "CKA_SERIAL_NUMBER"],
                "public": ["CKA_ID", "CKA_SUBJECT", "CKA_ENCRYPT", "CKA_VERIFY", "CKA_WRAP", "CKA_DERIVE", "CKA_START_DATE"],
                "private": ["CKA_ID", "CKA_SUBJECT", "CKA_DECRYPT", "CKA_SIGN", "CKA_UNWRAP", "CKA_DERIVE", "CKA_END_DATE", "CKA_START_DATE", "CKA_WRAP_WITH_TRUSTED"],
                "secret": ["CKA_ID", "CKA_ENCRYPT", "CKA_DECRYPT", "CKA_SIGN", "CKA_VERIFY", "CKA_WRAP", "CKA_UNWRAP", "CKA_DERIVE", "CKA_START_DATE", "CKA_END_DATE",
                           "CKA_WRAP_WITH_TRUSTED"],
                "domain": []}

    def op_set(self, si, oi, changes, bad):
        sh = self.live_sess(si)
        st_ = self.state(sh)
        h, oid = self.objref(oi, tok=st_[0] if st_ else None, live=True)
        o = self.objs.get(oid) if oid is not None else None
        tpl = []
        if o is not None:
            ok = self.SETTABLE[class_kind(o.cls)]
            for name, idx in changes:
                if name in ok and not any(K.C[name] == e[0] for e in tpl):
                    tpl.append(A(name, value_of(name, idx)))
        if not tpl:
            tpl = [A("CKA_MODIFIABLE", True)] if o is None else [A("CKA_LABEL", o.label)]
        if bad:
            tpl = corrupt(tpl, o.cls if o else "data", bad[0], bad[1], "set")
        rv = self.w.C_SetAttributeValue(s=sh, o=h, tpl=tpl)["rv"]
        live = o is not None and self.hmap.get(h) == oid
        if rv == K.CKR_OK:
            if not live:
                raise self.V("C_SetAttributeValue succeeded on dead object handle %d" % h)
            if self.judge_access:
                if not self.can_write(sh, o.token, o.private):
                    raise self.V("C_SetAttributeValue changed object %d (token=%s private=%s) through session state %s" % (oid, o.token, o.private, st_))
                if not o.flag("CKA_MODIFIABLE"):
                    raise self.V("C_SetAttributeValue changed an object whose CKA_MODIFIABLE is false")
            o.attrs = self.readback(sh, h)
            self.count("set_ok")
        else:
            if bad and live and self.can_write(sh, o.token, o.private) and len(tpl) > 1:
                self.count("set_rejected_bad_template")
                if bad[0] % len(tpl) > 0:
                    self.labels.add("template_invalid_at_pos>0")
        return rv

    def op_destroy(self, si, oi):
        sh = self.live_sess(si)
        st_ = self.state(sh)
        h, oid = self.objref(oi, tok=st_[0] if st_ else None)
        o = self.objs.get(oid) if oid is not None else None
        rv = self.w.C_DestroyObject(s=sh, o=h)["rv"]
        live = o is not None and self.hmap.get(h) == oid
        if rv == K.CKR_OK:
            if not live:
                raise self.V("C_DestroyObject succeeded on dead object handle %d" % h)
            if self.judge_access:
                if not self.can_write(sh, o.token, o.private):
                    raise self.V("C_DestroyObject destroyed object %d (token=%s private=%s) through session state %s" % (oid, o.token, o.private, st_))
                if not o.flag("CKA_DESTROYABLE"):
                    raise self.V("C_DestroyObject destroyed an object whose CKA_DESTROYABLE is false")
            self.kill_obj(o)
        return rv

    def op_read(self, si, oi, names):
        sh = self.live_sess(si)
        st_ = self.state(sh)
        h, oid = self.objref(oi, tok=st_[0] if st_ else None)
        o = self.objs.get(oid) if oid is not None else None
        attrs = [[K.C[n], 512] for n in names] or [[K.CKA_LABEL, 64]]
        r = self.w.C_GetAttributeValue(s=sh, o=h, attrs=attrs)
        live = o is not None and self.hmap.get(h) == oid
        if self.judge_access and live and not self.can_read(sh, o):
            self.nontrivial = True
            self.count("private_read_denied_probe")
            if r["rv"] == K.CKR_OK:
                raise self.V("C_GetAttributeValue succeeded on private object %d in login state %s" % (oid, st_))
            for e in r["attrs"]:
                if "data" in e or e.get("tail") is False or e.get("canary") is False:
                    raise self.V("C_GetAttributeValue on a private object without user login wrote into the caller's buffer: %s" % e)
                if e["len"] not in (512, K.UNAVAILABLE):
                    raise self.V("C_GetAttributeValue on a private object without user login reported length %d for %s" % (e["len"], K.name("CKA", e["type"])))
        if not live and r["rv"] == K.CKR_OK:
            raise self.V("C_GetAttributeValue succeeded on dead object handle %d" % h)
        return r["rv"]

    def op_size(self, si, oi):
        sh = self.live_sess(si)
        st_ = self.state(sh)
        h, oid = self.objref(oi, tok=st_[0] if st_ else None)
        r = self.w.C_GetObjectSize(s=sh, o=h)
        if r["rv"] == K.CKR_OK and r["size"] != K.UNAVAILABLE and oid is not None and self.objs[oid].private and not self.can_read(sh, self.objs[oid]):
            raise self.V("C_GetObjectSize revealed the size of a private object without user login")
        return r["rv"]

    def op_find(self, si, spec, batches):
        """spec: list of [object index, attribute name] (value taken from that object's model attributes) or
        ['lit', name, idx].  The result (over all batches) must equal the reference matcher's."""
        sh = self.live_sess(si)
        st_ = self.state(sh)
        tpl = []
        desc = []
        for e in spec:
            if e[0] == "lit":
                name, idx = e[1], e[2]
                try:
                    entry = A(name, value_of(name, idx))
                except KeyError:
                    continue
            else:
                _, oid = self.objref(e[0], tok=st_[0] if st_ else None)
                if oid is None:
                    continue
                t = K.C[e[1]]
                v = self.objs[oid].attrs.get(t)
                if v is None or kind_of(t) in ("tpl", "mechs") or (isinstance(v, str) and v.startswith(("raw:", "ERR:"))):
                    continue
                entry = [t, kind_of(t), v]
            if len(e) > 3 and e[3] == "trunc" and entry[1] == "bytes" and len(entry[2]) >= 2:
                entry = [entry[0], "bytes", entry[2][:-2]]
            if len(e) > 3 and e[3] == "ext" and entry[1] == "bytes":
                entry = [entry[0], "bytes", entry[2] + "00"]
            tpl.append(entry)
        r = self.w.C_FindObjectsInit(s=sh, tpl=tpl)
        if r["rv"] != K.CKR_OK:
            if st_ is not None:
                self.count("find_init_failed")
            return r["rv"]
        got = []
        bi = 0
        guard = 0
        while True:
            n = batches[bi % len(batches)] if batches else 7
            n = max(1, n)
            bi += 1
            fr = self.w.C_FindObjects(s=sh, max=n)
            if fr["rv"] != K.CKR_OK:
                self.w.C_FindObjectsFinal(s=sh)
                raise self.V("C_FindObjects failed: %s" % K.rvname(fr["rv"]))
            if not fr["canary"] or fr["n"] > n:
                raise self.V("C_FindObjects returned %d handles for a buffer of %d" % (fr["n"], n))
            got += fr["h"]
            guard += 1
            if fr["n"] == 0 or guard > 500:
                break
        self.w.C_FindObjectsFinal(s=sh)

        def matches(o):
            for t, k, v in tpl:
                have = o.attrs.get(t)
                if k == "bool":
                    v = bool(v)
                if have is None or have != v:
                    return False
            return True
        want = {o.oid for o in self.visible(sh) if matches(o)}
        seen = []
        for h in got:
            oid = self.hmap.get(h)
            if oid is None:
                o = self.identify(sh, h)
                if o is None:
                    raise self.V("C_FindObjects returned handle %d of an object the model does not know" % h)
                if o.handle is not None and o.handle != h:
                    raise self.V("object %d has two valid handles (%d and %d)" % (o.oid, o.handle, h))
                self.new_handle(h, o.oid, "C_FindObjects")
                oid = o.oid
            seen.append(oid)
        if len(seen) != len(set(seen)):
            raise self.V("C_FindObjects returned an object more than once: %s (batches %s)" % (sorted(seen), batches))
        extra = set(seen) - want
        missing = want - set(seen)
        tdesc = [[K.name("CKA", t), k, v if not isinstance(v, str) or len(v) < 40 else v[:40] + ".."] for t, k, v in tpl]
        if extra:
            o = self.objs[sorted(extra)[0]]
            raise self.V("C_FindObjects(%s) returned object %d (%s alive=%s private=%s tok=%d) that must not be returned; login=%s" % (
                tdesc, o.oid, o.cls, o.alive, o.private, o.tok, st_))
        if missing:
            o = self.objs[sorted(missing)[0]]
            raise self.V("C_FindObjects(%s) did not return matching object %d (%s private=%s token=%s); batches %s" % (
                tdesc, o.oid, o.cls, o.private, o.token, batches[:6]))
        self.count("finds")
        nvis = len(self.visible(sh))
        if (len(tpl) >= 2 or any(k == "bytes" and self.objs[o_].private for (t, k, v) in tpl for o_ in want)) and 0 < len(want) < nvis:
            self.nontrivial = True
            self.count("finds_nontrivial")
        if len(set(batches[:bi])) > 1 and len(got) > 1:
            self.count("finds_multi_batch")
        return K.CKR_OK

    GEN = {"aes": ("CKM_AES_KEY_GEN", [("CKA_VALUE_LEN", 16)]), "aes32": ("CKM_AES_KEY_GEN", [("CKA_VALUE_LEN", 32)]),
           "des3": ("CKM_DES3_KEY_GEN", []), "generic": ("CKM_GENERIC_SECRET_KEY_GEN", [("CKA_VALUE_LEN", 24)])}

    def op_gen(self, si, kind, token, private, extras, bad):
        sh = self.live_sess(si)
        st_ = self.state(sh)
        oid, label = self._marker()
        mech, fixed = self.GEN[kind]
        cls = {"aes": "aes", "aes32": "aes", "des3": "des3", "generic": "generic"}[kind]
        tpl = T(*fixed)
        if token is not None:
            tpl.append(A("CKA_TOKEN", token))
        if private is not None:
            tpl.append(A("CKA_PRIVATE", private))
        tpl.append(A("CKA_LABEL", label))
        tpl += self._extras(cls, extras)
        if bad:
            tpl = corrupt(tpl, cls, bad[0], bad[1], "gen")
        r = self.w.C_GenerateKey(s=sh, mech={"m": K.C[mech]}, tpl=tpl)
        rv = r["rv"]
        if rv == K.CKR_OK:
            if st_ is None:
                raise self.V("C_GenerateKey succeeded through dead session")
            eff_private = private if private is not None else True
            o = self._register(sh, r["h"], oid, st_[0], bool(token), eff_private, cls, label, "C_GenerateKey")
            self._judge_creation(sh, o, "C_GenerateKey")
        elif bad:
            self.count("gen_rejected_bad_template")
        return rv

    def op_genpair(self, si, kind, token, private, bad_side, bad):
        sh = self.live_sess(si)
        st_ = self.state(sh)
        oid1, label1 = self._marker()
        oid2, label2 = self._marker()
        if kind == "ec":
            mech = "CKM_EC_KEY_PAIR_GEN"
            pub = T(("CKA_EC_PARAMS", "06082a8648ce3d030107"))
            cls = ("ec_pub", "ec_priv")
        else:
            mech = "CKM_EC_EDWARDS_KEY_PAIR_GEN"
            pub = T(("CKA_EC_PARAMS", "06032b6570"))
            cls = ("ed_pub", "ed_priv")
        prv = []
        for t_ in (pub, prv):
            if token is not None:
                t_.append(A("CKA_TOKEN", token))
        if private is not None:
            prv.append(A("CKA_PRIVATE", private))
        pub.append(A("CKA_LABEL", label1))
        prv.append(A("CKA_LABEL", label2))
        if bad:
            if bad_side:
                prv = corrupt(prv, cls[1], bad[0], bad[1], "gen")
            else:
                pub = corrupt(pub, cls[0], bad[0], bad[1], "gen")
        r = self.w.C_GenerateKeyPair(s=sh, mech={"m": K.C[mech]}, pub=pub, prv=prv)
        rv = r["rv"]
        if rv == K.CKR_OK:
            if st_ is None:
                raise self.V("C_GenerateKeyPair succeeded through dead session")
            o1 = self._register(sh, r["hpub"], oid1, st_[0], bool(token), False, cls[0], label1, "C_GenerateKeyPair(pub)")
            o2 = self._register(sh, r["hprv"], oid2, st_[0], bool(token), private if private is not None else True, cls[1], label2, "C_GenerateKeyPair(prv)")
            self._judge_creation(sh, o1, "C_GenerateKeyPair")
            self._judge_creation(sh, o2, "C_GenerateKeyPair")
        elif bad:
            self.count("genpair_rejected_bad_template")
        return rv


    # -- unwrap / derive / PIN change / token re-initialisation (C06, C09) -------------------------------------------------
    def _helper_aes(self, sh, value=b"H" * 16):
        r = self.w.C_CreateObject(s=sh, tpl=T(("CKA_CLASS", "CKO_SECRET_KEY"), ("CKA_KEY_TYPE", "CKK_AES"), ("CKA_VALUE", value), ("CKA_PRIVATE", False),
                                               ("CKA_TOKEN", False), ("CKA_EXTRACTABLE", True), ("CKA_SENSITIVE", False), ("CKA_WRAP", True), ("CKA_UNWRAP", True),
                                               ("CKA_DERIVE", True), ("CKA_ENCRYPT", True), ("CKA_LABEL", b"helper")))
        return r["h"] if r["rv"] == K.CKR_OK else None

    def secret_value(self, oid, n=24):
        """a high-entropy-looking known value unique to object oid"""
        import hashlib
        return hashlib.sha256(b"verif-secret-%d-%d" % (oid, self.ctx.seed)).digest()[:n]

    def op_unwrap(self, si, kind, token, private, mal, bad):
        sh = self.live_sess(si)
        st_ = self.state(sh)
        if st_ is None:
            return None
        oid, label = self._marker()
        hk = self._helper_aes(sh)
        if hk is None:
            return None
        try:
            known = {}
            if kind.endswith("_priv"):
                # a private key of every type: each is stored by its own function of the library (RSA, DSA, DH, EC, EdDSA)
                bt = base_template(kind, oid)
                tw = self.w.C_CreateObject(s=sh, tpl=T(*bt) + T(("CKA_PRIVATE", False), ("CKA_TOKEN", False), ("CKA_EXTRACTABLE", True), ("CKA_SENSITIVE", False),
                                                             ("CKA_LABEL", b"twin")))
                tclass = T(*[(n, v) for n, v in bt if n in ("CKA_CLASS", "CKA_KEY_TYPE")])
                for n, v in bt:
                    if n in ("CKA_VALUE", "CKA_PRIVATE_EXPONENT", "CKA_PRIME_1", "CKA_PRIME_2", "CKA_EXPONENT_1", "CKA_EXPONENT_2", "CKA_COEFFICIENT"):
                        known[K.C[n]] = bytes.fromhex(v) if isinstance(v, str) else bytes(v)
            else:
                klen = {"aes": 16, "generic": 24, "des3": 24}[kind]
                val = self.secret_value(oid, klen)
                if kind == "des3":
                    val = bytes((b & 0xFE) | (1 if bin(b & 0xFE).count("1") % 2 == 0 else 0) for b in val)
                kt = {"aes": "CKK_AES", "generic": "CKK_GENERIC_SECRET", "des3": "CKK_DES3"}[kind]
                tw = self.w.C_CreateObject(s=sh, tpl=T(("CKA_CLASS", "CKO_SECRET_KEY"), ("CKA_KEY_TYPE", kt), ("CKA_VALUE", val), ("CKA_PRIVATE", False), ("CKA_TOKEN", False),
                                                       ("CKA_EXTRACTABLE", True), ("CKA_SENSITIVE", False), ("CKA_LABEL", b"twin")))
                tclass = T(("CKA_CLASS", "CKO_SECRET_KEY"), ("CKA_KEY_TYPE", kt))
                known = {K.CKA_VALUE: val}
            if tw["rv"] != K.CKR_OK:
                return None
            mech = {"m": K.CKM_AES_KEY_WRAP_PAD}
            wr = self.w.C_WrapKey(s=sh, mech=mech, wkey=hk, key=tw["h"], out=8192)
            self.w.C_DestroyObject(s=sh, o=tw["h"])
            if wr["rv"] != K.CKR_OK:
                return None
            blob = bytes.fromhex(wr["out"]["data"])
            if mal == "flip":
                blob = blob[:5] + bytes([blob[5] ^ 0x10]) + blob[6:]
            elif mal == "trunc":
                blob = blob[:-8]
            tpl = list(tclass)
            if mal in ("asprivate", "asprivate_ec") and kind.endswith("_priv"):
                mal = None
            if mal in ("asprivate", "asprivate_ec"):
                # the blob decrypts and passes the integrity check, but its content is not a PKCS#8 key of the requested type
                tpl = T(("CKA_CLASS", "CKO_PRIVATE_KEY"), ("CKA_KEY_TYPE", "CKK_RSA" if mal == "asprivate" else "CKK_EC"))
            if token is not None:
                tpl.append(A("CKA_TOKEN", token))
            if private is not None:
                tpl.append(A("CKA_PRIVATE", private))
            tpl.append(A("CKA_LABEL", label))
            tpl += T(("CKA_SENSITIVE", False), ("CKA_EXTRACTABLE", True))
            if bad:
                tpl = corrupt(tpl, kind, bad[0], bad[1], "unwrap")
            r = self.w.C_UnwrapKey(s=sh, mech=mech, key=hk, data=blob.hex(), tpl=tpl)
            rv = r["rv"]
            if rv == K.CKR_OK:
                if mal:
                    raise self.V("C_UnwrapKey accepted a %s blob" % mal)
                o = self._register(sh, r["h"], oid, st_[0], bool(token), private if private is not None else True, kind, label, "C_UnwrapKey")
                self._judge_creation(sh, o, "C_UnwrapKey")
                o.known = known
                self.count("unwrap_ok")
                if kind.endswith("_priv"):
                    self.count("unwrap_private_key_ok")
            else:
                if r.get("h", 0) != 0:
                    raise self.V("failed C_UnwrapKey (%s) stored handle %d" % (K.rvname(rv), r["h"]))
                if mal or bad:
                    self.count("unwrap_rejected_bad_input")
            return rv
        finally:
            self.w.C_DestroyObject(s=sh, o=hk)

    def op_derive(self, si, token, private, bad):
        sh = self.live_sess(si)
        st_ = self.state(sh)
        if st_ is None:
            return None
        oid, label = self._marker()
        hk = self._helper_aes(sh, self.secret_value(oid, 16))
        if hk is None:
            return None
        try:
            # four shapes, chosen by the object number: encryption of 32 bytes / concatenation of 16 + 8 bytes, asked for a length the
            # mechanism yields or for MORE than it yields (a valid template that fails late, after the object exists)
            shape = oid % 4
            want = (32, 48, 64, 20)[shape]
            tpl = T(("CKA_CLASS", "CKO_SECRET_KEY"), ("CKA_KEY_TYPE", "CKK_GENERIC_SECRET"), ("CKA_VALUE_LEN", want))
            if token is not None:
                tpl.append(A("CKA_TOKEN", token))
            if private is not None:
                tpl.append(A("CKA_PRIVATE", private))
            tpl.append(A("CKA_LABEL", label))
            tpl += T(("CKA_SENSITIVE", False), ("CKA_EXTRACTABLE", True))
            if bad:
                tpl = corrupt(tpl, "generic", bad[0], bad[1], "derive")
            data = self.secret_value(oid + 100000, 32)
            if shape < 2:
                mech = {"m": K.CKM_AES_ECB_ENCRYPT_DATA, "p": {"strdata": data.hex()}}
            else:
                mech = {"m": K.CKM_CONCATENATE_BASE_AND_DATA, "p": {"strdata": data[:8].hex()}}
            r = self.w.C_DeriveKey(s=sh, mech=mech, key=hk, tpl=tpl)
            rv = r["rv"]
            if rv == K.CKR_OK and shape in (1, 2) and not bad:
                raise self.V("C_DeriveKey(%s) returned CKR_OK for a %d-byte key although the mechanism yields only %d bytes" % (
                    K.name("CKM", mech["m"]), want, 32 if shape == 1 else 24))
            if rv != K.CKR_OK and shape in (1, 2):
                self.count("derive_too_long_rejected")
            if rv == K.CKR_OK:
                o = self._register(sh, r["h"], oid, st_[0], bool(token), private if private is not None else True, "generic", label, "C_DeriveKey")
                self._judge_creation(sh, o, "C_DeriveKey")
                self.count("derive_ok")
            else:
                if r.get("h", 0) != 0:
                    raise self.V("failed C_DeriveKey (%s) stored handle %d" % (K.rvname(rv), r["h"]))
                if bad:
                    self.count("derive_rejected_bad_template")
            return rv
        finally:
            self.w.C_DestroyObject(s=sh, o=hk)

    def op_setpin(self, si, n):
        """the logged-in user changes the PIN (the master key gets re-wrapped)"""
        sh = self.live_sess(si)
        st_ = self.state(sh)
        if st_ is None or st_[2] != "user" or not st_[1]:
            return None
        tok = st_[0]
        new = b"changed-pin-%d-%d" % (n, self.step)
        rv = self.w.C_SetPIN(s=sh, old=hx(self.tokens[tok].user_pin), new=hx(new))["rv"]
        if rv == K.CKR_OK:
            self.tokens[tok].user_pin = new
            self.count("pin_changes")
        return rv

    def op_inittoken(self, tok):
        """re-initialise token `tok`: all its objects and the user PIN are gone; the SO sets a new user PIN"""
        tok = tok % len(self.tokens)
        self.w.C_CloseAllSessions(slot=self.slots[tok])
        self.on_all_closed(tok)
        rv = self.w.C_InitToken(slot=self.slots[tok], pin=hx(self.tokens[tok].so_pin), label=hx((self.tokens[tok].label.encode() + b" " * 32)[:32]))["rv"]
        if rv != K.CKR_OK:
            raise self.V("C_InitToken with the correct SO PIN and no session failed: %s" % K.rvname(rv))
        for o in self.objs.values():
            if o.tok == tok and o.alive:
                self.kill_obj(o)
        r = self.w.C_OpenSession(slot=self.slots[tok], flags=K.CKF_SERIAL_SESSION | K.CKF_RW_SESSION)
        sh = r["h"]
        self.all_handles.add(sh)
        new = b"reinit-pin-%d" % self.step
        if self.w.C_Login(s=sh, user=K.CKU_SO, pin=hx(self.tokens[tok].so_pin))["rv"] != 0 or self.w.C_InitPIN(s=sh, pin=hx(new))["rv"] != 0:
            raise self.V("SO login / C_InitPIN after re-initialisation failed")
        self.tokens[tok].user_pin = new
        self.w.C_Logout(s=sh)
        self.w.C_CloseSession(s=sh)
        self.ever_sessions.append(sh)
        self.count("token_reinits")
        return rv

    # -- persistence (C05 / C06 / C09): restarts, re-initialisation, independent decode ---------------------------------
    def _all_gone(self):
        """model effect of C_Finalize or of the process ending"""
        for tok in range(len(self.tokens)):
            self.on_all_closed(tok)
        # handle values are only unique while the library stays initialised
        self.all_handles = set()
        self.issued = []
        self.ever_sessions = []

    def op_restart(self):
        self._all_gone()
        r = self.stage.restart()
        self.w = self.stage.w
        if r["rv"] != K.CKR_OK:
            raise self.V("C_Initialize in a new process failed: %s" % K.rvname(r["rv"]))
        self.count("restarts")
        self.verify_persistence("after restart")
        return None

    def op_reinit(self):
        self._all_gone()
        r1, r2 = self.stage.reinit()
        if r1["rv"] != K.CKR_OK or r2["rv"] != K.CKR_OK:
            raise self.V("C_Finalize / C_Initialize failed: %s %s" % (K.rvname(r1["rv"]), K.rvname(r2["rv"])))
        self.count("reinits")
        self.verify_persistence("after C_Finalize/C_Initialize")
        return None

    def verify_persistence(self, why):
        """with no session open: every token object of the model is there with identical values (user view), nothing else;
        then the token directory is decoded independently and compared with the same model."""
        for tok in range(len(self.tokens)):
            r = self.w.C_OpenSession(slot=self.slots[tok], flags=K.CKF_SERIAL_SESSION | K.CKF_RW_SESSION)
            if r["rv"] != K.CKR_OK:
                raise self.V("%s: C_OpenSession failed: %s" % (why, K.rvname(r["rv"])))
            sh = r["h"]
            if sh in self.all_handles:
                raise self.V("%s: session handle %d issued twice" % (why, sh))
            self.all_handles.add(sh)
            self.sessions[sh] = (tok, True)
            self.ever_sessions.append(sh)
            rv = self.w.C_Login(s=sh, user=K.CKU_USER, pin=hx(self.tokens[tok].user_pin))["rv"]
            if rv != K.CKR_OK:
                raise self.V("%s: user login failed: %s" % (why, K.rvname(rv)))
            self.login[tok] = "user"
            self.check_view(sh, why)
            self.w.C_Logout(s=sh)
            self.on_logout(tok)
            self.w.C_CloseSession(s=sh)
            self.on_session_closed(sh)
            self.count("persistence_views_checked")
        if self.ref is not None and self.stage is not None:
            self.verify_directory(why)

    @staticmethod
    def _norm_model(t, v):
        if kind_of(t) == "tpl" and isinstance(v, list):
            return sorted((tt, vv) for tt, vv in v)
        return v

    def verify_directory(self, why):
        from .store import FormatError, token_dirs
        try:
            dirs = token_dirs(self.stage.sb.tokendir, self.ref)
        except FormatError as e:
            raise self.V("%s: the token directory cannot be decoded: %s" % (why, e))
        by_label = {}
        for td in dirs:
            if td.errors:
                raise self.V("%s: undecodable object file(s): %s" % (why, td.errors))
            lab = td.label()
            toks = [i for i, t in enumerate(self.tokens) if t.label == lab]
            if not toks:
                continue
            tok = toks[0]
            key = td.master_key(self.tokens[tok].user_pin)
            key_so = td.master_key(self.tokens[tok].so_pin, so=True)
            if key is None or key_so is None or key != key_so:
                raise self.V("%s: the PIN blobs of token %s do not both unwrap to the same 32-byte key (user %s, so %s)" % (
                    why, lab, key is not None, key_so is not None))
            objs = td.plain_objects(key)
            want = {o.label: o for o in self.objs.values() if o.alive and o.token and o.tok == tok}
            seen = set()
            for fn, attrs in objs.items():
                labhex = attrs.get(K.CKA_LABEL)
                lab_b = bytes.fromhex(labhex) if isinstance(labhex, str) and not labhex.startswith("UNDEC") else None
                o = want.get(lab_b)
                if o is None:
                    raise self.V("%s: object file %s (label %r) is not an object the model knows as alive: %s" % (
                        why, fn, lab_b, {K.name("CKA", t): v for t, v in list(attrs.items())[:8]}))
                seen.add(lab_b)
                for t, dv in attrs.items():
                    if isinstance(dv, str) and dv.startswith("UNDECRYPTABLE"):
                        raise self.V("%s: attribute %s of private object %d (%s, stored by %s) is not a valid ciphertext under the token's master key: %s" % (
                            why, K.name("CKA", t), o.oid, o.cls, o.how, dv))
                for t, mv in o.attrs.items():
                    if t not in attrs:
                        raise self.V("%s: attribute %s of object %d (%s) is returned by the API but is not in its file" % (why, K.name("CKA", t), o.oid, o.cls))
                    dv = attrs[t]
                    if isinstance(dv, list) and kind_of(t) == "tpl":
                        # a mechanism list nested in a template is kept by the store as a byte string of native 8-byte integers
                        import struct as _st
                        dv = [(a_, sorted(_st.unpack("<%dQ" % (len(bytes.fromhex(b_)) // 8), bytes.fromhex(b_))) if (a_ == K.CKA_ALLOWED_MECHANISMS and isinstance(b_, str)) else b_)
                              for a_, b_ in dv]
                        # ... and a flag outside the store's fixed boolean list as a one-byte string
                        dv = [(a_, (b_ != "00") if (kind_of(a_) == "bool" and isinstance(b_, str)) else b_) for a_, b_ in dv]
                    nd = sorted((a_, b_) for a_, b_ in dv) if (isinstance(dv, list) and kind_of(t) == "tpl") else dv
                    if self._norm_model(t, mv) != nd:
                        raise self.V("%s: attribute %s of object %d (%s): file decodes to %r, the API returned %r" % (
                            why, K.name("CKA", t), o.oid, o.cls, dv if not isinstance(dv, str) else dv[:80], mv if not isinstance(mv, str) else mv[:80]))
            missing = set(want) - seen
            if missing:
                raise self.V("%s: token object(s) %s have no file in the token directory" % (why, sorted(missing)))
            self.count("directories_decoded")

    # -- C01: use of an object handle through every entry point that accepts one --------------------------------
    USE_FNS = ["C_GetAttributeValue", "C_SetAttributeValue", "C_SetAttributeValue:flag", "C_CopyObject", "C_DestroyObject", "C_GetObjectSize",
               "C_EncryptInit", "C_DecryptInit", "C_SignInit", "C_VerifyInit", "C_SignRecoverInit", "C_VerifyRecoverInit",
               "C_DigestKey", "C_WrapKey:wrapping", "C_WrapKey:target", "C_UnwrapKey", "C_DeriveKey", "C_FindObjects"]

    def mech_for(self, cls, fn):
        """a mechanism + parameters that fits class `cls` for entry point `fn` (so that only the access rule can refuse)"""
        iv16 = "00" * 16
        if cls == "aes":
            return {"C_EncryptInit": {"m": K.CKM_AES_CBC_PAD, "p": {"raw": iv16}}, "C_DecryptInit": {"m": K.CKM_AES_CBC_PAD, "p": {"raw": iv16}},
                    "C_SignInit": {"m": K.CKM_AES_CMAC}, "C_VerifyInit": {"m": K.CKM_AES_CMAC},
                    "C_WrapKey:wrapping": {"m": K.CKM_AES_KEY_WRAP_PAD}, "C_UnwrapKey": {"m": K.CKM_AES_KEY_WRAP_PAD},
                    "C_DeriveKey": {"m": K.CKM_AES_ECB_ENCRYPT_DATA, "p": {"strdata": "11" * 16}}}.get(fn)
        if cls in ("des3", "des2", "des"):
            return {"C_EncryptInit": {"m": K.CKM_DES3_CBC_PAD, "p": {"raw": "00" * 8}}, "C_DecryptInit": {"m": K.CKM_DES3_CBC_PAD, "p": {"raw": "00" * 8}},
                    "C_SignInit": {"m": K.CKM_DES3_CMAC}, "C_VerifyInit": {"m": K.CKM_DES3_CMAC},
                    "C_DeriveKey": {"m": K.CKM_DES3_ECB_ENCRYPT_DATA, "p": {"strdata": "11" * 16}}}.get(fn)
        if cls == "generic":
            return {"C_SignInit": {"m": K.CKM_SHA256_HMAC}, "C_VerifyInit": {"m": K.CKM_SHA256_HMAC}}.get(fn)
        if cls == "rsa_priv":
            return {"C_DecryptInit": {"m": K.CKM_RSA_PKCS}, "C_SignInit": {"m": K.CKM_SHA256_RSA_PKCS}, "C_UnwrapKey": {"m": K.CKM_RSA_PKCS}}.get(fn)
        if cls == "rsa_pub":
            return {"C_EncryptInit": {"m": K.CKM_RSA_PKCS}, "C_VerifyInit": {"m": K.CKM_SHA256_RSA_PKCS}, "C_WrapKey:wrapping": {"m": K.CKM_RSA_PKCS}}.get(fn)
        if cls == "ec_priv":
            return {"C_SignInit": {"m": K.CKM_ECDSA}, "C_DeriveKey": {"m": K.CKM_ECDH1_DERIVE, "p": {"ecdh": {"kdf": K.CKD_NULL, "pub": "04" + "11" * 64}}}}.get(fn)
        if cls == "ec_pub":
            return {"C_VerifyInit": {"m": K.CKM_ECDSA}}.get(fn)
        if cls == "ed_priv":
            return {"C_SignInit": {"m": K.CKM_EDDSA}}.get(fn)
        if cls == "ed_pub":
            return {"C_VerifyInit": {"m": K.CKM_EDDSA}}.get(fn)
        if cls == "dsa_priv":
            return {"C_SignInit": {"m": K.CKM_DSA_SHA1}}.get(fn)
        if cls == "dsa_pub":
            return {"C_VerifyInit": {"m": K.CKM_DSA_SHA1}}.get(fn)
        if cls == "dh_priv":
            return {"C_DeriveKey": {"m": K.CKM_DH_PKCS_DERIVE, "p": {"raw": "02" * 128}}}.get(fn)
        return None

    def helper_key(self, sh, token):
        """a PUBLIC session AES key usable as the innocent second key of wrap calls, created through `sh`"""
        r = self.w.C_CreateObject(s=sh, tpl=T(("CKA_CLASS", "CKO_SECRET_KEY"), ("CKA_KEY_TYPE", "CKK_AES"), ("CKA_VALUE", b"K" * 16),
                                               ("CKA_PRIVATE", False), ("CKA_TOKEN", False), ("CKA_EXTRACTABLE", True), ("CKA_WRAP", True),
                                               ("CKA_UNWRAP", True), ("CKA_LABEL", b"helper")))
        return r["h"] if r["rv"] == K.CKR_OK else None

    def use(self, sh, h, cls, fn, label=b"probe"):
        """call entry point `fn` with object handle `h` through session `sh`.
        -> (rv, evidence of output: None or a description); objects created by a successful call are recorded in
        self.created = (handle, class) for the caller to register"""
        w = self.w
        leak = None
        self.created = None
        if fn == "C_GetAttributeValue":
            r = w.C_GetAttributeValue(s=sh, o=h, attrs=[[K.CKA_CLASS, 8], [K.CKA_TOKEN, 1], [K.CKA_LABEL, 64], [K.CKA_VALUE, 512], [K.CKA_ID, 64]])
            for e in r["attrs"]:
                if "data" in e or e.get("tail") is False:
                    leak = "attribute %s returned (%s)" % (K.name("CKA", e["type"]), e.get("data", e.get("dirty")))
                elif e["len"] not in (K.UNAVAILABLE, 64, 8, 512, 1):
                    leak = "length %d of attribute %s revealed" % (e["len"], K.name("CKA", e["type"]))
            return r["rv"], leak
        if fn == "C_SetAttributeValue":
            return w.C_SetAttributeValue(s=sh, o=h, tpl=T(("CKA_ID", b"changed")))["rv"], None
        if fn == "C_SetAttributeValue:flag":
            if class_kind(cls) not in ("secret", "public", "private"):
                return None, None
            cur = None
            return w.C_SetAttributeValue(s=sh, o=h, tpl=T(("CKA_DERIVE", False)))["rv"], None
        if fn == "C_CopyObject":
            r = w.C_CopyObject(s=sh, o=h, tpl=T(("CKA_TOKEN", False), ("CKA_LABEL", label)))
            if r["rv"] == K.CKR_OK:
                self.created = (r["h"], cls)
            return r["rv"], ("handle %d returned" % r["h"]) if r["h"] else None
        if fn == "C_DestroyObject":
            return w.C_DestroyObject(s=sh, o=h)["rv"], None
        if fn == "C_GetObjectSize":
            r = w.C_GetObjectSize(s=sh, o=h)
            return (K.CKR_OK if (r["rv"] == K.CKR_OK and r["size"] != K.UNAVAILABLE) else K.CKR_GENERAL_ERROR), \
                ("size %d" % r["size"]) if (r["rv"] == K.CKR_OK and r["size"] != K.UNAVAILABLE) else None
        if fn in ("C_EncryptInit", "C_DecryptInit", "C_SignInit", "C_VerifyInit", "C_SignRecoverInit", "C_VerifyRecoverInit"):
            base = fn.replace("Recover", "")
            m = self.mech_for(cls, base)
            if m is None:
                return None, None
            rv = w.call(fn, s=sh, mech=m, key=h)["rv"]
            if rv == K.CKR_OK:
                # terminate the operation with the single-part call (works for every mechanism) so the session stays usable
                one = {"C_EncryptInit": "C_Encrypt", "C_DecryptInit": "C_Decrypt", "C_SignInit": "C_Sign"}.get(fn)
                if one:
                    r2 = w.call(one, s=sh, data="31" * 32, out=4096)
                    if r2["rv"] == K.CKR_OK and r2["out"].get("data") is not None and fn in ("C_SignInit", "C_DecryptInit"):
                        leak = "output produced by %s" % one
                    if r2["rv"] == K.CKR_BUFFER_TOO_SMALL:
                        w.call(one, s=sh, data="31" * 32, out=70000)
                else:
                    w.C_Verify(s=sh, data="31" * 32, sig="32" * 64)
            return rv, leak
        if fn == "C_DigestKey":
            if class_kind(cls) != "secret":
                return None, None
            rv0 = w.C_DigestInit(s=sh, mech={"m": K.CKM_SHA256})["rv"]
            if rv0 != K.CKR_OK:
                return None, None
            rv = w.C_DigestKey(s=sh, key=h)["rv"]
            r2 = w.C_DigestFinal(s=sh, out=64)
            if rv == K.CKR_OK and r2["rv"] == K.CKR_OK:
                leak = "digest of the key value returned"
            return rv, leak
        if fn in ("C_WrapKey:wrapping", "C_WrapKey:target", "C_UnwrapKey"):
            hk = self.helper_key(sh, False)
            if hk is None:
                return None, None
            try:
                if fn == "C_WrapKey:wrapping":
                    m = self.mech_for(cls, fn)
                    if m is None:
                        return None, None
                    r = w.C_WrapKey(s=sh, mech=m, wkey=h, key=hk, out=1024)
                    return r["rv"], "wrapped blob returned" if r["out"].get("data") else None
                if fn == "C_WrapKey:target":
                    if class_kind(cls) not in ("secret", "private"):
                        return None, None
                    r = w.C_WrapKey(s=sh, mech={"m": K.CKM_AES_KEY_WRAP_PAD}, wkey=hk, key=h, out=4096)
                    return r["rv"], "wrapped key material returned" if r["out"].get("data") else None
                m = self.mech_for(cls, "C_UnwrapKey")
                if m is None:
                    return None, None
                blob = "aa" * (128 if cls == "rsa_priv" else 24)
                r = w.C_UnwrapKey(s=sh, mech=m, key=h, data=blob, tpl=T(("CKA_CLASS", "CKO_SECRET_KEY"), ("CKA_KEY_TYPE", "CKK_AES"),
                                                                       ("CKA_TOKEN", False), ("CKA_PRIVATE", False), ("CKA_LABEL", label)))
                if r["rv"] == K.CKR_OK:
                    self.created = (r["h"], "aes")
                return r["rv"], ("handle %d returned" % r["h"]) if r["h"] else None
            finally:
                w.C_DestroyObject(s=sh, o=hk)
        if fn == "C_DeriveKey":
            m = self.mech_for(cls, fn)
            if m is None:
                return None, None
            r = w.C_DeriveKey(s=sh, mech=m, key=h, tpl=T(("CKA_CLASS", "CKO_SECRET_KEY"), ("CKA_KEY_TYPE", "CKK_GENERIC_SECRET"), ("CKA_VALUE_LEN", 16),
                                                           ("CKA_TOKEN", False), ("CKA_PRIVATE", False), ("CKA_LABEL", label)))
            if r["rv"] == K.CKR_OK:
                self.created = (r["h"], "generic")
            return r["rv"], ("handle %d returned" % r["h"]) if r["h"] else None
        return None, None

    def op_use(self, si, oi, fi, xtok):
        """use an object (live or stale handle) through entry point USE_FNS[fi]; with xtok the session is one of the
        OTHER token (the access decision must then follow that session's login state)."""
        fn = self.USE_FNS[fi % len(self.USE_FNS)]
        if fn == "C_FindObjects":
            return None
        live = [h for h in self.ever_sessions if h in self.sessions]
        if not live:
            return None
        sh = live[si % len(live)]
        tok = self.sessions[sh][0]
        otok = (tok + 1) % len(self.tokens) if xtok else tok
        h, oid = self.objref(oi, tok=otok)
        if oid is None:
            return None
        o = self.objs[oid]
        alive = self.hmap.get(h) == oid
        login = self.login[tok]
        must_fail = (o.private and login != "user") or not alive or not o.alive
        if xtok and not must_fail and fn in ("C_SetAttributeValue", "C_SetAttributeValue:flag", "C_DestroyObject", "C_CopyObject"):
            # a permitted cross-token modification is outside the stated properties (no slot check in the library)
            return None
        noid, label = self._marker()
        rv, leak = self.use(sh, h, o.cls, fn, label)
        if rv is None:
            return None
        self.count("use_calls")
        if self.created is not None and not (must_fail and rv == K.CKR_OK):
            nh, ncls = self.created
            no = self._register(sh, nh, noid, tok, False, False, ncls, label, fn)
            self._judge_creation(sh, no, fn)
        if xtok and alive and o.private and login != "user":
            self.count("xtok_private_probe")
            self.nontrivial = True
        if not alive and o.private:
            self.count("stale_private_handle_probe")
            self.nontrivial = True
        if must_fail and (rv == K.CKR_OK or leak):
            raise self.V("%s through session %d (token %d, login=%s) on %s handle %d of %s object %d (%s, token %d) -> %s%s" % (
                fn, sh, tok, login, "live" if alive else "dead", h, "private" if o.private else "public", oid, o.cls, o.tok,
                K.rvname(rv), "; " + leak if leak else ""))
        # model update for calls that legitimately changed something
        if rv == K.CKR_OK and alive:
            if fn == "C_DestroyObject":
                self.kill_obj(o)
            elif fn.startswith("C_SetAttributeValue"):
                o.attrs = self.readback(sh, h)
        return rv


# ---------------------------------------------------------------------------------------------------
# generators
def extras_st(max_size=3):
    names = ["CKA_ID", "CKA_APPLICATION", "CKA_VALUE", "CKA_SUBJECT", "CKA_ISSUER", "CKA_SERIAL_NUMBER", "CKA_ENCRYPT",
             "CKA_DECRYPT", "CKA_SIGN", "CKA_VERIFY", "CKA_WRAP", "CKA_UNWRAP", "CKA_DERIVE", "CKA_SENSITIVE",
             "CKA_EXTRACTABLE", "CKA_MODIFIABLE", "CKA_COPYABLE", "CKA_DESTROYABLE", "CKA_OBJECT_ID", "CKA_WRAP_WITH_TRUSTED",
             "CKA_ALLOWED_MECHANISMS", "CKA_WRAP_TEMPLATE", "CKA_UNWRAP_TEMPLATE", "CKA_START_DATE", "CKA_END_DATE"]
    rich = ["CKA_ALLOWED_MECHANISMS", "CKA_WRAP_TEMPLATE", "CKA_UNWRAP_TEMPLATE", "CKA_START_DATE", "CKA_END_DATE", "CKA_VALUE", "CKA_ID"]
    name = st.one_of(st.sampled_from(names), st.sampled_from(rich))     # the non-default attribute kinds get half the weight
    return st.lists(st.tuples(name, st.integers(0, 7)).map(list), max_size=max_size)


def bad_st(p_bad):
    """None with probability 1-p_bad, else [position, kind]"""
    if p_bad <= 0:
        return st.none()
    n = max(1, int(round(p_bad * 8)))
    bad = st.tuples(st.integers(0, 8), st.sampled_from(BAD_KINDS)).map(list)
    return st.integers(0, 7).flatmap(lambda i: bad if i < n else st.none())


def op_strategies(classes=LIGHT_CLASSES, p_bad=0.0, with_gen=True, ntok=2):
    idx = st.integers(0, 11)
    tri = st.sampled_from([None, True, False])
    s = {}
    s["open"] = st.tuples(st.just("open"), st.integers(0, ntok - 1), st.integers(0, 1))
    s["close"] = st.tuples(st.just("close"), idx)
    s["closeall"] = st.tuples(st.just("closeall"), st.integers(0, ntok - 1))
    s["login"] = st.tuples(st.just("login"), idx, st.sampled_from(["USER", "USER", "USER", "SO"]))
    s["logout"] = st.tuples(st.just("logout"), idx)
    s["create"] = st.tuples(st.just("create"), idx, st.sampled_from(classes), st.integers(0, 3), tri, tri, extras_st(), bad_st(p_bad))
    s["copy"] = st.tuples(st.just("copy"), idx, idx, tri, tri, extras_st(2), bad_st(p_bad))
    s["set"] = st.tuples(st.just("set"), idx, idx, extras_st(3), bad_st(p_bad))
    s["destroy"] = st.tuples(st.just("destroy"), idx, idx)
    s["read"] = st.tuples(st.just("read"), idx, idx, st.lists(st.sampled_from(["CKA_LABEL", "CKA_VALUE", "CKA_ID", "CKA_CLASS", "CKA_PRIVATE", "CKA_MODULUS", "CKA_PRIVATE_EXPONENT"]), max_size=3))
    s["size"] = st.tuples(st.just("size"), idx, idx)
    findspec = st.lists(st.one_of(
        st.tuples(idx, st.sampled_from(["CKA_CLASS", "CKA_ID", "CKA_LABEL", "CKA_TOKEN", "CKA_PRIVATE", "CKA_KEY_TYPE", "CKA_APPLICATION",
                                         "CKA_VALUE", "CKA_SUBJECT", "CKA_ENCRYPT", "CKA_SIGN", "CKA_MODIFIABLE", "CKA_EC_PARAMS",
                                         "CKA_MODULUS", "CKA_SENSITIVE", "CKA_CERTIFICATE_TYPE", "CKA_CHECK_VALUE"]),
                  st.just(0), st.sampled_from(["", "", "", "", "trunc", "ext"])).map(list),
        st.tuples(st.just("lit"), st.sampled_from(["CKA_ID", "CKA_APPLICATION", "CKA_TOKEN", "CKA_PRIVATE", "CKA_SUBJECT", "CKA_DERIVE"]), st.integers(0, 3)).map(list)),
        max_size=4)
    s["find"] = st.tuples(st.just("find"), idx, findspec, st.lists(st.sampled_from([1, 1, 2, 3, 5, 64]), min_size=1, max_size=4))
    s["use"] = st.tuples(st.just("use"), idx, idx, st.integers(0, 17), st.sampled_from([False, False, True]))
    s["unwrap"] = st.tuples(st.just("unwrap"), idx, st.sampled_from(["aes", "generic", "des3", "rsa_priv", "dsa_priv", "dh_priv", "ec_priv", "ed_priv"]), tri, tri, st.sampled_from([None, None, None, "flip", "trunc", "asprivate", "asprivate_ec"]), bad_st(p_bad))
    s["derive"] = st.tuples(st.just("derive"), idx, tri, tri, bad_st(p_bad))
    s["setpin"] = st.tuples(st.just("setpin"), idx, st.integers(0, 3))
    s["inittoken"] = st.tuples(st.just("inittoken"), st.integers(0, ntok - 1))
    s["restart"] = st.tuples(st.just("restart"))
    s["reinit"] = st.tuples(st.just("reinit"))
    if with_gen:
        s["gen"] = st.tuples(st.just("gen"), idx, st.sampled_from(["aes", "aes32", "des3", "generic"]), tri, tri, extras_st(2), bad_st(p_bad))
        s["genpair"] = st.tuples(st.just("genpair"), idx, st.sampled_from(["ec", "ed"]), tri, tri, st.integers(0, 1), bad_st(p_bad))
    return {k: v.map(list) for k, v in s.items()}


def program_st(weights, maxlen, prefix=(), minlen=None, **kw):
    ops = op_strategies(**kw)
    names = []
    for name, wgt in weights.items():
        if name in ops:
            names += [name] * wgt
    # (st.one_of de-duplicates identical alternatives, so weights go through sampled_from + flatmap)
    one = st.sampled_from(names).flatmap(lambda n: ops[n])
    # several short lists concatenated: the average length grows (hypothesis lists average ~5 elements when
    # min_size=0) while every part still shrinks to empty, so failing programs shrink to minimal ones
    k = max(1, maxlen // 8)
    part = st.lists(one, min_size=0, max_size=max(1, maxlen // k))
    body = st.tuples(*([part] * k)).map(lambda parts: [op for p in parts for op in p])
    if prefix:
        return body.map(lambda b: [list(p) for p in prefix] + b)
    return body
