"""Key world: histories of key creation (generate / create / unwrap / derive / copy), flag changes, reads and wraps, with
a provenance model that computes what CKA_LOCAL, CKA_KEY_GEN_MECHANISM, CKA_ALWAYS_SENSITIVE, CKA_NEVER_EXTRACTABLE,
CKA_SENSITIVE, CKA_EXTRACTABLE ... must read per PKCS#11 v2.40.  Serves C08 (attribute policy) and C02 (secrecy).

All objects are public (CKA_PRIVATE false) session or token objects used through one RW session, so no user login is
needed; the SO logs in only for the CKA_TRUSTED steps (possible because nothing is private).
"""
from hypothesis import strategies as st

from . import consts as K
from .env import hx
from .objects import A, T, keypool
from .runner import Violation

BOGUS = 0x7FFFFFF3
SECRET_ATTRS = {"secret": ["CKA_VALUE"], "rsa_priv": ["CKA_PRIVATE_EXPONENT", "CKA_PRIME_1", "CKA_PRIME_2", "CKA_EXPONENT_1",
                                                     "CKA_EXPONENT_2", "CKA_COEFFICIENT"], "ec_priv": ["CKA_VALUE"],
                "dsa_priv": ["CKA_VALUE"], "dh_priv": ["CKA_VALUE"], "ed_priv": ["CKA_VALUE"]}
HARMLESS = ["CKA_CLASS", "CKA_KEY_TYPE", "CKA_LABEL", "CKA_ID", "CKA_SENSITIVE", "CKA_EXTRACTABLE", "CKA_LOCAL"]
HIST = ["CKA_LOCAL", "CKA_KEY_GEN_MECHANISM", "CKA_ALWAYS_SENSITIVE", "CKA_NEVER_EXTRACTABLE"]
FLAGS = ["CKA_SENSITIVE", "CKA_EXTRACTABLE", "CKA_WRAP_WITH_TRUSTED", "CKA_MODIFIABLE", "CKA_COPYABLE", "CKA_DESTROYABLE",
         "CKA_TRUSTED", "CKA_LOCAL", "CKA_ALWAYS_SENSITIVE", "CKA_NEVER_EXTRACTABLE", "CKA_PRIVATE", "CKA_TOKEN", "CKA_WRAP",
         "CKA_DERIVE"]
# attributes that C_SetAttributeValue / C_CopyObject must reject (conservative subset of the read-only attributes of
# PKCS#11 v2.40 table 10 and the key tables: those without footnote 8 whose modification no token may allow)
READONLY_SET = ["CKA_CLASS", "CKA_KEY_TYPE", "CKA_LOCAL", "CKA_KEY_GEN_MECHANISM", "CKA_ALWAYS_SENSITIVE", "CKA_NEVER_EXTRACTABLE",
                "CKA_VALUE", "CKA_VALUE_LEN", "CKA_TOKEN", "CKA_PRIVATE"]
READONLY_COPY = ["CKA_CLASS", "CKA_KEY_TYPE", "CKA_LOCAL", "CKA_KEY_GEN_MECHANISM", "CKA_ALWAYS_SENSITIVE", "CKA_NEVER_EXTRACTABLE",
                 "CKA_VALUE", "CKA_VALUE_LEN"]


class Key:
    def __init__(self, oid, handle, kind, how):
        self.oid, self.handle, self.kind, self.how = oid, handle, kind, how
        self.value = None           # known secret value(s): dict attrname -> bytes
        self.m = {}                 # model of the boolean / history attributes (names -> value)
        self.alive = True
        self.token = False

    @property
    def protected(self):
        return self.m.get("CKA_SENSITIVE") or not self.m.get("CKA_EXTRACTABLE")


def readonly_value(name, k):
    """a value for a read-only attribute that differs from the key's current one"""
    if name == "CKA_CLASS":
        return "CKO_DATA"
    if name == "CKA_KEY_TYPE":
        return "CKK_GENERIC_SECRET" if k.kind != "generic" else "CKK_AES"
    if name == "CKA_KEY_GEN_MECHANISM":
        return "CKM_DES3_KEY_GEN"
    if name == "CKA_VALUE":
        return b"\x5a" * 16
    if name == "CKA_VALUE_LEN":
        return 24
    if name in ("CKA_LOCAL", "CKA_ALWAYS_SENSITIVE", "CKA_NEVER_EXTRACTABLE", "CKA_TOKEN", "CKA_PRIVATE"):
        return not bool(k.m.get(name, False))
    return True


class KeyWorld:
    def __init__(self, ctx, w, token, prog, judge):
        self.ctx, self.w, self.tok, self.prog, self.judge = ctx, w, token, prog, judge
        self.keys = []              # all keys ever created (Key)
        self.step = -1
        self.so = False
        self.outputs = []           # every byte string the library ever returned (leak scan)
        self.counts = {}
        self.nontrivial = False
        self.s = w.C_OpenSession(slot=token.slot, flags=K.CKF_SERIAL_SESSION | K.CKF_RW_SESSION)["h"]

    def V(self, prop, msg):
        return Violation("[%s] step %d %s: %s" % (prop, self.step, self.prog[self.step] if 0 <= self.step < len(self.prog) else "", msg), self.prog)

    def check(self, prop, cond, msg):
        if not cond and prop in self.judge:
            raise self.V(prop, msg)

    def count(self, k, n=1):
        self.counts[k] = self.counts.get(k, 0) + n

    def key(self, i, alive=True):
        pool = [k for k in self.keys if k.alive] if alive else self.keys
        if not pool:
            return None
        return pool[i % len(pool)]

    # -- reading the model-relevant attributes back -----------------------------------------------------
    def readflags(self, h):
        types = [K.C[n] for n in FLAGS] + [K.CKA_KEY_GEN_MECHANISM, K.CKA_CHECK_VALUE, K.CKA_VALUE_LEN]
        r = self.w.readattrs(s=self.s, o=h, types=types)["attrs"]
        out = {}
        for t, (rv, val, ln) in r.items():
            t = int(t)
            if rv != 0 or val is None:
                continue
            name = K.name("CKA", t)
            b = bytes.fromhex(val)
            if t in (K.CKA_KEY_GEN_MECHANISM, K.CKA_VALUE_LEN):
                out[name] = int.from_bytes(b, "little") if len(b) == 8 else None
            elif t == K.CKA_CHECK_VALUE:
                out[name] = val
            else:
                out[name] = b != b"\x00"
        return out

    def verify_model(self, k, why):
        """C08: what the object reports equals what the provenance model computes"""
        got = self.readflags(k.handle)
        for name in ("CKA_LOCAL", "CKA_ALWAYS_SENSITIVE", "CKA_NEVER_EXTRACTABLE", "CKA_KEY_GEN_MECHANISM"):
            if name in k.m and name in got and got[name] != k.m[name]:
                self.count("history_attr_checked")
                raise_ = "C08"
                want = k.m[name]
                self.check(raise_, False, "%s: key %d (%s, made by %s) reports %s=%s, the history says %s (SENSITIVE=%s EXTRACTABLE=%s)" % (
                    why, k.oid, k.kind, k.how, name, K.name("CKM", got[name]) if name.endswith("MECHANISM") and got[name] is not None else got[name],
                    K.name("CKM", want) if name.endswith("MECHANISM") and want is not None else want, got.get("CKA_SENSITIVE"), got.get("CKA_EXTRACTABLE")))
        self.count("history_attr_checked")
        if k.how != "C_GenerateKey" or True:
            if k.kind in ("aes", "generic", "des3"):
                self.nontrivial = self.nontrivial or k.how not in ("C_GenerateKey",)
        # adopt everything else as read (defaults are the implementation's choice)
        for name, v in got.items():
            if name not in ("CKA_LOCAL", "CKA_ALWAYS_SENSITIVE", "CKA_NEVER_EXTRACTABLE", "CKA_KEY_GEN_MECHANISM") or name not in k.m:
                k.m[name] = v
        return got

    # -- templates ---------------------------------------------------------------------------------------
    def flags_tpl(self, sens, extr, extra):
        tpl = []
        if sens is not None:
            tpl.append(A("CKA_SENSITIVE", sens))
        if extr is not None:
            tpl.append(A("CKA_EXTRACTABLE", extr))
        for name, val in extra:
            if not any(e[0] == K.C[name] for e in tpl):
                tpl.append(A(name, val))
        return tpl

    def inject(self, tpl, forb):
        """forb = [position, attribute name, value] : caller-supplied history attribute"""
        if not forb:
            return tpl
        pos, name, val = forb
        tpl = list(tpl)
        v = val
        if name == "CKA_KEY_GEN_MECHANISM":
            v = "CKM_AES_KEY_GEN"
        tpl.insert(pos % (len(tpl) + 1), A(name, v))
        return tpl

    def register(self, h, kind, how, value=None):
        k = Key(len(self.keys), h, kind, how)
        k.value = value
        self.keys.append(k)
        return k

    def forbidden_supplied(self, fn, rv, forb, h=None):
        if not forb:
            return
        self.count("history_attr_supplied")
        if forb[0] > 0:
            self.nontrivial = True
        if rv == K.CKR_OK:
            self.check("C08", False, "%s accepted a caller-supplied %s" % (fn, forb[1]))

    # -- operations --------------------------------------------------------------------------------------
    def op_gen(self, kind, sens, extr, token, extra, forb):
        mech = {"aes": "CKM_AES_KEY_GEN", "generic": "CKM_GENERIC_SECRET_KEY_GEN", "des3": "CKM_DES3_KEY_GEN"}[kind]
        tpl = T(("CKA_TOKEN", bool(token)), ("CKA_PRIVATE", False)) + self.flags_tpl(sens, extr, extra)
        if kind != "des3":
            tpl.append(A("CKA_VALUE_LEN", 16))
        tpl = self.inject(tpl, forb)
        r = self.w.C_GenerateKey(s=self.s, mech={"m": K.C[mech]}, tpl=tpl)
        self.forbidden_supplied("C_GenerateKey", r["rv"], forb)
        if r["rv"] != K.CKR_OK:
            return r["rv"]
        k = self.register(r["h"], kind, "C_GenerateKey")
        k.token = bool(token)
        got = self.readflags(k.handle)
        k.m = dict(got)
        k.m.update({"CKA_LOCAL": True, "CKA_KEY_GEN_MECHANISM": K.C[mech], "CKA_ALWAYS_SENSITIVE": got.get("CKA_SENSITIVE"),
                    "CKA_NEVER_EXTRACTABLE": not got.get("CKA_EXTRACTABLE")})
        self.verify_model(k, "after C_GenerateKey")
        # a generated key becomes "known" by reading it once while it is readable
        if not k.protected:
            v = self.w.readattrs(s=self.s, o=k.handle, types=[K.CKA_VALUE])["attrs"][str(K.CKA_VALUE)]
            if v[0] == 0 and v[1]:
                k.value = {"CKA_VALUE": bytes.fromhex(v[1])}
        return r["rv"]

    def op_genpair(self, sens, extr, extra, forb):
        pub = T(("CKA_EC_PARAMS", "06082a8648ce3d030107"), ("CKA_TOKEN", False), ("CKA_PRIVATE", False))
        prv = T(("CKA_TOKEN", False), ("CKA_PRIVATE", False)) + self.flags_tpl(sens, extr, [e for e in extra if e[0] != "CKA_TRUSTED"])
        prv = self.inject(prv, forb)
        r = self.w.C_GenerateKeyPair(s=self.s, mech={"m": K.CKM_EC_KEY_PAIR_GEN}, pub=pub, prv=prv)
        self.forbidden_supplied("C_GenerateKeyPair", r["rv"], forb)
        if r["rv"] != K.CKR_OK:
            return r["rv"]
        k = self.register(r["hprv"], "ec_priv", "C_GenerateKeyPair")
        got = self.readflags(k.handle)
        k.m = dict(got)
        k.m.update({"CKA_LOCAL": True, "CKA_KEY_GEN_MECHANISM": K.CKM_EC_KEY_PAIR_GEN, "CKA_ALWAYS_SENSITIVE": got.get("CKA_SENSITIVE"),
                    "CKA_NEVER_EXTRACTABLE": not got.get("CKA_EXTRACTABLE")})
        self.verify_model(k, "after C_GenerateKeyPair")
        return r["rv"]

    def known_material(self, kind, vi):
        kp = keypool()
        if kind in ("aes", "generic"):
            return {"CKA_VALUE": bytes(((vi * 53 + i * 17 + 0x21) & 0xFF) for i in range(16 if kind == "aes" else 24))}
        if kind == "des3":
            return {"CKA_VALUE": bytes((((vi * 29 + i * 7 + 3) & 0xFE) | 1) for i in range(24))}
        if kind == "rsa_priv":
            k = kp["rsa"][vi % 2]
            return {"CKA_PRIVATE_EXPONENT": bytes.fromhex(k["d"]), "CKA_PRIME_1": bytes.fromhex(k["p"]), "CKA_PRIME_2": bytes.fromhex(k["q"]),
                    "CKA_EXPONENT_1": bytes.fromhex(k["dp"]), "CKA_EXPONENT_2": bytes.fromhex(k["dq"]), "CKA_COEFFICIENT": bytes.fromhex(k["qinv"]),
                    "_pub": {"CKA_MODULUS": k["n"], "CKA_PUBLIC_EXPONENT": k["e"]}}
        if kind == "ec_priv":
            k = kp["ec"][vi % len(kp["ec"])]
            return {"CKA_VALUE": bytes.fromhex(k["d"]), "_pub": {"CKA_EC_PARAMS": k["params"]}}
        if kind == "ed_priv":
            k = kp["ed"][vi % len(kp["ed"])]
            return {"CKA_VALUE": bytes.fromhex(k["d"]), "_pub": {"CKA_EC_PARAMS": k["params"]}}
        if kind == "dsa_priv":
            k = kp["dsa"][vi % 2]
            return {"CKA_VALUE": bytes.fromhex(k["x"]), "_pub": {"CKA_PRIME": k["p"], "CKA_SUBPRIME": k["q"], "CKA_BASE": k["g"]}}
        if kind == "dh_priv":
            k = kp["dh"][vi % 2]
            return {"CKA_VALUE": bytes.fromhex(k["x"]), "_pub": {"CKA_PRIME": k["p"], "CKA_BASE": k["g"]}}
        raise KeyError(kind)

    KT = {"aes": "CKK_AES", "generic": "CKK_GENERIC_SECRET", "des3": "CKK_DES3", "rsa_priv": "CKK_RSA", "ec_priv": "CKK_EC",
          "ed_priv": "CKK_EC_EDWARDS", "dsa_priv": "CKK_DSA", "dh_priv": "CKK_DH"}

    def op_create(self, kind, vi, sens, extr, token, extra, forb):
        mat = self.known_material(kind, vi)
        cls = "CKO_SECRET_KEY" if kind in ("aes", "generic", "des3") else "CKO_PRIVATE_KEY"
        tpl = T(("CKA_CLASS", cls), ("CKA_KEY_TYPE", self.KT[kind]), ("CKA_TOKEN", bool(token)), ("CKA_PRIVATE", False))
        for n, v in mat.get("_pub", {}).items():
            tpl.append(A(n, v))
        for n, v in mat.items():
            if n != "_pub":
                tpl.append(A(n, v))
        if kind not in ("aes", "generic", "des3"):
            extra = [e for e in extra if e[0] not in ("CKA_TRUSTED", "CKA_WRAP")]
        tpl += self.flags_tpl(sens, extr, extra)
        tpl = self.inject(tpl, forb)
        r = self.w.C_CreateObject(s=self.s, tpl=tpl)
        self.forbidden_supplied("C_CreateObject", r["rv"], forb)
        trusted_req = any(e[0] == "CKA_TRUSTED" and e[1] for e in extra)
        if r["rv"] != K.CKR_OK:
            return r["rv"]
        k = self.register(r["h"], kind, "C_CreateObject", {n: v for n, v in mat.items() if n != "_pub"})
        k.token = bool(token)
        got = self.readflags(k.handle)
        k.m = dict(got)
        k.m.update({"CKA_LOCAL": False, "CKA_KEY_GEN_MECHANISM": K.UNAVAILABLE, "CKA_ALWAYS_SENSITIVE": False, "CKA_NEVER_EXTRACTABLE": False})
        self.verify_model(k, "after C_CreateObject")
        if trusted_req and got.get("CKA_TRUSTED") and not self.so:
            self.check("C08", False, "C_CreateObject by a non-SO session produced an object with CKA_TRUSTED=true")
        return r["rv"]

    def wrap_mech(self, wk):
        return {"m": K.CKM_AES_KEY_WRAP_PAD}

    def op_unwrap(self, wi, kind, vi, sens, extr, extra, forb):
        """unwrap a blob made from known material under wrapping key wi (an AES key with WRAP/UNWRAP)"""
        wk = self.pick_wrapper(wi)
        if wk is None:
            return None
        mat = self.known_material(kind, vi)
        secret = kind in ("aes", "generic", "des3")
        cls = "CKO_SECRET_KEY" if secret else "CKO_PRIVATE_KEY"
        # make the blob with the token itself from a transient extractable twin (the blob format is judged by C13); private keys of every type
        # too: the library stamps their history attributes on a path of its own
        ttpl = T(("CKA_CLASS", cls), ("CKA_KEY_TYPE", self.KT[kind]), ("CKA_TOKEN", False), ("CKA_PRIVATE", False), ("CKA_EXTRACTABLE", True), ("CKA_SENSITIVE", False))
        for n, v in list(mat.get("_pub", {}).items()) + [(n, v) for n, v in mat.items() if n != "_pub"]:
            ttpl.append(A(n, v))
        t = self.w.C_CreateObject(s=self.s, tpl=ttpl)
        if t["rv"] != 0:
            return None
        wr = self.w.C_WrapKey(s=self.s, mech=self.wrap_mech(wk), wkey=wk.handle, key=t["h"], out=8192)
        self.w.C_DestroyObject(s=self.s, o=t["h"])
        if wr["rv"] != K.CKR_OK:
            return None
        blob = wr["out"]["data"]
        tpl = T(("CKA_CLASS", cls), ("CKA_KEY_TYPE", self.KT[kind]), ("CKA_TOKEN", False), ("CKA_PRIVATE", False))
        if not secret:
            extra = [e for e in extra if e[0] not in ("CKA_TRUSTED", "CKA_WRAP")]
        tpl += self.flags_tpl(sens, extr, extra)
        tpl = self.inject(tpl, forb)
        r = self.w.C_UnwrapKey(s=self.s, mech=self.wrap_mech(wk), key=wk.handle, data=blob, tpl=tpl)
        self.forbidden_supplied("C_UnwrapKey", r["rv"], forb)
        if r["rv"] != K.CKR_OK:
            return r["rv"]
        k = self.register(r["h"], kind, "C_UnwrapKey", {n: v for n, v in mat.items() if n != "_pub"})
        if not secret:
            self.count("unwrap_private_key_ok")
        got = self.readflags(k.handle)
        k.m = dict(got)
        k.m.update({"CKA_LOCAL": False, "CKA_KEY_GEN_MECHANISM": K.UNAVAILABLE, "CKA_ALWAYS_SENSITIVE": False, "CKA_NEVER_EXTRACTABLE": False})
        self.verify_model(k, "after C_UnwrapKey")
        return r["rv"]

    def pick_wrapper(self, i, trusted=None):
        pool = [k for k in self.keys if k.alive and k.kind == "aes" and k.m.get("CKA_WRAP") is not False]
        if trusted is not None:
            p2 = [k for k in pool if bool(k.m.get("CKA_TRUSTED")) == trusted]
            pool = p2 or pool
        return pool[i % len(pool)] if pool else None

    def op_derive(self, mech, bi, oi, sens, extr, extra, forb):
        base = self.key(bi)
        if base is None:
            return None
        secret = base.kind in ("aes", "generic", "des3")
        m = {"m": K.C[mech]}
        other = None
        if mech == "CKM_CONCATENATE_BASE_AND_KEY":
            pool = [k for k in self.keys if k.alive and k.kind in ("aes", "generic", "des3")]
            if not pool or not secret:
                return None
            other = pool[oi % len(pool)]
            m["p"] = {"ulong": other.handle}
        elif mech in ("CKM_CONCATENATE_BASE_AND_DATA", "CKM_CONCATENATE_DATA_AND_BASE"):
            if not secret:
                return None
            # data of 8 / 16 / 40 bytes and (below) a requested length that is absent, shorter than, equal to or longer than the data part
            dlen = (8, 16, 40)[oi % 3]
            m["p"] = {"strdata": "d5" * dlen}
        elif mech == "CKM_AES_ECB_ENCRYPT_DATA":
            if base.kind != "aes":
                return None
            m["p"] = {"strdata": "e6" * 32}
        elif mech == "CKM_ECDH1_DERIVE":
            if base.kind != "ec_priv":
                return None
            kp = keypool()
            pt = [e for e in kp["ec"] if e["params"] == "06082a8648ce3d030107"][1]["point"][4:]
            m["p"] = {"ecdh": {"kdf": K.CKD_NULL, "pub": pt}}
        else:
            return None
        if base.m.get("CKA_DERIVE") is False:
            # make it derivable (a CKA_DERIVE refusal is a C07 matter)
            if self.w.C_SetAttributeValue(s=self.s, o=base.handle, tpl=T(("CKA_DERIVE", True)))["rv"] == 0:
                base.m["CKA_DERIVE"] = True
        tpl = T(("CKA_CLASS", "CKO_SECRET_KEY"), ("CKA_KEY_TYPE", "CKK_GENERIC_SECRET"), ("CKA_TOKEN", False), ("CKA_PRIVATE", False))
        if not mech.startswith("CKM_CONCATENATE"):
            tpl.append(A("CKA_VALUE_LEN", 16))
        elif mech != "CKM_CONCATENATE_BASE_AND_KEY":
            want = (None, 8, 16, dlen)[(oi // 3) % 4]
            if want is not None:
                tpl.append(A("CKA_VALUE_LEN", want))
        tpl += self.flags_tpl(sens, extr, extra)
        tpl = self.inject(tpl, forb)
        r = self.w.C_DeriveKey(s=self.s, mech=m, key=base.handle, tpl=tpl)
        self.forbidden_supplied("C_DeriveKey", r["rv"], forb)
        if r["rv"] != K.CKR_OK:
            return r["rv"]
        k = self.register(r["h"], "generic", "C_DeriveKey(%s)" % mech)
        got = self.readflags(k.handle)
        k.m = dict(got)
        bs, be = base.m.get("CKA_SENSITIVE"), base.m.get("CKA_EXTRACTABLE")
        bas, bne = base.m.get("CKA_ALWAYS_SENSITIVE"), base.m.get("CKA_NEVER_EXTRACTABLE")
        ds, de = got.get("CKA_SENSITIVE"), got.get("CKA_EXTRACTABLE")
        k.m["CKA_LOCAL"] = False
        k.m["CKA_KEY_GEN_MECHANISM"] = K.UNAVAILABLE
        if mech == "CKM_CONCATENATE_BASE_AND_KEY":
            os_, oe = other.m.get("CKA_SENSITIVE"), other.m.get("CKA_EXTRACTABLE")
            k.m["CKA_ALWAYS_SENSITIVE"] = bool(bas and other.m.get("CKA_ALWAYS_SENSITIVE"))
            k.m["CKA_NEVER_EXTRACTABLE"] = bool(bne and other.m.get("CKA_NEVER_EXTRACTABLE"))
            if bs or os_:
                self.check("C02", ds is True, "key derived by %s from a sensitive key reads CKA_SENSITIVE=%s" % (mech, ds))
                self.count("derive_inherits_protection")
                self.nontrivial = True
            if not be or not oe:
                self.check("C02", de is False, "key derived by %s from an unextractable key reads CKA_EXTRACTABLE=%s" % (mech, de))
                self.count("derive_inherits_protection")
                self.nontrivial = True
            if base.value and other.value and not (ds or not de):
                k.value = {"CKA_VALUE": base.value["CKA_VALUE"] + other.value["CKA_VALUE"]}
        elif mech.startswith("CKM_CONCATENATE"):
            k.m["CKA_ALWAYS_SENSITIVE"] = bool(bas)
            k.m["CKA_NEVER_EXTRACTABLE"] = bool(bne)
            if bs:
                self.check("C02", ds is True, "key derived by %s from a sensitive key reads CKA_SENSITIVE=%s" % (mech, ds))
                self.count("derive_inherits_protection")
                self.nontrivial = True
            if not be:
                self.check("C02", de is False, "key derived by %s from an unextractable key reads CKA_EXTRACTABLE=%s" % (mech, de))
                self.count("derive_inherits_protection")
                self.nontrivial = True
        else:
            k.m["CKA_ALWAYS_SENSITIVE"] = bool(ds) if bas else False
            k.m["CKA_NEVER_EXTRACTABLE"] = (not de) if bne else False
        # the derived key contains the base key's bytes for the concatenation mechanisms: it is protected material too
        if mech.startswith("CKM_CONCATENATE") and base.value and (ds or not de):
            k.value = {"CKA_VALUE": base.value["CKA_VALUE"]}
            k.partial = True
        self.verify_model(k, "after C_DeriveKey(%s) from key %d (%s; S=%s E=%s AS=%s NE=%s)" % (mech, base.oid, base.how, bs, be, bas, bne))
        self.count("derive_ok")
        return r["rv"]

    def op_copy(self, ki, sens, extr, extra, forb, ro):
        src = self.key(ki)
        if src is None:
            return None
        tpl = self.flags_tpl(sens, extr, extra)
        if ro:
            tpl.insert(ro[0] % (len(tpl) + 1), A(ro[1], readonly_value(ro[1], src)))
        tpl = self.inject(tpl, forb)
        r = self.w.C_CopyObject(s=self.s, o=src.handle, tpl=tpl)
        self.forbidden_supplied("C_CopyObject", r["rv"], forb)
        rv = r["rv"]
        if ro and ro[1] in READONLY_COPY:
            self.count("readonly_attempts")
            if ro[0] > 0:
                self.nontrivial = True
            self.check("C08", rv != K.CKR_OK, "C_CopyObject accepted the read-only attribute %s" % ro[1])
        if rv == K.CKR_OK:
            self.check("C08", src.m.get("CKA_COPYABLE") is not False, "C_CopyObject copied a key whose CKA_COPYABLE is false")
            k = self.register(r["h"], src.kind, "C_CopyObject of key %d (%s)" % (src.oid, src.how), src.value)
            if getattr(src, "partial", False):
                k.partial = True
            got = self.readflags(k.handle)
            k.m = dict(got)
            for name in ("CKA_LOCAL", "CKA_KEY_GEN_MECHANISM", "CKA_ALWAYS_SENSITIVE", "CKA_NEVER_EXTRACTABLE"):
                k.m[name] = src.m.get(name)
            self.one_way("C_CopyObject", src.m, got)
            self.check("C08", not (src.m.get("CKA_PRIVATE") and not got.get("CKA_PRIVATE")), "C_CopyObject turned a private object public")
            if got.get("CKA_TRUSTED") and not src.m.get("CKA_TRUSTED") and not self.so:
                self.check("C08", False, "C_CopyObject by a non-SO session set CKA_TRUSTED=true")
            self.verify_model(k, "after C_CopyObject")
            self.count("copy_ok")
        elif src.m.get("CKA_COPYABLE") is False:
            self.count("copy_refused_not_copyable")
        return rv

    def one_way(self, fn, before, after):
        """C02/C08: protections never move in the forbidden direction"""
        if before.get("CKA_SENSITIVE") and after.get("CKA_SENSITIVE") is False:
            self.check("C02", False, "%s cleared CKA_SENSITIVE" % fn)
            self.check("C08", False, "%s cleared CKA_SENSITIVE" % fn)
        if before.get("CKA_EXTRACTABLE") is False and after.get("CKA_EXTRACTABLE"):
            self.check("C02", False, "%s set CKA_EXTRACTABLE back to true" % fn)
            self.check("C08", False, "%s set CKA_EXTRACTABLE back to true" % fn)
        if before.get("CKA_WRAP_WITH_TRUSTED") and after.get("CKA_WRAP_WITH_TRUSTED") is False:
            self.check("C02", False, "%s cleared CKA_WRAP_WITH_TRUSTED" % fn)
            self.check("C08", False, "%s cleared CKA_WRAP_WITH_TRUSTED" % fn)
        if before.get("CKA_COPYABLE") is False and after.get("CKA_COPYABLE") and fn == "C_SetAttributeValue":
            self.check("C08", False, "%s set CKA_COPYABLE back to true" % fn)

    def op_set(self, ki, changes, forb, ro):
        k = self.key(ki)
        if k is None:
            return None
        tpl = [A(n, v) for n, v in changes if not (n in ("CKA_TRUSTED", "CKA_WRAP") and k.kind not in ("aes", "generic", "des3"))]
        if ro:
            tpl.insert(ro[0] % (len(tpl) + 1), A(ro[1], readonly_value(ro[1], k)))
        tpl = self.inject(tpl, forb)
        if not tpl:
            tpl = [A("CKA_ID", b"id")]
        before = dict(k.m)
        rv = self.w.C_SetAttributeValue(s=self.s, o=k.handle, tpl=tpl)["rv"]
        self.forbidden_supplied("C_SetAttributeValue", rv, forb)
        if ro and ro[1] in READONLY_SET:
            self.count("readonly_attempts")
            if ro[0] > 0:
                self.nontrivial = True
            self.check("C08", rv != K.CKR_OK, "C_SetAttributeValue accepted the read-only attribute %s" % ro[1])
        attempted_flip = any((n == "CKA_SENSITIVE" and v is False and before.get(n)) or (n == "CKA_EXTRACTABLE" and v and before.get(n) is False) or
                             (n == "CKA_WRAP_WITH_TRUSTED" and v is False and before.get(n)) for n, v in changes)
        if attempted_flip:
            self.count("protection_flip_attempts")
            self.nontrivial = True
        got = self.readflags(k.handle)
        if rv == K.CKR_OK:
            self.check("C08", before.get("CKA_MODIFIABLE") is not False, "C_SetAttributeValue changed a key whose CKA_MODIFIABLE is false")
            self.one_way("C_SetAttributeValue", before, got)
            if got.get("CKA_TRUSTED") and not before.get("CKA_TRUSTED") and not self.so:
                self.check("C08", False, "C_SetAttributeValue by a non-SO session set CKA_TRUSTED=true")
            self.count("set_ok")
        else:
            # a rejected call changes nothing (cheap local form of C09)
            for n in ("CKA_SENSITIVE", "CKA_EXTRACTABLE", "CKA_WRAP_WITH_TRUSTED", "CKA_TRUSTED", "CKA_MODIFIABLE", "CKA_COPYABLE"):
                if n in before and n in got and before[n] != got[n]:
                    self.check("C08", False, "rejected C_SetAttributeValue (%s) changed %s from %s to %s" % (K.rvname(rv), n, before[n], got[n]))
        for n, v in got.items():
            if n not in HIST:
                k.m[n] = v
        self.verify_model(k, "after C_SetAttributeValue")
        return rv

    def op_destroy(self, ki):
        k = self.key(ki)
        if k is None or len([x for x in self.keys if x.alive]) < 3:
            return None
        rv = self.w.C_DestroyObject(s=self.s, o=k.handle)["rv"]
        if rv == K.CKR_OK:
            self.check("C08", k.m.get("CKA_DESTROYABLE") is not False, "C_DestroyObject destroyed a key whose CKA_DESTROYABLE is false")
            k.alive = False
        return rv

    def op_so(self, on):
        """switch the SO login on/off (nothing is private, so nothing else changes)"""
        if on and not self.so:
            if self.w.C_Login(s=self.s, user=K.CKU_SO, pin=hx(self.tok.so_pin))["rv"] == 0:
                self.so = True
        elif not on and self.so:
            self.w.C_Logout(s=self.s)
            self.so = False
        return None

    def op_read(self, ki, names, bufmode):
        """C02: read a mix of secret and harmless attributes with a generated buffer policy"""
        k = self.key(ki)
        if k is None:
            return None
        secret_names = SECRET_ATTRS.get("secret" if k.kind in ("aes", "generic", "des3") else k.kind, [])
        attrs = []
        for n in names:
            if n.startswith("SECRET"):
                # SECRET<i>: the i-th secret attribute of the class (every one of them is reachable)
                if secret_names:
                    sn = secret_names[int(n[6:] or 0) % len(secret_names)]
                    if sn not in attrs:
                        attrs.append(sn)
            elif n not in attrs:
                attrs.append(n)
        if not attrs:
            attrs = list(secret_names[:1]) or ["CKA_LABEL"]
        size = {"null": None, "short": 2, "exact": 4096, "big": 8192}[bufmode]
        req = [[K.C[n], size] for n in attrs]
        r = self.w.C_GetAttributeValue(s=self.s, o=k.handle, attrs=req)
        prot = k.protected
        asked_secret = [n for n in attrs if n in secret_names]
        for n, e in zip(attrs, r["attrs"]):
            if "data" in e:
                self.outputs.append((k.oid, n, bytes.fromhex(e["data"])))
            if e.get("dirty"):
                self.outputs.append((k.oid, n, bytes.fromhex(e["dirty"])))
            if n in secret_names and prot:
                self.count("protected_secret_reads")
                if k.how != "C_GenerateKeyPair":
                    self.nontrivial = True
                self.check("C02", e["len"] == K.UNAVAILABLE, "C_GetAttributeValue(%s) on a %s key (made by %s) reports length %d instead of CK_UNAVAILABLE_INFORMATION" % (
                    n, "sensitive" if k.m.get("CKA_SENSITIVE") else "unextractable", k.how, e["len"]))
                self.check("C02", "data" not in e and e.get("tail") is not False and e.get("canary") is not False,
                           "C_GetAttributeValue(%s) on a protected key wrote bytes into the caller's buffer" % n)
        if asked_secret and prot:
            if all(n in secret_names or n in HARMLESS for n in attrs):
                self.check("C02", r["rv"] == K.CKR_ATTRIBUTE_SENSITIVE, "C_GetAttributeValue with secret attributes of a protected key -> %s, expected CKR_ATTRIBUTE_SENSITIVE" % K.rvname(r["rv"]))
            else:
                self.check("C02", r["rv"] != K.CKR_OK, "C_GetAttributeValue with secret attributes of a protected key returned CKR_OK")
        return r["rv"]

    def op_wrap(self, ki, wi, want_trusted):
        k = self.key(ki)
        wk = self.pick_wrapper(wi, trusted=want_trusted)
        if k is None or wk is None or k is wk:
            return None
        if k.kind not in ("aes", "generic", "des3"):
            mech = {"m": K.CKM_AES_KEY_WRAP_PAD}
        else:
            mech = {"m": K.CKM_AES_KEY_WRAP_PAD}
        r = self.w.C_WrapKey(s=self.s, mech=mech, wkey=wk.handle, key=k.handle, out=4096)
        if r["out"].get("data"):
            self.outputs.append((k.oid, "wrapped", bytes.fromhex(r["out"]["data"])))
        if k.m.get("CKA_EXTRACTABLE") is False:
            self.count("wrap_unextractable_attempts")
            self.nontrivial = True
            self.check("C02", r["rv"] != K.CKR_OK, "C_WrapKey wrapped a key whose CKA_EXTRACTABLE is false (made by %s)" % k.how)
        if k.m.get("CKA_WRAP_WITH_TRUSTED") and not wk.m.get("CKA_TRUSTED"):
            self.count("wrap_with_untrusted_attempts")
            self.nontrivial = True
            self.check("C02", r["rv"] != K.CKR_OK, "C_WrapKey wrapped a CKA_WRAP_WITH_TRUSTED key under a key whose CKA_TRUSTED is false")
        if r["rv"] == K.CKR_OK:
            self.count("wrap_ok")
        return r["rv"]

    # -- driver ------------------------------------------------------------------------------------------
    def run(self):
        for self.step, op in enumerate(self.prog):
            self.ctx.steps += 1
            rv = getattr(self, "op_" + op[0])(*op[1:])
            self.note_exposure()
            if rv is not None:
                self.count("op_" + op[0])
                if rv != K.CKR_OK:
                    self.count("failed_" + op[0])
        self.step = len(self.prog)
        self.leak_scan()

    def note_exposure(self):
        """after every step: remember which keys have ever been unprotected (their bytes could be read legitimately)"""
        for k in self.keys:
            if k.m and not k.protected:
                k.ever_unprotected = True

    def leak_scan(self):
        """C02: no >= 8-byte window of a value that was protected during the WHOLE history (in every object that ever
        held it) occurs in anything the library returned - attribute reads and wrapped blobs alike."""
        secrets = {}
        for k in self.keys:
            for an, val in (k.value or {}).items():
                if len(val) >= 8:
                    secrets.setdefault(val, []).append((k, an))
        for val, holders in secrets.items():
            exposed = any(getattr(k, "ever_unprotected", False) for k, _ in holders)
            # a value contained in / containing another exposed value is exposed too (concatenation-derived keys)
            if not exposed:
                for v2, h2 in secrets.items():
                    if v2 is not val and (v2 in val or val in v2) and any(getattr(k, "ever_unprotected", False) for k, _ in h2):
                        exposed = True
            if exposed:
                continue
            self.count("secret_values_scanned")
            for (oid, n, out) in self.outputs:
                for i in range(0, len(val) - 7):
                    if val[i:i + 8] in out:
                        k, an = holders[0]
                        self.check("C02", False, "bytes of %s of key %d (%s), protected during the whole history, appear in the output of reading %s of key %d" % (
                            an, k.oid, k.how, n, oid))
        self.count("leak_scans")


# ---------------------------------------------------------------------------------------------------
tri = st.sampled_from([None, True, False])
EXTRA_FLAGS = ["CKA_WRAP_WITH_TRUSTED", "CKA_MODIFIABLE", "CKA_COPYABLE", "CKA_DESTROYABLE", "CKA_TRUSTED", "CKA_WRAP", "CKA_DERIVE"]
extra_st = st.lists(st.tuples(st.sampled_from(EXTRA_FLAGS), st.booleans()).map(list), max_size=2)
forb_st = st.one_of(st.none(), st.none(), st.none(), st.tuples(st.integers(0, 5), st.sampled_from(HIST), st.booleans()).map(list))
ro_set_st = st.one_of(st.none(), st.none(), st.tuples(st.integers(0, 3), st.sampled_from(READONLY_SET)).map(list))
ro_copy_st = st.one_of(st.none(), st.none(), st.none(), st.tuples(st.integers(0, 3), st.sampled_from(READONLY_COPY)).map(list))
idx = st.integers(0, 9)


def op_strategies():
    s = {}
    s["gen"] = st.tuples(st.just("gen"), st.sampled_from(["aes", "aes", "generic", "des3"]), tri, tri, st.booleans(), extra_st, forb_st)
    s["genpair"] = st.tuples(st.just("genpair"), tri, tri, extra_st, forb_st)
    s["create"] = st.tuples(st.just("create"), st.sampled_from(["aes", "aes", "generic", "des3", "rsa_priv", "ec_priv", "ed_priv", "dsa_priv", "dh_priv"]),
                            st.integers(0, 3), tri, tri, st.booleans(), extra_st, forb_st)
    s["unwrap"] = st.tuples(st.just("unwrap"), idx, st.sampled_from(["aes", "generic", "des3", "rsa_priv", "ec_priv", "ed_priv", "dsa_priv", "dh_priv"]), st.integers(0, 3), tri, tri, extra_st, forb_st)
    s["derive"] = st.tuples(st.just("derive"), st.sampled_from(["CKM_CONCATENATE_BASE_AND_KEY", "CKM_CONCATENATE_BASE_AND_DATA", "CKM_CONCATENATE_DATA_AND_BASE",
                                                               "CKM_AES_ECB_ENCRYPT_DATA", "CKM_ECDH1_DERIVE"]), idx, idx, tri, tri, extra_st, forb_st)
    s["copy"] = st.tuples(st.just("copy"), idx, tri, tri, extra_st, forb_st, ro_copy_st)
    changes = st.lists(st.tuples(st.sampled_from(["CKA_SENSITIVE", "CKA_EXTRACTABLE", "CKA_WRAP_WITH_TRUSTED", "CKA_TRUSTED", "CKA_MODIFIABLE",
                                                   "CKA_COPYABLE", "CKA_DERIVE", "CKA_WRAP"]), st.booleans()).map(list), min_size=0, max_size=3)
    s["set"] = st.tuples(st.just("set"), idx, changes, forb_st, ro_set_st)
    s["destroy"] = st.tuples(st.just("destroy"), idx)
    s["so"] = st.tuples(st.just("so"), st.booleans())
    s["read"] = st.tuples(st.just("read"), idx, st.lists(st.sampled_from(["SECRET0", "SECRET1", "SECRET2", "SECRET3", "SECRET4", "SECRET5", "SECRET0", "CKA_LABEL", "CKA_CLASS",
                                                                                 "CKA_ID", "CKA_SENSITIVE", "CKA_MODULUS"]), min_size=1, max_size=4), st.sampled_from(["null", "short", "exact", "big"]))
    s["wrap"] = st.tuples(st.just("wrap"), idx, idx, st.sampled_from([None, True, False]))
    return {k: v.map(list) for k, v in s.items()}


def program_st(weights, maxlen):
    ops = op_strategies()
    names = []
    for n, wgt in weights.items():
        names += [n] * wgt
    one = st.sampled_from(names).flatmap(lambda n: ops[n])
    k = max(1, maxlen // 8)
    part = st.lists(one, min_size=0, max_size=max(1, maxlen // k))
    prefix = [["gen", "aes", False, True, False, [["CKA_WRAP", True]], None]]
    return st.tuples(*([part] * k)).map(lambda parts: prefix + [op for p in parts for op in p])
