"""Known-findings registry (DESIGN.md 1.8).  /verif/known_findings.json is committed and never written at run time.

entry: {"id": "KF-C12-01", "property": "C12", "status": "open" | "fixed:<commit>", "what": "...",
        "signature": {field: value | [values]}}
A deviation signature (dict) matches an entry iff every field of the entry's signature is present in the
deviation with an equal value (or a value from the entry's list).  Only *open* entries suppress anything.
"""
import collections
import json
import os

VERIF = os.path.dirname(os.path.dirname(os.path.dirname(os.path.abspath(__file__))))
PATH = os.path.join(VERIF, "known_findings.json")


class Registry:
    def __init__(self, pid):
        self.pid = pid
        self.hits = collections.Counter()
        try:
            doc = json.load(open(PATH))
        except OSError:
            doc = {"findings": []}
        self.entries = [e for e in doc.get("findings", []) if pid in e.get("properties", [e.get("property")])]

    def entry(self, kid):
        for e in self.entries:
            if e["id"] == kid:
                return e
        return None

    def match(self, sig):
        for e in self.entries:
            if not e.get("status", "open").startswith("open"):
                continue
            ok = True
            for k, want in e["signature"].items():
                have = sig.get(k, None)
                if isinstance(want, list):
                    if have not in want:
                        ok = False
                        break
                elif have != want:
                    ok = False
                    break
            if ok:
                self.hits[e["id"]] += 1
                return e["id"]
        return None
