"""Scratch directories, softhsm2.conf files and pre-initialised token templates."""
import os
import shutil
import tempfile

from . import consts as K
from .worker import Worker

SO_PIN = b"so-pin-12345678"
USER_PIN = b"user-pin-1234"


def hx(b):
    return bytes(b).hex()


def label32(s):
    b = s if isinstance(s, bytes) else s.encode()
    return (b + b" " * 32)[:32]


class Sandbox:
    """One token directory + one softhsm2.conf."""

    def __init__(self, root, backend="file", mechanisms="ALL", umask="0077", extra_conf=""):
        self.root = root
        self.tokendir = os.path.join(root, "tokens")
        self.conf = os.path.join(root, "softhsm2.conf")
        os.makedirs(self.tokendir, exist_ok=True)
        self.backend = backend
        self.write_conf(backend, mechanisms, umask, extra_conf)

    def write_conf(self, backend=None, mechanisms="ALL", umask="0077", extra_conf=""):
        backend = backend or self.backend
        self.backend = backend
        with open(self.conf, "w") as f:
            f.write("directories.tokendir = %s\n" % self.tokendir)
            f.write("objectstore.backend = %s\n" % backend)
            if umask is not None:
                f.write("objectstore.umask = %s\n" % umask)
            f.write("log.level = ERROR\n")
            f.write("slots.removable = false\n")
            f.write("slots.mechanisms = %s\n" % mechanisms)
            f.write("library.reset_on_fork = false\n")
            f.write(extra_conf)

    def worker(self, variant="ossl-asan", **kw):
        return Worker(variant=variant, conf=self.conf, **kw)

    def remove(self):
        shutil.rmtree(self.root, ignore_errors=True)


class Env:
    """Scratch root of one check run, under /dev/shm (tmpfs)."""

    def __init__(self, tag="run"):
        base = "/dev/shm" if os.path.isdir("/dev/shm") else tempfile.gettempdir()
        self.root = tempfile.mkdtemp(prefix="verif.%s.%d." % (tag, os.getpid()), dir=base)
        self.n = 0

    def sandbox(self, template=None, **kw):
        self.n += 1
        root = os.path.join(self.root, "sb%d" % self.n)
        os.makedirs(root)
        if template is not None:
            kw.setdefault("backend", template.backend)
        sb = Sandbox(root, **kw)
        if template is not None:
            shutil.rmtree(sb.tokendir)
            shutil.copytree(template.sandbox.tokendir, sb.tokendir, symlinks=True)
        return sb

    def cleanup(self):
        shutil.rmtree(self.root, ignore_errors=True)


class TokenInfo:
    def __init__(self, label, so_pin, user_pin):
        self.label = label
        self.so_pin = so_pin
        self.user_pin = user_pin
        self.serial = None
        self.slot = None       # slot id after a restart (derived from the serial)

    def as_dict(self):
        return {"label": self.label, "so_pin": hx(self.so_pin), "user_pin": hx(self.user_pin) if self.user_pin else None,
                "serial": self.serial, "slot": self.slot}


class Template:
    """A token directory initialised once and copied for every example."""

    def __init__(self, env, ntokens=2, backend="file", variant="ossl-asan", so_pins=None, user_pins=None):
        self.backend = backend
        self.sandbox = env.sandbox(backend=backend)
        self.tokens = []
        w = self.sandbox.worker(variant)
        try:
            assert w.C_Initialize()["rv"] == 0
            for i in range(ntokens):
                so = (so_pins or [SO_PIN + b"%d" % k for k in range(ntokens)])[i]
                up = (user_pins or [USER_PIN + b"%d" % k for k in range(ntokens)])[i]
                t = TokenInfo("tok%d" % i, so, up)
                slots = w.C_GetSlotList()["slots"]
                free = slots[-1]
                r = w.C_InitToken(slot=free, pin=hx(so), label=hx(label32(t.label)))
                assert r["rv"] == 0, r
                if up is not None:
                    s = w.C_OpenSession(slot=free, flags=K.CKF_SERIAL_SESSION | K.CKF_RW_SESSION)["h"]
                    assert w.C_Login(s=s, user=K.CKU_SO, pin=hx(so))["rv"] == 0
                    assert w.C_InitPIN(s=s, pin=hx(up))["rv"] == 0
                    assert w.C_Logout(s=s)["rv"] == 0
                    assert w.C_CloseSession(s=s)["rv"] == 0
                ti = w.C_GetTokenInfo(slot=free)
                t.serial = bytes.fromhex(ti["serial"]).decode().strip()
                t.slot = int(t.serial[-8:], 16) & 0x7FFFFFFF
                self.tokens.append(t)
            assert w.C_Finalize()["rv"] == 0
        finally:
            w.close()


def slots_by_label(w):
    """-> {label: slot} for initialised tokens, plus '' -> free slot"""
    out = {}
    for s in w.C_GetSlotList()["slots"]:
        ti = w.C_GetTokenInfo(slot=s)
        if ti["rv"] != 0:
            continue
        if ti["flags"] & K.CKF_TOKEN_INITIALIZED:
            out[bytes.fromhex(ti["label"]).decode("latin-1").rstrip()] = s
        else:
            out[""] = s
    return out


class Stage:
    """A sandbox + worker pair that is reset to a pristine copy of a template before every example.

    With reuse=True the worker process survives between examples (C_Finalize, restore directory, C_Initialize);
    confirmations and replays use reuse=False (fresh process)."""

    def __init__(self, env, template, variant="ossl-asan", reuse=True, init_args=None, **sbkw):
        self.env = env
        self.template = template
        self.variant = variant
        self.reuse = reuse
        self.sbkw = sbkw
        self.init_args = init_args or {}
        self.sb = env.sandbox(template=template, **sbkw)
        self.w = None
        self.initialised = False

    def _restore(self):
        shutil.rmtree(self.sb.tokendir, ignore_errors=True)
        if self.template is not None:
            shutil.copytree(self.template.sandbox.tokendir, self.sb.tokendir, symlinks=True)
        else:
            os.makedirs(self.sb.tokendir)

    def fresh(self, initialize=True):
        if self.w is not None and (self.w.dead or not self.reuse or self.w.p.poll() is not None):
            self.w.kill()
            self.w = None
        if self.w is not None and self.initialised:
            try:
                r = self.w.C_Finalize()
                if r["rv"] != 0:
                    self.w.kill()
                    self.w = None
            except Exception:
                self.w.kill() if self.w else None
                self.w = None
        self.initialised = False
        self._restore()
        if self.w is None:
            self.w = self.sb.worker(self.variant)
        if initialize:
            r = self.w.C_Initialize(**self.init_args)
            if r["rv"] != 0:
                raise RuntimeError("C_Initialize failed on a pristine template: %r" % r)
            self.initialised = True
        return self.w

    def reinit(self):
        """C_Finalize + C_Initialize in the same process on the same directory."""
        r1 = self.w.C_Finalize()
        r2 = self.w.C_Initialize(**self.init_args)
        self.initialised = r2["rv"] == 0
        return r1, r2

    def restart(self, initialize=True):
        """New process on the same directory."""
        if self.w is not None:
            try:
                if self.initialised:
                    self.w.C_Finalize()
            except Exception:
                pass
            self.w.close()
        self.w = self.sb.worker(self.variant)
        self.initialised = False
        if initialize:
            r = self.w.C_Initialize(**self.init_args)
            self.initialised = r["rv"] == 0
            return r
        return None

    def done(self):
        if self.w is not None:
            self.w.close()
            self.w = None
        self.sb.remove()
