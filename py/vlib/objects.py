"""Object world shared by the object-management properties: attribute kinds, class table, template builders,
census decoding.  The class table is transcribed from PKCS#11 v2.40 (sections 4.4-4.10 and the mechanism
specification) restricted to what the token can create."""
import json
import os
import struct

from . import consts as K

VERIF = os.path.dirname(os.path.dirname(os.path.dirname(os.path.abspath(__file__))))

BOOL_ATTRS = ["CKA_TOKEN", "CKA_PRIVATE", "CKA_MODIFIABLE", "CKA_COPYABLE", "CKA_DESTROYABLE", "CKA_TRUSTED",
              "CKA_SENSITIVE", "CKA_ENCRYPT", "CKA_DECRYPT", "CKA_WRAP", "CKA_UNWRAP", "CKA_SIGN", "CKA_SIGN_RECOVER",
              "CKA_VERIFY", "CKA_VERIFY_RECOVER", "CKA_DERIVE", "CKA_EXTRACTABLE", "CKA_LOCAL", "CKA_NEVER_EXTRACTABLE",
              "CKA_ALWAYS_SENSITIVE", "CKA_ALWAYS_AUTHENTICATE", "CKA_WRAP_WITH_TRUSTED"]
ULONG_ATTRS = ["CKA_CLASS", "CKA_KEY_TYPE", "CKA_CERTIFICATE_TYPE", "CKA_CERTIFICATE_CATEGORY",
               "CKA_JAVA_MIDP_SECURITY_DOMAIN", "CKA_KEY_GEN_MECHANISM", "CKA_MODULUS_BITS", "CKA_PRIME_BITS",
               "CKA_SUB_PRIME_BITS", "CKA_VALUE_BITS", "CKA_VALUE_LEN", "CKA_NAME_HASH_ALGORITHM"]
MECHS_ATTRS = ["CKA_ALLOWED_MECHANISMS"]
TPL_ATTRS = ["CKA_WRAP_TEMPLATE", "CKA_UNWRAP_TEMPLATE"]
BYTES_ATTRS = ["CKA_LABEL", "CKA_APPLICATION", "CKA_VALUE", "CKA_OBJECT_ID", "CKA_ISSUER", "CKA_SERIAL_NUMBER",
               "CKA_SUBJECT", "CKA_ID", "CKA_URL", "CKA_HASH_OF_SUBJECT_PUBLIC_KEY", "CKA_HASH_OF_ISSUER_PUBLIC_KEY",
               "CKA_CHECK_VALUE", "CKA_START_DATE", "CKA_END_DATE", "CKA_MODULUS", "CKA_PUBLIC_EXPONENT",
               "CKA_PRIVATE_EXPONENT", "CKA_PRIME_1", "CKA_PRIME_2", "CKA_EXPONENT_1", "CKA_EXPONENT_2",
               "CKA_COEFFICIENT", "CKA_PRIME", "CKA_SUBPRIME", "CKA_BASE", "CKA_EC_PARAMS", "CKA_EC_POINT",
               "CKA_PUBLIC_KEY_INFO"]

KIND = {}
for _n in BOOL_ATTRS:
    KIND[K.C[_n]] = "bool"
for _n in ULONG_ATTRS:
    KIND[K.C[_n]] = "ulong"
for _n in MECHS_ATTRS:
    KIND[K.C[_n]] = "mechs"
for _n in TPL_ATTRS:
    KIND[K.C[_n]] = "tpl"
for _n in BYTES_ATTRS:
    KIND[K.C[_n]] = "bytes"

ALL_ATTRS = [K.C[n] for n in BOOL_ATTRS + ULONG_ATTRS + MECHS_ATTRS + BYTES_ATTRS + TPL_ATTRS]
CENSUS_ATTRS = ALL_ATTRS

SECRET_ATTRS = ["CKA_VALUE", "CKA_PRIVATE_EXPONENT", "CKA_PRIME_1", "CKA_PRIME_2", "CKA_EXPONENT_1", "CKA_EXPONENT_2",
                "CKA_COEFFICIENT"]


def kind_of(t):
    return KIND.get(K.c(t), "bytes")


def A(name, value):
    """template entry from a symbolic name and a python value"""
    t = K.c(name)
    k = kind_of(t)
    if k == "bool":
        return [t, "bool", bool(value)]
    if k == "ulong":
        return [t, "ulong", K.c(value)]
    if k == "mechs":
        return [t, "mechs", [K.c(x) for x in value]]
    if k == "tpl":
        return [t, "tpl", [A(n, v) for n, v in value]]
    if isinstance(value, str):
        return [t, "bytes", value]              # already hex
    return [t, "bytes", bytes(value).hex()]


def T(*pairs, **kw):
    """template from (name, value) pairs"""
    out = [A(n, v) for n, v in pairs]
    out += [A("CKA_" + n.upper(), v) for n, v in kw.items()]
    return out


def tpl_names(tpl):
    return [[K.name("CKA", e[0]), e[1], e[2]] for e in tpl]


def decode_value(t, hexval):
    """census hex -> python value by attribute kind"""
    if hexval is None:
        return None
    k = kind_of(t)
    if k == "tpl":
        return [[e[0], decode_value(e[0], e[1])] for e in hexval] if isinstance(hexval, list) else hexval
    b = bytes.fromhex(hexval)
    if k == "bool":
        return (b != b"\x00") if len(b) == 1 else ("raw:" + hexval)
    if k == "ulong":
        return struct.unpack("<Q", b)[0] if len(b) == 8 else ("raw:" + hexval)
    if k == "mechs":
        return sorted(struct.unpack("<%dQ" % (len(b) // 8), b)) if len(b) % 8 == 0 else ("raw:" + hexval)
    return hexval


def decode_census(objs):
    """worker census 'objects' -> {handle(int): {attrtype(int): value}} with unavailable attributes omitted"""
    out = {}
    for h, attrs in objs.items():
        d = {}
        for t, (rv, val, ln) in attrs.items():
            t = int(t)
            if rv != 0 or val is None:
                if rv not in (0, K.CKR_ATTRIBUTE_TYPE_INVALID, K.CKR_ATTRIBUTE_SENSITIVE):
                    d[t] = "ERR:" + K.rvname(rv)
                continue
            d[t] = decode_value(t, val)
        out[int(h)] = d
    return out


def census(w, s, types=None, tpl=None):
    r = w.census(s=s, types=types or CENSUS_ATTRS, **({"tpl": tpl} if tpl else {}))
    return r["rv"], decode_census(r.get("objects", {}))


def show(attrs):
    return {K.name("CKA", t): v for t, v in sorted(attrs.items())}


# ---------------------------------------------------------------------------------------------------
# key pool (fixtures/keypool.json): generated once, committed; material for importable keys
_pool = None


def keypool():
    global _pool
    if _pool is None:
        _pool = json.load(open(os.path.join(VERIF, "fixtures", "keypool.json")))
    return _pool


# Object classes the token can create via C_CreateObject.  For each: the fixed part of the template and the
# attribute names the class defines beyond the common ones (used by generators of optional attributes).
COMMON_OPT = ["CKA_LABEL", "CKA_MODIFIABLE", "CKA_COPYABLE", "CKA_DESTROYABLE"]
KEY_OPT = ["CKA_ID", "CKA_START_DATE", "CKA_END_DATE", "CKA_DERIVE", "CKA_ALLOWED_MECHANISMS"]
PUB_OPT = ["CKA_SUBJECT", "CKA_ENCRYPT", "CKA_VERIFY", "CKA_VERIFY_RECOVER", "CKA_WRAP", "CKA_WRAP_TEMPLATE"]
PRIV_OPT = ["CKA_SUBJECT", "CKA_SENSITIVE", "CKA_DECRYPT", "CKA_SIGN", "CKA_SIGN_RECOVER", "CKA_UNWRAP",
            "CKA_EXTRACTABLE", "CKA_WRAP_WITH_TRUSTED", "CKA_UNWRAP_TEMPLATE", "CKA_ALWAYS_AUTHENTICATE"]
SECRET_OPT = ["CKA_SENSITIVE", "CKA_ENCRYPT", "CKA_DECRYPT", "CKA_SIGN", "CKA_VERIFY", "CKA_WRAP", "CKA_UNWRAP",
              "CKA_EXTRACTABLE", "CKA_WRAP_WITH_TRUSTED", "CKA_WRAP_TEMPLATE", "CKA_UNWRAP_TEMPLATE"]


def _kp(kind, idx=0):
    lst = keypool()[kind]
    return lst[idx % len(lst)]


def base_template(cls, variant=0):
    """-> list of (name, value) pairs that make a valid C_CreateObject template for class `cls` (without TOKEN/PRIVATE)."""
    v = variant
    if cls == "data":
        return [("CKA_CLASS", "CKO_DATA")]
    if cls == "cert_x509":
        return [("CKA_CLASS", "CKO_CERTIFICATE"), ("CKA_CERTIFICATE_TYPE", "CKC_X_509"),
                ("CKA_SUBJECT", b"subject-%d" % v), ("CKA_VALUE", b"\x30\x03\x02\x01" + bytes([v % 256]))]
    if cls == "cert_pgp":
        return [("CKA_CLASS", "CKO_CERTIFICATE"), ("CKA_CERTIFICATE_TYPE", "CKC_OPENPGP"),
                ("CKA_SUBJECT", b"pgp-subject-%d" % v), ("CKA_VALUE", b"pgp-value-%d" % v)]
    if cls in ("aes", "des", "des2", "des3", "generic"):
        ln = {"aes": [16, 24, 32][v % 3], "des": 8, "des2": 16, "des3": 24, "generic": [20, 32, 5, 64][v % 4]}[cls]
        kt = {"aes": "CKK_AES", "des": "CKK_DES", "des2": "CKK_DES2", "des3": "CKK_DES3", "generic": "CKK_GENERIC_SECRET"}[cls]
        val = bytes(((v * 37 + i * 11 + 1) & 0xFE) | 1 if cls.startswith("des") else (v * 37 + i * 11 + 1) & 0xFF for i in range(ln))
        return [("CKA_CLASS", "CKO_SECRET_KEY"), ("CKA_KEY_TYPE", kt), ("CKA_VALUE", val)]
    if cls == "rsa_pub":
        k = _kp("rsa", v)
        return [("CKA_CLASS", "CKO_PUBLIC_KEY"), ("CKA_KEY_TYPE", "CKK_RSA"), ("CKA_MODULUS", k["n"]),
                ("CKA_PUBLIC_EXPONENT", k["e"])]
    if cls == "rsa_priv":
        k = _kp("rsa", v)
        return [("CKA_CLASS", "CKO_PRIVATE_KEY"), ("CKA_KEY_TYPE", "CKK_RSA"), ("CKA_MODULUS", k["n"]),
                ("CKA_PUBLIC_EXPONENT", k["e"]), ("CKA_PRIVATE_EXPONENT", k["d"]), ("CKA_PRIME_1", k["p"]),
                ("CKA_PRIME_2", k["q"]), ("CKA_EXPONENT_1", k["dp"]), ("CKA_EXPONENT_2", k["dq"]),
                ("CKA_COEFFICIENT", k["qinv"])]
    if cls == "dsa_pub":
        k = _kp("dsa", v)
        return [("CKA_CLASS", "CKO_PUBLIC_KEY"), ("CKA_KEY_TYPE", "CKK_DSA"), ("CKA_PRIME", k["p"]),
                ("CKA_SUBPRIME", k["q"]), ("CKA_BASE", k["g"]), ("CKA_VALUE", k["y"])]
    if cls == "dsa_priv":
        k = _kp("dsa", v)
        return [("CKA_CLASS", "CKO_PRIVATE_KEY"), ("CKA_KEY_TYPE", "CKK_DSA"), ("CKA_PRIME", k["p"]),
                ("CKA_SUBPRIME", k["q"]), ("CKA_BASE", k["g"]), ("CKA_VALUE", k["x"])]
    if cls == "dh_pub":
        k = _kp("dh", v)
        return [("CKA_CLASS", "CKO_PUBLIC_KEY"), ("CKA_KEY_TYPE", "CKK_DH"), ("CKA_PRIME", k["p"]),
                ("CKA_BASE", k["g"]), ("CKA_VALUE", k["y"])]
    if cls == "dh_priv":
        k = _kp("dh", v)
        return [("CKA_CLASS", "CKO_PRIVATE_KEY"), ("CKA_KEY_TYPE", "CKK_DH"), ("CKA_PRIME", k["p"]),
                ("CKA_BASE", k["g"]), ("CKA_VALUE", k["x"])]
    if cls == "ec_pub":
        k = _kp("ec", v)
        return [("CKA_CLASS", "CKO_PUBLIC_KEY"), ("CKA_KEY_TYPE", "CKK_EC"), ("CKA_EC_PARAMS", k["params"]),
                ("CKA_EC_POINT", k["point"])]
    if cls == "ec_priv":
        k = _kp("ec", v)
        return [("CKA_CLASS", "CKO_PRIVATE_KEY"), ("CKA_KEY_TYPE", "CKK_EC"), ("CKA_EC_PARAMS", k["params"]),
                ("CKA_VALUE", k["d"])]
    if cls == "ed_pub":
        k = _kp("ed", v)
        return [("CKA_CLASS", "CKO_PUBLIC_KEY"), ("CKA_KEY_TYPE", "CKK_EC_EDWARDS"), ("CKA_EC_PARAMS", k["params"]),
                ("CKA_EC_POINT", k["point"])]
    if cls == "ed_priv":
        k = _kp("ed", v)
        return [("CKA_CLASS", "CKO_PRIVATE_KEY"), ("CKA_KEY_TYPE", "CKK_EC_EDWARDS"), ("CKA_EC_PARAMS", k["params"]),
                ("CKA_VALUE", k["d"])]
    if cls == "dsa_params":
        k = _kp("dsa", v)
        return [("CKA_CLASS", "CKO_DOMAIN_PARAMETERS"), ("CKA_KEY_TYPE", "CKK_DSA"), ("CKA_PRIME", k["p"]),
                ("CKA_SUBPRIME", k["q"]), ("CKA_BASE", k["g"])]
    if cls == "dh_params":
        k = _kp("dh", v)
        return [("CKA_CLASS", "CKO_DOMAIN_PARAMETERS"), ("CKA_KEY_TYPE", "CKK_DH"), ("CKA_PRIME", k["p"]),
                ("CKA_BASE", k["g"])]
    raise KeyError(cls)


CLASSES = ["data", "cert_x509", "cert_pgp", "aes", "des", "des2", "des3", "generic", "rsa_pub", "rsa_priv", "dsa_pub",
           "dsa_priv", "dh_pub", "dh_priv", "ec_pub", "ec_priv", "ed_pub", "ed_priv", "dsa_params", "dh_params"]
LIGHT_CLASSES = ["data", "cert_x509", "aes", "des3", "generic", "rsa_pub", "rsa_priv", "ec_pub", "ec_priv", "ed_priv",
                 "dsa_params"]


def class_kind(cls):
    if cls in ("aes", "des", "des2", "des3", "generic"):
        return "secret"
    if cls.endswith("_pub"):
        return "public"
    if cls.endswith("_priv"):
        return "private"
    if cls.startswith("cert"):
        return "cert"
    if cls.endswith("_params"):
        return "domain"
    return "data"


def optional_attrs(cls):
    k = class_kind(cls)
    if k == "data":
        return COMMON_OPT + ["CKA_APPLICATION", "CKA_OBJECT_ID", "CKA_VALUE"]
    if k == "cert":
        return COMMON_OPT + ["CKA_ID", "CKA_ISSUER", "CKA_SERIAL_NUMBER", "CKA_START_DATE", "CKA_END_DATE"]
    if k == "public":
        return COMMON_OPT + KEY_OPT + PUB_OPT
    if k == "private":
        return COMMON_OPT + KEY_OPT + PRIV_OPT
    if k == "secret":
        return COMMON_OPT + KEY_OPT + SECRET_OPT
    return COMMON_OPT


def default_private(cls):
    """PKCS#11 / token default of CKA_PRIVATE when the template omits it"""
    return class_kind(cls) not in ("cert", "public")


def usage_all(kind, token=False, private=False):
    """every usage flag the class kind defines, true: (name, value) pairs for T()"""
    common = [("CKA_TOKEN", token), ("CKA_PRIVATE", private)]
    if kind == "public":
        return common + [("CKA_ENCRYPT", True), ("CKA_VERIFY", True), ("CKA_WRAP", True), ("CKA_DERIVE", True)]
    if kind == "private":
        return common + [("CKA_DECRYPT", True), ("CKA_SIGN", True), ("CKA_UNWRAP", True), ("CKA_DERIVE", True),
                         ("CKA_SENSITIVE", False), ("CKA_EXTRACTABLE", True)]
    return common + [("CKA_ENCRYPT", True), ("CKA_DECRYPT", True), ("CKA_SIGN", True), ("CKA_VERIFY", True), ("CKA_WRAP", True),
                     ("CKA_UNWRAP", True), ("CKA_DERIVE", True), ("CKA_SENSITIVE", False), ("CKA_EXTRACTABLE", True)]
