// p11worker — JSON-lines executor: one process = one PKCS#11 application (DESIGN.md 1.2).
// Reads one JSON object per line on stdin, answers one JSON line on stdout.
// All symbolic names are resolved on the Python side; the worker sees numbers only.
#include <nlohmann/json.hpp>
#include <cstdio>
#include <cstdlib>
#include <cstring>
#include <string>
#include <vector>
#include <map>
#include <memory>
#include <functional>
#include <iostream>
#include <unistd.h>
#include <signal.h>
#include <sys/stat.h>
#include <sys/resource.h>
#include "cryptoki.h"
#include "fs_shim.h"

using json = nlohmann::json;

static const size_t PAD = 64;
static const unsigned char CAN = 0xC5;   // canary around the announced buffer
static const unsigned char FILL = 0xA5;  // initial content of the announced buffer

static std::string hex(const unsigned char* p, size_t n)
{
	static const char* d = "0123456789abcdef";
	std::string s;
	s.reserve(n * 2);
	for (size_t i = 0; i < n; i++) { s.push_back(d[p[i] >> 4]); s.push_back(d[p[i] & 15]); }
	return s;
}

static std::vector<unsigned char> unhex(const std::string& s)
{
	std::vector<unsigned char> v;
	v.reserve(s.size() / 2);
	auto nib = [](char c) -> int { return c <= '9' ? c - '0' : (c | 32) - 'a' + 10; };
	for (size_t i = 0; i + 1 < s.size(); i += 2) v.push_back((unsigned char)(nib(s[i]) << 4 | nib(s[i + 1])));
	return v;
}

// Memory handed to the library lives in an arena for the duration of one command.
struct Arena
{
	std::vector<void*> ptrs;
	~Arena() { for (void* p : ptrs) free(p); }
	void* alloc(size_t n)
	{
		void* p = malloc(n);  // malloc(0) is a valid pointer with zero accessible bytes under ASan
		ptrs.push_back(p);
		return p;
	}
	unsigned char* bytes(const std::vector<unsigned char>& v)
	{
		unsigned char* p = (unsigned char*)alloc(v.size());
		if (!v.empty()) memcpy(p, &v[0], v.size());
		return p;
	}
};

// An input buffer: hex string -> exact allocation; null -> NULL pointer, length 0;
// {"null":true,"len":n} -> NULL pointer with a claimed length; {"hex":..,"len":n} -> mismatched length
struct InBuf
{
	unsigned char* p = NULL;
	CK_ULONG len = 0;
};

static InBuf inbuf(Arena& a, const json& j)
{
	InBuf b;
	if (j.is_null()) return b;
	if (j.is_string())
	{
		std::vector<unsigned char> v = unhex(j.get<std::string>());
		b.p = a.bytes(v);
		b.len = v.size();
		return b;
	}
	if (j.is_object())
	{
		if (j.value("null", false)) { b.p = NULL; b.len = j.value("len", (CK_ULONG)0); return b; }
		std::vector<unsigned char> v = unhex(j.value("hex", std::string()));
		b.p = a.bytes(v);
		b.len = j.contains("len") ? j["len"].get<CK_ULONG>() : v.size();
		return b;
	}
	return b;
}

// An output buffer of exactly `announce` bytes inside canary pads.
struct OutBuf
{
	unsigned char* base = NULL;
	unsigned char* p = NULL;  // NULL = size query
	size_t n = 0;             // allocated (true) size
	CK_ULONG len = 0;         // in: announced, out: reported
	CK_ULONG announced = 0;
};

static OutBuf outbuf(Arena& a, const json& cmd, const char* key = "out", const char* lenkey = "outlen")
{
	OutBuf o;
	if (cmd.contains(key) && cmd[key].is_number())
	{
		o.n = cmd[key].get<size_t>();
		o.base = (unsigned char*)a.alloc(o.n + 2 * PAD);
		memset(o.base, CAN, o.n + 2 * PAD);
		o.p = o.base + PAD;
		memset(o.p, FILL, o.n);
		o.len = o.n;
	}
	if (cmd.contains(lenkey) && cmd[lenkey].is_number()) o.len = cmd[lenkey].get<CK_ULONG>();
	o.announced = o.len;
	return o;
}

static json outres(const OutBuf& o, CK_RV rv)
{
	json r;
	r["len"] = o.len;
	if (o.p)
	{
		bool canary = true;
		for (size_t i = 0; i < PAD; i++) if (o.base[i] != CAN || o.base[PAD + o.n + i] != CAN) canary = false;
		r["canary"] = canary;
		size_t used = (rv == CKR_OK && o.len <= o.n) ? o.len : 0;
		bool tail = true;
		for (size_t i = used; i < o.n; i++) if (o.p[i] != FILL) tail = false;
		r["tail"] = tail;  // bytes behind the reported length (or all bytes when the call failed) untouched
		if (rv == CKR_OK && o.len <= o.n) r["data"] = hex(o.p, o.len);
		else if (!tail) r["dirty"] = hex(o.p, o.n);
	}
	return r;
}

// ---------------------------------------------------------------------------------------------
// Templates
// entry: [type, kind, value]
static void build_template(Arena& a, const json& t, std::vector<CK_ATTRIBUTE>& out)
{
	if (!t.is_array()) return;
	for (const json& e : t)
	{
		CK_ATTRIBUTE at;
		at.type = e[0].get<CK_ULONG>();
		std::string kind = e[1].get<std::string>();
		const json& v = e[2];
		if (kind == "bool")
		{
			CK_BBOOL* b = (CK_BBOOL*)a.alloc(1);
			*b = v.is_boolean() ? (v.get<bool>() ? CK_TRUE : CK_FALSE) : (CK_BBOOL)v.get<unsigned>();
			at.pValue = b; at.ulValueLen = 1;
		}
		else if (kind == "ulong")
		{
			CK_ULONG* u = (CK_ULONG*)a.alloc(sizeof(CK_ULONG));
			*u = v.get<CK_ULONG>();
			at.pValue = u; at.ulValueLen = sizeof(CK_ULONG);
		}
		else if (kind == "bytes")
		{
			std::vector<unsigned char> b = unhex(v.get<std::string>());
			at.pValue = a.bytes(b); at.ulValueLen = b.size();
		}
		else if (kind == "mechs")
		{
			CK_MECHANISM_TYPE* m = (CK_MECHANISM_TYPE*)a.alloc(sizeof(CK_MECHANISM_TYPE) * v.size());
			for (size_t i = 0; i < v.size(); i++) m[i] = v[i].get<CK_ULONG>();
			at.pValue = m; at.ulValueLen = sizeof(CK_MECHANISM_TYPE) * v.size();
		}
		else if (kind == "tpl")
		{
			std::vector<CK_ATTRIBUTE> inner;
			build_template(a, v, inner);
			CK_ATTRIBUTE* p = (CK_ATTRIBUTE*)a.alloc(sizeof(CK_ATTRIBUTE) * inner.size());
			for (size_t i = 0; i < inner.size(); i++) p[i] = inner[i];
			at.pValue = p; at.ulValueLen = sizeof(CK_ATTRIBUTE) * inner.size();
		}
		else if (kind == "raw")
		{
			// {"len": n, "null": bool, "hex": ...}: arbitrary (pointer, length) shapes
			InBuf b = inbuf(a, v);
			at.pValue = b.p; at.ulValueLen = b.len;
		}
		else
		{
			at.pValue = NULL; at.ulValueLen = 0;
		}
		out.push_back(at);
	}
}

struct Tpl
{
	std::vector<CK_ATTRIBUTE> v;
	CK_ATTRIBUTE* p = NULL;
	CK_ULONG n = 0;
};

static Tpl tpl(Arena& a, const json& cmd, const char* key = "tpl")
{
	Tpl t;
	if (!cmd.contains(key) || cmd[key].is_null()) return t;
	const json& j = cmd[key];
	if (j.is_object())
	{
		// {"null": true, "count": n}
		t.p = NULL; t.n = j.value("count", (CK_ULONG)0);
		return t;
	}
	build_template(a, j, t.v);
	t.n = t.v.size();
	// exact allocation so ASan sees reads past the template
	t.p = (CK_ATTRIBUTE*)a.alloc(sizeof(CK_ATTRIBUTE) * t.n);
	for (size_t i = 0; i < t.n; i++) t.p[i] = t.v[i];
	if (cmd.contains(std::string(key) + "_count")) t.n = cmd[std::string(key) + "_count"].get<CK_ULONG>();
	return t;
}

// ---------------------------------------------------------------------------------------------
// Mechanisms: {"m": number, "p": null | {"raw": hex} | {"gcm":{..}} | ...}
struct Mech
{
	CK_MECHANISM m;
	CK_MECHANISM* p = NULL;
};

static void build_mech(Arena& a, const json& j, Mech& out)
{
	if (j.is_null()) { out.p = NULL; return; }
	out.p = (CK_MECHANISM*)a.alloc(sizeof(CK_MECHANISM));
	CK_MECHANISM& m = *out.p;
	m.mechanism = j["m"].get<CK_ULONG>();
	m.pParameter = NULL;
	m.ulParameterLen = 0;
	if (!j.contains("p") || j["p"].is_null()) return;
	const json& p = j["p"];
	if (p.contains("raw"))
	{
		InBuf b = inbuf(a, p["raw"]);
		m.pParameter = b.p; m.ulParameterLen = b.len;
	}
	else if (p.contains("gcm"))
	{
		const json& g = p["gcm"];
		CK_GCM_PARAMS* q = (CK_GCM_PARAMS*)a.alloc(sizeof(CK_GCM_PARAMS));
		InBuf iv = inbuf(a, g.value("iv", json()));
		InBuf aad = inbuf(a, g.value("aad", json()));
		q->pIv = iv.p; q->ulIvLen = iv.len; q->ulIvBits = g.value("ivBits", (CK_ULONG)(iv.len * 8));
		q->pAAD = aad.p; q->ulAADLen = aad.len; q->ulTagBits = g.value("tagBits", (CK_ULONG)128);
		m.pParameter = q; m.ulParameterLen = sizeof(CK_GCM_PARAMS);
	}
	else if (p.contains("ctr"))
	{
		const json& g = p["ctr"];
		CK_AES_CTR_PARAMS* q = (CK_AES_CTR_PARAMS*)a.alloc(sizeof(CK_AES_CTR_PARAMS));
		q->ulCounterBits = g.value("bits", (CK_ULONG)128);
		std::vector<unsigned char> cb = unhex(g.value("cb", std::string()));
		cb.resize(16);
		memcpy(q->cb, &cb[0], 16);
		m.pParameter = q; m.ulParameterLen = sizeof(CK_AES_CTR_PARAMS);
	}
	else if (p.contains("pss"))
	{
		const json& g = p["pss"];
		CK_RSA_PKCS_PSS_PARAMS* q = (CK_RSA_PKCS_PSS_PARAMS*)a.alloc(sizeof(CK_RSA_PKCS_PSS_PARAMS));
		q->hashAlg = g["hash"].get<CK_ULONG>(); q->mgf = g["mgf"].get<CK_ULONG>(); q->sLen = g["slen"].get<CK_ULONG>();
		m.pParameter = q; m.ulParameterLen = sizeof(CK_RSA_PKCS_PSS_PARAMS);
	}
	else if (p.contains("oaep"))
	{
		const json& g = p["oaep"];
		CK_RSA_PKCS_OAEP_PARAMS* q = (CK_RSA_PKCS_OAEP_PARAMS*)a.alloc(sizeof(CK_RSA_PKCS_OAEP_PARAMS));
		q->hashAlg = g["hash"].get<CK_ULONG>(); q->mgf = g["mgf"].get<CK_ULONG>();
		q->source = g.value("source", (CK_ULONG)CKZ_DATA_SPECIFIED);
		InBuf sd = inbuf(a, g.value("sourceData", json()));
		q->pSourceData = sd.p; q->ulSourceDataLen = sd.len;
		m.pParameter = q; m.ulParameterLen = sizeof(CK_RSA_PKCS_OAEP_PARAMS);
	}
	else if (p.contains("ecdh"))
	{
		const json& g = p["ecdh"];
		CK_ECDH1_DERIVE_PARAMS* q = (CK_ECDH1_DERIVE_PARAMS*)a.alloc(sizeof(CK_ECDH1_DERIVE_PARAMS));
		q->kdf = g.value("kdf", (CK_ULONG)CKD_NULL);
		InBuf sd = inbuf(a, g.value("shared", json()));
		InBuf pd = inbuf(a, g.value("pub", json()));
		q->ulSharedDataLen = sd.len; q->pSharedData = sd.p;
		q->ulPublicDataLen = pd.len; q->pPublicData = pd.p;
		m.pParameter = q; m.ulParameterLen = sizeof(CK_ECDH1_DERIVE_PARAMS);
	}
	else if (p.contains("strdata"))
	{
		CK_KEY_DERIVATION_STRING_DATA* q = (CK_KEY_DERIVATION_STRING_DATA*)a.alloc(sizeof(CK_KEY_DERIVATION_STRING_DATA));
		InBuf d = inbuf(a, p["strdata"]);
		q->pData = d.p; q->ulLen = d.len;
		m.pParameter = q; m.ulParameterLen = sizeof(CK_KEY_DERIVATION_STRING_DATA);
	}
	else if (p.contains("cbcenc"))
	{
		const json& g = p["cbcenc"];
		std::vector<unsigned char> iv = unhex(g.value("iv", std::string()));
		InBuf d = inbuf(a, g.value("data", json()));
		if (g.value("ivlen", 16) == 8)
		{
			CK_DES_CBC_ENCRYPT_DATA_PARAMS* q = (CK_DES_CBC_ENCRYPT_DATA_PARAMS*)a.alloc(sizeof(CK_DES_CBC_ENCRYPT_DATA_PARAMS));
			iv.resize(8); memcpy(q->iv, &iv[0], 8);
			q->pData = d.p; q->length = d.len;
			m.pParameter = q; m.ulParameterLen = sizeof(CK_DES_CBC_ENCRYPT_DATA_PARAMS);
		}
		else
		{
			CK_AES_CBC_ENCRYPT_DATA_PARAMS* q = (CK_AES_CBC_ENCRYPT_DATA_PARAMS*)a.alloc(sizeof(CK_AES_CBC_ENCRYPT_DATA_PARAMS));
			iv.resize(16); memcpy(q->iv, &iv[0], 16);
			q->pData = d.p; q->length = d.len;
			m.pParameter = q; m.ulParameterLen = sizeof(CK_AES_CBC_ENCRYPT_DATA_PARAMS);
		}
	}
	else if (p.contains("ulong"))
	{
		CK_ULONG* q = (CK_ULONG*)a.alloc(sizeof(CK_ULONG));
		*q = p["ulong"].get<CK_ULONG>();
		m.pParameter = q; m.ulParameterLen = sizeof(CK_ULONG);
	}
	if (p.contains("plen")) m.ulParameterLen = p["plen"].get<CK_ULONG>();
}

static Mech mech(Arena& a, const json& cmd, const char* key = "mech")
{
	Mech m;
	if (cmd.contains(key)) build_mech(a, cmd[key], m);
	return m;
}

// ---------------------------------------------------------------------------------------------
static CK_ULONG U(const json& cmd, const char* k, CK_ULONG def = 0)
{
	if (!cmd.contains(k) || !cmd[k].is_number()) return def;
	return cmd[k].get<CK_ULONG>();
}

static std::string trim_right(const unsigned char* p, size_t n)
{
	return hex(p, n);
}

#define CALL(expr) (shim_enter_call(), rv = (expr), shim_leave_call(), rv)

// Read attributes of one object.  Batched: one size query for all plain attributes, one fetch; falls back to
// one-by-one reads when the batched call answers something other than OK / SENSITIVE / TYPE_INVALID.
// returns {type: [rv, hex|null|list, len]}; rv is per attribute (0, CKR_ATTRIBUTE_SENSITIVE/TYPE_INVALID merged as
// "unavailable" = 0x12 in batched mode).
static bool is_tpl_attr(CK_ULONG t) { return t == CKA_WRAP_TEMPLATE || t == CKA_UNWRAP_TEMPLATE || t == CKA_DERIVE_TEMPLATE; }

static json read_one(CK_SESSION_HANDLE s, CK_OBJECT_HANDLE o, CK_ULONG t)
{
	CK_RV rv;
	CK_ATTRIBUTE at = { t, NULL, 0 };
	CALL(C_GetAttributeValue(s, o, &at, 1));
	json e = json::array();
	if (rv != CKR_OK || at.ulValueLen == (CK_ULONG)-1)
	{
		e.push_back(rv); e.push_back(nullptr); e.push_back(at.ulValueLen);
		return e;
	}
	// (a length that is not a multiple of sizeof(CK_ATTRIBUTE) cannot be an attribute array: read it as plain bytes below)
	if (is_tpl_attr(t) && at.ulValueLen % sizeof(CK_ATTRIBUTE) == 0)
	{
		size_t n = at.ulValueLen / sizeof(CK_ATTRIBUTE);
		std::vector<CK_ATTRIBUTE> inner(n);
		for (size_t i = 0; i < n; i++) { inner[i].type = 0; inner[i].pValue = NULL; inner[i].ulValueLen = 0; }
		at.pValue = n ? &inner[0] : NULL;
		CALL(C_GetAttributeValue(s, o, &at, 1));
		std::vector<std::vector<unsigned char> > bufs(n);
		// a stored value that is not really a template (damaged store) fills the array with arbitrary bytes: do not follow them
		for (size_t i = 0; i < n && rv == CKR_OK; i++) if (inner[i].ulValueLen > (1u << 20) || inner[i].pValue != NULL) rv = CKR_GENERAL_ERROR;
		if (rv == CKR_OK)
		{
			for (size_t i = 0; i < n; i++) { bufs[i].resize(inner[i].ulValueLen + 1); inner[i].pValue = &bufs[i][0]; }
			CALL(C_GetAttributeValue(s, o, &at, 1));
		}
		json lst = json::array();
		if (rv == CKR_OK)
			for (size_t i = 0; i < n; i++)
				lst.push_back(json::array({ inner[i].type, hex(&bufs[i][0], inner[i].ulValueLen) }));
		e.push_back(rv); e.push_back(lst); e.push_back(at.ulValueLen);
		return e;
	}
	std::vector<unsigned char> buf(at.ulValueLen + 1);
	at.pValue = &buf[0];
	CALL(C_GetAttributeValue(s, o, &at, 1));
	e.push_back(rv);
	if (rv == CKR_OK && at.ulValueLen != (CK_ULONG)-1) e.push_back(hex(&buf[0], at.ulValueLen)); else e.push_back(nullptr);
	e.push_back(at.ulValueLen);
	return e;
}

static json read_attrs(CK_SESSION_HANDLE s, CK_OBJECT_HANDLE o, const json& types)
{
	json res = json::object();
	CK_RV rv;
	std::vector<CK_ULONG> plain;
	for (const json& tj : types)
	{
		CK_ULONG t = tj.get<CK_ULONG>();
		if (is_tpl_attr(t)) res[std::to_string(t)] = read_one(s, o, t);
		else plain.push_back(t);
	}
	if (plain.empty()) return res;
	std::vector<CK_ATTRIBUTE> at(plain.size());
	for (size_t i = 0; i < plain.size(); i++) { at[i].type = plain[i]; at[i].pValue = NULL; at[i].ulValueLen = 0; }
	CALL(C_GetAttributeValue(s, o, &at[0], at.size()));
	bool batched = (rv == CKR_OK || rv == CKR_ATTRIBUTE_SENSITIVE || rv == CKR_ATTRIBUTE_TYPE_INVALID);
	std::vector<std::vector<unsigned char> > bufs(plain.size());
	if (batched)
	{
		for (size_t i = 0; i < plain.size(); i++)
		{
			if (at[i].ulValueLen == (CK_ULONG)-1) { at[i].pValue = NULL; at[i].ulValueLen = 0; continue; }
			bufs[i].resize(at[i].ulValueLen + 1);
			at[i].pValue = &bufs[i][0];
		}
		CALL(C_GetAttributeValue(s, o, &at[0], at.size()));
		batched = (rv == CKR_OK || rv == CKR_ATTRIBUTE_SENSITIVE || rv == CKR_ATTRIBUTE_TYPE_INVALID);
	}
	if (!batched)
	{
		for (size_t i = 0; i < plain.size(); i++) res[std::to_string(plain[i])] = read_one(s, o, plain[i]);
		return res;
	}
	for (size_t i = 0; i < plain.size(); i++)
	{
		json e = json::array();
		if (at[i].ulValueLen == (CK_ULONG)-1 || at[i].pValue == NULL)
		{
			e.push_back(CKR_ATTRIBUTE_TYPE_INVALID); e.push_back(nullptr); e.push_back((CK_ULONG)-1);
		}
		else
		{
			e.push_back(CKR_OK); e.push_back(hex(&bufs[i][0], at[i].ulValueLen)); e.push_back(at[i].ulValueLen);
		}
		res[std::to_string(plain[i])] = e;
	}
	return res;
}

static json find_all(CK_SESSION_HANDLE s, Arena& a, const json& cmd, CK_RV& rvout)
{
	CK_RV rv;
	Tpl t = tpl(a, cmd);
	json handles = json::array();
	CALL(C_FindObjectsInit(s, t.p, t.n));
	rvout = rv;
	if (rv != CKR_OK) return handles;
	for (;;)
	{
		CK_OBJECT_HANDLE h[64];
		CK_ULONG n = 0;
		CALL(C_FindObjects(s, h, 64, &n));
		if (rv != CKR_OK) { rvout = rv; break; }
		for (CK_ULONG i = 0; i < n; i++) handles.push_back(h[i]);
		if (n == 0) break;
	}
	CALL(C_FindObjectsFinal(s));
	return handles;
}

typedef std::function<json(const json&)> Handler;
static std::map<std::string, Handler> H;

static json R(CK_RV rv) { json r; r["rv"] = rv; return r; }

static void register_handlers()
{
	H["C_Initialize"] = [](const json& c) {
		CK_RV rv;
		if (c.contains("conf")) setenv("SOFTHSM2_CONF", c["conf"].get<std::string>().c_str(), 1);
		if (c.value("null_args", false)) { CALL(C_Initialize(NULL)); return R(rv); }
		CK_C_INITIALIZE_ARGS args;
		memset(&args, 0, sizeof(args));
		args.flags = U(c, "flags", CKF_OS_LOCKING_OK);
		if (c.contains("reserved")) args.pReserved = (void*)&args;
		CALL(C_Initialize(&args));
		return R(rv);
	};
	H["C_Finalize"] = [](const json& c) {
		CK_RV rv;
		CALL(C_Finalize(c.value("reserved", false) ? (void*)&rv : NULL));
		return R(rv);
	};
	H["C_GetInfo"] = [](const json& c) {
		CK_RV rv; CK_INFO info; memset(&info, 0, sizeof(info));
		CALL(C_GetInfo(c.value("null", false) ? NULL : &info));
		json r = R(rv);
		if (rv == CKR_OK)
		{
			r["cryptoki"] = { info.cryptokiVersion.major, info.cryptokiVersion.minor };
			r["manufacturer"] = hex(info.manufacturerID, 32);
			r["library"] = { info.libraryVersion.major, info.libraryVersion.minor };
		}
		return r;
	};
	H["C_GetFunctionList"] = [](const json& c) {
		CK_RV rv; CK_FUNCTION_LIST_PTR fl = NULL;
		CALL(C_GetFunctionList(c.value("null", false) ? NULL : &fl));
		json r = R(rv); r["nonnull"] = fl != NULL; return r;
	};
	H["C_GetSlotList"] = [](const json& c) {
		CK_RV rv; Arena a;
		CK_ULONG n = U(c, "count", 0);
		CK_BBOOL present = c.value("present", false) ? CK_TRUE : CK_FALSE;
		json r;
		if (c.value("auto", true) && !c.contains("count"))
		{
			CALL(C_GetSlotList(present, NULL, &n));
			if (rv != CKR_OK) return R(rv);
			CK_SLOT_ID* ids = (CK_SLOT_ID*)a.alloc(sizeof(CK_SLOT_ID) * n);
			CALL(C_GetSlotList(present, ids, &n));
			r = R(rv); r["slots"] = json::array();
			if (rv == CKR_OK) for (CK_ULONG i = 0; i < n; i++) r["slots"].push_back(ids[i]);
			return r;
		}
		CK_SLOT_ID* ids = c.value("null", false) ? NULL : (CK_SLOT_ID*)a.alloc(sizeof(CK_SLOT_ID) * n);
		CK_ULONG cap = n;
		CALL(C_GetSlotList(present, ids, c.value("nullcount", false) ? NULL : &n));
		r = R(rv); r["count"] = n; r["slots"] = json::array();
		if (rv == CKR_OK && ids) for (CK_ULONG i = 0; i < n && i < cap; i++) r["slots"].push_back(ids[i]);
		return r;
	};
	H["C_GetSlotInfo"] = [](const json& c) {
		CK_RV rv; CK_SLOT_INFO info; memset(&info, 0, sizeof(info));
		CALL(C_GetSlotInfo(U(c, "slot"), c.value("null", false) ? NULL : &info));
		json r = R(rv);
		if (rv == CKR_OK) { r["flags"] = info.flags; r["desc"] = hex(info.slotDescription, 64); }
		return r;
	};
	H["C_GetTokenInfo"] = [](const json& c) {
		CK_RV rv; CK_TOKEN_INFO t; memset(&t, 0, sizeof(t));
		CALL(C_GetTokenInfo(U(c, "slot"), c.value("null", false) ? NULL : &t));
		json r = R(rv);
		if (rv == CKR_OK)
		{
			r["label"] = hex(t.label, 32); r["serial"] = hex(t.serialNumber, 16); r["flags"] = t.flags;
			r["model"] = hex(t.model, 16); r["manufacturer"] = hex(t.manufacturerID, 32);
			r["maxpin"] = t.ulMaxPinLen; r["minpin"] = t.ulMinPinLen;
			r["sessions"] = t.ulSessionCount; r["rwsessions"] = t.ulRwSessionCount;
		}
		return r;
	};
	H["C_WaitForSlotEvent"] = [](const json& c) {
		CK_RV rv; CK_SLOT_ID s = 0;
		CALL(C_WaitForSlotEvent(U(c, "flags", CKF_DONT_BLOCK), c.value("null", false) ? NULL : &s, NULL));
		return R(rv);
	};
	H["C_GetMechanismList"] = [](const json& c) {
		CK_RV rv; Arena a; CK_ULONG n = 0;
		if (c.contains("count"))
		{
			n = U(c, "count");
			CK_MECHANISM_TYPE* m = c.value("null", false) ? NULL : (CK_MECHANISM_TYPE*)a.alloc(sizeof(CK_MECHANISM_TYPE) * n);
			CK_ULONG cap = n;
			CALL(C_GetMechanismList(U(c, "slot"), m, c.value("nullcount", false) ? NULL : &n));
			json r = R(rv); r["count"] = n; r["mechs"] = json::array();
			if (rv == CKR_OK && m) for (CK_ULONG i = 0; i < n && i < cap; i++) r["mechs"].push_back(m[i]);
			return r;
		}
		CALL(C_GetMechanismList(U(c, "slot"), NULL, &n));
		if (rv != CKR_OK) return R(rv);
		CK_MECHANISM_TYPE* m = (CK_MECHANISM_TYPE*)a.alloc(sizeof(CK_MECHANISM_TYPE) * n);
		CALL(C_GetMechanismList(U(c, "slot"), m, &n));
		json r = R(rv); r["mechs"] = json::array();
		if (rv == CKR_OK) for (CK_ULONG i = 0; i < n; i++) r["mechs"].push_back(m[i]);
		return r;
	};
	H["C_GetMechanismInfo"] = [](const json& c) {
		CK_RV rv; CK_MECHANISM_INFO mi; memset(&mi, 0, sizeof(mi));
		CALL(C_GetMechanismInfo(U(c, "slot"), U(c, "m"), c.value("null", false) ? NULL : &mi));
		json r = R(rv);
		if (rv == CKR_OK) { r["min"] = mi.ulMinKeySize; r["max"] = mi.ulMaxKeySize; r["flags"] = mi.flags; }
		return r;
	};
	H["C_InitToken"] = [](const json& c) {
		CK_RV rv; Arena a;
		InBuf pin = inbuf(a, c.value("pin", json()));
		InBuf label = inbuf(a, c.value("label", json()));  // 32 bytes, blank padded by the caller
		CALL(C_InitToken(U(c, "slot"), pin.p, pin.len, label.p));
		return R(rv);
	};
	H["C_InitPIN"] = [](const json& c) {
		CK_RV rv; Arena a;
		InBuf pin = inbuf(a, c.value("pin", json()));
		CALL(C_InitPIN(U(c, "s"), pin.p, pin.len));
		return R(rv);
	};
	H["C_SetPIN"] = [](const json& c) {
		CK_RV rv; Arena a;
		InBuf o = inbuf(a, c.value("old", json()));
		InBuf n = inbuf(a, c.value("new", json()));
		CALL(C_SetPIN(U(c, "s"), o.p, o.len, n.p, n.len));
		return R(rv);
	};
	H["C_OpenSession"] = [](const json& c) {
		CK_RV rv; CK_SESSION_HANDLE h = 0;
		CALL(C_OpenSession(U(c, "slot"), U(c, "flags", CKF_SERIAL_SESSION), NULL, NULL, c.value("null", false) ? NULL : &h));
		json r = R(rv); r["h"] = h; return r;
	};
	H["C_CloseSession"] = [](const json& c) { CK_RV rv; CALL(C_CloseSession(U(c, "s"))); return R(rv); };
	H["C_CloseAllSessions"] = [](const json& c) { CK_RV rv; CALL(C_CloseAllSessions(U(c, "slot"))); return R(rv); };
	H["C_GetSessionInfo"] = [](const json& c) {
		CK_RV rv; CK_SESSION_INFO si; memset(&si, 0, sizeof(si));
		CALL(C_GetSessionInfo(U(c, "s"), c.value("null", false) ? NULL : &si));
		json r = R(rv);
		if (rv == CKR_OK) { r["slot"] = si.slotID; r["state"] = si.state; r["flags"] = si.flags; r["err"] = si.ulDeviceError; }
		return r;
	};
	H["C_GetOperationState"] = [](const json& c) {
		CK_RV rv; Arena a; OutBuf o = outbuf(a, c);
		CALL(C_GetOperationState(U(c, "s"), o.p, c.value("nulllen", false) ? NULL : &o.len));
		json r = R(rv); r["out"] = outres(o, rv); return r;
	};
	H["C_SetOperationState"] = [](const json& c) {
		CK_RV rv; Arena a; InBuf d = inbuf(a, c.value("data", json()));
		CALL(C_SetOperationState(U(c, "s"), d.p, d.len, U(c, "ekey"), U(c, "akey")));
		return R(rv);
	};
	H["C_Login"] = [](const json& c) {
		CK_RV rv; Arena a; InBuf pin = inbuf(a, c.value("pin", json()));
		CALL(C_Login(U(c, "s"), U(c, "user"), pin.p, pin.len));
		return R(rv);
	};
	H["C_Logout"] = [](const json& c) { CK_RV rv; CALL(C_Logout(U(c, "s"))); return R(rv); };
	H["C_CreateObject"] = [](const json& c) {
		CK_RV rv; Arena a; Tpl t = tpl(a, c); CK_OBJECT_HANDLE h = 0;
		CALL(C_CreateObject(U(c, "s"), t.p, t.n, c.value("null", false) ? NULL : &h));
		json r = R(rv); r["h"] = h; return r;
	};
	H["C_CopyObject"] = [](const json& c) {
		CK_RV rv; Arena a; Tpl t = tpl(a, c); CK_OBJECT_HANDLE h = 0;
		CALL(C_CopyObject(U(c, "s"), U(c, "o"), t.p, t.n, c.value("null", false) ? NULL : &h));
		json r = R(rv); r["h"] = h; return r;
	};
	H["C_DestroyObject"] = [](const json& c) { CK_RV rv; CALL(C_DestroyObject(U(c, "s"), U(c, "o"))); return R(rv); };
	H["C_GetObjectSize"] = [](const json& c) {
		CK_RV rv; CK_ULONG sz = 0x5a5a5a5a;
		CALL(C_GetObjectSize(U(c, "s"), U(c, "o"), c.value("null", false) ? NULL : &sz));
		json r = R(rv); r["size"] = sz; return r;
	};
	// attrs: [[type, buf]] with buf = null (size query) | n (exact buffer of n bytes) | {"tpl":[[type,buf],..]}
	H["C_GetAttributeValue"] = [](const json& c) {
		CK_RV rv; Arena a;
		const json& attrs = c["attrs"];
		size_t n = attrs.size();
		CK_ATTRIBUTE* t = (CK_ATTRIBUTE*)a.alloc(sizeof(CK_ATTRIBUTE) * n);
		std::vector<OutBuf> bufs(n);
		std::vector<std::vector<OutBuf> > inner(n);
		std::vector<CK_ATTRIBUTE*> innerp(n, (CK_ATTRIBUTE*)NULL);
		for (size_t i = 0; i < n; i++)
		{
			t[i].type = attrs[i][0].get<CK_ULONG>();
			const json& b = attrs[i][1];
			if (b.is_object() && b.contains("tpl"))
			{
				const json& in = b["tpl"];
				innerp[i] = (CK_ATTRIBUTE*)a.alloc(sizeof(CK_ATTRIBUTE) * in.size());
				inner[i].resize(in.size());
				for (size_t k = 0; k < in.size(); k++)
				{
					json tmp; tmp["out"] = in[k][1];
					inner[i][k] = outbuf(a, tmp);
					innerp[i][k].type = in[k][0].get<CK_ULONG>();
					innerp[i][k].pValue = inner[i][k].p;
					innerp[i][k].ulValueLen = inner[i][k].len;
				}
				t[i].pValue = innerp[i]; t[i].ulValueLen = sizeof(CK_ATTRIBUTE) * in.size();
				continue;
			}
			json tmp; tmp["out"] = b;
			if (attrs[i].size() > 2) tmp["outlen"] = attrs[i][2];
			bufs[i] = outbuf(a, tmp);
			t[i].pValue = bufs[i].p; t[i].ulValueLen = bufs[i].len;
		}
		CK_ULONG cnt = c.contains("count") ? U(c, "count") : n;
		CALL(C_GetAttributeValue(U(c, "s"), U(c, "o"), c.value("null", false) ? NULL : t, cnt));
		json r = R(rv); r["attrs"] = json::array();
		for (size_t i = 0; i < n; i++)
		{
			json e;
			e["type"] = t[i].type;
			e["len"] = t[i].ulValueLen;
			if (innerp[i])
			{
				e["inner"] = json::array();
				for (size_t k = 0; k < inner[i].size(); k++)
				{
					OutBuf& o = inner[i][k];
					o.len = innerp[i][k].ulValueLen;
					json ie = outres(o, (o.len == (CK_ULONG)-1) ? CKR_GENERAL_ERROR : rv);
					ie["type"] = innerp[i][k].type;
					e["inner"].push_back(ie);
				}
			}
			else
			{
				OutBuf& o = bufs[i];
				o.len = t[i].ulValueLen;
				// a single entry is "ok" iff its length is not CK_UNAVAILABLE_INFORMATION and fits
				bool ok = (o.len != (CK_ULONG)-1) && o.p && o.len <= o.n && (rv == CKR_OK || rv == CKR_ATTRIBUTE_SENSITIVE || rv == CKR_ATTRIBUTE_TYPE_INVALID || rv == CKR_BUFFER_TOO_SMALL);
				json ie = outres(o, ok ? CKR_OK : CKR_GENERAL_ERROR);
				for (auto it = ie.begin(); it != ie.end(); ++it) e[it.key()] = it.value();
				e["len"] = t[i].ulValueLen;
			}
			r["attrs"].push_back(e);
		}
		return r;
	};
	H["C_SetAttributeValue"] = [](const json& c) {
		CK_RV rv; Arena a; Tpl t = tpl(a, c);
		CALL(C_SetAttributeValue(U(c, "s"), U(c, "o"), t.p, t.n));
		return R(rv);
	};
	H["C_FindObjectsInit"] = [](const json& c) {
		CK_RV rv; Arena a; Tpl t = tpl(a, c);
		CALL(C_FindObjectsInit(U(c, "s"), t.p, t.n));
		return R(rv);
	};
	H["C_FindObjects"] = [](const json& c) {
		CK_RV rv; Arena a; CK_ULONG max = U(c, "max", 1); CK_ULONG n = 0x5a5a;
		// exactly `max` handles, canary behind
		CK_OBJECT_HANDLE* h = (CK_OBJECT_HANDLE*)a.alloc(sizeof(CK_OBJECT_HANDLE) * (max + 1));
		for (CK_ULONG i = 0; i <= max; i++) h[i] = 0xC5C5C5C5C5C5C5C5UL;
		CALL(C_FindObjects(U(c, "s"), c.value("null", false) ? NULL : h, max, c.value("nullcount", false) ? NULL : &n));
		json r = R(rv); r["n"] = n; r["h"] = json::array();
		if (rv == CKR_OK) for (CK_ULONG i = 0; i < n && i < max; i++) r["h"].push_back(h[i]);
		r["canary"] = (h[max] == 0xC5C5C5C5C5C5C5C5UL);
		return r;
	};
	H["C_FindObjectsFinal"] = [](const json& c) { CK_RV rv; CALL(C_FindObjectsFinal(U(c, "s"))); return R(rv); };

	// (s, mech, key)
	struct { const char* n; CK_RV (*f)(CK_SESSION_HANDLE, CK_MECHANISM_PTR, CK_OBJECT_HANDLE); } inits[] = {
		{ "C_EncryptInit", C_EncryptInit }, { "C_DecryptInit", C_DecryptInit }, { "C_SignInit", C_SignInit },
		{ "C_VerifyInit", C_VerifyInit }, { "C_SignRecoverInit", C_SignRecoverInit }, { "C_VerifyRecoverInit", C_VerifyRecoverInit } };
	for (auto& e : inits)
	{
		auto f = e.f;
		H[e.n] = [f](const json& c) { CK_RV rv; Arena a; Mech m = mech(a, c); CALL(f(U(c, "s"), m.p, U(c, "key"))); return R(rv); };
	}
	H["C_DigestInit"] = [](const json& c) { CK_RV rv; Arena a; Mech m = mech(a, c); CALL(C_DigestInit(U(c, "s"), m.p)); return R(rv); };
	H["C_DigestKey"] = [](const json& c) { CK_RV rv; CALL(C_DigestKey(U(c, "s"), U(c, "key"))); return R(rv); };

	// (s, in, inlen, out, outlen*)
	struct { const char* n; CK_RV (*f)(CK_SESSION_HANDLE, CK_BYTE_PTR, CK_ULONG, CK_BYTE_PTR, CK_ULONG_PTR); } io[] = {
		{ "C_Encrypt", C_Encrypt }, { "C_EncryptUpdate", C_EncryptUpdate }, { "C_Decrypt", C_Decrypt },
		{ "C_DecryptUpdate", C_DecryptUpdate }, { "C_Digest", C_Digest }, { "C_Sign", C_Sign },
		{ "C_SignRecover", C_SignRecover }, { "C_VerifyRecover", C_VerifyRecover },
		{ "C_DigestEncryptUpdate", C_DigestEncryptUpdate }, { "C_DecryptDigestUpdate", C_DecryptDigestUpdate },
		{ "C_SignEncryptUpdate", C_SignEncryptUpdate }, { "C_DecryptVerifyUpdate", C_DecryptVerifyUpdate } };
	for (auto& e : io)
	{
		auto f = e.f;
		H[e.n] = [f](const json& c) {
			CK_RV rv; Arena a; InBuf d = inbuf(a, c.value("data", json())); OutBuf o = outbuf(a, c);
			CALL(f(U(c, "s"), d.p, d.len, o.p, c.value("nulllen", false) ? NULL : &o.len));
			json r = R(rv); r["out"] = outres(o, rv); return r;
		};
	}
	// (s, out, outlen*)
	struct { const char* n; CK_RV (*f)(CK_SESSION_HANDLE, CK_BYTE_PTR, CK_ULONG_PTR); } fin[] = {
		{ "C_EncryptFinal", C_EncryptFinal }, { "C_DecryptFinal", C_DecryptFinal }, { "C_DigestFinal", C_DigestFinal },
		{ "C_SignFinal", C_SignFinal } };
	for (auto& e : fin)
	{
		auto f = e.f;
		H[e.n] = [f](const json& c) {
			CK_RV rv; Arena a; OutBuf o = outbuf(a, c);
			CALL(f(U(c, "s"), o.p, c.value("nulllen", false) ? NULL : &o.len));
			json r = R(rv); r["out"] = outres(o, rv); return r;
		};
	}
	// (s, in, inlen)
	struct { const char* n; CK_RV (*f)(CK_SESSION_HANDLE, CK_BYTE_PTR, CK_ULONG); } upd[] = {
		{ "C_DigestUpdate", C_DigestUpdate }, { "C_SignUpdate", C_SignUpdate }, { "C_VerifyUpdate", C_VerifyUpdate },
		{ "C_VerifyFinal", C_VerifyFinal }, { "C_SeedRandom", C_SeedRandom } };
	for (auto& e : upd)
	{
		auto f = e.f;
		H[e.n] = [f](const json& c) { CK_RV rv; Arena a; InBuf d = inbuf(a, c.value("data", json())); CALL(f(U(c, "s"), d.p, d.len)); return R(rv); };
	}
	H["C_Verify"] = [](const json& c) {
		CK_RV rv; Arena a; InBuf d = inbuf(a, c.value("data", json())); InBuf s = inbuf(a, c.value("sig", json()));
		CALL(C_Verify(U(c, "s"), d.p, d.len, s.p, s.len));
		return R(rv);
	};
	H["C_GenerateRandom"] = [](const json& c) {
		CK_RV rv; Arena a; OutBuf o = outbuf(a, c);
		CALL(C_GenerateRandom(U(c, "s"), o.p, o.len));
		json r = R(rv); r["out"] = outres(o, rv); return r;
	};
	H["C_GenerateKey"] = [](const json& c) {
		CK_RV rv; Arena a; Mech m = mech(a, c); Tpl t = tpl(a, c); CK_OBJECT_HANDLE h = 0;
		CALL(C_GenerateKey(U(c, "s"), m.p, t.p, t.n, c.value("null", false) ? NULL : &h));
		json r = R(rv); r["h"] = h; return r;
	};
	H["C_GenerateKeyPair"] = [](const json& c) {
		CK_RV rv; Arena a; Mech m = mech(a, c); Tpl pub = tpl(a, c, "pub"); Tpl prv = tpl(a, c, "prv");
		CK_OBJECT_HANDLE h1 = 0, h2 = 0;
		CALL(C_GenerateKeyPair(U(c, "s"), m.p, pub.p, pub.n, prv.p, prv.n, c.value("null1", false) ? NULL : &h1, c.value("null2", false) ? NULL : &h2));
		json r = R(rv); r["hpub"] = h1; r["hprv"] = h2; return r;
	};
	H["C_WrapKey"] = [](const json& c) {
		CK_RV rv; Arena a; Mech m = mech(a, c); OutBuf o = outbuf(a, c);
		CALL(C_WrapKey(U(c, "s"), m.p, U(c, "wkey"), U(c, "key"), o.p, c.value("nulllen", false) ? NULL : &o.len));
		json r = R(rv); r["out"] = outres(o, rv); return r;
	};
	H["C_UnwrapKey"] = [](const json& c) {
		CK_RV rv; Arena a; Mech m = mech(a, c); Tpl t = tpl(a, c); InBuf d = inbuf(a, c.value("data", json())); CK_OBJECT_HANDLE h = 0;
		CALL(C_UnwrapKey(U(c, "s"), m.p, U(c, "key"), d.p, d.len, t.p, t.n, c.value("null", false) ? NULL : &h));
		json r = R(rv); r["h"] = h; return r;
	};
	H["C_DeriveKey"] = [](const json& c) {
		CK_RV rv; Arena a; Mech m = mech(a, c); Tpl t = tpl(a, c); CK_OBJECT_HANDLE h = 0;
		CALL(C_DeriveKey(U(c, "s"), m.p, U(c, "key"), t.p, t.n, c.value("null", false) ? NULL : &h));
		json r = R(rv); r["h"] = h; return r;
	};
	H["C_GetFunctionStatus"] = [](const json& c) { CK_RV rv; CALL(C_GetFunctionStatus(U(c, "s"))); return R(rv); };
	H["C_CancelFunction"] = [](const json& c) { CK_RV rv; CALL(C_CancelFunction(U(c, "s"))); return R(rv); };

	// ---- harness verbs -------------------------------------------------------------------
	// findall: {s, tpl?} -> handles
	H["findall"] = [](const json& c) {
		Arena a; CK_RV rv = CKR_OK;
		json h = find_all(U(c, "s"), a, c, rv);
		json r = R(rv); r["h"] = h; return r;
	};
	// census: {s, types:[...]} -> {objects: {handle: {type: [rv, hex, len]}}}
	H["census"] = [](const json& c) {
		Arena a; CK_RV rv = CKR_OK;
		json h = find_all(U(c, "s"), a, c, rv);
		json r = R(rv);
		json objs = json::object();
		for (const json& hj : h) objs[std::to_string(hj.get<CK_ULONG>())] = read_attrs(U(c, "s"), hj.get<CK_ULONG>(), c["types"]);
		r["objects"] = objs;
		return r;
	};
	// readattrs: {s, o, types}
	H["readattrs"] = [](const json& c) {
		json r = R(CKR_OK);
		r["attrs"] = read_attrs(U(c, "s"), U(c, "o"), c["types"]);
		return r;
	};
	// probe: {sessions:[h..], objects:[[s,o]..]} -> rv lists
	H["probe"] = [](const json& c) {
		CK_RV rv; json r = R(CKR_OK);
		r["sessions"] = json::array(); r["objects"] = json::array();
		if (c.contains("sessions")) for (const json& s : c["sessions"])
		{
			CK_SESSION_INFO si;
			CALL(C_GetSessionInfo(s.get<CK_ULONG>(), &si));
			r["sessions"].push_back(rv == CKR_OK ? json::array({ rv, si.slotID, si.state, si.flags }) : json::array({ rv }));
		}
		if (c.contains("objects")) for (const json& so : c["objects"])
		{
			CK_ULONG sz = 0;
			CALL(C_GetObjectSize(so[0].get<CK_ULONG>(), so[1].get<CK_ULONG>(), &sz));
			r["objects"].push_back(rv);
		}
		return r;
	};
	H["fsmode"] = [](const json& c) {
		json r = R(CKR_OK);
		std::string mode = c.value("mode", std::string("off"));
		shim_configure(mode.c_str(), c.value("k", (long)-1), c.value("kind", std::string()).c_str(),
			c.value("sticky", false), c.value("dir", std::string()).c_str(), c.value("snapdir", std::string()).c_str(),
			c.value("filter", std::string()).c_str());
		return r;
	};
	H["fsreport"] = [](const json& c) {
		json r = R(CKR_OK);
		r["ops"] = shim_op_count();
		r["snaps"] = shim_snap_count();
		r["faulted"] = shim_fault_fired();
		if (c.value("trace", false)) r["trace"] = json::parse(shim_trace_json());
		return r;
	};
	H["umask"] = [](const json& c) { json r = R(CKR_OK); r["old"] = (unsigned)umask((mode_t)U(c, "mask")); return r; };
	H["rlimit_fsize"] = [](const json& c) {
		struct rlimit rl; rl.rlim_cur = rl.rlim_max = c.contains("bytes") ? (rlim_t)U(c, "bytes") : RLIM_INFINITY;
		json r = R(CKR_OK); r["rc"] = setrlimit(RLIMIT_FSIZE, &rl); return r;
	};
	H["ping"] = [](const json&) { return R(CKR_OK); };
}

#ifndef P11WORKER_NO_MAIN
int main(int argc, char** argv)
{
	signal(SIGXFSZ, SIG_IGN);
	register_handlers();
	// responses go to a dup of stdout so library chatter on fd 1 (none expected) cannot corrupt the protocol
	int outfd = dup(1);
	FILE* out = fdopen(outfd, "w");
	shim_set_report_fd(outfd);
	std::string line;
	while (std::getline(std::cin, line))
	{
		if (line.empty()) continue;
		json resp;
		try
		{
			json cmd = json::parse(line);
			std::string fn = cmd.value("fn", std::string());
			if (fn == "quit") break;
			if (fn == "batch")
			{
				resp["rv"] = 0; resp["results"] = json::array();
				for (const json& sub : cmd["cmds"])
				{
					auto it = H.find(sub.value("fn", std::string()));
					if (it == H.end()) { resp["results"].push_back(json{ { "error", "unknown fn" } }); continue; }
					resp["results"].push_back(it->second(sub));
				}
			}
			else
			{
				auto it = H.find(fn);
				if (it == H.end()) resp["error"] = "unknown fn " + fn;
				else resp = it->second(cmd);
			}
			if (cmd.contains("id")) resp["id"] = cmd["id"];
		}
		catch (const std::exception& e)
		{
			resp = json();
			resp["error"] = std::string("harness: ") + e.what();
		}
		std::string s = resp.dump();
		fputs(s.c_str(), out);
		fputc('\n', out);
		fflush(out);
	}
	return 0;
}
#endif
