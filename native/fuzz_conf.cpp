// fuzz_conf - libFuzzer target for C17: arbitrary bytes as softhsm2.conf.
//
// input  = the configuration file; the token "$T" in it is replaced by a valid token directory (a copy of the fixture
//          named by $C17_FIXTURE_DIR) so that inputs can reach the token-loading code as well as the parser.
// oracle = C_Initialize returns; when it succeeds slot list / token info / mechanism list / mechanism info / open session
//          / finalize return; then the same process initialises with a sane configuration. Sanitizers on; exit()/abort()
//          end the process and libFuzzer reports a crash.
#include <dirent.h>
#include <stdint.h>
#include <stdio.h>
#include <stdlib.h>
#include <string.h>
#include <sys/stat.h>
#include <unistd.h>

#include <string>

#include "cryptoki.h"

static std::string g_root, g_tokdir, g_conf, g_sane;
static unsigned long g_stats[4];

static void spit(const std::string& p, const std::string& s)
{
	FILE* f = fopen(p.c_str(), "wb");
	if (!f) return;
	if (!s.empty()) fwrite(s.data(), 1, s.size(), f);
	fclose(f);
}

static void dump_stats()
{
	const char* dir = getenv("C17_STATS_DIR");
	if (!dir) return;
	char p[4096];
	snprintf(p, sizeof(p), "%s/conf.%d.json", dir, (int)getpid());
	FILE* f = fopen(p, "w");
	if (!f) return;
	fprintf(f, "{\"execs\":%lu,\"initialize_ok\":%lu,\"initialize_refused\":%lu,\"slots_seen\":%lu}\n", g_stats[0], g_stats[1], g_stats[2], g_stats[3]);
	fclose(f);
}

static void copy_dir(const std::string& src, const std::string& dst)
{
	mkdir(dst.c_str(), 0700);
	DIR* d = opendir(src.c_str());
	if (!d) return;
	struct dirent* e;
	while ((e = readdir(d)) != NULL)
	{
		std::string n = e->d_name;
		if (n == "." || n == "..") continue;
		std::string s;
		FILE* f = fopen((src + "/" + n).c_str(), "rb");
		if (!f) continue;
		char buf[65536]; size_t k;
		while ((k = fread(buf, 1, sizeof(buf), f)) > 0) s.append(buf, k);
		fclose(f);
		spit(dst + "/" + n, s);
	}
	closedir(d);
}

static void setup()
{
	char tmpl[] = "/dev/shm/fuzz_conf.XXXXXX";
	if (!mkdtemp(tmpl)) { perror("mkdtemp"); _exit(3); }
	g_root = tmpl;
	g_tokdir = g_root + "/tokens";
	mkdir(g_tokdir.c_str(), 0700);
	const char* fx = getenv("C17_FIXTURE_DIR");
	if (fx)
	{
		std::string src = fx;
		while (!src.empty() && src[src.size() - 1] == '/') src.erase(src.size() - 1);
		copy_dir(src, g_tokdir + "/" + src.substr(src.find_last_of('/') + 1));
	}
	g_conf = g_root + "/softhsm2.conf";
	g_sane = "directories.tokendir = " + g_tokdir + "\nobjectstore.backend = file\nlog.level = ERROR\nslots.removable = false\n";
	setenv("SOFTHSM2_CONF", g_conf.c_str(), 1);
	atexit(dump_stats);
}

static bool run_once()
{
	CK_C_INITIALIZE_ARGS args; memset(&args, 0, sizeof(args)); args.flags = CKF_OS_LOCKING_OK;
	if (C_Initialize(&args) != CKR_OK) return false;
	CK_SLOT_ID slots[16]; CK_ULONG ns = 16;
	if (C_GetSlotList(CK_FALSE, slots, &ns) != CKR_OK) ns = 0;
	for (CK_ULONG i = 0; i < ns && i < 3; i++)
	{
		g_stats[3]++;
		CK_TOKEN_INFO ti; CK_MECHANISM_TYPE ml[256]; CK_ULONG nm = 256; CK_MECHANISM_INFO mi; CK_SESSION_HANDLE s;
		C_GetTokenInfo(slots[i], &ti);
		C_GetMechanismList(slots[i], ml, &nm);
		C_GetMechanismInfo(slots[i], CKM_AES_CBC, &mi);
		C_GetMechanismInfo(slots[i], CKM_RSA_PKCS, &mi);
		if (C_OpenSession(slots[i], CKF_SERIAL_SESSION | CKF_RW_SESSION, NULL, NULL, &s) == CKR_OK)
		{
			CK_MECHANISM m = { CKM_SHA256, NULL, 0 };
			unsigned char out[32]; CK_ULONG n = 32;
			if (C_DigestInit(s, &m) == CKR_OK) C_Digest(s, (CK_BYTE_PTR)"abc", 3, out, &n);
			CK_MECHANISM g = { CKM_AES_KEY_GEN, NULL, 0 };
			CK_ULONG vl = 16; CK_BBOOL f = CK_FALSE;
			CK_ATTRIBUTE t[] = { { CKA_VALUE_LEN, &vl, sizeof(vl) }, { CKA_TOKEN, &f, 1 } };
			CK_OBJECT_HANDLE h;
			C_GenerateKey(s, &g, t, 2, &h);
		}
	}
	C_Finalize(NULL);
	return true;
}

extern "C" int LLVMFuzzerTestOneInput(const uint8_t* data, size_t size)
{
	static bool once = false;
	if (!once) { setup(); once = true; }
	g_stats[0]++;
	std::string text((const char*)data, size);
	size_t pos;
	int guard = 0;
	while ((pos = text.find("$T")) != std::string::npos && guard++ < 4) text.replace(pos, 2, g_tokdir);
	spit(g_conf, text);
	if (run_once()) g_stats[1]++; else g_stats[2]++;
	spit(g_conf, g_sane);
	if (!run_once())
	{
		fprintf(stderr, "fuzz_conf: after the generated configuration the process cannot initialise with a sane one\n");
		__builtin_trap();
	}
	return 0;
}
