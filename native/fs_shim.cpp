// fs_shim — see fs_shim.h.  Every wrapper forwards to __real_<fn> unless a library call is in
// progress (shim_enter_call) AND a mode is configured AND the path lies under the watched directory.
#include "fs_shim.h"
#include <cstdio>
#include <cstdlib>
#include <cstring>
#include <cstdarg>
#include <cerrno>
#include <string>
#include <vector>
#include <map>
#include <fcntl.h>
#include <unistd.h>
#include <dirent.h>
#include <stdio_ext.h>
#include <sys/stat.h>
#include <sys/types.h>

extern "C" {
int __real_open(const char*, int, ...);
int __real_open64(const char*, int, ...);
FILE* __real_fdopen(int, const char*);
FILE* __real_fopen(const char*, const char*);
FILE* __real_fopen64(const char*, const char*);
size_t __real_fread(void*, size_t, size_t, FILE*);
size_t __real_fwrite(const void*, size_t, size_t, FILE*);
int __real_fflush(FILE*);
int __real_fclose(FILE*);
int __real_ftruncate(int, off_t);
int __real_ftruncate64(int, off_t);
int __real_fcntl(int, int, ...);
int __real_fcntl64(int, int, ...);
int __real_remove(const char*);
int __real_mkdir(const char*, mode_t);
int __real_rmdir(const char*);
DIR* __real_opendir(const char*);
ssize_t __real_write(int, const void*, size_t);
ssize_t __real_pwrite(int, const void*, size_t, off_t);
ssize_t __real_pwrite64(int, const void*, size_t, off_t);
int __real_fsync(int);
int __real_fdatasync(int);
int __real_rename(const char*, const char*);
int __real_unlink(const char*);
int __real_close(int);
void __real_exit(int) __attribute__((noreturn));
void __real__exit(int) __attribute__((noreturn));
void __real_abort(void) __attribute__((noreturn));
int __real_fseek(FILE*, long, int);
void __real_rewind(FILE*);
}

enum Mode { OFF, TRACE, FAULT, SNAPSHOT, STEP };

static int g_in_call = 0;
static Mode g_mode = OFF;
static long g_k = -1;
static std::string g_kind;
static bool g_sticky = false;
static std::string g_dir, g_snapdir;
static long g_ops = 0, g_snaps = 0;
static bool g_fired = false;
static int g_report_fd = 1;
static std::map<int, std::string> g_fdpath;
static unsigned long long g_last_sig = 0;
struct TraceEnt { std::string op, path; long res; };
static std::vector<TraceEnt> g_trace;

void shim_enter_call() { g_in_call++; }
void shim_leave_call() { g_in_call--; }
void shim_set_report_fd(int fd) { g_report_fd = fd; }
long shim_op_count() { return g_ops; }
long shim_snap_count() { return g_snaps; }
bool shim_fault_fired() { return g_fired; }

void shim_configure(const char* mode, long k, const char* kind, bool sticky, const char* dir, const char* snapdir, const char*)
{
	std::string m = mode;
	g_mode = m == "trace" ? TRACE : m == "fault" ? FAULT : m == "snapshot" ? SNAPSHOT : m == "step" ? STEP : OFF;
	g_k = k; g_kind = kind; g_sticky = sticky;
	if (dir && *dir) g_dir = dir;
	if (snapdir && *snapdir) g_snapdir = snapdir;
	g_ops = 0; g_snaps = 0; g_fired = false; g_trace.clear(); g_last_sig = 0;
}

static std::string jesc(const std::string& s)
{
	std::string o;
	for (char c : s) { if (c == '"' || c == '\\') o.push_back('\\'); o.push_back(c); }
	return o;
}

std::string shim_trace_json()
{
	std::string s = "[";
	for (size_t i = 0; i < g_trace.size(); i++)
	{
		if (i) s += ",";
		s += "[\"" + g_trace[i].op + "\",\"" + jesc(g_trace[i].path) + "\"," + std::to_string(g_trace[i].res) + "]";
	}
	return s + "]";
}

static bool watched(const char* path)
{
	if (!g_in_call || g_mode == OFF || !path || g_dir.empty()) return false;
	return strncmp(path, g_dir.c_str(), g_dir.size()) == 0;
}

static const char* fdpath(int fd)
{
	auto it = g_fdpath.find(fd);
	return it == g_fdpath.end() ? NULL : it->second.c_str();
}

static std::string rel(const char* p)
{
	if (!p) return "?";
	std::string s = p;
	if (s.compare(0, g_dir.size(), g_dir) == 0) s = s.substr(g_dir.size());
	return s;
}

// ---- snapshots: recursive copy of g_dir using only __real_ functions ---------------------------
static unsigned long long fnv(unsigned long long h, const void* p, size_t n)
{
	const unsigned char* b = (const unsigned char*)p;
	for (size_t i = 0; i < n; i++) { h ^= b[i]; h *= 1099511628211ULL; }
	return h;
}

static void copy_tree(const std::string& src, const std::string& dst, unsigned long long* sig, bool docopy)
{
	if (docopy) __real_mkdir(dst.c_str(), 0700);
	DIR* d = __real_opendir(src.c_str());
	if (!d) return;
	std::vector<std::string> names;
	struct dirent* e;
	while ((e = readdir(d)) != NULL)
	{
		if (!strcmp(e->d_name, ".") || !strcmp(e->d_name, "..")) continue;
		names.push_back(e->d_name);
	}
	closedir(d);
	for (const std::string& n : names)
	{
		std::string s = src + "/" + n, t = dst + "/" + n;
		struct stat st;
		if (lstat(s.c_str(), &st) != 0) continue;
		*sig = fnv(*sig, n.c_str(), n.size() + 1);
		if (S_ISDIR(st.st_mode)) { copy_tree(s, t, sig, docopy); continue; }
		if (!S_ISREG(st.st_mode)) continue;
		int in = __real_open(s.c_str(), O_RDONLY);
		if (in < 0) continue;
		int out = docopy ? __real_open(t.c_str(), O_WRONLY | O_CREAT | O_TRUNC, st.st_mode & 0777) : -1;
		char buf[65536];
		ssize_t r;
		unsigned long long len = 0;
		while ((r = read(in, buf, sizeof(buf))) > 0)
		{
			*sig = fnv(*sig, buf, r);
			len += r;
			if (out >= 0) __real_write(out, buf, r);
		}
		*sig = fnv(*sig, &len, sizeof(len));
		__real_close(in);
		if (out >= 0) __real_close(out);
	}
}

static void report(const std::string& s)
{
	__real_write(g_report_fd, s.c_str(), s.size());
}

static void snapshot(const char* op, const char* path, const char* when)
{
	unsigned long long sig = 1469598103934665603ULL;
	copy_tree(g_dir, "", &sig, false);
	if (sig == g_last_sig) return;
	g_last_sig = sig;
	std::string dst = g_snapdir + "/" + std::to_string(g_snaps);
	sig = 1469598103934665603ULL;
	copy_tree(g_dir, dst, &sig, true);
	// label file next to the image
	std::string lab = dst + ".label";
	int fd = __real_open(lab.c_str(), O_WRONLY | O_CREAT | O_TRUNC, 0600);
	if (fd >= 0)
	{
		std::string s = std::string(when) + " " + op + " " + rel(path) + " op=" + std::to_string(g_ops) + "\n";
		__real_write(fd, s.c_str(), s.size());
		__real_close(fd);
	}
	g_snaps++;
}

static void step_wait(const char* op, const char* path, bool blocked)
{
	report(std::string("{\"step\":") + std::to_string(g_ops) + ",\"op\":\"" + op + "\",\"path\":\"" + jesc(rel(path)) + "\",\"blocked\":" + (blocked ? "true" : "false") + "}\n");
	// wait for one line on stdin
	char c;
	while (read(0, &c, 1) == 1 && c != '\n') {}
}

// Common prologue.  Returns true if the operation must fail (fault injection).
static bool g_fail_was_sticky = false;

static bool pre(const char* op, const char* path, bool writeclass)
{
	if (!watched(path)) return false;
	bool fail = false;
	g_fail_was_sticky = false;
	if (g_mode == SNAPSHOT && writeclass) snapshot(op, path, "before");
	if (g_mode == STEP) step_wait(op, path, false);
	if (g_mode == FAULT)
	{
		if (g_ops == g_k) { fail = true; g_fired = true; }
		else if (g_fired && g_sticky && writeclass)
		{
			// the disk stays full (default / ENOSPC): everything that needs space keeps failing, removing and truncating still work;
			// EIO / EACCES (medium gone / read-only): every write-class operation keeps failing
			bool frees = !strcmp(op, "remove") || !strcmp(op, "unlink") || !strcmp(op, "rmdir") || !strcmp(op, "ftruncate");
			if (!(frees && (g_kind.empty() || g_kind == "ENOSPC"))) { fail = true; g_fail_was_sticky = true; }
		}
	}
	if (g_mode == TRACE || g_mode == FAULT || g_mode == STEP || g_mode == SNAPSHOT)
	{
		TraceEnt t; t.op = op; t.path = rel(path); t.res = fail ? -1 : 0;
		if (g_trace.size() < 100000) g_trace.push_back(t);
	}
	g_ops++;
	return fail;
}

static int err_for(const char* op)
{
	if (g_kind == "EACCES") return EACCES;
	if (g_kind == "EMFILE") return EMFILE;
	if (g_kind == "ENOSPC") return ENOSPC;
	if (g_kind == "EIO") return EIO;
	if (g_kind == "ENOLCK") return ENOLCK;
	if (!strcmp(op, "open") || !strcmp(op, "opendir")) return EMFILE;
	if (!strcmp(op, "fcntl_lock")) return ENOLCK;
	if (!strcmp(op, "ftruncate")) return EIO;
	if (!strcmp(op, "remove") || !strcmp(op, "unlink") || !strcmp(op, "rmdir") || !strcmp(op, "rename")) return EACCES;
	return ENOSPC;
}

extern "C" {

static int open_common(const char* path, int flags, mode_t mode, bool is64)
{
	bool w = (flags & (O_CREAT | O_TRUNC | O_WRONLY | O_RDWR)) != 0;
	bool track = g_in_call && !g_dir.empty() && path && strncmp(path, g_dir.c_str(), g_dir.size()) == 0;
	if (pre(w ? "open_w" : "open_r", path, w)) { errno = err_for("open"); return -1; }
	int fd = is64 ? __real_open64(path, flags, mode) : __real_open(path, flags, mode);
	if (fd >= 0 && track) g_fdpath[fd] = path;
	else if (fd >= 0) g_fdpath.erase(fd);
	return fd;
}

int __wrap_open(const char* path, int flags, ...)
{
	mode_t mode = 0;
	if (flags & (O_CREAT | O_TMPFILE)) { va_list ap; va_start(ap, flags); mode = va_arg(ap, int); va_end(ap); }
	return open_common(path, flags, mode, false);
}

int __wrap_open64(const char* path, int flags, ...)
{
	mode_t mode = 0;
	if (flags & (O_CREAT | O_TMPFILE)) { va_list ap; va_start(ap, flags); mode = va_arg(ap, int); va_end(ap); }
	return open_common(path, flags, mode, true);
}

FILE* __wrap_fdopen(int fd, const char* m)
{
	return __real_fdopen(fd, m);
}

FILE* __wrap_fopen(const char* path, const char* m)
{
	bool w = strchr(m, 'w') || strchr(m, 'a') || strchr(m, '+');
	bool track = g_in_call && !g_dir.empty() && path && strncmp(path, g_dir.c_str(), g_dir.size()) == 0;
	if (pre(w ? "open_w" : "open_r", path, w)) { errno = err_for("open"); return NULL; }
	FILE* f = __real_fopen(path, m);
	if (f && track) g_fdpath[fileno(f)] = path;
	return f;
}

FILE* __wrap_fopen64(const char* path, const char* m)
{
	return __wrap_fopen(path, m);
}

size_t __wrap_fread(void* p, size_t sz, size_t n, FILE* f)
{
	const char* path = g_in_call && g_mode != OFF ? fdpath(fileno(f)) : NULL;
	if (pre("fread", path, false)) { errno = EIO; return 0; }
	return __real_fread(p, sz, n, f);
}

size_t __wrap_fwrite(const void* p, size_t sz, size_t n, FILE* f)
{
	const char* path = g_in_call && g_mode != OFF ? fdpath(fileno(f)) : NULL;
	if (pre("fwrite", path, true)) { errno = err_for("fwrite"); return 0; }
	size_t r = __real_fwrite(p, sz, n, f);
	if (path && g_mode == SNAPSHOT && watched(path)) snapshot("fwrite", path, "after");
	return r;
}

int __wrap_fflush(FILE* f)
{
	const char* path = (f && g_in_call && g_mode != OFF) ? fdpath(fileno(f)) : NULL;
	if (pre("fflush", path, true))
	{
		if (g_sticky) __fpurge(f);  // the disk stays full: these bytes never reach it
		errno = err_for("fflush");
		return EOF;
	}
	return __real_fflush(f);
}

int __wrap_fclose(FILE* f)
{
	int fd = f ? fileno(f) : -1;
	const char* path = (f && g_in_call && g_mode != OFF) ? fdpath(fd) : NULL;
	bool fail = pre("fclose", path, true);
	// on a full disk closing a stream with nothing pending succeeds
	if (fail && g_fail_was_sticky && (g_kind.empty() || g_kind == "ENOSPC") && __fpending(f) == 0) fail = false;
	if (fail)
	{
		__fpurge(f);
		__real_fclose(f);
		g_fdpath.erase(fd);
		errno = err_for("fclose");
		return EOF;
	}
	int r = __real_fclose(f);
	g_fdpath.erase(fd);
	return r;
}

int __wrap_ftruncate(int fd, off_t len)
{
	const char* path = g_in_call && g_mode != OFF ? fdpath(fd) : NULL;
	if (pre("ftruncate", path, true)) { errno = err_for("ftruncate"); return -1; }
	return __real_ftruncate(fd, len);
}

int __wrap_ftruncate64(int fd, off_t len)
{
	return __wrap_ftruncate(fd, len);
}

static int fcntl_common(int fd, int cmd, void* arg)
{
	bool lock = (cmd == F_SETLK || cmd == F_SETLKW
#ifdef F_OFD_SETLK
		|| cmd == F_OFD_SETLK || cmd == F_OFD_SETLKW
#endif
		);
	if (!lock) return __real_fcntl(fd, cmd, arg);
	const char* path = g_in_call && g_mode != OFF ? fdpath(fd) : NULL;
	struct flock* fl = (struct flock*)arg;
	const char* opname = fl && fl->l_type == F_UNLCK ? "fcntl_unlock" : "fcntl_lock";
	if (pre(opname, path, false)) { errno = err_for("fcntl_lock"); return -1; }
	if (g_mode == STEP && watched(path) && cmd == F_SETLKW)
	{
		// never let the kernel decide: poll, and report "blocked" to the coordinator
		for (;;)
		{
			int r = __real_fcntl(fd, F_SETLK, arg);
			if (r == 0) return 0;
			if (errno != EAGAIN && errno != EACCES) return r;
			step_wait(opname, path, true);
		}
	}
	return __real_fcntl(fd, cmd, arg);
}

int __wrap_fcntl(int fd, int cmd, ...)
{
	va_list ap; va_start(ap, cmd); void* arg = va_arg(ap, void*); va_end(ap);
	return fcntl_common(fd, cmd, arg);
}

int __wrap_fcntl64(int fd, int cmd, ...)
{
	va_list ap; va_start(ap, cmd); void* arg = va_arg(ap, void*); va_end(ap);
	return fcntl_common(fd, cmd, arg);
}

int __wrap_remove(const char* path)
{
	if (pre("remove", path, true)) { errno = err_for("remove"); return -1; }
	return __real_remove(path);
}

int __wrap_unlink(const char* path)
{
	if (pre("unlink", path, true)) { errno = err_for("unlink"); return -1; }
	return __real_unlink(path);
}

int __wrap_rename(const char* a, const char* b)
{
	if (pre("rename", a, true)) { errno = err_for("rename"); return -1; }
	return __real_rename(a, b);
}

int __wrap_mkdir(const char* path, mode_t m)
{
	if (pre("mkdir", path, true)) { errno = err_for("mkdir"); return -1; }
	return __real_mkdir(path, m);
}

int __wrap_rmdir(const char* path)
{
	if (pre("rmdir", path, true)) { errno = err_for("rmdir"); return -1; }
	return __real_rmdir(path);
}

DIR* __wrap_opendir(const char* path)
{
	if (pre("opendir", path, false)) { errno = err_for("opendir"); return NULL; }
	return __real_opendir(path);
}

ssize_t __wrap_write(int fd, const void* p, size_t n)
{
	const char* path = g_in_call && g_mode != OFF ? fdpath(fd) : NULL;
	if (pre("write", path, true)) { errno = err_for("write"); return -1; }
	return __real_write(fd, p, n);
}

ssize_t __wrap_pwrite(int fd, const void* p, size_t n, off_t off)
{
	const char* path = g_in_call && g_mode != OFF ? fdpath(fd) : NULL;
	if (pre("pwrite", path, true)) { errno = err_for("pwrite"); return -1; }
	return __real_pwrite(fd, p, n, off);
}

ssize_t __wrap_pwrite64(int fd, const void* p, size_t n, off_t off)
{
	return __wrap_pwrite(fd, p, n, off);
}

int __wrap_fsync(int fd)
{
	const char* path = g_in_call && g_mode != OFF ? fdpath(fd) : NULL;
	if (pre("fsync", path, true)) { errno = EIO; return -1; }
	return __real_fsync(fd);
}

int __wrap_fdatasync(int fd)
{
	const char* path = g_in_call && g_mode != OFF ? fdpath(fd) : NULL;
	if (pre("fsync", path, true)) { errno = EIO; return -1; }
	return __real_fdatasync(fd);
}

int __wrap_close(int fd)
{
	g_fdpath.erase(fd);
	return __real_close(fd);
}

int __wrap_fseek(FILE* f, long off, int wh)
{
	return __real_fseek(f, off, wh);
}

void __wrap_rewind(FILE* f)
{
	__real_rewind(f);
}

static void died(const char* how, int code)
{
	char buf[128];
	int n = snprintf(buf, sizeof(buf), "{\"died\":\"%s\",\"code\":%d}\n", how, code);
	__real_write(g_report_fd, buf, n);
}

void __wrap_exit(int code)
{
	if (g_in_call) { died("exit", code); __real__exit(code); }
	__real_exit(code);
}

void __wrap__exit(int code)
{
	if (g_in_call) died("_exit", code);
	__real__exit(code);
}

void __wrap_abort(void)
{
	if (g_in_call) died("abort", 134);
	__real_abort();
}

}  // extern "C"
