#!/usr/bin/env python3
"""Self test for refworker (see REFWORKER_SPEC.md).  Usage: test_refworker.py /path/to/refworker
Plain python3, no third-party modules.  Prints one line per test, exits non-zero on any failure.
Published vectors: FIPS-197, SP 800-38A/B/D (GCM spec test cases), SP 800-67, RFC 2202, RFC 4231, RFC 4493,
RFC 3394, RFC 5649, RFC 6979, RFC 7748, RFC 8032, RFC 8410, NIST CAVS ECDH.  Where no vector exists the reply is
checked against an independent pure-python implementation of the definition (CTR, CBC, GCM/GHASH, key wrap,
PKCS#1 v1.5 / PSS / OAEP encodings, DSA verification, DH) built on python integers, hashlib and the worker's ECB op."""
import base64
import hashlib
import json
import subprocess
import sys

FAILS = []
COUNT = [0]


def report(name, ok, detail=""):
    COUNT[0] += 1
    print("%s %s%s" % ("PASS" if ok else "FAIL", name, "" if ok or not detail else "  -- " + detail))
    if not ok:
        FAILS.append(name)


def eq(name, got, want):
    if isinstance(got, str) and isinstance(want, str):
        got, want = got.lower(), want.lower()
    report(name, got == want, "got %r want %r" % (got, want))


class Worker:
    def __init__(self, path):
        self.p = subprocess.Popen([path], stdin=subprocess.PIPE, stdout=subprocess.PIPE)

    def raw(self, line):
        self.p.stdin.write(line + b"\n")
        self.p.stdin.flush()
        out = self.p.stdout.readline()
        if not out:
            raise RuntimeError("worker died")
        return json.loads(out.decode())

    def call(self, **req):
        return self.raw(json.dumps(req).encode())

    def out(self, **req):
        r = self.call(**req)
        return r.get("out", "<%s>" % json.dumps(r))

    def close(self):
        self.p.stdin.close()
        return self.p.wait()


W = None
H = bytes.fromhex


def hx(v, length=None):
    """int -> hex (optionally fixed byte length)"""
    if length is None:
        length = max(1, (v.bit_length() + 7) // 8)
    return v.to_bytes(length, "big").hex()


def xor(a, b):
    return bytes(x ^ y for x, y in zip(a, b))


def ecb(alg, key, data, dir="enc"):
    return H(W.out(op="cipher", alg=alg, mode="ECB", dir=dir, key=key.hex(), data=data.hex()))


# ------------------------------------------------------------------ python reference definitions

def py_ctr(alg, key, iv, data, bits):
    bs = len(iv)
    ctr = int.from_bytes(iv, "big")
    out = b""
    for off in range(0, len(data), bs):
        ks = ecb(alg, key, ctr.to_bytes(bs, "big"))
        out += xor(data[off:off + bs], ks)
        hi = (ctr >> bits) << bits
        ctr = hi | ((ctr + 1) & ((1 << bits) - 1))
    return out


def py_cbc_enc(alg, key, iv, data):
    bs = len(iv)
    prev, out = iv, b""
    for off in range(0, len(data), bs):
        prev = ecb(alg, key, xor(data[off:off + bs], prev))
        out += prev
    return out


def gf_mul(x, y):
    r = 0xE1 << 120
    z, v = 0, x
    for i in range(127, -1, -1):
        if (y >> i) & 1:
            z ^= v
        v = (v >> 1) ^ r if v & 1 else v >> 1
    return z


def ghash(h, data):
    y = 0
    for off in range(0, len(data), 16):
        y = gf_mul(y ^ int.from_bytes(data[off:off + 16].ljust(16, b"\0"), "big"), h)
    return y


def pad16(b):
    return b + b"\0" * (-len(b) % 16)


def py_gcm(key, iv, aad, pt):
    h = int.from_bytes(ecb("AES", key, b"\0" * 16), "big")
    if len(iv) == 12:
        j0 = iv + b"\0\0\0\1"
    else:
        j0 = ghash(h, pad16(iv) + (0).to_bytes(8, "big") + (8 * len(iv)).to_bytes(8, "big")).to_bytes(16, "big")
    first = (int.from_bytes(j0, "big") & ~0xFFFFFFFF) | ((int.from_bytes(j0[12:], "big") + 1) & 0xFFFFFFFF)
    ct = py_ctr("AES", key, first.to_bytes(16, "big"), pt, 32)
    s = ghash(h, pad16(aad) + pad16(ct) + (8 * len(aad)).to_bytes(8, "big") + (8 * len(ct)).to_bytes(8, "big"))
    tag = xor(s.to_bytes(16, "big"), ecb("AES", key, j0))
    return ct, tag


def py_wrap(kek, blocks, a):
    """RFC 3394 2.2.1 on a list of 8-byte blocks with initial value a"""
    n = len(blocks)
    r = list(blocks)
    for j in range(6):
        for i in range(n):
            b = ecb("AES", kek, a + r[i])
            a = xor(b[:8], (n * j + i + 1).to_bytes(8, "big"))
            r[i] = b[8:]
    return a + b"".join(r)


def py_wrap_3394(kek, pt):
    return py_wrap(kek, [pt[i:i + 8] for i in range(0, len(pt), 8)], H("a6a6a6a6a6a6a6a6"))


def py_wrap_5649(kek, pt):
    aiv = H("a65959a6") + len(pt).to_bytes(4, "big")
    p = pt + b"\0" * (-len(pt) % 8)
    if len(p) == 8:
        return ecb("AES", kek, aiv + p)
    return py_wrap(kek, [p[i:i + 8] for i in range(0, len(p), 8)], aiv)


PYHASH = {"MD5": "md5", "SHA-1": "sha1", "SHA-224": "sha224", "SHA-256": "sha256", "SHA-384": "sha384", "SHA-512": "sha512"}
DIGESTINFO = {
    "MD5": "3020300c06082a864886f70d020505000410",
    "SHA-1": "3021300906052b0e03021a05000414",
    "SHA-224": "302d300d06096086480165030402040500041c",
    "SHA-256": "3031300d060960864801650304020105000420",
    "SHA-384": "3041300d060960864801650304020205000430",
    "SHA-512": "3051300d060960864801650304020305000440",
}


def pyhash(name, data):
    return hashlib.new(PYHASH[name], data).digest()


def mgf1(name, seed, n):
    out = b""
    c = 0
    while len(out) < n:
        out += pyhash(name, seed + c.to_bytes(4, "big"))
        c += 1
    return out[:n]


def py_type1(k, t):
    return b"\0\1" + b"\xff" * (k - 3 - len(t)) + b"\0" + t


def py_pss_verify(name, mhash, em, embits, saltlen):
    hl = len(mhash)
    emlen = (embits + 7) // 8
    em = em[len(em) - emlen:]
    if emlen < hl + saltlen + 2 or em[-1] != 0xBC:
        return False
    mdb, h = em[:emlen - hl - 1], em[emlen - hl - 1:-1]
    zbits = 8 * emlen - embits
    if zbits and mdb[0] >> (8 - zbits):
        return False
    db = bytearray(xor(mdb, mgf1(name, h, len(mdb))))
    db[0] &= 0xFF >> (8 * emlen - embits)
    db = bytes(db)
    ps = emlen - hl - saltlen - 2
    if db[:ps] != b"\0" * ps or db[ps] != 1:
        return False
    return pyhash(name, b"\0" * 8 + mhash + db[ps + 1:]) == h


def py_oaep_encode(name, k, msg, label, seed):
    hl = len(pyhash(name, b""))
    db = pyhash(name, label) + b"\0" * (k - len(msg) - 2 * hl - 2) + b"\1" + msg
    mdb = xor(db, mgf1(name, seed, len(db)))
    return b"\0" + xor(seed, mgf1(name, mdb, hl)) + mdb


def py_oaep_decode(name, em, label):
    hl = len(pyhash(name, b""))
    if em[0] != 0:
        return None
    mseed, mdb = em[1:1 + hl], em[1 + hl:]
    seed = xor(mseed, mgf1(name, mdb, hl))
    db = xor(mdb, mgf1(name, seed, len(mdb)))
    if db[:hl] != pyhash(name, label):
        return None
    rest = db[hl:].lstrip(b"\0")
    return rest[1:] if rest[:1] == b"\1" else None


def py_dsa_verify(p, q, g, y, h, sig):
    n = (q.bit_length() + 7) // 8
    r, s = int.from_bytes(sig[:n], "big"), int.from_bytes(sig[n:], "big")
    if not (0 < r < q and 0 < s < q):
        return False
    z = int.from_bytes(h, "big")
    if 8 * len(h) > q.bit_length():
        z >>= 8 * len(h) - q.bit_length()
    w = pow(s, -1, q)
    return (pow(g, z * w % q, p) * pow(y, r * w % q, p) % p) % q == r


def der_items(b):
    """minimal DER reader: list of (tag, content) of the elements in b"""
    out, i = [], 0
    while i < len(b):
        tag, ln = b[i], b[i + 1]
        i += 2
        if ln & 0x80:
            nb = ln & 0x7F
            ln = int.from_bytes(b[i:i + nb], "big")
            i += nb
        out.append((tag, b[i:i + ln]))
        i += ln
    if i != len(b):
        raise ValueError("DER overrun")
    return out


def flip(hexstr, pos=0):
    b = bytearray(H(hexstr))
    b[pos] ^= 1
    return bytes(b).hex()


# fixed test keys (generated once with a seeded Miller-Rabin search; not secret)
RSA_N = int(
    "b7b93b2554cf019e27bda713df424fd90bb646d6f84eed7d9e8d9b2bd85e9f07a70d81241a9b2add78604257d8f397f4"
    "f12363561b6b64e7f036d3ea77c5e63a83b8aa0f4b2811bcc6b562142600d75964e88b5912a39afa1af9c722cbef1024"
    "c710bc6069022a39d7561fcd54197ad945514e4b92a715dea9f0b61996ba99d0c2aa3b484c1943b0b82911cd1466e2bb"
    "6f01b09ab663578ee41454d3c78cc4d9a05adcf97de07f8c0585c501afddae6a725af4410dd39b3c7749298c1258b4b7"
    "215f2c49514b1c342d49a408d2d13a97002b2c955de5012c39b96c8576391869a5e88b00f2073cd52e35ca6a54a4c32b"
    "add5eb88822739e134735e063c183cf3"
    , 16)
RSA_E = int("10001", 16)
RSA_D = int(
    "8daf36b2b275b5ecaeff2e533ff0d6bd2eb0126f842cf22fd74fa3642bc7c4e2d4ecb03414a4a76906854d848bd647d0"
    "e909fe78904ac115b185c6e5e21a6753a6f3898aa3ce31e7a0628f51b4811f925c248e1a522a83c0ef7ec318cda6fe8f"
    "2e4974ccf10e6f5c0df9e82aa3f9c668ba715a6d239ae15dc736d068697a5c5578ae0ff077eb30af3041573cb9f95648"
    "5df8fc6cdfe91ad9a13d78780a2b736fa42b7aa71c01d553e64e6847ca7a1d2bd2975e927c8af4e5cb957d60ae9c077e"
    "ad92b0c10a300b21a06690a9f64232fa081201582ae52d0be625c7edda8a5c748c612cc54c60e3c12e9ec14e4aff30b6"
    "05239107f755a0fa1760aa63f16a9971"
    , 16)
RSA_P = int(
    "dff62b91cf81f592288b9b130a976ecea2911cbdf12e489699a560a1bcf96bcb7b9f88fc6f77937ed311fc3180068968"
    "dddd4f326cd4451923a4b86b03db90a5c23327c444714a5676836ac5b6151ea4850a05d376670b80f3a9b62858874f1b"
    "6647c3b42ef41b1d9e357ce726041342d5318df1c5e3462c0c11c1b807c5ae0b"
    , 16)
RSA_Q = int(
    "d2017ad04e00cb7f08729c17a1c55c96091bdecd7a10b10c1d8f72d683dbf30581170399d3668f5c1ea6a0398de58048"
    "03454c77b5f9a6ae502fbada2771025c47d464a8929cb24bdfca91bd01acfbb9f01ebf96b3b6c03b19512b6303baad00"
    "7693a0e5f15fedf498a0a59f0a077a03cb39f866127e07263755c10e324dc5b9"
    , 16)
DSA1024_P = int(
    "985cb8c964f2fc09320f1dc51cad0ec0c61df0d240577bae74e3dd004be99b1cbdc0445de406d0b1d3bd344407921ab7"
    "0f8e6e111ad9129bb79c9945cb45245c80d1154327257dc6de50d9e334f077bad46d952ba6dbcfe1e45ed95fb9762635"
    "534559a05d239947851b1a676a77caea6be8320a3165744f79c57baf414a3bb5"
    , 16)
DSA1024_Q = int("c53f3dd86157c62c518ddf2523b051c3ac4e1bbd", 16)
DSA1024_G = int(
    "4d448077d1a6950e7f54bf405db9d99d4fc21ea771abcfa16517a22bda3f98522e8e4186d84ecea45bc6d0a6fe39efa0"
    "a79fd13afd337cd9c22bcd1e31b433e16557409504fafdaeb5d0750754208053ddc5f7aae39acb4aa67edcd0ab071587"
    "0c87f2addab4f985992e949a6e7d482d06f9685a3180d734f85e10e474e0ca4c"
    , 16)
DSA1024_X = int("49e62796ca51c081aba1b90e4b261a314f488a01", 16)
DSA2048_P = int(
    "bac54d2689a9733ba882873e15d85c06a2b81f3113d68f72fe730f668d9b115b0e7b69a3fcfe9d5697263001445182c2"
    "8ee5fbacc6c5950a3dc9dc48d73df2500c52e0835fb495881024fa3319fe6472648d9b323bb6e4ddcd358fe7b9a03174"
    "a0e7f3a1a09af361806c87ae7dba986a533f4f73dc6ff37819c7bc410dade26c2b5af1bd00d1198e0bf4e66a1504f67d"
    "7d088c8890bba31473af74e1220500bb16e4c8aac043e1503031d12c8c79dc1c708d4aa52cf163be15193e3d2262181c"
    "16705b388535527efe7753ccc2b0bf98f2555244f1c77d12a19d17278261ed97bcca873978f8a173bbdf0575ef37c71d"
    "45e3850cacbc1171afe4c031d1328627"
    , 16)
DSA2048_Q = int("cbf6edb3e0dfda9da75c3afb2c078b27a354e9443ac29cab0c5342ec6e0cfd17", 16)
DSA2048_G = int(
    "90e50b9833238482589ba12d6eddc14ce03d4ad84dc1db9538a03e5d8af3f741f88e27aed8c6d616a9f205f36582e45a"
    "c3c0c3c3bd6e97857bbfcb059057b780d6d60bca0e0b2f86f1ad2131e92e8972d651b74b5cfd1c93c4fc6512e121a39a"
    "f12de62d9f898e2d709c15cb125077c7270632c734d8e80bceea32b4473f76d40f80bda6d6d84ded62e1d6d99c5b0071"
    "28303b9e74b499a12f106049ed9be78a21cbc6ff365db61d3338df917ccbce793988478f90f4970ddba5b206c6a3faa3"
    "9e69bd061ab817ccbc8e51cca7b4a63a5539c623d3122ea3fe3fafa99c50af88db8e227ca30e5ebdc3a334576078ea8c"
    "701288a565c46dfb534f68a5078ac011"
    , 16)
DSA2048_X = int("2d42e0f67ce7496a44a2ea350e4993ce9e2b0342143ad983be673f2c3de77fc1", 16)

#@TESTS@


def main():
    global W
    if len(sys.argv) != 2:
        print("usage: test_refworker.py /path/to/refworker")
        return 2
    W = Worker(sys.argv[1])
    groups = [v for k, v in sorted(globals().items()) if k.startswith("test_") and callable(v)]
    for g in groups:
        try:
            g()
        except Exception as e:  # a crashed group is a failure, the remaining groups still run
            report(g.__name__ + " (exception)", False, repr(e))
            if W.p.poll() is not None:
                W = Worker(sys.argv[1])
    rc = W.close()
    report("worker exits 0 on EOF", rc == 0, "rc=%r" % rc)
    print("%d tests, %d failed" % (COUNT[0], len(FAILS)))
    for f in FAILS:
        print("  failed: " + f)
    return 1 if FAILS else 0


if __name__ == "__main__":
    sys.exit(main())
