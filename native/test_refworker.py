#!/usr/bin/env python3
"""Self test for refworker (see REFWORKER_SPEC.md).  Usage: test_refworker.py /path/to/refworker
Plain python3, no third-party modules.  Prints one line per test, exits non-zero on any failure.
Published vectors: FIPS-197, SP 800-38A/B/D (GCM spec test cases), SP 800-67, RFC 2202, RFC 4231, RFC 4493,
RFC 3394, RFC 5649, RFC 6979, RFC 7748, RFC 8032, RFC 8410, NIST CAVS ECDH.  Where no vector exists the reply is
checked against an independent pure-python implementation of the definition (CTR, CBC, GCM/GHASH, key wrap,
PKCS#1 v1.5 / PSS / OAEP encodings, DSA verification, DH) built on python integers, hashlib and the worker's ECB op."""
import base64
import hashlib
import json
import subprocess
import sys

FAILS = []
COUNT = [0]


def report(name, ok, detail=""):
    COUNT[0] += 1
    print("%s %s%s" % ("PASS" if ok else "FAIL", name, "" if ok or not detail else "  -- " + detail))
    if not ok:
        FAILS.append(name)


def eq(name, got, want):
    if isinstance(got, str) and isinstance(want, str):
        got, want = got.lower(), want.lower()
    report(name, got == want, "got %r want %r" % (got, want))


class Worker:
    def __init__(self, path):
        self.p = subprocess.Popen([path], stdin=subprocess.PIPE, stdout=subprocess.PIPE)

    def raw(self, line):
        self.p.stdin.write(line + b"\n")
        self.p.stdin.flush()
        out = self.p.stdout.readline()
        if not out:
            raise RuntimeError("worker died")
        return json.loads(out.decode())

    def call(self, **req):
        return self.raw(json.dumps(req).encode())

    def out(self, **req):
        r = self.call(**req)
        return r.get("out", "<%s>" % json.dumps(r))

    def close(self):
        self.p.stdin.close()
        return self.p.wait()


W = None
H = bytes.fromhex


def hx(v, length=None):
    """int -> hex (optionally fixed byte length)"""
    if length is None:
        length = max(1, (v.bit_length() + 7) // 8)
    return v.to_bytes(length, "big").hex()


def xor(a, b):
    return bytes(x ^ y for x, y in zip(a, b))


def ecb(alg, key, data, dir="enc"):
    return H(W.out(op="cipher", alg=alg, mode="ECB", dir=dir, key=key.hex(), data=data.hex()))


# ------------------------------------------------------------------ python reference definitions

def py_ctr(alg, key, iv, data, bits):
    bs = len(iv)
    ctr = int.from_bytes(iv, "big")
    out = b""
    for off in range(0, len(data), bs):
        ks = ecb(alg, key, ctr.to_bytes(bs, "big"))
        out += xor(data[off:off + bs], ks)
        hi = (ctr >> bits) << bits
        ctr = hi | ((ctr + 1) & ((1 << bits) - 1))
    return out


def py_cbc_enc(alg, key, iv, data):
    bs = len(iv)
    prev, out = iv, b""
    for off in range(0, len(data), bs):
        prev = ecb(alg, key, xor(data[off:off + bs], prev))
        out += prev
    return out


def gf_mul(x, y):
    r = 0xE1 << 120
    z, v = 0, x
    for i in range(127, -1, -1):
        if (y >> i) & 1:
            z ^= v
        v = (v >> 1) ^ r if v & 1 else v >> 1
    return z


def ghash(h, data):
    y = 0
    for off in range(0, len(data), 16):
        y = gf_mul(y ^ int.from_bytes(data[off:off + 16].ljust(16, b"\0"), "big"), h)
    return y


def pad16(b):
    return b + b"\0" * (-len(b) % 16)


def py_gcm(key, iv, aad, pt):
    h = int.from_bytes(ecb("AES", key, b"\0" * 16), "big")
    if len(iv) == 12:
        j0 = iv + b"\0\0\0\1"
    else:
        j0 = ghash(h, pad16(iv) + (0).to_bytes(8, "big") + (8 * len(iv)).to_bytes(8, "big")).to_bytes(16, "big")
    first = (int.from_bytes(j0, "big") & ~0xFFFFFFFF) | ((int.from_bytes(j0[12:], "big") + 1) & 0xFFFFFFFF)
    ct = py_ctr("AES", key, first.to_bytes(16, "big"), pt, 32)
    s = ghash(h, pad16(aad) + pad16(ct) + (8 * len(aad)).to_bytes(8, "big") + (8 * len(ct)).to_bytes(8, "big"))
    tag = xor(s.to_bytes(16, "big"), ecb("AES", key, j0))
    return ct, tag


def py_wrap(kek, blocks, a):
    """RFC 3394 2.2.1 on a list of 8-byte blocks with initial value a"""
    n = len(blocks)
    r = list(blocks)
    for j in range(6):
        for i in range(n):
            b = ecb("AES", kek, a + r[i])
            a = xor(b[:8], (n * j + i + 1).to_bytes(8, "big"))
            r[i] = b[8:]
    return a + b"".join(r)


def py_wrap_3394(kek, pt):
    return py_wrap(kek, [pt[i:i + 8] for i in range(0, len(pt), 8)], H("a6a6a6a6a6a6a6a6"))


def py_wrap_5649(kek, pt):
    aiv = H("a65959a6") + len(pt).to_bytes(4, "big")
    p = pt + b"\0" * (-len(pt) % 8)
    if len(p) == 8:
        return ecb("AES", kek, aiv + p)
    return py_wrap(kek, [p[i:i + 8] for i in range(0, len(p), 8)], aiv)


PYHASH = {"MD5": "md5", "SHA-1": "sha1", "SHA-224": "sha224", "SHA-256": "sha256", "SHA-384": "sha384", "SHA-512": "sha512"}
DIGESTINFO = {
    "MD5": "3020300c06082a864886f70d020505000410",
    "SHA-1": "3021300906052b0e03021a05000414",
    "SHA-224": "302d300d06096086480165030402040500041c",
    "SHA-256": "3031300d060960864801650304020105000420",
    "SHA-384": "3041300d060960864801650304020205000430",
    "SHA-512": "3051300d060960864801650304020305000440",
}


def pyhash(name, data):
    return hashlib.new(PYHASH[name], data).digest()


def mgf1(name, seed, n):
    out = b""
    c = 0
    while len(out) < n:
        out += pyhash(name, seed + c.to_bytes(4, "big"))
        c += 1
    return out[:n]


def py_type1(k, t):
    return b"\0\1" + b"\xff" * (k - 3 - len(t)) + b"\0" + t


def py_pss_verify(name, mhash, em, embits, saltlen):
    hl = len(mhash)
    emlen = (embits + 7) // 8
    em = em[len(em) - emlen:]
    if emlen < hl + saltlen + 2 or em[-1] != 0xBC:
        return False
    mdb, h = em[:emlen - hl - 1], em[emlen - hl - 1:-1]
    zbits = 8 * emlen - embits
    if zbits and mdb[0] >> (8 - zbits):
        return False
    db = bytearray(xor(mdb, mgf1(name, h, len(mdb))))
    db[0] &= 0xFF >> (8 * emlen - embits)
    db = bytes(db)
    ps = emlen - hl - saltlen - 2
    if db[:ps] != b"\0" * ps or db[ps] != 1:
        return False
    return pyhash(name, b"\0" * 8 + mhash + db[ps + 1:]) == h


def py_oaep_encode(name, k, msg, label, seed):
    hl = len(pyhash(name, b""))
    db = pyhash(name, label) + b"\0" * (k - len(msg) - 2 * hl - 2) + b"\1" + msg
    mdb = xor(db, mgf1(name, seed, len(db)))
    return b"\0" + xor(seed, mgf1(name, mdb, hl)) + mdb


def py_oaep_decode(name, em, label):
    hl = len(pyhash(name, b""))
    if em[0] != 0:
        return None
    mseed, mdb = em[1:1 + hl], em[1 + hl:]
    seed = xor(mseed, mgf1(name, mdb, hl))
    db = xor(mdb, mgf1(name, seed, len(mdb)))
    if db[:hl] != pyhash(name, label):
        return None
    rest = db[hl:].lstrip(b"\0")
    return rest[1:] if rest[:1] == b"\1" else None


def py_dsa_verify(p, q, g, y, h, sig):
    n = (q.bit_length() + 7) // 8
    r, s = int.from_bytes(sig[:n], "big"), int.from_bytes(sig[n:], "big")
    if not (0 < r < q and 0 < s < q):
        return False
    z = int.from_bytes(h, "big")
    if 8 * len(h) > q.bit_length():
        z >>= 8 * len(h) - q.bit_length()
    w = pow(s, -1, q)
    return (pow(g, z * w % q, p) * pow(y, r * w % q, p) % p) % q == r


def py_xdh(curve, k, u):
    """RFC 7748 section 5 Montgomery ladder"""
    if curve == "X25519":
        p, a24, bits, n = 2 ** 255 - 19, 121665, 255, 32
        k = bytearray(k)
        k[0] &= 248
        k[31] = (k[31] & 127) | 64
        ui = int.from_bytes(u, "little") & ((1 << 255) - 1)
    else:
        p, a24, bits, n = 2 ** 448 - 2 ** 224 - 1, 39081, 448, 56
        k = bytearray(k)
        k[0] &= 252
        k[55] |= 128
        ui = int.from_bytes(u, "little")
    ki = int.from_bytes(k, "little")
    x1, x2, z2, x3, z3, swap = ui % p, 1, 0, ui % p, 1, 0
    for t in range(bits - 1, -1, -1):
        kt = (ki >> t) & 1
        if swap ^ kt:
            x2, x3, z2, z3 = x3, x2, z3, z2
        swap = kt
        a, b = (x2 + z2) % p, (x2 - z2) % p
        aa, bb = a * a % p, b * b % p
        e = (aa - bb) % p
        da, cb = (x3 - z3) * a % p, (x3 + z3) * b % p
        x3, z3 = (da + cb) ** 2 % p, x1 * (da - cb) ** 2 % p
        x2, z2 = aa * bb % p, e * (aa + a24 * e) % p
    if swap:
        x2, z2 = x3, z3
    return (x2 * pow(z2, p - 2, p) % p).to_bytes(n, "little")


def der_items(b):
    """minimal DER reader: list of (tag, content) of the elements in b"""
    out, i = [], 0
    while i < len(b):
        tag, ln = b[i], b[i + 1]
        i += 2
        if ln & 0x80:
            nb = ln & 0x7F
            ln = int.from_bytes(b[i:i + nb], "big")
            i += nb
        out.append((tag, b[i:i + ln]))
        i += ln
    if i != len(b):
        raise ValueError("DER overrun")
    return out


def flip(hexstr, pos=0):
    b = bytearray(H(hexstr))
    b[pos] ^= 1
    return bytes(b).hex()


# fixed test keys (generated once with a seeded Miller-Rabin search; not secret)
RSA_N = int(
    "b7b93b2554cf019e27bda713df424fd90bb646d6f84eed7d9e8d9b2bd85e9f07a70d81241a9b2add78604257d8f397f4"
    "f12363561b6b64e7f036d3ea77c5e63a83b8aa0f4b2811bcc6b562142600d75964e88b5912a39afa1af9c722cbef1024"
    "c710bc6069022a39d7561fcd54197ad945514e4b92a715dea9f0b61996ba99d0c2aa3b484c1943b0b82911cd1466e2bb"
    "6f01b09ab663578ee41454d3c78cc4d9a05adcf97de07f8c0585c501afddae6a725af4410dd39b3c7749298c1258b4b7"
    "215f2c49514b1c342d49a408d2d13a97002b2c955de5012c39b96c8576391869a5e88b00f2073cd52e35ca6a54a4c32b"
    "add5eb88822739e134735e063c183cf3"
    , 16)
RSA_E = int("10001", 16)
RSA_D = int(
    "8daf36b2b275b5ecaeff2e533ff0d6bd2eb0126f842cf22fd74fa3642bc7c4e2d4ecb03414a4a76906854d848bd647d0"
    "e909fe78904ac115b185c6e5e21a6753a6f3898aa3ce31e7a0628f51b4811f925c248e1a522a83c0ef7ec318cda6fe8f"
    "2e4974ccf10e6f5c0df9e82aa3f9c668ba715a6d239ae15dc736d068697a5c5578ae0ff077eb30af3041573cb9f95648"
    "5df8fc6cdfe91ad9a13d78780a2b736fa42b7aa71c01d553e64e6847ca7a1d2bd2975e927c8af4e5cb957d60ae9c077e"
    "ad92b0c10a300b21a06690a9f64232fa081201582ae52d0be625c7edda8a5c748c612cc54c60e3c12e9ec14e4aff30b6"
    "05239107f755a0fa1760aa63f16a9971"
    , 16)
RSA_P = int(
    "dff62b91cf81f592288b9b130a976ecea2911cbdf12e489699a560a1bcf96bcb7b9f88fc6f77937ed311fc3180068968"
    "dddd4f326cd4451923a4b86b03db90a5c23327c444714a5676836ac5b6151ea4850a05d376670b80f3a9b62858874f1b"
    "6647c3b42ef41b1d9e357ce726041342d5318df1c5e3462c0c11c1b807c5ae0b"
    , 16)
RSA_Q = int(
    "d2017ad04e00cb7f08729c17a1c55c96091bdecd7a10b10c1d8f72d683dbf30581170399d3668f5c1ea6a0398de58048"
    "03454c77b5f9a6ae502fbada2771025c47d464a8929cb24bdfca91bd01acfbb9f01ebf96b3b6c03b19512b6303baad00"
    "7693a0e5f15fedf498a0a59f0a077a03cb39f866127e07263755c10e324dc5b9"
    , 16)
DSA1024_P = int(
    "985cb8c964f2fc09320f1dc51cad0ec0c61df0d240577bae74e3dd004be99b1cbdc0445de406d0b1d3bd344407921ab7"
    "0f8e6e111ad9129bb79c9945cb45245c80d1154327257dc6de50d9e334f077bad46d952ba6dbcfe1e45ed95fb9762635"
    "534559a05d239947851b1a676a77caea6be8320a3165744f79c57baf414a3bb5"
    , 16)
DSA1024_Q = int("c53f3dd86157c62c518ddf2523b051c3ac4e1bbd", 16)
DSA1024_G = int(
    "4d448077d1a6950e7f54bf405db9d99d4fc21ea771abcfa16517a22bda3f98522e8e4186d84ecea45bc6d0a6fe39efa0"
    "a79fd13afd337cd9c22bcd1e31b433e16557409504fafdaeb5d0750754208053ddc5f7aae39acb4aa67edcd0ab071587"
    "0c87f2addab4f985992e949a6e7d482d06f9685a3180d734f85e10e474e0ca4c"
    , 16)
DSA1024_X = int("49e62796ca51c081aba1b90e4b261a314f488a01", 16)
DSA2048_P = int(
    "bac54d2689a9733ba882873e15d85c06a2b81f3113d68f72fe730f668d9b115b0e7b69a3fcfe9d5697263001445182c2"
    "8ee5fbacc6c5950a3dc9dc48d73df2500c52e0835fb495881024fa3319fe6472648d9b323bb6e4ddcd358fe7b9a03174"
    "a0e7f3a1a09af361806c87ae7dba986a533f4f73dc6ff37819c7bc410dade26c2b5af1bd00d1198e0bf4e66a1504f67d"
    "7d088c8890bba31473af74e1220500bb16e4c8aac043e1503031d12c8c79dc1c708d4aa52cf163be15193e3d2262181c"
    "16705b388535527efe7753ccc2b0bf98f2555244f1c77d12a19d17278261ed97bcca873978f8a173bbdf0575ef37c71d"
    "45e3850cacbc1171afe4c031d1328627"
    , 16)
DSA2048_Q = int("cbf6edb3e0dfda9da75c3afb2c078b27a354e9443ac29cab0c5342ec6e0cfd17", 16)
DSA2048_G = int(
    "90e50b9833238482589ba12d6eddc14ce03d4ad84dc1db9538a03e5d8af3f741f88e27aed8c6d616a9f205f36582e45a"
    "c3c0c3c3bd6e97857bbfcb059057b780d6d60bca0e0b2f86f1ad2131e92e8972d651b74b5cfd1c93c4fc6512e121a39a"
    "f12de62d9f898e2d709c15cb125077c7270632c734d8e80bceea32b4473f76d40f80bda6d6d84ded62e1d6d99c5b0071"
    "28303b9e74b499a12f106049ed9be78a21cbc6ff365db61d3338df917ccbce793988478f90f4970ddba5b206c6a3faa3"
    "9e69bd061ab817ccbc8e51cca7b4a63a5539c623d3122ea3fe3fafa99c50af88db8e227ca30e5ebdc3a334576078ea8c"
    "701288a565c46dfb534f68a5078ac011"
    , 16)
DSA2048_X = int("2d42e0f67ce7496a44a2ea350e4993ce9e2b0342143ad983be673f2c3de77fc1", 16)

def test_a_protocol():
    eq("ping", W.call(op="ping"), {"ok": True})
    eq("id is copied (number)", W.call(op="ping", id=42), {"ok": True, "id": 42})
    eq("id is copied (string) on error", W.call(op="no-such-op", id="x7").get("id"), "x7")
    for name, line in [("garbage line", b"this is not json"), ("empty line", b""), ("json array", b"[1,2]"),
                       ("json scalar", b"17"), ("truncated json", b'{"op":"hash"'), ("deep nesting", b"[" * 100000),
                       ("invalid utf-8", b'{"op":"\xff\xfe"}'), ("op not a string", b'{"op":5}'), ("no op", b"{}")]:
        r = W.raw(line)
        report("bad input -> error: " + name, list(r.keys()) == ["error"], repr(r))
    bad = [
        ("unknown op", dict(op="frobnicate")),
        ("missing field", dict(op="hash", alg="SHA-256")),
        ("bad hex", dict(op="hash", alg="SHA-256", data="zz")),
        ("odd hex", dict(op="hash", alg="SHA-256", data="abc")),
        ("non-string data", dict(op="hash", alg="SHA-256", data=5)),
        ("unknown hash", dict(op="hash", alg="SHA-3", data="")),
        ("unknown mac", dict(op="mac", alg="HMAC(FOO)", key="00", data="")),
        ("bad AES key length", dict(op="cipher", alg="AES", mode="ECB", dir="enc", key="00" * 15, data="00" * 16)),
        ("ECB partial block", dict(op="cipher", alg="AES", mode="ECB", dir="enc", key="00" * 16, data="00" * 15)),
        ("CBC partial block", dict(op="cipher", alg="AES", mode="CBC", dir="enc", key="00" * 16, iv="00" * 16, data="00" * 17)),
        ("CBC bad iv", dict(op="cipher", alg="AES", mode="CBC", dir="enc", key="00" * 16, iv="00" * 8, data="00" * 16)),
        ("unknown mode", dict(op="cipher", alg="AES", mode="XTS", dir="enc", key="00" * 16, data="")),
        ("bad dir", dict(op="cipher", alg="AES", mode="ECB", dir="sideways", key="00" * 16, data="")),
        ("ctrbits 0", dict(op="cipher", alg="AES", mode="CTR", dir="enc", key="00" * 16, iv="00" * 16, ctrbits=0, data="00")),
        ("ctrbits 129", dict(op="cipher", alg="AES", mode="CTR", dir="enc", key="00" * 16, iv="00" * 16, ctrbits=129, data="00")),
        ("ctrbits negative", dict(op="cipher", alg="AES", mode="CTR", dir="enc", key="00" * 16, iv="00" * 16, ctrbits=-1, data="00")),
        ("GCM empty iv", dict(op="cipher", alg="AES", mode="GCM", dir="enc", key="00" * 16, iv="", aad="", tagbytes=16, data="")),
        ("GCM tagbytes 0", dict(op="cipher", alg="AES", mode="GCM", dir="enc", key="00" * 16, iv="00", aad="", tagbytes=0, data="")),
        ("GCM tagbytes 17", dict(op="cipher", alg="AES", mode="GCM", dir="enc", key="00" * 16, iv="00", aad="", tagbytes=17, data="")),
        ("GCM dec shorter than tag", dict(op="cipher", alg="AES", mode="GCM", dir="dec", key="00" * 16, iv="00", aad="", tagbytes=16, data="00" * 15)),
        ("GCM with DES", dict(op="cipher", alg="DES", mode="GCM", dir="enc", key="00" * 8, iv="00", data="")),
        ("keywrap bad kek", dict(op="keywrap", mode="rfc3394", dir="wrap", kek="00" * 17, data="00" * 16)),
        ("keywrap 3394 short", dict(op="keywrap", mode="rfc3394", dir="wrap", kek="00" * 16, data="00" * 8)),
        ("keywrap 3394 odd", dict(op="keywrap", mode="rfc3394", dir="wrap", kek="00" * 16, data="00" * 17)),
        ("keywrap 5649 empty", dict(op="keywrap", mode="rfc5649", dir="wrap", kek="00" * 16, data="")),
        ("keywrap unwrap odd", dict(op="keywrap", mode="rfc5649", dir="unwrap", kek="00" * 16, data="00" * 17)),
        ("kcv bad alg", dict(op="kcv", alg="RC4", key="00" * 16)),
        ("rsa missing key", dict(op="rsa_sign", pad="pkcs1", hash="SHA-256", msg="00")),
        ("rsa zero modulus", dict(op="rsa_verify", n="00", e="03", pad="pkcs1", hash="SHA-256", msg="00", sig="00")),
        ("rsa p*q != n", dict(op="rsa_sign", n="0f", e="03", d="03", p="03", q="07", pad="raw", msg="01")),
        ("huge integer", dict(op="dh", p="ff" * 5000, g="02", x="03", peer="04")),
        ("dsa x = 0", dict(op="dsa_sign", p=hx(DSA1024_P), q=hx(DSA1024_Q), g=hx(DSA1024_G), x="00", hash="SHA-1", msg="")),
        ("dsa even p", dict(op="dsa_sign", p="10", q="03", g="02", x="01", hash="SHA-1", msg="")),
        ("ecdsa d = 0", dict(op="ecdsa_sign", curve="secp256r1", d="00", hash="SHA-256", msg="")),
        ("ecdsa d = n", dict(op="ecdsa_sign", curve="secp256r1", hash="SHA-256", msg="",
                             d="ffffffff00000000ffffffffffffffffbce6faada7179e84f3b9cac2fc632551")),
        ("unknown curve", dict(op="ec_pub", curve="secp192r1", d="01")),
        ("ecdh point not on curve", dict(op="ecdh", curve="secp256r1", d="01", peer="04" + "00" * 63 + "01")),
        ("ecdh short point", dict(op="ecdh", curve="secp256r1", d="01", peer="04" + "00" * 10)),
        ("eddsa bad seed length", dict(op="eddsa_sign", curve="Ed25519", d="00" * 31, msg="")),
        ("eddsa448 bad seed length", dict(op="eddsa_pub", curve="Ed448", d="00" * 32)),
        ("eddsa bad pub length", dict(op="eddsa_verify", curve="Ed448", pub="00" * 32, msg="", sig="00" * 114)),
        ("xdh bad scalar length", dict(op="xdh", curve="X448", d="00" * 32, peer="00" * 56)),
        ("xdh bad peer length", dict(op="xdh", curve="X25519", d="00" * 32, peer="00" * 31)),
        ("dh zero modulus", dict(op="dh", p="00", g="02", x="03", peer="04")),
        ("pkcs8_parse garbage", dict(op="pkcs8_parse", der="3003020100")),
        ("pkcs8_parse truncated", dict(op="pkcs8_parse", der="302e020100300506032b6570042204")),
        ("pkcs8_parse empty", dict(op="pkcs8_parse", der="")),
        ("pkcs8_parse length bomb", dict(op="pkcs8_parse", der="3084ffffffff")),
        ("pkcs8_make unknown type", dict(op="pkcs8_make", type="GOST", d="00")),
    ]
    for name, req in bad:
        r = W.call(**req)
        report("bad request -> error: " + name, list(r.keys()) == ["error"], repr(r))
    eq("still alive after bad input", W.call(op="ping"), {"ok": True})


def test_b_hash():
    for alg, want in [
        ("MD5", "900150983cd24fb0d6963f7d28e17f72"),
        ("SHA-1", "a9993e364706816aba3e25717850c26c9cd0d89d"),
        ("SHA-224", "23097d223405d8228642a477bda255b32aadbce4bda0b3f7e36c9da7"),
        ("SHA-256", "ba7816bf8f01cfea414140de5dae2223b00361a396177a9cb410ff61f20015ad"),
        ("SHA-384", "cb00753f45a35e8bb5a03d699ac65007272c32ab0eded1631a8b605a43ff5bed8086072ba1e7cc2358baeca134c825a7"),
        ("SHA-512", "ddaf35a193617abacc417349ae20413112e6fa4e89a97ea20a9eeee64b55d39a"
                    "2192992a274fc1a836ba3c23a3feebbd454d4423643ce80e2a9ac94fa54ca49f"),
    ]:
        eq("hash %s FIPS 180 'abc'" % alg, W.out(op="hash", alg=alg, data=b"abc".hex()), want)
        eq("hash %s empty input" % alg, W.out(op="hash", alg=alg, data=""), pyhash(alg, b"").hex())


def test_c_mac():
    hi = b"Hi There".hex()
    for alg, key, data, want in [
        ("HMAC(MD5)", "0b" * 16, hi, "9294727a3638bb1c13f48ef8158bfc9d"),                        # RFC 2202
        ("HMAC(SHA-1)", "0b" * 20, hi, "b617318655057264e28bc0b6fb378c8ef146be00"),              # RFC 2202
        ("HMAC(SHA-224)", "0b" * 20, hi, "896fb1128abbdf196832107cd49df33f47b4b1169912ba4f53684b22"),  # RFC 4231 #1
        ("HMAC(SHA-256)", "0b" * 20, hi, "b0344c61d8db38535ca8afceaf0bf12b881dc200c9833da726e9376c2e32cff7"),
        ("HMAC(SHA-384)", "0b" * 20, hi, "afd03944d84895626b0825f4ab46907f15f9dadbe4101ec682aa034c7cebc59c"
                                         "faea9ea9076ede7f4af152e8b2fa9cb6"),
        ("HMAC(SHA-512)", "0b" * 20, hi, "87aa7cdea5ef619d4ff0b4241a1d6cb02379f4e2ce4ec2787ad0b30545e17cde"
                                         "daa833b7d6b8a702038b274eaea3f4e4be9d914eeb61f1702e696c203a126854"),
        ("HMAC(SHA-256)", b"Jefe".hex(), b"what do ya want for nothing?".hex(),                  # RFC 4231 #2
         "5bdcc146bf60754e6a042426089575c75a003f089d2739839dec58b964ec3843"),
        ("HMAC(SHA-256)", "aa" * 131, b"Test Using Larger Than Block-Size Key - Hash Key First".hex(),  # RFC 4231 #6
         "60e431591ee0b67f0d8a26aacbf5b77f8e0bc6213728c5140546040f0ee37f54"),
    ]:
        eq("mac %s key %d bytes RFC 2202/4231" % (alg, len(key) // 2), W.out(op="mac", alg=alg, key=key, data=data), want)
    import hmac
    for alg in PYHASH:
        for klen in (0, 1, 64, 65, 128, 129, 5000):
            key = bytes(range(256)) * 20
            key = key[:klen]
            eq("mac HMAC(%s) key %d bytes vs python hmac" % (alg, klen),
               W.out(op="mac", alg="HMAC(%s)" % alg, key=key.hex(), data=b"message".hex()),
               hmac.new(key, b"message", PYHASH[alg]).hexdigest())
    # RFC 4493 AES-128 CMAC; SP 800-38B AES-192/256 and TDES examples
    m = ("6bc1bee22e409f96e93d7e117393172aae2d8a571e03ac9c9eb76fac45af8e51"
         "30c81c46a35ce411e5fbc1191a0a52eff69f2445df4f9b17ad2b417be66c3710")
    k128 = "2b7e151628aed2a6abf7158809cf4f3c"
    k192 = "8e73b0f7da0e6452c810f32b809079e562f8ead2522c6b7b"
    k256 = "603deb1015ca71be2b73aef0857d77811f352c073b6108d72d9810a30914dff4"
    for key, n, want in [
        (k128, 0, "bb1d6929e95937287fa37d129b756746"), (k128, 16, "070a16b46b4d4144f79bdd9dd04a287c"),
        (k128, 40, "dfa66747de9ae63030ca32611497c827"), (k128, 64, "51f0bebf7e3b9d92fc49741779363cfe"),
        (k192, 0, "d17ddf46adaacde531cac483de7a9367"), (k192, 16, "9e99a7bf31e710900662f65e617c5184"),
        (k192, 40, "8a1de5be2eb31aad089a82e6ee908b0e"), (k192, 64, "a1d5df0eed790f794d77589659f39a11"),
        (k256, 0, "028962f61b7bf89efc6b551f4667d983"), (k256, 16, "28a7023f452e8f82bd4bf28d8c37c35c"),
        (k256, 40, "aaf3d8f1de5640c232f5b169b9c911e6"), (k256, 64, "e1992190549f6ed5696a2c056c315410"),
    ]:
        eq("mac CMAC(AES) %d-bit key, %d byte msg (RFC 4493 / SP 800-38B)" % (len(key) * 4, n),
           W.out(op="mac", alg="CMAC(AES)", key=key, data=m[:2 * n]), want)
    k3 = "8aa83bf8cbda10620bc1bf19fbb6cd58bc313d4a371ca8b5"
    k2 = "4cf15134a2850dd58a3d10ba80570d38"
    for key, n, want in [
        (k3, 0, "b7a688e122ffaf95"), (k3, 8, "8e8f293136283797"), (k3, 20, "743ddbe0ce2dc2ed"), (k3, 32, "33e6b1092400eae5"),
        (k2, 0, "bd2ebf9a3ba00361"), (k2, 8, "4ff2ab813c53ce83"), (k2, 20, "62dd1b471902bd4e"), (k2, 32, "31b1e431dabc4eb8"),
    ]:
        eq("mac CMAC(3DES) %d-byte key, %d byte msg (SP 800-38B)" % (len(key) // 2, n),
           W.out(op="mac", alg="CMAC(3DES)", key=key, data=m[:2 * n]), want)
    eq("mac CMAC(3DES) two-key == k1|k2|k1", W.out(op="mac", alg="CMAC(3DES)", key=k2, data=m),
       W.out(op="mac", alg="CMAC(3DES)", key=k2 + k2[:16], data=m))


def test_d_cipher():
    pt = "00112233445566778899aabbccddeeff"
    for key, want in [
        ("000102030405060708090a0b0c0d0e0f", "69c4e0d86a7b0430d8cdb78070b4c55a"),
        ("000102030405060708090a0b0c0d0e0f1011121314151617", "dda97ca4864cdfe06eaf70a0ec0d7191"),
        ("000102030405060708090a0b0c0d0e0f101112131415161718191a1b1c1d1e1f", "8ea2b7ca516745bfeafc49904b496089"),
    ]:
        eq("cipher AES-%d ECB enc FIPS-197" % (len(key) * 4), W.out(op="cipher", alg="AES", mode="ECB", dir="enc", key=key, data=pt), want)
        eq("cipher AES-%d ECB dec FIPS-197" % (len(key) * 4), W.out(op="cipher", alg="AES", mode="ECB", dir="dec", key=key, data=want), pt)
    eq("cipher ECB empty input", W.out(op="cipher", alg="AES", mode="ECB", dir="enc", key="00" * 16, data=""), "")
    # SP 800-38A F.2.1 / F.2.2 (CBC-AES128), F.5.1 (CTR-AES128)
    k = "2b7e151628aed2a6abf7158809cf4f3c"
    p4 = ("6bc1bee22e409f96e93d7e117393172aae2d8a571e03ac9c9eb76fac45af8e51"
          "30c81c46a35ce411e5fbc1191a0a52eff69f2445df4f9b17ad2b417be66c3710")
    c4 = ("7649abac8119b246cee98e9b12e9197d5086cb9b507219ee95db113a917678b2"
          "73bed6b8e3c1743b7116e69e222295163ff1caa1681fac09120eca307586e1a7")
    iv = "000102030405060708090a0b0c0d0e0f"
    eq("cipher AES CBC enc SP 800-38A F.2.1", W.out(op="cipher", alg="AES", mode="CBC", dir="enc", key=k, iv=iv, data=p4), c4)
    eq("cipher AES CBC dec SP 800-38A F.2.2", W.out(op="cipher", alg="AES", mode="CBC", dir="dec", key=k, iv=iv, data=c4), p4)
    ctr = "f0f1f2f3f4f5f6f7f8f9fafbfcfdfeff"
    cc = ("874d6191b620e3261bef6864990db6ce9806f66b7970fdff8617187bb9fffdff"
          "5ae4df3edbd5d35e5b4f09020db03eab1e031dda2fbe03d1792170a0f3009cee")
    eq("cipher AES CTR enc SP 800-38A F.5.1", W.out(op="cipher", alg="AES", mode="CTR", dir="enc", key=k, iv=ctr, ctrbits=128, data=p4), cc)
    eq("cipher AES CTR dec SP 800-38A F.5.2", W.out(op="cipher", alg="AES", mode="CTR", dir="dec", key=k, iv=ctr, ctrbits=128, data=cc), p4)
    eq("cipher AES CTR partial block", W.out(op="cipher", alg="AES", mode="CTR", dir="enc", key=k, iv=ctr, ctrbits=128, data=p4[:38]), cc[:38])
    # CBC_PAD: PKCS#7, every residue
    for n in (0, 1, 15, 16, 17, 31, 32):
        data = bytes(range(n))
        padded = data + bytes([16 - n % 16]) * (16 - n % 16)
        want = py_cbc_enc("AES", H(k), H(iv), padded).hex()
        got = W.out(op="cipher", alg="AES", mode="CBC_PAD", dir="enc", key=k, iv=iv, data=data.hex())
        eq("cipher AES CBC_PAD enc %d bytes vs definition" % n, got, want)
        eq("cipher AES CBC_PAD dec %d bytes" % n, W.out(op="cipher", alg="AES", mode="CBC_PAD", dir="dec", key=k, iv=iv, data=got), data.hex())
    for name, blk in [("zero pad byte", "00" * 16), ("pad byte 17", "11" * 16), ("inconsistent", "00" * 13 + "020303")]:
        bad = py_cbc_enc("AES", H(k), H(iv), H(blk)).hex()
        r = W.call(op="cipher", alg="AES", mode="CBC_PAD", dir="dec", key=k, iv=iv, data=bad)
        report("cipher CBC_PAD dec rejects bad padding: " + name, "error" in r, repr(r))
    r = W.call(op="cipher", alg="AES", mode="CBC_PAD", dir="dec", key=k, iv=iv, data="")
    report("cipher CBC_PAD dec rejects empty input", "error" in r, repr(r))
    # DES / 3DES
    eq("cipher DES ECB classic vector", W.out(op="cipher", alg="DES", mode="ECB", dir="enc", key="0123456789abcdef", data="4e6f772069732074"), "3fa40e8a984d4815")
    eq("cipher DES ECB second vector", W.out(op="cipher", alg="DES", mode="ECB", dir="enc", key="133457799bbcdff1", data="0123456789abcdef"), "85e813540f0ab405")
    eq("cipher DES ECB dec", W.out(op="cipher", alg="DES", mode="ECB", dir="dec", key="0123456789abcdef", data="3fa40e8a984d4815"), "4e6f772069732074")
    k3 = "0123456789abcdef23456789abcdef01456789abcdef0123"
    p3 = "5468652071756663" "6b2062726f776e20" "666f78206a756d70"
    c3 = "a826fd8ce53b855f" "cce21c8112256fe6" "68d5c05dd9b6b900"
    eq("cipher 3DES ECB enc SP 800-67", W.out(op="cipher", alg="3DES", mode="ECB", dir="enc", key=k3, data=p3), c3)
    eq("cipher 3DES ECB dec SP 800-67", W.out(op="cipher", alg="3DES", mode="ECB", dir="dec", key=k3, data=c3), p3)
    kd = "0123456789abcdef"
    eq("cipher 3DES k|k|k == DES", W.out(op="cipher", alg="3DES", mode="ECB", dir="enc", key=kd * 3, data="4e6f772069732074"), "3fa40e8a984d4815")
    k2 = k3[:32]
    eq("cipher 3DES two-key == k1|k2|k1", W.out(op="cipher", alg="3DES", mode="ECB", dir="enc", key=k2, data=p3),
       W.out(op="cipher", alg="3DES", mode="ECB", dir="enc", key=k2 + k2[:16], data=p3))
    # 3DES two-key by composition of single DES: E_k1(D_k2(E_k1(x)))
    x = ecb("DES", H(k2[:16]), H(p3[:16]))
    x = ecb("DES", H(k2[16:]), x, "dec")
    x = ecb("DES", H(k2[:16]), x)
    eq("cipher 3DES two-key == E(k1) D(k2) E(k1)", W.out(op="cipher", alg="3DES", mode="ECB", dir="enc", key=k2, data=p3[:16]), x.hex())
    iv8 = "1234567890abcdef"
    for alg, key in (("DES", kd), ("3DES", k3), ("3DES", k2)):
        want = py_cbc_enc(alg, H(key), H(iv8), H(p3)).hex()
        eq("cipher %s(%d) CBC enc vs definition" % (alg, len(key) // 2), W.out(op="cipher", alg=alg, mode="CBC", dir="enc", key=key, iv=iv8, data=p3), want)
        eq("cipher %s(%d) CBC dec" % (alg, len(key) // 2), W.out(op="cipher", alg=alg, mode="CBC", dir="dec", key=key, iv=iv8, data=want), p3)
        got = W.out(op="cipher", alg=alg, mode="CBC_PAD", dir="enc", key=key, iv=iv8, data=p3[:20])
        eq("cipher %s(%d) CBC_PAD enc vs definition" % (alg, len(key) // 2), got, py_cbc_enc(alg, H(key), H(iv8), H(p3[:20]) + b"\6" * 6).hex())
        eq("cipher %s(%d) CBC_PAD dec" % (alg, len(key) // 2), W.out(op="cipher", alg=alg, mode="CBC_PAD", dir="dec", key=key, iv=iv8, data=got), p3[:20])


def test_e_ctr_wrap():
    key = H("2b7e151628aed2a6abf7158809cf4f3c")
    data = bytes(range(80)) + b"xyz"
    cases = [
        (8, "000102030405060708090a0b0c0d0efe"), (8, "ffffffffffffffffffffffffffffffff"),
        (32, "00112233445566778899aabbfffffffe"), (32, "ffffffffffffffffffffffffffffffff"),
        (1, "000102030405060708090a0b0c0d0e0f"), (5, "000102030405060708090a0b0c0d0e1e"),
        (12, "000102030405060708090a0b0c0d1ffe"), (64, "0001020304050607fffffffffffffffd"),
        (127, "7ffffffffffffffffffffffffffffffe"), (127, "fffffffffffffffffffffffffffffffe"),
        (128, "fffffffffffffffffffffffffffffffe"),
    ]
    for bits, iv in cases:
        want = py_ctr("AES", key, H(iv), data, bits).hex()
        got = W.out(op="cipher", alg="AES", mode="CTR", dir="enc", key=key.hex(), iv=iv, ctrbits=bits, data=data.hex())
        eq("cipher AES CTR wrap ctrbits=%d iv=%s vs definition" % (bits, iv), got, want)
        eq("cipher AES CTR dec ctrbits=%d iv=%s" % (bits, iv),
           W.out(op="cipher", alg="AES", mode="CTR", dir="dec", key=key.hex(), iv=iv, ctrbits=bits, data=got), data.hex())
    # explicit statement of the wrap for 8 and 32 bits: block 2 uses the counter with the low bits zeroed, high bits untouched
    z = b"\0" * 48
    got = H(W.out(op="cipher", alg="AES", mode="CTR", dir="enc", key=key.hex(), iv="a0" * 15 + "fe", ctrbits=8, data=z.hex()))
    want = b"".join(ecb("AES", key, H("a0" * 15 + last)) for last in ("fe", "ff", "00"))
    eq("cipher AES CTR ctrbits=8: ..fe, ..ff, ..00 without carry into byte 14", got.hex(), want.hex())
    got = H(W.out(op="cipher", alg="AES", mode="CTR", dir="enc", key=key.hex(), iv="a0" * 12 + "fffffffe", ctrbits=32, data=z.hex()))
    want = b"".join(ecb("AES", key, H("a0" * 12 + last)) for last in ("fffffffe", "ffffffff", "00000000"))
    eq("cipher AES CTR ctrbits=32: wrap to 00000000 without carry into byte 11", got.hex(), want.hex())
    k3 = H("0123456789abcdef23456789abcdef01456789abcdef0123")
    want = py_ctr("3DES", k3, H("00000000000000ff"), data, 8).hex()
    eq("cipher 3DES CTR ctrbits=8 vs definition", W.out(op="cipher", alg="3DES", mode="CTR", dir="enc", key=k3.hex(), iv="00000000000000ff", ctrbits=8, data=data.hex()), want)


def gcm(dir, key, iv, aad, data, tagbytes=16):
    return W.call(op="cipher", alg="AES", mode="GCM", dir=dir, key=key, iv=iv, aad=aad, tagbytes=tagbytes, data=data)


def test_f_gcm():
    k0, iv0 = "00" * 16, "00" * 12
    k = "feffe9928665731c6d6a8f9467308308"
    iv = "cafebabefacedbaddecaf888"
    p = ("d9313225f88406e5a55909c5aff5269a86a7a9531534f7da2e4c303d8a318a72"
         "1c3c0c95956809532fcf0e2449a6b525b16aedf5aa0de657ba637b391aafd255")
    c = ("42831ec2217774244b7221b784d0d49ce3aa212f2c02a4e035c17e2329aca12e"
         "21d514b25466931c7d8f6a5aac84aa051ba30b396a0aac973d58e091473f5985")
    aad = "feedfacedeadbeeffeedfacedeadbeefabaddad2"
    iv60 = ("9313225df88406e555909c5aff5269aa6a7a9538534f7da1e4c303d2a318a728"
            "c3c0c95156809539fcf0e2429a6b525416aedbf5a0de6a57a637b39b")
    vectors = [  # GCM specification (McGrew / Viega) test cases
        (1, k0, iv0, "", "", "", "58e2fccefa7e3061367f1d57a4e7455a"),
        (2, k0, iv0, "", "00" * 16, "0388dace60b6a392f328c2b971b2fe78", "ab6e47d42cec13bdf53a67b21257bddf"),
        (3, k, iv, "", p, c, "4d5c2af327cd64a62cf35abd2ba6fab4"),
        (4, k, iv, aad, p[:120], c[:120], "5bc94fbc3221a5db94fae95ae7121a47"),
        (5, k, "cafebabefacedbad", aad, p[:120],
         "61353b4c2806934a777ff51fa22a4755699b2a714fcdc6f83766e5f97b6c742373806900e49f24b22b097544d4896b424989b5e1ebac0f07c23f4598",
         "3612d2e79e3b0785561be14aaca2fccb"),
        (6, k, iv60, aad, p[:120],
         "8ce24998625615b603a033aca13fb894be9112a5c3a211a8ba262a3cca7e2ca701e4a9a4fba43c90ccdcb281d48c7c6fd62875d2aca417034c34aee5",
         "619cc5aefffe0bfa462af43c1699d050"),
        (7, "00" * 24, iv0, "", "", "", "cd33b28ac773f74ba00ed1f312572435"),
        (8, "00" * 24, iv0, "", "00" * 16, "98e7247c07f0fe411c267e4384b0f600", "2ff58d80033927ab8ef4d4587514f0fb"),
        (13, "00" * 32, iv0, "", "", "", "530f8afbc74536b9a963b4f1c4cb738b"),
        (14, "00" * 32, iv0, "", "00" * 16, "cea7403d4d606b6e074ec5d3baf39d18", "d0d1c8a799996bf0265b98b5d48ab919"),
    ]
    for no, key, ivx, a, pt, ct, tag in vectors:
        eq("cipher AES-%d GCM enc test case %d" % (len(key) * 4, no), gcm("enc", key, ivx, a, pt).get("out"), ct + tag)
        eq("cipher AES-%d GCM dec test case %d" % (len(key) * 4, no), gcm("dec", key, ivx, a, ct + tag).get("out"), pt)
    # every tag length: truncation of the full tag, decrypts, tampering detected
    for tb in range(1, 17):
        full = c[:120] + "5bc94fbc3221a5db94fae95ae7121a47"[:2 * tb]
        ok = gcm("enc", k, iv, aad, p[:120], tb).get("out") == full
        ok = ok and gcm("dec", k, iv, aad, full, tb).get("out") == p[:120]
        ok = ok and gcm("dec", k, iv, aad, flip(full, 60 + tb - 1), tb) == {"error": "auth"}   # last tag byte
        ok = ok and gcm("dec", k, iv, aad, flip(full, 3), tb) == {"error": "auth"}             # ciphertext
        ok = ok and gcm("dec", k, iv, flip(aad), full, tb) == {"error": "auth"}                # aad
        report("cipher AES GCM tagbytes=%d: truncated tag, decrypt, tamper -> auth" % tb, ok)
    # every kind of IV length against an independent GHASH implementation
    for klen in (16, 24, 32):
        key = bytes(range(klen))
        for ivlen in (1, 7, 8, 11, 12, 13, 16, 17, 32, 100):
            for alen, plen in ((0, 0), (5, 33), (16, 16), (0, 1)):
                ivb, ab, pb = bytes(range(1, ivlen + 1)), bytes(range(alen)), bytes(range(100, 100 + plen))
                ct, tag = py_gcm(key, ivb, ab, pb)
                got = gcm("enc", key.hex(), ivb.hex(), ab.hex(), pb.hex(), 13).get("out")
                back = gcm("dec", key.hex(), ivb.hex(), ab.hex(), (ct + tag[:13]).hex(), 13).get("out")
                report("cipher AES-%d GCM iv %d bytes, aad %d, data %d vs python GHASH" % (klen * 8, ivlen, alen, plen),
                       got == (ct + tag[:13]).hex() and back == pb.hex(), "got %r" % got)
    eq("cipher AES GCM aad field optional", W.call(op="cipher", alg="AES", mode="GCM", dir="enc", key=k0, iv=iv0, tagbytes=16, data="").get("out"),
       "58e2fccefa7e3061367f1d57a4e7455a")


def test_g_keywrap():
    def kw(mode, dir, kek, data):
        return W.call(op="keywrap", mode=mode, dir=dir, kek=kek, data=data)
    kek = "000102030405060708090a0b0c0d0e0f101112131415161718191a1b1c1d1e1f"
    d128 = "00112233445566778899aabbccddeeff"
    d192 = d128 + "0001020304050607"
    d256 = d128 + "000102030405060708090a0b0c0d0e0f"
    for sect, klen, data, want in [
        ("4.1", 16, d128, "1fa68b0a8112b447aef34bd8fb5a7b829d3e862371d2cfe5"),
        ("4.2", 24, d128, "96778b25ae6ca435f92b5b97c050aed2468ab8a17ad84e5d"),
        ("4.3", 32, d128, "64e8c3f9ce0f5ba263e9777905818a2a93c8191e7d6e8ae7"),
        ("4.4", 24, d192, "031d33264e15d33268f24ec260743edce1c6c7ddee725a936ba814915c6762d2"),
        ("4.5", 32, d192, "a8f9bc1612c68b3ff6e6f4fbe30e71e4769c8b80a32cb8958cd5d17d6b254da1"),
        ("4.6", 32, d256, "28c9f404c4b810f4cbccb35cfb87f8263f5786e2d80ed326cbc7f0e71a99f43bfb988b9b7a02dd21"),
    ]:
        eq("keywrap rfc3394 wrap RFC 3394 " + sect, kw("rfc3394", "wrap", kek[:2 * klen], data).get("out"), want)
        eq("keywrap rfc3394 unwrap RFC 3394 " + sect, kw("rfc3394", "unwrap", kek[:2 * klen], want).get("out"), data)
        eq("keywrap rfc3394 unwrap tampered -> integrity " + sect, kw("rfc3394", "unwrap", kek[:2 * klen], flip(want, 9)), {"error": "integrity"})
    eq("keywrap rfc3394 unwrap wrong kek -> integrity", kw("rfc3394", "unwrap", "ff" * 16, "1fa68b0a8112b447aef34bd8fb5a7b829d3e862371d2cfe5"), {"error": "integrity"})
    k5649 = "5840df6e29b02af1ab493b705bf16ea1ae8338f4dcc176a8"
    for name, data, want in [
        ("20 octets", "c37b7e6492584340bed12207808941155068f738", "138bdeaa9b8fa7fc61f97742e72248ee5ae6ae5360d1ae6a5f54f373fa543b6a"),
        ("7 octets", "466f7250617369", "afbeb0f07dfbf5419200f2ccb50bb24f"),
    ]:
        eq("keywrap rfc5649 wrap RFC 5649 section 6, " + name, kw("rfc5649", "wrap", k5649, data).get("out"), want)
        eq("keywrap rfc5649 unwrap RFC 5649 section 6, " + name, kw("rfc5649", "unwrap", k5649, want).get("out"), data)
        eq("keywrap rfc5649 unwrap tampered -> integrity, " + name, kw("rfc5649", "unwrap", k5649, flip(want, 5)), {"error": "integrity"})
    # every residue against the definition built on ECB
    for klen in (16, 24, 32):
        kb = H(kek[:2 * klen])
        for n in (1, 7, 8, 9, 15, 16, 17, 24, 31, 32, 33, 64, 65):
            data = bytes(range(0x30, 0x30 + n))
            want = py_wrap_5649(kb, data).hex()
            ok = kw("rfc5649", "wrap", kb.hex(), data.hex()).get("out") == want
            ok = ok and kw("rfc5649", "unwrap", kb.hex(), want).get("out") == data.hex()
            report("keywrap rfc5649 AES-%d %d bytes vs definition" % (klen * 8, n), ok)
        for n in (16, 24, 32, 40, 72):
            data = bytes(range(0x30, 0x30 + n))
            want = py_wrap_3394(kb, data).hex()
            ok = kw("rfc3394", "wrap", kb.hex(), data.hex()).get("out") == want
            ok = ok and kw("rfc3394", "unwrap", kb.hex(), want).get("out") == data.hex()
            report("keywrap rfc3394 AES-%d %d bytes vs definition" % (klen * 8, n), ok)
    # RFC 5649 integrity conditions individually: bad AIV constant, bad length field, non-zero padding
    kb = H(kek[:32])
    blocks = [b"ABCDEFGH", b"IJK\0\0\0\0\0"]
    good = py_wrap(kb, blocks, H("a65959a6") + (11).to_bytes(4, "big"))
    eq("keywrap rfc5649 unwrap hand-built good", kw("rfc5649", "unwrap", kb.hex(), good.hex()).get("out"), b"ABCDEFGHIJK".hex())
    for name, a, bl in [
        ("wrong AIV constant", H("a6a6a6a6") + (11).to_bytes(4, "big"), blocks),
        ("rfc3394 IV", H("a6a6a6a6a6a6a6a6"), blocks),
        ("MLI too large", H("a65959a6") + (17).to_bytes(4, "big"), blocks),
        ("MLI too small", H("a65959a6") + (8).to_bytes(4, "big"), blocks),
        ("MLI zero", H("a65959a6") + (0).to_bytes(4, "big"), blocks),
        ("non-zero padding", H("a65959a6") + (11).to_bytes(4, "big"), [b"ABCDEFGH", b"IJK\0\0\0\0\1"]),
    ]:
        eq("keywrap rfc5649 unwrap rejects " + name, kw("rfc5649", "unwrap", kb.hex(), py_wrap(kb, bl, a).hex()), {"error": "integrity"})
    one = ecb("AES", kb, H("a65959a6") + (9).to_bytes(4, "big") + b"ABCDEFGH")
    eq("keywrap rfc5649 unwrap rejects single block with MLI 9", kw("rfc5649", "unwrap", kb.hex(), one.hex()), {"error": "integrity"})
    eq("keywrap rfc3394 unwrap rejects rfc5649 output", kw("rfc3394", "unwrap", kb.hex(), good.hex()), {"error": "integrity"})


def test_h_kcv():
    for alg, key in [("AES", "00" * 16), ("AES", "2b7e151628aed2a6abf7158809cf4f3c"), ("AES", "11" * 24), ("AES", "22" * 32),
                     ("DES", "0123456789abcdef"), ("3DES", "0123456789abcdef23456789abcdef01456789abcdef0123"),
                     ("3DES", "0123456789abcdef23456789abcdef01")]:
        bs = 16 if alg == "AES" else 8
        eq("kcv %s %d-byte key == ECB(0)[:3]" % (alg, len(key) // 2), W.out(op="kcv", alg=alg, key=key), ecb(alg, H(key), b"\0" * bs)[:3].hex())
    eq("kcv AES-128 zero key known value", W.out(op="kcv", alg="AES", key="00" * 16), "66e94b")  # AES-128(0,0)=66e94bd4ef8a2c3b...
    eq("kcv DES weak key known value", W.out(op="kcv", alg="DES", key="0101010101010101"), "8ca64d")  # DES(0101..,0)=8ca64de9c1b123a7
    eq("kcv 3DES two-key == three-key k1|k2|k1", W.out(op="kcv", alg="3DES", key="0123456789abcdef23456789abcdef01"),
       W.out(op="kcv", alg="3DES", key="0123456789abcdef23456789abcdef010123456789abcdef"))
    for key in ("", "00", "0123456789abcdef0123"):
        eq("kcv GENERIC %d-byte key == SHA-1(key)[:3]" % (len(key) // 2), W.out(op="kcv", alg="GENERIC", key=key), hashlib.sha1(H(key)).digest()[:3].hex())


def rsa_key():
    return dict(n=hx(RSA_N), e=hx(RSA_E), d=hx(RSA_D), p=hx(RSA_P), q=hx(RSA_Q))


def rsa_pub():
    return dict(n=hx(RSA_N), e=hx(RSA_E))


def test_i_rsa_sign():
    k = (RSA_N.bit_length() + 7) // 8
    msg = b"The quick brown fox"

    def sign(**kw):
        return W.call(op="rsa_sign", **dict(rsa_key(), **kw))

    def verify(**kw):
        return W.call(op="rsa_verify", **dict(rsa_pub(), **kw)).get("ok")

    def public_op(sig_hex):
        return pow(int(sig_hex, 16), RSA_E, RSA_N).to_bytes(k, "big")

    for h in PYHASH:
        t = H(DIGESTINFO[h]) + pyhash(h, msg)
        sig = sign(pad="pkcs1", hash=h, msg=msg.hex()).get("out", "00")
        ok = len(sig) == 2 * k and public_op(sig) == py_type1(k, t)
        ok = ok and sign(pad="pkcs1", hash=h, msg=msg.hex()).get("out") == sig                  # deterministic
        ok = ok and hx(pow(int.from_bytes(py_type1(k, t), "big"), RSA_D, RSA_N), k) == sig
        report("rsa_sign pkcs1 %s == python EMSA-PKCS1-v1_5 encoding" % h, ok)
        ok = verify(pad="pkcs1", hash=h, msg=msg.hex(), sig=sig) is True
        ok = ok and verify(pad="pkcs1", hash=h, msg=(msg + b"!").hex(), sig=sig) is False
        ok = ok and verify(pad="pkcs1", hash=h, msg=msg.hex(), sig=flip(sig, 100)) is False
        ok = ok and verify(pad="pkcs1", hash="SHA-1" if h != "SHA-1" else "SHA-256", msg=msg.hex(), sig=sig) is False
        ok = ok and verify(pad="pkcs1", hash=h, msg=msg.hex(), sig=sig[2:]) is False
        ok = ok and verify(pad="pkcs1", hash=h, msg=msg.hex(), sig="00" + sig) is False
        report("rsa_verify pkcs1 %s: accept, reject tampered msg / sig / hash / length" % h, ok)
        eq("rsa_sign pkcs1_raw with DigestInfo(%s) == pkcs1" % h, sign(pad="pkcs1_raw", msg=t.hex()).get("out"), sig)
        report("rsa_verify pkcs1_raw with DigestInfo(%s)" % h, verify(pad="pkcs1_raw", msg=t.hex(), sig=sig) is True
               and verify(pad="pkcs1_raw", msg=flip(t.hex(), 20), sig=sig) is False)
    for data in (b"", b"\0", bytes(range(36)), bytes(range(k - 11))):
        sig = sign(pad="pkcs1_raw", msg=data.hex()).get("out", "00")
        report("rsa_sign pkcs1_raw %d arbitrary bytes == type-1 padding" % len(data), public_op(sig) == py_type1(k, data)
               and verify(pad="pkcs1_raw", msg=data.hex(), sig=sig) is True)
    report("rsa_sign pkcs1_raw too long -> error", "error" in sign(pad="pkcs1_raw", msg="00" * (k - 10)))

    embits = RSA_N.bit_length() - 1
    for h in PYHASH:
        hl = len(pyhash(h, b""))
        mh = pyhash(h, msg)
        for sl in sorted(set([0, 1, 20, hl, k - hl - 2])):
            sig = sign(pad="pss", hash=h, saltlen=sl, msg=msg.hex()).get("out", "00")
            sig2 = sign(pad="pss_raw", hash=h, saltlen=sl, msg=mh.hex()).get("out", "00")
            ok = len(sig) == 2 * k and py_pss_verify(h, mh, public_op(sig), embits, sl)
            ok = ok and len(sig2) == 2 * k and py_pss_verify(h, mh, public_op(sig2), embits, sl)
            ok = ok and (sl == 0 or sl < 16 or sig != sig2) and (sl != 0 or sig == sig2)   # randomised unless the salt is empty
            report("rsa_sign pss / pss_raw %s saltlen %d verified by python EMSA-PSS" % (h, sl), ok)
            ok = verify(pad="pss", hash=h, saltlen=sl, msg=msg.hex(), sig=sig) is True
            ok = ok and verify(pad="pss_raw", hash=h, saltlen=sl, msg=mh.hex(), sig=sig) is True
            ok = ok and verify(pad="pss", hash=h, saltlen=sl, msg=msg.hex(), sig=sig2) is True
            ok = ok and verify(pad="pss", hash=h, saltlen=sl + 1, msg=msg.hex(), sig=sig) is False
            ok = ok and verify(pad="pss", hash=h, saltlen=sl, msg=(msg + b"!").hex(), sig=sig) is False
            ok = ok and verify(pad="pss_raw", hash=h, saltlen=sl, msg=flip(mh.hex()), sig=sig) is False
            ok = ok and verify(pad="pss", hash=h, saltlen=sl, msg=msg.hex(), sig=flip(sig, 7)) is False
            report("rsa_verify pss / pss_raw %s saltlen %d: accept, reject wrong saltlen / msg / sig" % (h, sl), ok)
        report("rsa_sign pss %s salt too long -> error" % h, "error" in sign(pad="pss", hash=h, saltlen=k - hl - 1, msg=msg.hex()))
        report("rsa_sign pss_raw %s wrong hash length -> error" % h, "error" in sign(pad="pss_raw", hash=h, saltlen=hl, msg=mh.hex() + "00"))
    # python-made PSS signature (fixed salt) accepted by the worker
    h, salt = "SHA-256", bytes(range(32))
    mh = pyhash(h, msg)
    emlen = (embits + 7) // 8
    hh = pyhash(h, b"\0" * 8 + mh + salt)
    db = b"\0" * (emlen - 32 - 32 - 2) + b"\1" + salt
    mdb = bytearray(xor(db, mgf1(h, hh, len(db))))
    mdb[0] &= 0xFF >> (8 * emlen - embits)
    em = bytes(mdb) + hh + b"\xbc"
    sig = hx(pow(int.from_bytes(em, "big"), RSA_D, RSA_N), k)
    report("rsa_verify pss accepts python-made signature", verify(pad="pss", hash=h, saltlen=32, msg=msg.hex(), sig=sig) is True)
    report("rsa_verify pss default saltlen == hash length", W.call(op="rsa_verify", pad="pss", hash=h, msg=msg.hex(), sig=sig, **rsa_pub()).get("ok") is True)

    m = b"\0\0\x13" + bytes(range(k - 3))
    sig = sign(pad="raw", msg=m.hex()).get("out", "00")
    eq("rsa_sign raw == m^d mod n", sig, hx(pow(int.from_bytes(m, "big"), RSA_D, RSA_N), k))
    report("rsa_verify raw: accept, reject tampered", verify(pad="raw", msg=m.hex(), sig=sig) is True
           and verify(pad="raw", msg=flip(m.hex(), 5), sig=sig) is False and verify(pad="raw", msg=m.hex(), sig=flip(sig, 5)) is False)
    report("rsa_sign raw short msg -> error", "error" in sign(pad="raw", msg=m[1:].hex()))
    report("rsa_sign raw msg >= n -> error", "error" in sign(pad="raw", msg="ff" * k))
    report("rsa_sign unknown pad -> error", "error" in sign(pad="x931", hash="SHA-1", msg="00"))
    report("rsa_sign unknown hash -> error", "error" in sign(pad="pkcs1", hash="SHA3-256", msg="00"))


def test_j_rsa_crypt():
    k = (RSA_N.bit_length() + 7) // 8

    def enc(**kw):
        return W.call(op="rsa_encrypt", **dict(rsa_pub(), **kw))

    def dec(**kw):
        return W.call(op="rsa_decrypt", **dict(rsa_key(), **kw))

    def private_op(ct_hex):
        return pow(int(ct_hex, 16), RSA_D, RSA_N).to_bytes(k, "big")

    def public_op(em):
        return hx(pow(int.from_bytes(em, "big"), RSA_E, RSA_N), k)

    for msg in (b"", b"x", b"secret message", bytes(range(k - 11))):
        ct = enc(pad="pkcs1", msg=msg.hex()).get("out", "00")
        em = private_op(ct)
        ps = em[2:k - len(msg) - 1]
        ok = len(ct) == 2 * k and em[:2] == b"\0\2" and len(ps) >= 8 and 0 not in ps and em[k - len(msg) - 1] == 0 and em[k - len(msg):] == msg
        ok = ok and dec(pad="pkcs1", ct=ct).get("out") == msg.hex()
        ok = ok and enc(pad="pkcs1", msg=msg.hex()).get("out") != ct   # randomised
        report("rsa_encrypt / rsa_decrypt pkcs1 %d bytes, EME checked in python" % len(msg), ok)
    report("rsa_encrypt pkcs1 too long -> error", "error" in enc(pad="pkcs1", msg="00" * (k - 10)))
    em = b"\0\2" + b"\x55" * (k - 3 - 5) + b"\0hello"
    eq("rsa_decrypt pkcs1 of python-made ciphertext", dec(pad="pkcs1", ct=public_op(em)).get("out"), b"hello".hex())
    for name, bad in [("block type 1", b"\0\1" + em[2:]), ("first byte not 0", b"\1\2" + em[2:]), ("no separator", b"\0\2" + b"\x55" * (k - 2)),
                      ("padding shorter than 8", b"\0\2" + b"\x55" * 7 + b"\0" + b"m" * (k - 10))]:
        report("rsa_decrypt pkcs1 rejects " + name, "error" in dec(pad="pkcs1", ct=public_op(bad)))
    report("rsa_decrypt ct >= n -> error", "error" in dec(pad="pkcs1", ct="ff" * k))

    for h in PYHASH:
        hl = len(pyhash(h, b""))
        for label in (b"", b"label", b"\0bin\xff\0"):
            for msg in (b"", b"secret message", bytes(range(k - 2 * hl - 2))):
                ct = enc(pad="oaep", hash=h, label=label.hex(), msg=msg.hex()).get("out", "00")
                ok = len(ct) == 2 * k and py_oaep_decode(h, private_op(ct), label) == msg
                ok = ok and dec(pad="oaep", hash=h, label=label.hex(), ct=ct).get("out") == msg.hex()
                ok = ok and "error" in dec(pad="oaep", hash=h, label=(label + b"x").hex(), ct=ct)
                ct2 = public_op(py_oaep_encode(h, k, msg, label, bytes(range(hl))))
                ok = ok and dec(pad="oaep", hash=h, label=label.hex(), ct=ct2).get("out") == msg.hex()
                report("rsa_encrypt / rsa_decrypt oaep %s label %d bytes msg %d bytes vs python OAEP" % (h, len(label), len(msg)), ok)
        report("rsa_encrypt oaep %s too long -> error" % h, "error" in enc(pad="oaep", hash=h, label="", msg="00" * (k - 2 * hl - 1)))
    ct = enc(pad="oaep", hash="SHA-256", msg=b"abc".hex()).get("out", "00")
    report("rsa_encrypt oaep label optional", dec(pad="oaep", hash="SHA-256", label="", ct=ct).get("out") == b"abc".hex())
    report("rsa_decrypt oaep wrong hash -> error", "error" in dec(pad="oaep", hash="SHA-1", label="", ct=ct))
    em = bytearray(py_oaep_encode("SHA-256", k, b"abc", b"", bytes(32)))
    em[0] = 1
    report("rsa_decrypt oaep rejects first byte != 0", "error" in dec(pad="oaep", hash="SHA-256", label="", ct=public_op(bytes(em))))

    m = b"\0\0\x13" + bytes(range(k - 3))
    ct = enc(pad="raw", msg=m.hex()).get("out")
    eq("rsa_encrypt raw == m^e mod n", ct, public_op(m))
    eq("rsa_decrypt raw returns the full modulus length", dec(pad="raw", ct=ct).get("out"), m.hex())
    eq("rsa_decrypt raw left-pads a small result", dec(pad="raw", ct=public_op(b"\5")).get("out"), "00" * (k - 1) + "05")
    eq("rsa_encrypt raw accepts a short msg", enc(pad="raw", msg="05").get("out"), public_op(b"\5"))
    report("rsa_encrypt raw msg >= n -> error", "error" in enc(pad="raw", msg="ff" * k))
    report("rsa_encrypt unknown pad -> error", "error" in enc(pad="sslv23", msg="00"))


RFC6979_DSA = dict(  # RFC 6979 A.2.1
    p="86f5ca03dcfeb225063ff830a0c769b9dd9d6153ad91d7ce27f787c43278b447e6533b86b18bed6e8a48b784a14c252c"
      "5be0dbf60b86d6385bd2f12fb763ed8873abfd3f5ba2e0a8c0a59082eac056935e529daf7c610467899c77adedfc846c"
      "881870b7b19b2b58f9be0521a17002e3bdd6b86685ee90b3d9a1b02b782b1779",
    q="996f967f6c8e388d9e28d01e205fba957a5698b1",
    g="07b0f92546150b62514bb771e2a0c0ce387f03bda6c56b505209ff25fd3c133d89bbcd97e904e09114d9a7defdeadfc9"
      "078ea544d2e401aeecc40bb9fbbf78fd87995a10a1c27cb7789b594ba7efb5c4326a9fe59a070e136db77175464adca4"
      "17be5dce2f40d10a46a3a3943f26ab7fd9c0398ff8c76ee0a56826a8a88f1dbd")
RFC6979_DSA_X = "411602cb19a6ccc34494d79d98ef1e7ed5af25f7"
RFC6979_DSA_Y = ("5df5e01ded31d0297e274e1691c192fe5868fef9e19a84776454b100cf16f65392195a38b90523e2542ee61871c0440c"
                 "b87c322fc4b4d2ec5e1e7ec766e1be8d4ce935437dc11c3c8fd426338933ebfe739cb3465f4d3668c5e473508253b1e6"
                 "82f65cbdc4fae93c2ea212390e54905a86e2223170b44eaa7da5dd9ffcfb7f3b")
DSA_HASHES = ["SHA-1", "SHA-224", "SHA-256", "SHA-384", "SHA-512"]


def test_k_dsa():
    sample = b"sample".hex()
    for h, want in [
        ("SHA-1", "2e1a0c2562b2912caaf89186fb0f42001585da55" "29efb6b0aff2d7a68eb70ca313022253b9a88df5"),
        ("SHA-224", "4bc3b686aea70145856814a6f1bb53346f02101e" "410697b92295d994d21edd2f4ada85566f6f94c1"),
        ("SHA-256", "81f2f5850be5bc123c43f71a3033e9384611c545" "4cdd914b65eb6c66a8aaad27299bee6b035f5e89"),
        ("SHA-384", "07f2108557ee0e3921bc1774f1ca9b410b4ce65a" "54df70456c86fac10fab47c1949ab83f2c6f7595"),
        ("SHA-512", "16c3491f9b8c3fbbdd5e7a7b667057f0d8ee8e1b" "02c36a127a7b89edbb72e4ffbc71dabc7d4fc69c"),
    ]:
        eq("dsa_sign %s RFC 6979 A.2.1 'sample'" % h, W.out(op="dsa_sign", x=RFC6979_DSA_X, hash=h, msg=sample, **RFC6979_DSA), want)
        ok = W.call(op="dsa_verify", y=RFC6979_DSA_Y, hash=h, msg=sample, sig=want, **RFC6979_DSA).get("ok") is True
        ok = ok and W.call(op="dsa_verify", y=RFC6979_DSA_Y, hash=h, msg=b"sampl3".hex(), sig=want, **RFC6979_DSA).get("ok") is False
        ok = ok and W.call(op="dsa_verify", y=RFC6979_DSA_Y, hash=h, msg=sample, sig=flip(want, 25), **RFC6979_DSA).get("ok") is False
        ok = ok and W.call(op="dsa_verify", y=RFC6979_DSA_Y, hash="Raw", msg=pyhash(h, b"sample").hex(), sig=want, **RFC6979_DSA).get("ok") is True
        report("dsa_verify %s RFC 6979 A.2.1: accept (hashed and Raw), reject tampered" % h, ok)
    msg = b"message to sign"
    for name, p, q, g, x in [("1024/160", DSA1024_P, DSA1024_Q, DSA1024_G, DSA1024_X), ("2048/256", DSA2048_P, DSA2048_Q, DSA2048_G, DSA2048_X)]:
        grp = dict(p=hx(p), q=hx(q), g=hx(g))
        y = pow(g, x, p)
        ql = (q.bit_length() + 7) // 8
        for h in DSA_HASHES:
            sig = W.out(op="dsa_sign", x=hx(x), hash=h, msg=msg.hex(), **grp)
            mh = pyhash(h, msg)
            ok = len(sig) == 4 * ql and py_dsa_verify(p, q, g, y, mh, H(sig))
            rawsig = W.out(op="dsa_sign", x=hx(x), hash="Raw", msg=mh.hex(), **grp)
            ok = ok and len(rawsig) == 4 * ql and py_dsa_verify(p, q, g, y, mh, H(rawsig))
            report("dsa_sign %s %s and Raw verified by python DSA" % (name, h), ok)
            ok = W.call(op="dsa_verify", y=hx(y), hash=h, msg=msg.hex(), sig=sig, **grp).get("ok") is True
            ok = ok and W.call(op="dsa_verify", y=hx(y), hash=h, msg=msg.hex(), sig=rawsig, **grp).get("ok") is True
            ok = ok and W.call(op="dsa_verify", y=hx(y), hash="Raw", msg=mh.hex(), sig=sig, **grp).get("ok") is True
            ok = ok and W.call(op="dsa_verify", y=hx(y), hash=h, msg=(msg + b".").hex(), sig=sig, **grp).get("ok") is False
            ok = ok and W.call(op="dsa_verify", y=hx(y), hash=h, msg=msg.hex(), sig=flip(sig, 3), **grp).get("ok") is False
            ok = ok and W.call(op="dsa_verify", y=hx(y), hash=h, msg=msg.hex(), sig=flip(sig, ql + 3), **grp).get("ok") is False
            ok = ok and W.call(op="dsa_verify", y=hx(y + 1), hash=h, msg=msg.hex(), sig=sig, **grp).get("ok") is False
            ok = ok and W.call(op="dsa_verify", y=hx(y), hash=h, msg=msg.hex(), sig=sig[2:], **grp).get("ok") is False
            ok = ok and W.call(op="dsa_verify", y=hx(y), hash=h, msg=msg.hex(), sig="00" * (2 * ql), **grp).get("ok") is False
            report("dsa_verify %s %s: accept, reject tampered msg / r / s / y / length / zero" % (name, h), ok)
    report("dsa_sign unknown hash -> error", "error" in W.call(op="dsa_sign", x=RFC6979_DSA_X, hash="MD5", msg="", **RFC6979_DSA))
    report("dsa_sign leading zeros in integers accepted", W.out(op="dsa_sign", x="0000" + RFC6979_DSA_X, hash="SHA-1", msg=sample,
           p="00" + RFC6979_DSA["p"], q=RFC6979_DSA["q"], g=RFC6979_DSA["g"]).startswith("2e1a0c25"))


EC_KEYS = {  # RFC 6979 A.2.5 / A.2.6 / A.2.7: private key, public key
    "secp256r1": ("c9afa9d845ba75166b5c215767b1d6934e50c3db36e89b127b8a622b120f6721",
                  "60fed4ba255a9d31c961eb74c6356d68c049b8923b61fa6ce669622e60f29fb6"
                  "7903fe1008b8bc99a41ae9e95628bc64f2f1b20c2d7e9f5177a3c294d4462299"),
    "secp384r1": ("6b9d3dad2e1b8c1c05b19875b6659f4de23c3b667bf297ba9aa47740787137d896d5724e4c70a825f872c9ea60d2edf5",
                  "ec3a4e415b4e19a4568618029f427fa5da9a8bc4ae92e02e06aae5286b300c64def8f0ea9055866064a254515480bc13"
                  "8015d9b72d7d57244ea8ef9ac0c621896708a59367f9dfb9f54ca84b3f1c9db1288b231c3ae0d4fe7344fd2533264720"),
    "secp521r1": ("00fad06daa62ba3b25d2fb40133da757205de67f5bb0018fee8c86e1b68c7e75caa896eb32f1f47c70855836a6d16fcc1466f6d8fbec67db89ec0c08b0e996b83538",
                  "01894550d0785932e00eaa23b694f213f8c3121f86dc97a04e5a7167db4e5bcd371123d46e45db6b5d5370a7f20fb633155d38ffa16d2bd761dcac474b9a2f5023a4"
                  "00493101c962cd4d2fddf782285e64584139c2f91b47f87ff82354d6630f746a28a0db25741b5b34a828008b22acc23f924faafbd4d33f81ea66956dfeaa2bfdfcf5"),
}


def test_l_ecdsa():
    sample = b"sample".hex()
    for curve, (d, pub) in sorted(EC_KEYS.items()):
        eq("ec_pub %s RFC 6979 key pair" % curve, W.call(op="ec_pub", curve=curve, d=d).get("point"), "04" + pub)
    for curve, h, m, want in [
        ("secp256r1", "SHA-1", b"sample", "61340c88c3aaebeb4f6d667f672ca9759a6ccaa9fa8811313039ee4a35471d32"
                                          "6d7f147dac089441bb2e2fe8f7a3fa264b9c475098fdcf6e00d7c996e1b8b7eb"),
        ("secp256r1", "SHA-256", b"sample", "efd48b2aacb6a8fd1140dd9cd45e81d69d2c877b56aaf991c34d0ea84eaf3716"
                                            "f7cb1c942d657c41d436c7a1b6e29f65f3e900dbb9aff4064dc4ab2f843acda8"),
        ("secp256r1", "SHA-384", b"sample", "0eafea039b20e9b42309fb1d89e213057cbf973dc0cfc8f129edddc800ef7719"
                                            "4861f0491e6998b9455193e34e7b0d284ddd7149a74b95b9261f13abde940954"),
        ("secp256r1", "SHA-512", b"sample", "8496a60b5e9b47c825488827e0495b0e3fa109ec4568fd3f8d1097678eb97f00"
                                            "2362ab1adbe2b8adf9cb9edab740ea6049c028114f2460f96554f61fae3302fe"),
        ("secp256r1", "SHA-256", b"test", "f1abb023518351cd71d881567b1ea663ed3efcf6c5132b354f28d3b0b7d38367"
                                          "019f4113742a2b14bd25926b49c649155f267e60d3814b4c0cc84250e46f0083"),
        ("secp384r1", "SHA-384", b"sample",
         "94edbb92a5ecb8aad4736e56c691916b3f88140666ce9fa73d64c4ea95ad133c81a648152e44acf96e36dd1e80fabe46"
         "99ef4aeb15f178cea1fe40db2603138f130e740a19624526203b6351d0a3a94fa329c145786e679e7b82c71a38628ac8"),
        ("secp521r1", "SHA-512", b"sample",
         "00c328fafcbd79dd77850370c46325d987cb525569fb63c5d3bc53950e6d4c5f174e25a1ee9017b5d450606add152b534931d7d4e8455cc91f9b15bf05ec36e377fa"
         "00617cce7cf5064806c467f678d3b4080d6f1cc50af26ca209417308281b68af282623eaa63e5b5c0723d8b8c37ff0777b1a20f8ccb1dccc43997f1ee0e44da4a67a"),
    ]:
        d, pub = EC_KEYS[curve]
        name = "%s %s '%s'" % (curve, h, m.decode())
        eq("ecdsa_sign RFC 6979 " + name, W.out(op="ecdsa_sign", curve=curve, d=d, hash=h, msg=m.hex()), want)
        v = dict(op="ecdsa_verify", curve=curve, point="04" + pub)
        ok = W.call(hash=h, msg=m.hex(), sig=want, **v).get("ok") is True
        ok = ok and W.call(hash="Raw", msg=pyhash(h, m).hex(), sig=want, **v).get("ok") is True
        ok = ok and W.call(hash=h, msg=(m + b"x").hex(), sig=want, **v).get("ok") is False
        ok = ok and W.call(hash=h, msg=m.hex(), sig=flip(want, 10), **v).get("ok") is False
        ok = ok and W.call(hash=h, msg=m.hex(), sig=flip(want, len(want) // 2 - 1), **v).get("ok") is False
        ok = ok and W.call(hash=h, msg=m.hex(), sig=want[2:], **v).get("ok") is False
        ok = ok and W.call(hash=h, msg=m.hex(), sig="00" * (len(want) // 2), **v).get("ok") is False
        report("ecdsa_verify RFC 6979 %s: accept (hashed and Raw), reject tampered" % name, ok)
    msg = b"another message"
    for curve, (d, pub) in sorted(EC_KEYS.items()):
        flen = len(pub) // 4
        for h in DSA_HASHES:
            sig = W.out(op="ecdsa_sign", curve=curve, d=d, hash=h, msg=msg.hex())
            rawsig = W.out(op="ecdsa_sign", curve=curve, d=d, hash="Raw", msg=pyhash(h, msg).hex())
            v = dict(op="ecdsa_verify", curve=curve, point="04" + pub)
            ok = len(sig) == 4 * flen and len(rawsig) == 4 * flen
            ok = ok and W.call(hash=h, msg=msg.hex(), sig=sig, **v).get("ok") is True
            ok = ok and W.call(hash=h, msg=msg.hex(), sig=rawsig, **v).get("ok") is True
            ok = ok and W.call(hash=h, msg=msg.hex(), sig=flip(sig, 1), **v).get("ok") is False
            other = W.call(op="ec_pub", curve=curve, d="02").get("point")
            ok = ok and W.call(op="ecdsa_verify", curve=curve, point=other, hash=h, msg=msg.hex(), sig=sig).get("ok") is False
            report("ecdsa sign -> verify %s %s (hashed and Raw), wrong key rejected" % (curve, h), ok)
    report("ecdsa_verify point not on curve -> error", "error" in W.call(op="ecdsa_verify", curve="secp256r1", hash="SHA-256", msg="", sig="00" * 64,
           point=flip("04" + EC_KEYS["secp256r1"][1], 64)))
    report("ecdsa_verify compressed point -> error", "error" in W.call(op="ecdsa_verify", curve="secp256r1", hash="SHA-256", msg="", sig="00" * 64,
           point="03" + EC_KEYS["secp256r1"][1][:64]))


def test_m_eddsa():
    v25519 = [  # RFC 8032 7.1
        ("9d61b19deffd5a60ba844af492ec2cc44449c5697b326919703bac031cae7f60", "d75a980182b10ab7d54bfed3c964073a0ee172f3daa62325af021a68f707511a", "",
         "e5564300c360ac729086e2cc806e828a84877f1eb8e5d974d873e065224901555fb8821590a33bacc61e39701cf9b46bd25bf5f0595bbe24655141438e7a100b"),
        ("4ccd089b28ff96da9db6c346ec114e0f5b8a319f35aba624da8cf6ed4fb8a6fb", "3d4017c3e843895a92b70aa74d1b7ebc9c982ccf2ec4968cc0cd55f12af4660c", "72",
         "92a009a9f0d4cab8720e820b5f642540a2b27b5416503f8fb3762223ebdb69da085ac1e43e15996e458f3613d0f11d8c387b2eaeb4302aeeb00d291612bb0c00"),
        ("c5aa8df43f9f837bedb7442f31dcb7b166d38535076f094b85ce3a2e0b4458f7", "fc51cd8e6218a1a38da47ed00230f0580816ed13ba3303ac5deb911548908025", "af82",
         "6291d657deec24024827e69c3abe01a30ce548a284743a445e3680d7db5ac3ac18ff9b538d16f290ae67f760984dc6594a7c15e9716ed28dc027beceea1ec40a"),
    ]
    v448 = [  # RFC 8032 7.4
        ("6c82a562cb808d10d632be89c8513ebf6c929f34ddfa8c9f63c9960ef6e348a3528c8a3fcc2f044e39a3fc5b94492f8f032e7549a20098f95b",
         "5fd7449b59b461fd2ce787ec616ad46a1da1342485a70e1f8a0ea75d80e96778edf124769b46c7061bd6783df1e50f6cd1fa1abeafe8256180", "",
         "533a37f6bbe457251f023c0d88f976ae2dfb504a843e34d2074fd823d41a591f2b233f034f628281f2fd7a22ddd47d7828c59bd0a21bfd3980"
         "ff0d2028d4b18a9df63e006c5d1c2d345b925d8dc00b4104852db99ac5c7cdda8530a113a0f4dbb61149f05a7363268c71d95808ff2e652600"),
        ("c4eab05d357007c632f3dbb48489924d552b08fe0c353a0d4a1f00acda2c463afbea67c5e8d2877c5e3bc397a659949ef8021e954e0a12274e",
         "43ba28f430cdff456ae531545f7ecd0ac834a55d9358c0372bfa0c6c6798c0866aea01eb00742802b8438ea4cb82169c235160627b4c3a9480", "03",
         "26b8f91727bd62897af15e41eb43c377efb9c610d48f2335cb0bd0087810f4352541b143c4b981b7e18f62de8ccdf633fc1bf037ab7cd77980"
         "5e0dbcc0aae1cbcee1afb2e027df36bc04dcecbf154336c19f0af7e0a6472905e799f1953d2a0ff3348ab21aa4adafd1d234441cf807c03a00"),
    ]
    for curve, rfc, vectors in (("Ed25519", "RFC 8032 7.1", v25519), ("Ed448", "RFC 8032 7.4", v448)):
        for i, (d, pub, msg, sig) in enumerate(vectors):
            name = "%s %s vector %d" % (curve, rfc, i + 1)
            eq("eddsa_pub " + name, W.call(op="eddsa_pub", curve=curve, d=d).get("pub"), pub)
            eq("eddsa_sign " + name, W.out(op="eddsa_sign", curve=curve, d=d, msg=msg), sig)
            v = dict(op="eddsa_verify", curve=curve)
            ok = W.call(pub=pub, msg=msg, sig=sig, **v).get("ok") is True
            ok = ok and W.call(pub=pub, msg=msg + "00", sig=sig, **v).get("ok") is False
            ok = ok and W.call(pub=pub, msg=msg, sig=flip(sig, 0), **v).get("ok") is False
            ok = ok and W.call(pub=pub, msg=msg, sig=flip(sig, len(sig) // 2 - 2), **v).get("ok") is False
            ok = ok and W.call(pub=vectors[(i + 1) % len(vectors)][1], msg=msg, sig=sig, **v).get("ok") is False
            ok = ok and W.call(pub=pub, msg=msg, sig=sig[2:], **v).get("ok") is False
            report("eddsa_verify %s: accept, reject tampered msg / R / S / key / length" % name, ok)
        d = vectors[0][0]
        long_msg = bytes(range(256)) * 5
        sig = W.out(op="eddsa_sign", curve=curve, d=d, msg=long_msg.hex())
        report("eddsa %s sign -> verify 1280 byte message, deterministic" % curve,
               W.call(op="eddsa_verify", curve=curve, pub=vectors[0][1], msg=long_msg.hex(), sig=sig).get("ok") is True
               and W.out(op="eddsa_sign", curve=curve, d=d, msg=long_msg.hex()) == sig)
    report("eddsa unknown curve -> error", "error" in W.call(op="eddsa_pub", curve="Ed41417", d="00" * 32))


def test_n_dh_ecdh_xdh():
    for name, p, q, g in (("1024", DSA1024_P, DSA1024_Q, DSA1024_G), ("2048", DSA2048_P, DSA2048_Q, DSA2048_G)):
        plen = (p.bit_length() + 7) // 8
        xa, xb = 0x1234567 + (q >> 3), 0x7654321 + (q >> 5)
        ya, yb = pow(g, xa, p), pow(g, xb, p)
        za = W.out(op="dh", p=hx(p), g=hx(g), x=hx(xa), peer=hx(yb))
        zb = W.out(op="dh", p=hx(p), g=hx(g), x=hx(xb), peer=hx(ya))
        report("dh %s-bit: both sides agree and == pow(peer, x, p)" % name, za == zb == hx(pow(yb, xa, p), plen))
        x = 2
        while pow(yb, x, p) >> (8 * (plen - 1)):   # find a secret with a leading zero byte
            x += 1
        z = W.out(op="dh", p=hx(p), g=hx(g), x=hx(x), peer=hx(yb))
        report("dh %s-bit: result left-padded to |p| (x=%d gives a leading zero byte)" % (name, x), len(z) == 2 * plen and z.startswith("00") and int(z, 16) == pow(yb, x, p))
        eq("dh %s-bit: peer = 1 gives 00..01" % name, W.out(op="dh", p=hx(p), g=hx(g), x=hx(xa), peer="01"), hx(1, plen))
    # NIST CAVS ECC CDH primitive, P-256, count 0
    d = "7d7dc5f71eb29ddaf80d6214632eeae03d9058af1fb6d22ed80badb62bc1a534"
    peer = "04700c48f77f56584c5cc632ca65640db91b6bacce3a4df6b42ce7cc838833d287db71e509e3fd9b060ddb20ba5c51dcc5948d46fbf640dfe0441782cab85fa4ac"
    eq("ecdh secp256r1 NIST CAVS vector", W.out(op="ecdh", curve="secp256r1", d=d, peer=peer), "46fc62106420ff012e54a434fbdd2d25ccc5852060561e68040dd7778997bd7b")
    eq("ec_pub secp256r1 NIST CAVS vector", W.call(op="ec_pub", curve="secp256r1", d=d).get("point"),
       "04ead218590119e8876b29146ff89ca61770c4edbbf97d38ce385ed281d8a6b23028af61281fd35e2fa7002523acc85a429cb06ee6648325389f59edfce1405141")
    for curve, (da, pa) in sorted(EC_KEYS.items()):
        flen = len(pa) // 4
        db = "0123456789abcdef" * 4
        pb = W.call(op="ec_pub", curve=curve, d=db).get("point")
        za = W.out(op="ecdh", curve=curve, d=da, peer=pb)
        zb = W.out(op="ecdh", curve=curve, d=db, peer="04" + pa)
        report("ecdh %s: both sides agree, field length" % curve, za == zb and len(za) == 2 * flen)
        eq("ecdh %s: d=1 returns the peer x coordinate" % curve, W.out(op="ecdh", curve=curve, d="01", peer="04" + pa), pa[:2 * flen])
    # RFC 7748 5.2 (single evaluations) and 6.1 / 6.2 (Diffie-Hellman)
    for curve, d, u, want in [
        ("X25519", "a546e36bf0527c9d3b16154b82465edd62144c0ac1fc5a18506a2244ba449ac4", "e6db6867583030db3594c1a424b15f7c726624ec26b3353b10a903a6d0ab1c4c",
         "c3da55379de9c6908e94ea4df28d084f32eccf03491c71f754b4075577a28552"),
        ("X25519", "4b66e9d4d1b4673c5ad22691957d6af5c11b6421e0ea01d42ca4169e7918ba0d", "e5210f12786811d3f4b7959d0538ae2c31dbe7106fc03c3efc4cd549c715a493",
         "95cbde9476e8907d7aade45cb4b873f88b595a68799fa152e6f8f7647aac7957"),
        ("X448", "3d262fddf9ec8e88495266fea19a34d28882acef045104d0d1aae121700a779c984c24f8cdd78fbff44943eba368f54b29259a4f1c600ad3",
         "06fce640fa3487bfda5f6cf2d5263f8aad88334cbd07437f020f08f9814dc031ddbdc38c19c6da2583fa5429db94ada18aa7a7fb4ef8a086",
         "ce3e4ff95a60dc6697da1db1d85e6afbdf79b50a2412d7546d5f239fe14fbaadeb445fc66a01b0779d98223961111e21766282f73dd96b6f"),
        ("X448", "203d494428b8399352665ddca42f9de8fef600908e0d461cb021f8c538345dd77c3e4806e25f46d3315c44e0a5b4371282dd2c8d5be3095f",
         "0fbcc2f993cd56d3305b0b7d9e55d4c1a8fb5dbb52f8e9a1e9b6201b165d015894e56c4d3570bee52fe205e28a78b91cdfbde71ce8d157db",
         "884a02576239ff7a2f2f63b2db6a9ff37047ac13568e1e30fe63c4a7ad1b3ee3a5700df34321d62077e63633c575c1c954514e99da7c179d"),
    ]:
        eq("xdh %s RFC 7748 5.2 scalar %s.." % (curve, d[:8]), W.out(op="xdh", curve=curve, d=d, peer=u), want)
    for curve, a, apub, b, bpub, k in [
        ("X25519", "77076d0a7318a57d3c16c17251b26645df4c2f87ebc0992ab177fba51db92c2a", "8520f0098930a754748b7ddcb43ef75a0dbf3a0d26381af4eba4a98eaa9b4e6a",
         None, "de9edb7d7b7dc1b4d35b61c2ece435373f8343c85b78674dadfc7e146f882b4f",
         "4a5d9d5ba4ce2de1728e3bf480350f25e07e21c947d19e3376f09b3c1e161742"),
        ("X448", "9a8f4925d1519f5775cf46b04b5800d4ee9ee8bae8bc5565d498c28dd9c9baf574a9419744897391006382a6f127ab1d9ac2d8c0a598726b",
         "9b08f7cc31b7e3e67d22d5aea121074a273bd2b83de09c63faa73d2c22c5d9bbc836647241d953d40c5b12da88120d53177f80e532c41fa0",
         "1c306a7ac2a0e2e0990b294470cba339e6453772b075811d8fad0d1d6927c120bb5ee8972b0d3e21374c9c921b09d1b0366f10b65173992d",
         "3eb7a829b0cd20f5bcfc0b599b6feccf6da4627107bdb0d4f345b43027d8b972fc3e34fb4232a13ca706dcb57aec3dae07bdc1c67bf33609",
         "07fff4181ac6cc95ec1c16a94a0f74d12da232ce40a77552281d282bb60c0b56fd2464c335543936521c24403085d59a449a5037514a879d"),
    ]:
        rfc = "RFC 7748 6.1" if curve == "X25519" else "RFC 7748 6.2"
        eq("xdh_pub %s %s Alice" % (curve, rfc), W.call(op="xdh_pub", curve=curve, d=a).get("pub"), apub)
        eq("xdh %s %s Alice side" % (curve, rfc), W.out(op="xdh", curve=curve, d=a, peer=bpub), k)
        if b is not None:
            eq("xdh_pub %s %s Bob" % (curve, rfc), W.call(op="xdh_pub", curve=curve, d=b).get("pub"), bpub)
            eq("xdh %s %s Bob side" % (curve, rfc), W.out(op="xdh", curve=curve, d=b, peer=apub), k)
    # arbitrary (unclamped) scalars and u values against an independent Montgomery ladder; both sides agree
    for curve, n in (("X25519", 32), ("X448", 56)):
        base = (9 if n == 32 else 5).to_bytes(n, "little")
        scalars = [bytes([0xFF]) * n, bytes(range(1, n + 1)), bytes([0x80]) + bytes(n - 2) + bytes([0x01]), hashlib.sha512(b"k").digest()[:n]]
        pubs = []
        for sc in scalars:
            pub = W.call(op="xdh_pub", curve=curve, d=sc.hex()).get("pub")
            eq("xdh_pub %s scalar %s.. vs python ladder" % (curve, sc.hex()[:8]), pub, py_xdh(curve, sc, base).hex())
            pubs.append(pub)
        for u in (bytes([0xFF]) * n, bytes(range(7, 7 + n)), bytes([2]) + bytes(n - 1)):   # includes a non-canonical u / high bit set
            eq("xdh %s u %s.. vs python ladder" % (curve, u.hex()[:8]), W.out(op="xdh", curve=curve, d=scalars[1].hex(), peer=u.hex()), py_xdh(curve, scalars[1], u).hex())
        za = W.out(op="xdh", curve=curve, d=scalars[0].hex(), peer=pubs[3])
        zb = W.out(op="xdh", curve=curve, d=scalars[3].hex(), peer=pubs[0])
        report("xdh %s: both sides agree" % curve, za == zb and len(za) == 2 * n)
    report("xdh unknown curve -> error", "error" in W.call(op="xdh", curve="X9000", d="00" * 32, peer="00" * 32))


def der(tag, content):
    n = len(content)
    if n < 128:
        return bytes([tag, n]) + content
    lb = n.to_bytes((n.bit_length() + 7) // 8, "big")
    return bytes([tag, 0x80 | len(lb)]) + lb + content


def der_int(v):
    return der(2, v.to_bytes(v.bit_length() // 8 + 1, "big"))


def der_ints(b):
    return [int.from_bytes(c, "big") for t, c in der_items(b) if t == 2]


OID_DER = {
    "rsa": "06092a864886f70d010101", "dsa": "06072a8648ce380401", "dh": "06092a864886f70d010301", "ec": "06072a8648ce3d0201",
    "secp256r1": "06082a8648ce3d030107", "secp384r1": "06052b81040022", "secp521r1": "06052b81040023",
    "X25519": "06032b656e", "X448": "06032b656f", "Ed25519": "06032b6570", "Ed448": "06032b6571",
}


def pki_parts(der_hex):
    """PrivateKeyInfo -> (version, [AlgorithmIdentifier elements], privateKey octets); asserts the outer structure"""
    (tag, body), = der_items(H(der_hex))
    assert tag == 0x30
    items = der_items(body)
    assert [t for t, c in items] == [2, 0x30, 4], items
    return int.from_bytes(items[0][1], "big"), der_items(items[1][1]), items[2][1]


def test_o_pkcs8():
    make = lambda **kw: W.call(op="pkcs8_make", **kw)
    parse = lambda d: W.call(op="pkcs8_parse", der=d)
    ival = lambda r, names: [int(r.get(n, "ff"), 16) for n in names]

    # RFC 8410 section 10.3
    ex = base64.b64decode("MC4CAQAwBQYDK2VwBCIEINTuctv5E1hK1bbY8fdp+K06/nwoy/HU++CXqI9EdVhC").hex()
    seed = "d4ee72dbf913584ad5b6d8f1f769f8ad3afe7c28cbf1d4fbe097a88f44755842"
    eq("pkcs8_parse RFC 8410 10.3 Ed25519 example", parse(ex), {"type": "Ed25519", "d": seed})
    eq("pkcs8_parse RFC 8410 key has the RFC's public key", W.call(op="eddsa_pub", curve="Ed25519", d=seed).get("pub"),
       "19bf44096984cdfe8541bac167dc3b96c85086aa30b6b6cb0c5c38ad703166e1")
    eq("pkcs8_make Ed25519 reproduces the RFC 8410 10.3 bytes", make(type="Ed25519", d=seed).get("der"), ex)
    ex2 = base64.b64decode("MHICAQEwBQYDK2VwBCIEINTuctv5E1hK1bbY8fdp+K06/nwoy/HU++CXqI9EdVhCoB8wHQYKKoZIhvcNAQkJFDEPDA1DdXJkbGUgQ2hhaXJz"
                           "gSEAGb9ECWmEzf6FQbrBZ9w7lshQhqowtrbLDFw4rXAxZuE=").hex()
    eq("pkcs8_parse RFC 8410 10.3 v2 example (attributes + public key)", parse(ex2), {"type": "Ed25519", "d": seed})

    for typ, n in (("Ed25519", 32), ("Ed448", 57), ("X25519", 32), ("X448", 56)):
        d = bytes(range(0x40, 0x40 + n)).hex()
        out = make(type=typ, d=d).get("der", "")
        want = der(0x30, der(2, b"\0") + der(0x30, H(OID_DER[typ])) + der(4, der(4, H(d)))).hex()
        eq("pkcs8_make %s == RFC 8410 structure built in python" % typ, out, want)
        eq("pkcs8_make -> pkcs8_parse %s" % typ, parse(out), {"type": typ, "d": d})

    # RSA
    dp, dq, qinv = RSA_D % (RSA_P - 1), RSA_D % (RSA_Q - 1), pow(RSA_Q, -1, RSA_P)
    names = ["n", "e", "d", "p", "q", "dp", "dq", "qinv"]
    vals = [RSA_N, RSA_E, RSA_D, RSA_P, RSA_Q, dp, dq, qinv]
    full = make(type="RSA", **dict(zip(names, map(hx, vals)))).get("der", "")
    eq("pkcs8_make RSA: CRT components derived when absent", make(type="RSA", **rsa_key()).get("der"), full)
    ver, alg, key = pki_parts(full)
    (t, body), = der_items(key)
    report("pkcs8_make RSA structure: v0, rsaEncryption + NULL, RSAPrivateKey of 9 INTEGERs",
           ver == 0 and alg == [(6, H(OID_DER["rsa"])[2:]), (5, b"")] and t == 0x30 and der_ints(body) == [0] + vals and len(der_items(body)) == 9)
    r = parse(full)
    report("pkcs8_make -> pkcs8_parse RSA", r.get("type") == "RSA" and ival(r, names) == vals, repr(r)[:200])
    odd = make(type="RSA", n=hx(RSA_N), e="03", d="05", p="07", q="0b", dp="0d", dq="11", qinv="13").get("der", "")
    report("pkcs8_make RSA keeps explicitly given components", ival(parse(odd), names) == [RSA_N, 3, 5, 7, 11, 13, 17, 19])

    # DSA / DH
    for typ, oid, pnames, pvals in (("DSA", "dsa", ["p", "q", "g"], [DSA2048_P, DSA2048_Q, DSA2048_G]), ("DH", "dh", ["p", "g"], [DSA1024_P, DSA1024_G])):
        x = DSA1024_X
        out = make(type=typ, x=hx(x), **dict(zip(pnames, map(hx, pvals)))).get("der", "")
        ver, alg, key = pki_parts(out)
        report("pkcs8_make %s structure: parameters in the AlgorithmIdentifier, INTEGER x" % typ,
               ver == 0 and alg[0] == (6, H(OID_DER[oid])[2:]) and alg[1][0] == 0x30 and der_ints(alg[1][1]) == pvals and key == der_int(x))
        r = parse(out)
        report("pkcs8_make -> pkcs8_parse " + typ, r.get("type") == typ and ival(r, pnames + ["x"]) == pvals + [x], repr(r)[:200])
    x942 = der(0x30, der(2, b"\0") + der(0x30, H("06072a8648ce3e0201") + der(0x30, der_int(DSA1024_P) + der_int(DSA1024_G) + der_int(DSA1024_Q)))
               + der(4, der_int(77))).hex()
    r = parse(x942)
    report("pkcs8_parse X9.42 DH (p, g, q)", r.get("type") == "DH" and ival(r, ["p", "g", "q", "x"]) == [DSA1024_P, DSA1024_G, DSA1024_Q, 77], repr(r)[:200])

    # EC
    for curve, (d, pub) in sorted(EC_KEYS.items()):
        olen = len(pub) // 4
        out = make(type="EC", curve=curve, d=d).get("der", "")
        ver, alg, key = pki_parts(out)
        (t, body), = der_items(key)
        items = der_items(body)
        ok = ver == 0 and alg == [(6, H(OID_DER["ec"])[2:]), (6, H(OID_DER[curve])[2:])] and t == 0x30
        ok = ok and items[0] == (2, b"\1") and items[1] == (4, int(d, 16).to_bytes(olen, "big"))
        ok = ok and len(items) == 3 and items[2] == (0xA1, der(3, b"\0" + H("04" + pub)))
        report("pkcs8_make EC %s structure: RFC 5915, named curve, fixed-width d, [1] public key" % curve, ok)
        r = parse(out)
        report("pkcs8_make -> pkcs8_parse EC " + curve, r.get("type") == "EC" and r.get("curve") == curve and int(r.get("d", "0"), 16) == int(d, 16)
               and r.get("point") == "04" + pub, repr(r)[:200])
        r = parse(make(type="EC", curve=curve, d="05").get("der", ""))
        report("pkcs8_make EC %s pads a short d to the order length" % curve, r.get("d") == "00" * (olen - 1) + "05")
        dotted = ".".join(str(x) for x in oid_arcs(H(OID_DER[curve])[2:]))
        eq("pkcs8_make EC accepts the dotted OID of " + curve, make(type="EC", curve=dotted, d=d).get("der"), out)
        # same key as other libraries write it: parameters [0] repeated inside ECPrivateKey, no public key
        alt = der(0x30, der(2, b"\0") + der(0x30, H(OID_DER["ec"]) + H(OID_DER[curve]))
                  + der(4, der(0x30, der(2, b"\1") + der(4, H(d)[-olen:].rjust(olen, b"\0")) + der(0xA0, H(OID_DER[curve]))))).hex()
        r = parse(alt)
        report("pkcs8_parse EC %s with [0] parameters and no public key" % curve, r.get("curve") == curve and int(r.get("d", "0"), 16) == int(d, 16) and "point" not in r, repr(r)[:200])
    r = parse(make(type="EC", curve="1.2.3.4.5", d="0102030405").get("der", ""))
    eq("pkcs8 EC unknown curve OID survives the round trip in dotted form", r, {"type": "EC", "curve": "1.2.3.4.5", "d": "0102030405"})
    r = parse(make(type="EC", curve="1.3.36.3.3.2.8.1.1.7", d="0102").get("der", ""))
    report("pkcs8 EC brainpoolP256r1 by OID", r.get("type") == "EC" and "brainpool" in r.get("curve", "").lower() and int(r.get("d", "0"), 16) == 0x0102, repr(r))

    # malformed input
    for name, bad in [("trailing garbage", ex + "00"), ("unknown algorithm", ex.replace("2b6570", "2b6575")), ("version 2", ex.replace("020100", "020102", 1)),
                      ("Ed25519 with NULL parameters", der(0x30, der(2, b"\0") + der(0x30, H(OID_DER["Ed25519"]) + b"\5\0") + der(4, der(4, H(seed)))).hex()),
                      ("inner OCTET STRING missing", der(0x30, der(2, b"\0") + der(0x30, H(OID_DER["Ed25519"])) + der(4, H(seed))).hex()),
                      ("RSA key with 8 integers", der(0x30, der(2, b"\0") + der(0x30, H(OID_DER["rsa"]) + b"\5\0") + der(4, der(0x30, der_int(1) * 8))).hex()),
                      ("EC without curve", der(0x30, der(2, b"\0") + der(0x30, H(OID_DER["ec"])) + der(4, der(0x30, der(2, b"\1") + der(4, b"\5")))).hex())]:
        r = parse(bad)
        report("pkcs8_parse rejects " + name, list(r.keys()) == ["error"], repr(r))
    report("pkcs8_make missing component -> error", "error" in make(type="DSA", p="07", q="03", g="02"))


def oid_arcs(body):
    arcs, v = [], 0
    for b in body:
        v = (v << 7) | (b & 0x7F)
        if not b & 0x80:
            arcs.append(v)
            v = 0
    return [arcs[0] // 40, arcs[0] % 40] + arcs[1:]


def main():
    global W
    if len(sys.argv) != 2:
        print("usage: test_refworker.py /path/to/refworker")
        return 2
    W = Worker(sys.argv[1])
    groups = [v for k, v in sorted(globals().items()) if k.startswith("test_") and callable(v)]
    for g in groups:
        try:
            g()
        except Exception as e:  # a crashed group is a failure, the remaining groups still run
            report(g.__name__ + " (exception)", False, repr(e))
            if W.p.poll() is not None:
                W = Worker(sys.argv[1])
    rc = W.close()
    report("worker exits 0 on EOF", rc == 0, "rc=%r" % rc)
    print("%d tests, %d failed" % (COUNT[0], len(FAILS)))
    for f in FAILS:
        print("  failed: " + f)
    return 1 if FAILS else 0


if __name__ == "__main__":
    sys.exit(main())
