// refworker — reference cryptography process, independent of OpenSSL (see REFWORKER_SPEC.md).
// One JSON object per line on stdin, one JSON object per line on stdout (flushed).
// Botan 2 for almost everything; nettle/hogweed for AES-GCM (arbitrary IV / tag length), Ed448 and X448.
#include <nlohmann/json.hpp>

#include <botan/alg_id.h>
#include <botan/asn1_obj.h>
#include <botan/ber_dec.h>
#include <botan/bigint.h>
#include <botan/block_cipher.h>
#include <botan/curve25519.h>
#include <botan/der_enc.h>
#include <botan/dl_group.h>
#include <botan/dsa.h>
#include <botan/ec_group.h>
#include <botan/ecdsa.h>
#include <botan/ed25519.h>
#include <botan/eme.h>
#include <botan/eme_pkcs.h>
#include <botan/exceptn.h>
#include <botan/hash.h>
#include <botan/mac.h>
#include <botan/nist_keywrap.h>
#include <botan/numthry.h>
#include <botan/oaep.h>
#include <botan/oids.h>
#include <botan/point_gfp.h>
#include <botan/pubkey.h>
#include <botan/rsa.h>
#include <botan/system_rng.h>

#include <nettle/curve448.h>
#include <nettle/eddsa.h>
#include <nettle/gcm.h>

#include <cstdint>
#include <cstdio>
#include <cstring>
#include <iostream>
#include <memory>
#include <stdexcept>
#include <string>
#include <vector>

using json = nlohmann::json;
using Botan::BigInt;
typedef std::vector<uint8_t> Bytes;

namespace {

struct Err : public std::runtime_error
{
	explicit Err(const std::string& s) : std::runtime_error(s) {}
};

const size_t MAX_INT_BYTES = 2048;  // 16384-bit integers are plenty; anything larger is refused, not computed

// ---------------------------------------------------------------- hex / json field helpers

std::string hex(const uint8_t* p, size_t n)
{
	static const char* d = "0123456789abcdef";
	std::string s;
	s.reserve(n * 2);
	for (size_t i = 0; i < n; i++) { s.push_back(d[p[i] >> 4]); s.push_back(d[p[i] & 15]); }
	return s;
}
template <typename A> std::string hex(const std::vector<uint8_t, A>& v) { return hex(v.data(), v.size()); }

int nibble(char c)
{
	if (c >= '0' && c <= '9') return c - '0';
	if (c >= 'a' && c <= 'f') return c - 'a' + 10;
	if (c >= 'A' && c <= 'F') return c - 'A' + 10;
	return -1;
}

Bytes unhex(const std::string& s, const std::string& what)
{
	if (s.size() % 2) throw Err(what + ": odd number of hex digits");
	Bytes v;
	v.reserve(s.size() / 2);
	for (size_t i = 0; i < s.size(); i += 2)
	{
		int a = nibble(s[i]), b = nibble(s[i + 1]);
		if (a < 0 || b < 0) throw Err(what + ": not a hex string");
		v.push_back((uint8_t)(a << 4 | b));
	}
	return v;
}

bool has(const json& r, const char* k)
{
	json::const_iterator it = r.find(k);
	return it != r.end() && !it->is_null();
}

const json& field(const json& r, const char* k)
{
	json::const_iterator it = r.find(k);
	if (it == r.end() || it->is_null()) throw Err(std::string("missing field: ") + k);
	return *it;
}

std::string str(const json& r, const char* k)
{
	const json& v = field(r, k);
	if (!v.is_string()) throw Err(std::string(k) + ": must be a string");
	return v.get<std::string>();
}

std::string str_opt(const json& r, const char* k, const std::string& def) { return has(r, k) ? str(r, k) : def; }

Bytes bytes(const json& r, const char* k) { return unhex(str(r, k), k); }

Bytes bytes_opt(const json& r, const char* k) { return has(r, k) ? bytes(r, k) : Bytes(); }

BigInt to_bigint(const std::string& s0, const std::string& what)
{
	std::string s = s0;
	if (s.size() % 2) s = "0" + s;
	Bytes b = unhex(s, what);
	size_t z = 0;
	while (z < b.size() && b[z] == 0) z++;
	if (b.size() - z > MAX_INT_BYTES) throw Err(what + ": integer too large");
	return BigInt(b.data() + z, b.size() - z);
}

BigInt bigint(const json& r, const char* k) { return to_bigint(str(r, k), k); }

size_t uint_field(const json& r, const char* k)
{
	const json& v = field(r, k);
	uint64_t x = 0;
	if (v.is_number_unsigned()) x = v.get<uint64_t>();
	else if (v.is_number_integer())
	{
		int64_t y = v.get<int64_t>();
		if (y < 0) throw Err(std::string(k) + ": must not be negative");
		x = (uint64_t)y;
	}
	else if (v.is_string())
	{
		std::string s = v.get<std::string>();
		if (s.empty() || s.size() > 9) throw Err(std::string(k) + ": not a small decimal number");
		for (size_t i = 0; i < s.size(); i++)
		{
			if (s[i] < '0' || s[i] > '9') throw Err(std::string(k) + ": not a small decimal number");
			x = x * 10 + (uint64_t)(s[i] - '0');
		}
	}
	else throw Err(std::string(k) + ": must be a non-negative integer");
	if (x > (1u << 30)) throw Err(std::string(k) + ": too large");
	return (size_t)x;
}

size_t uint_opt(const json& r, const char* k, size_t def) { return has(r, k) ? uint_field(r, k) : def; }

std::string hexint(const BigInt& b)
{
	if (b.is_negative()) throw Err("negative integer");
	if (b.is_zero()) return "00";
	return hex(BigInt::encode(b));
}

std::string hexint_fixed(const BigInt& b, size_t len)
{
	if (b.is_negative()) throw Err("negative integer");
	if (b.bytes() > len) throw Err("integer does not fit the fixed width");
	return hex(BigInt::encode_1363(b, len));
}

Botan::RandomNumberGenerator& rng() { return Botan::system_rng(); }

// ---------------------------------------------------------------- hashes, MACs

bool is_hash_name(const std::string& h, bool md5_ok)
{
	if (h == "MD5") return md5_ok;
	return h == "SHA-1" || h == "SHA-224" || h == "SHA-256" || h == "SHA-384" || h == "SHA-512";
}

std::unique_ptr<Botan::HashFunction> make_hash(const std::string& h, bool md5_ok = true)
{
	if (!is_hash_name(h, md5_ok)) throw Err("unsupported hash: " + h);
	return Botan::HashFunction::create_or_throw(h);
}

Bytes hash_bytes(const std::string& h, const Bytes& data)
{
	std::unique_ptr<Botan::HashFunction> hf = make_hash(h);
	hf->update(data.data(), data.size());
	Botan::secure_vector<uint8_t> o = hf->final();
	return Bytes(o.begin(), o.end());
}

Bytes two_key_3des(const Bytes& key)
{
	Bytes k(key);
	if (k.size() == 16) k.insert(k.end(), key.begin(), key.begin() + 8);
	if (k.size() != 24) throw Err("3DES key must be 16 or 24 bytes");
	return k;
}

std::unique_ptr<Botan::BlockCipher> make_cipher(const std::string& alg, const Bytes& key)
{
	std::unique_ptr<Botan::BlockCipher> bc;
	Bytes k(key);
	if (alg == "AES")
	{
		if (k.size() != 16 && k.size() != 24 && k.size() != 32) throw Err("AES key must be 16, 24 or 32 bytes");
		bc = Botan::BlockCipher::create_or_throw("AES-" + std::to_string(k.size() * 8));
	}
	else if (alg == "DES")
	{
		if (k.size() != 8) throw Err("DES key must be 8 bytes");
		bc = Botan::BlockCipher::create_or_throw("DES");
	}
	else if (alg == "3DES" || alg == "DES3" || alg == "TripleDES")
	{
		k = two_key_3des(key);
		bc = Botan::BlockCipher::create_or_throw("TripleDES");
	}
	else throw Err("unsupported cipher: " + alg);
	bc->set_key(k.data(), k.size());
	return bc;
}

json op_hash(const json& r)
{
	return json{{"out", hex(hash_bytes(str(r, "alg"), bytes(r, "data")))}};
}

json op_mac(const json& r)
{
	std::string alg = str(r, "alg");
	Bytes key = bytes(r, "key"), data = bytes(r, "data");
	std::unique_ptr<Botan::MessageAuthenticationCode> mac;
	if (alg.size() > 6 && alg.compare(0, 5, "HMAC(") == 0 && alg[alg.size() - 1] == ')')
	{
		std::string h = alg.substr(5, alg.size() - 6);
		std::unique_ptr<Botan::HashFunction> hf = make_hash(h);
		// RFC 2104: a key longer than the hash block is replaced by its hash (done here so that no library key-length limit applies)
		if (key.size() > hf->hash_block_size()) key = hash_bytes(h, key);
		mac = Botan::MessageAuthenticationCode::create_or_throw("HMAC(" + h + ")");
	}
	else if (alg == "CMAC(AES)")
	{
		if (key.size() != 16 && key.size() != 24 && key.size() != 32) throw Err("AES key must be 16, 24 or 32 bytes");
		mac = Botan::MessageAuthenticationCode::create_or_throw("CMAC(AES-" + std::to_string(key.size() * 8) + ")");
	}
	else if (alg == "CMAC(3DES)")
	{
		key = two_key_3des(key);
		mac = Botan::MessageAuthenticationCode::create_or_throw("CMAC(TripleDES)");
	}
	else throw Err("unsupported mac: " + alg);
	mac->set_key(key.data(), key.size());
	mac->update(data.data(), data.size());
	return json{{"out", hex(mac->final())}};
}

// ---------------------------------------------------------------- symmetric ciphers

// low `bits` bits of the big-endian counter block are incremented modulo 2^bits, the rest never changes
void ctr_increment(uint8_t* ctr, size_t bs, size_t bits)
{
	size_t full = bits / 8, rem = bits % 8;
	bool carry = true;
	for (size_t k = 0; k < full && carry; k++)
	{
		uint8_t& b = ctr[bs - 1 - k];
		b = (uint8_t)(b + 1);
		carry = (b == 0);
	}
	if (carry && rem)
	{
		uint8_t& b = ctr[bs - 1 - full];
		uint8_t mask = (uint8_t)((1u << rem) - 1);
		b = (uint8_t)((b & ~mask) | ((b + 1) & mask));
	}
}

template <typename CTX>
struct GcmOps
{
	void (*set_key)(CTX*, const uint8_t*);
	void (*set_iv)(CTX*, size_t, const uint8_t*);
	void (*update)(CTX*, size_t, const uint8_t*);
	void (*encrypt)(CTX*, size_t, uint8_t*, const uint8_t*);
	void (*decrypt)(CTX*, size_t, uint8_t*, const uint8_t*);
	void (*digest)(CTX*, size_t, uint8_t*);
};

// returns output text; tag (16 bytes, caller truncates) computed over aad and the ciphertext
template <typename CTX>
Bytes gcm_run(const GcmOps<CTX>& ops, bool enc, const Bytes& key, const Bytes& iv, const Bytes& aad, const Bytes& in, size_t taglen, Bytes& tag)
{
	std::unique_ptr<CTX> ctx(new CTX);
	memset(ctx.get(), 0, sizeof(CTX));
	ops.set_key(ctx.get(), key.data());
	ops.set_iv(ctx.get(), iv.size(), iv.data());
	if (!aad.empty()) ops.update(ctx.get(), aad.size(), aad.data());
	Bytes out(in.size());
	if (!in.empty())
	{
		if (enc) ops.encrypt(ctx.get(), in.size(), out.data(), in.data());
		else ops.decrypt(ctx.get(), in.size(), out.data(), in.data());
	}
	tag.assign(taglen, 0);
	ops.digest(ctx.get(), taglen, tag.data());
	return out;
}

Bytes gcm_any(bool enc, const Bytes& key, const Bytes& iv, const Bytes& aad, const Bytes& in, size_t taglen, Bytes& tag)
{
	if (key.size() == 16)
	{
		GcmOps<gcm_aes128_ctx> o = {gcm_aes128_set_key, gcm_aes128_set_iv, gcm_aes128_update, gcm_aes128_encrypt, gcm_aes128_decrypt, gcm_aes128_digest};
		return gcm_run(o, enc, key, iv, aad, in, taglen, tag);
	}
	if (key.size() == 24)
	{
		GcmOps<gcm_aes192_ctx> o = {gcm_aes192_set_key, gcm_aes192_set_iv, gcm_aes192_update, gcm_aes192_encrypt, gcm_aes192_decrypt, gcm_aes192_digest};
		return gcm_run(o, enc, key, iv, aad, in, taglen, tag);
	}
	if (key.size() == 32)
	{
		GcmOps<gcm_aes256_ctx> o = {gcm_aes256_set_key, gcm_aes256_set_iv, gcm_aes256_update, gcm_aes256_encrypt, gcm_aes256_decrypt, gcm_aes256_digest};
		return gcm_run(o, enc, key, iv, aad, in, taglen, tag);
	}
	throw Err("AES key must be 16, 24 or 32 bytes");
}

json op_cipher(const json& r)
{
	std::string alg = str(r, "alg"), mode = str(r, "mode"), dir = str(r, "dir");
	Bytes key = bytes(r, "key"), data = bytes(r, "data");
	bool enc;
	if (dir == "enc") enc = true;
	else if (dir == "dec") enc = false;
	else throw Err("dir must be enc or dec");

	if (mode == "GCM")
	{
		if (alg != "AES") throw Err("GCM is only supported with AES");
		Bytes iv = bytes(r, "iv"), aad = bytes_opt(r, "aad");
		size_t taglen = uint_opt(r, "tagbytes", 16);
		if (iv.empty()) throw Err("GCM iv must be at least 1 byte");
		if (taglen < 1 || taglen > 16) throw Err("tagbytes must be 1..16");
		Bytes tag;
		if (enc)
		{
			Bytes out = gcm_any(true, key, iv, aad, data, taglen, tag);
			out.insert(out.end(), tag.begin(), tag.end());
			return json{{"out", hex(out)}};
		}
		if (data.size() < taglen) throw Err("GCM input shorter than the tag");
		Bytes ct(data.begin(), data.end() - taglen), want(data.end() - taglen, data.end());
		Bytes out = gcm_any(false, key, iv, aad, ct, taglen, tag);
		uint8_t diff = 0;
		for (size_t i = 0; i < taglen; i++) diff |= (uint8_t)(tag[i] ^ want[i]);
		if (diff) throw Err("auth");
		return json{{"out", hex(out)}};
	}

	std::unique_ptr<Botan::BlockCipher> bc = make_cipher(alg, key);
	const size_t bs = bc->block_size();

	if (mode == "ECB")
	{
		if (data.size() % bs) throw Err("input is not a multiple of the block size");
		Bytes out(data.size());
		if (!data.empty())
		{
			if (enc) bc->encrypt_n(data.data(), out.data(), data.size() / bs);
			else bc->decrypt_n(data.data(), out.data(), data.size() / bs);
		}
		return json{{"out", hex(out)}};
	}
	if (mode == "CBC" || mode == "CBC_PAD")
	{
		Bytes iv = bytes(r, "iv");
		bool pad = (mode == "CBC_PAD");
		if (iv.size() != bs) throw Err("iv must be one block");
		if (enc)
		{
			if (pad)
			{
				size_t n = bs - data.size() % bs;
				data.insert(data.end(), n, (uint8_t)n);
			}
			if (data.size() % bs) throw Err("input is not a multiple of the block size");
			Bytes out(data.size()), prev(iv), blk(bs);
			for (size_t off = 0; off < data.size(); off += bs)
			{
				for (size_t i = 0; i < bs; i++) blk[i] = (uint8_t)(data[off + i] ^ prev[i]);
				bc->encrypt_n(blk.data(), out.data() + off, 1);
				prev.assign(out.begin() + off, out.begin() + off + bs);
			}
			return json{{"out", hex(out)}};
		}
		if (data.size() % bs) throw Err("input is not a multiple of the block size");
		if (pad && data.empty()) throw Err("padding");
		Bytes out(data.size()), prev(iv);
		for (size_t off = 0; off < data.size(); off += bs)
		{
			bc->decrypt_n(data.data() + off, out.data() + off, 1);
			for (size_t i = 0; i < bs; i++) out[off + i] ^= prev[i];
			prev.assign(data.begin() + off, data.begin() + off + bs);
		}
		if (pad)
		{
			size_t n = out[out.size() - 1];
			if (n < 1 || n > bs) throw Err("padding");
			for (size_t i = 0; i < n; i++)
				if (out[out.size() - 1 - i] != n) throw Err("padding");
			out.resize(out.size() - n);
		}
		return json{{"out", hex(out)}};
	}
	if (mode == "CTR")
	{
		Bytes ctr = bytes(r, "iv");
		if (ctr.size() != bs) throw Err("CTR iv must be one block (the initial counter block)");
		size_t bits = uint_opt(r, "ctrbits", bs * 8);
		if (bits < 1 || bits > bs * 8) throw Err("ctrbits out of range");
		Bytes out(data.size()), ks(bs);
		for (size_t off = 0; off < data.size(); off += bs)
		{
			bc->encrypt_n(ctr.data(), ks.data(), 1);
			size_t n = data.size() - off < bs ? data.size() - off : bs;
			for (size_t i = 0; i < n; i++) out[off + i] = (uint8_t)(data[off + i] ^ ks[i]);
			ctr_increment(ctr.data(), bs, bits);
		}
		return json{{"out", hex(out)}};
	}
	throw Err("unsupported mode: " + mode);
}

json op_keywrap(const json& r)
{
	std::string mode = str(r, "mode"), dir = str(r, "dir");
	Bytes kek = bytes(r, "kek"), data = bytes(r, "data");
	if (mode != "rfc3394" && mode != "rfc5649") throw Err("mode must be rfc3394 or rfc5649");
	if (dir != "wrap" && dir != "unwrap") throw Err("dir must be wrap or unwrap");
	bool padded = (mode == "rfc5649");
	std::unique_ptr<Botan::BlockCipher> bc = make_cipher("AES", kek);
	if (dir == "wrap")
	{
		if (!padded && (data.size() < 16 || data.size() % 8)) throw Err("rfc3394 input must be a multiple of 8 bytes, at least 16");
		if (padded && data.empty()) throw Err("rfc5649 input must not be empty");
		std::vector<uint8_t> out = padded ? Botan::nist_key_wrap_padded(data.data(), data.size(), *bc)
		                                  : Botan::nist_key_wrap(data.data(), data.size(), *bc);
		return json{{"out", hex(out)}};
	}
	if (!padded && (data.size() < 24 || data.size() % 8)) throw Err("rfc3394 wrapped input must be a multiple of 8 bytes, at least 24");
	if (padded && (data.size() < 16 || data.size() % 8)) throw Err("rfc5649 wrapped input must be a multiple of 8 bytes, at least 16");
	Botan::secure_vector<uint8_t> out;
	try
	{
		out = padded ? Botan::nist_key_unwrap_padded(data.data(), data.size(), *bc)
		             : Botan::nist_key_unwrap(data.data(), data.size(), *bc);
	}
	catch (const std::exception&)
	{
		throw Err("integrity");
	}
	return json{{"out", hex(out)}};
}

json op_kcv(const json& r)
{
	std::string alg = str(r, "alg");
	Bytes key = bytes(r, "key");
	Bytes full;
	if (alg == "GENERIC") full = hash_bytes("SHA-1", key);
	else
	{
		std::unique_ptr<Botan::BlockCipher> bc = make_cipher(alg, key);
		Bytes zero(bc->block_size(), 0);
		full.resize(zero.size());
		bc->encrypt_n(zero.data(), full.data(), 1);
	}
	return json{{"out", hex(full.data(), 3)}};
}

// ---------------------------------------------------------------- RSA

std::unique_ptr<Botan::RSA_PrivateKey> rsa_priv(const json& r)
{
	BigInt n = bigint(r, "n"), e = bigint(r, "e"), d = bigint(r, "d"), p = bigint(r, "p"), q = bigint(r, "q");
	if (n.is_zero() || e.is_zero() || d.is_zero() || p.is_zero() || q.is_zero()) throw Err("RSA key component is zero");
	if (p * q != n) throw Err("RSA key: p*q != n");
	return std::unique_ptr<Botan::RSA_PrivateKey>(new Botan::RSA_PrivateKey(p, q, e, d, n));
}

std::unique_ptr<Botan::RSA_PublicKey> rsa_pub(const json& r)
{
	BigInt n = bigint(r, "n"), e = bigint(r, "e");
	if (n < 3 || n.is_even() || e.is_zero()) throw Err("bad RSA public key");
	return std::unique_ptr<Botan::RSA_PublicKey>(new Botan::RSA_PublicKey(n, e));
}

std::string rsa_emsa(const json& r, const std::string& pad)
{
	if (pad == "pkcs1") { std::string h = str(r, "hash"); make_hash(h); return "EMSA3(" + h + ")"; }
	if (pad == "pkcs1_raw") return "EMSA3(Raw)";
	if (pad == "pss" || pad == "pss_raw")
	{
		std::string h = str(r, "hash");
		std::unique_ptr<Botan::HashFunction> hf = make_hash(h);
		size_t saltlen = uint_opt(r, "saltlen", hf->output_length());
		return std::string(pad == "pss" ? "EMSA4" : "PSSR_Raw") + "(" + h + ",MGF1," + std::to_string(saltlen) + ")";
	}
	if (pad == "raw") return "Raw";
	throw Err("unsupported signature padding: " + pad);
}

json op_rsa_sign(const json& r)
{
	std::string pad = str(r, "pad");
	std::string emsa = rsa_emsa(r, pad);
	Bytes msg = bytes(r, "msg");
	std::unique_ptr<Botan::RSA_PrivateKey> key = rsa_priv(r);
	size_t k = key->get_n().bytes();
	if (pad == "raw")
	{
		if (msg.size() != k) throw Err("raw: msg must be exactly modulus length");
		if (BigInt(msg.data(), msg.size()) >= key->get_n()) throw Err("raw: msg >= modulus");
	}
	Botan::PK_Signer signer(*key, rng(), emsa, Botan::IEEE_1363);
	std::vector<uint8_t> sig = signer.sign_message(msg.data(), msg.size(), rng());
	if (sig.size() != k) throw Err("unexpected signature length");
	return json{{"out", hex(sig)}};
}

json op_rsa_verify(const json& r)
{
	std::string pad = str(r, "pad");
	std::string emsa = rsa_emsa(r, pad);
	Bytes msg = bytes(r, "msg"), sig = bytes(r, "sig");
	std::unique_ptr<Botan::RSA_PublicKey> key = rsa_pub(r);
	size_t k = key->get_n().bytes();
	bool ok = false;
	if (sig.size() != k) ok = false;
	else if (pad == "raw")
	{
		BigInt s(sig.data(), sig.size());
		ok = msg.size() == k && s < key->get_n() &&
		     Botan::power_mod(s, key->get_e(), key->get_n()) == BigInt(msg.data(), msg.size());
	}
	else
	{
		Botan::PK_Verifier ver(*key, emsa, Botan::IEEE_1363);
		try { ok = ver.verify_message(msg.data(), msg.size(), sig.data(), sig.size()); }
		catch (const std::exception&) { ok = false; }
	}
	return json{{"ok", ok}};
}

// returns the EME object for pkcs1 / oaep (label may contain arbitrary bytes), null for raw
std::unique_ptr<Botan::EME> rsa_eme(const json& r, const std::string& pad)
{
	if (pad == "pkcs1") return std::unique_ptr<Botan::EME>(new Botan::EME_PKCS1v15);
	if (pad == "oaep")
	{
		std::string h = str(r, "hash");
		Bytes label = bytes_opt(r, "label");
		std::unique_ptr<Botan::HashFunction> hf = make_hash(h), mgf = make_hash(h);
		return std::unique_ptr<Botan::EME>(new Botan::OAEP(hf.release(), mgf.release(), std::string(label.begin(), label.end())));
	}
	if (pad == "raw") return std::unique_ptr<Botan::EME>();
	throw Err("unsupported encryption padding: " + pad);
}

json op_rsa_encrypt(const json& r)
{
	std::string pad = str(r, "pad");
	std::unique_ptr<Botan::EME> eme = rsa_eme(r, pad);
	Bytes msg = bytes(r, "msg");
	std::unique_ptr<Botan::RSA_PublicKey> key = rsa_pub(r);
	const BigInt& n = key->get_n();
	size_t k = n.bytes();
	BigInt m;
	if (eme)
	{
		if (k < 11) throw Err("modulus too small");
		// Botan's EME objects produce the encoded message without the leading zero byte: k-1 bytes
		size_t keybits = 8 * (k - 1);
		if (msg.size() > eme->maximum_input_size(keybits)) throw Err("message too long");
		Botan::secure_vector<uint8_t> em = eme->encode(msg.data(), msg.size(), keybits, rng());
		m = BigInt(em.data(), em.size());
	}
	else
	{
		if (msg.size() > k) throw Err("raw: msg longer than the modulus");
		m = BigInt(msg.data(), msg.size());
	}
	if (m >= n) throw Err("message representative >= modulus");
	return json{{"out", hexint_fixed(Botan::power_mod(m, key->get_e(), n), k)}};
}

json op_rsa_decrypt(const json& r)
{
	std::string pad = str(r, "pad");
	std::unique_ptr<Botan::EME> eme = rsa_eme(r, pad);
	Bytes ct = bytes(r, "ct");
	std::unique_ptr<Botan::RSA_PrivateKey> key = rsa_priv(r);
	size_t k = key->get_n().bytes();
	if (ct.size() > k || BigInt(ct.data(), ct.size()) >= key->get_n()) throw Err("ciphertext >= modulus");
	Botan::PK_Decryptor_EME dec(*key, rng(), "Raw");
	Botan::secure_vector<uint8_t> raw = dec.decrypt(ct.data(), ct.size());  // leading zeros stripped
	if (raw.size() > k) throw Err("unexpected raw result length");
	Botan::secure_vector<uint8_t> em(k - raw.size(), 0);
	em.insert(em.end(), raw.begin(), raw.end());
	if (!eme) return json{{"out", hex(em)}};
	uint8_t valid = 0;
	Botan::secure_vector<uint8_t> out = eme->unpad(valid, em.data(), em.size());
	if (valid != 0xFF) throw Err("decrypt: invalid padding");
	return json{{"out", hex(out)}};
}

// ---------------------------------------------------------------- DSA / ECDSA / EC

std::string dsa_emsa(const json& r)
{
	std::string h = str(r, "hash");
	if (h == "Raw") return "Raw";
	if (!is_hash_name(h, false)) throw Err("unsupported hash: " + h);
	return "EMSA1(" + h + ")";
}

Botan::DL_Group dl_group(const json& r)
{
	BigInt p = bigint(r, "p"), q = bigint(r, "q"), g = bigint(r, "g");
	if (p < 3 || p.is_even()) throw Err("bad DSA p");
	if (q < 2 || q >= p) throw Err("bad DSA q");
	if (g < 2 || g >= p) throw Err("bad DSA g");
	return Botan::DL_Group(p, q, g);
}

// hash "Raw": a hash value longer than q is cut to its leftmost |q| bytes here (the library then keeps the leftmost
// bits(q) bits of that, FIPS 186-4 4.6); Botan's DSA verification refuses longer inputs instead of truncating them
Bytes dsa_raw_input(const std::string& emsa, const Bytes& msg, const BigInt& q)
{
	if (emsa == "Raw" && msg.size() > q.bytes()) return Bytes(msg.begin(), msg.begin() + q.bytes());
	return msg;
}

json op_dsa_sign(const json& r)
{
	std::string emsa = dsa_emsa(r);
	Bytes msg = bytes(r, "msg");
	Botan::DL_Group grp = dl_group(r);
	msg = dsa_raw_input(emsa, msg, grp.get_q());
	BigInt x = bigint(r, "x");
	if (x.is_zero() || x >= grp.get_q()) throw Err("DSA x out of range");  // (0 would make Botan generate a random key)
	Botan::DSA_PrivateKey key(rng(), grp, x);
	Botan::PK_Signer signer(key, rng(), emsa, Botan::IEEE_1363);
	std::vector<uint8_t> sig = signer.sign_message(msg.data(), msg.size(), rng());
	if (sig.size() != 2 * grp.get_q().bytes()) throw Err("unexpected signature length");
	return json{{"out", hex(sig)}};
}

json op_dsa_verify(const json& r)
{
	std::string emsa = dsa_emsa(r);
	Bytes msg = bytes(r, "msg"), sig = bytes(r, "sig");
	Botan::DL_Group grp = dl_group(r);
	msg = dsa_raw_input(emsa, msg, grp.get_q());
	BigInt y = bigint(r, "y");
	if (y < 1 || y >= grp.get_p()) throw Err("DSA y out of range");
	Botan::DSA_PublicKey key(grp, y);
	bool ok = false;
	if (sig.size() == 2 * grp.get_q().bytes())
	{
		Botan::PK_Verifier ver(key, emsa, Botan::IEEE_1363);
		try { ok = ver.verify_message(msg.data(), msg.size(), sig.data(), sig.size()); }
		catch (const std::exception&) { ok = false; }
	}
	return json{{"ok", ok}};
}

Botan::EC_Group ec_group(const json& r)
{
	std::string c = str(r, "curve");
	if (c == "prime256v1" || c == "P-256") c = "secp256r1";
	else if (c == "P-384") c = "secp384r1";
	else if (c == "P-521") c = "secp521r1";
	if (c != "secp256r1" && c != "secp384r1" && c != "secp521r1") throw Err("unsupported curve: " + c);
	return Botan::EC_Group(c);
}

BigInt ec_scalar(const json& r, const Botan::EC_Group& grp)
{
	BigInt d = bigint(r, "d");
	if (d.is_zero() || d >= grp.get_order()) throw Err("EC private value out of range");  // (0 would make Botan generate a random key)
	return d;
}

Botan::PointGFp ec_point(const Botan::EC_Group& grp, const Bytes& enc)
{
	if (enc.size() != 1 + 2 * grp.get_p_bytes() || enc[0] != 0x04) throw Err("point must be uncompressed 04||x||y of the field length");
	Botan::PointGFp pt = grp.OS2ECP(enc.data(), enc.size());
	if (pt.is_zero() || !pt.on_the_curve()) throw Err("point is not on the curve");
	return pt;
}

json op_ecdsa_sign(const json& r)
{
	std::string emsa = dsa_emsa(r);
	Bytes msg = bytes(r, "msg");
	Botan::EC_Group grp = ec_group(r);
	Botan::ECDSA_PrivateKey key(rng(), grp, ec_scalar(r, grp));
	Botan::PK_Signer signer(key, rng(), emsa, Botan::IEEE_1363);
	std::vector<uint8_t> sig = signer.sign_message(msg.data(), msg.size(), rng());
	if (sig.size() != 2 * grp.get_order_bytes()) throw Err("unexpected signature length");
	return json{{"out", hex(sig)}};
}

json op_ecdsa_verify(const json& r)
{
	std::string emsa = dsa_emsa(r);
	Bytes msg = bytes(r, "msg"), sig = bytes(r, "sig");
	Botan::EC_Group grp = ec_group(r);
	Botan::ECDSA_PublicKey key(grp, ec_point(grp, bytes(r, "point")));
	bool ok = false;
	if (sig.size() == 2 * grp.get_order_bytes())
	{
		Botan::PK_Verifier ver(key, emsa, Botan::IEEE_1363);
		try { ok = ver.verify_message(msg.data(), msg.size(), sig.data(), sig.size()); }
		catch (const std::exception&) { ok = false; }
	}
	return json{{"ok", ok}};
}

json op_ec_pub(const json& r)
{
	Botan::EC_Group grp = ec_group(r);
	Botan::PointGFp pt = grp.get_base_point() * ec_scalar(r, grp);
	return json{{"point", hex(pt.encode(Botan::PointGFp::UNCOMPRESSED))}};
}

json op_ecdh(const json& r)
{
	Botan::EC_Group grp = ec_group(r);
	BigInt d = ec_scalar(r, grp);
	Botan::PointGFp s = ec_point(grp, bytes(r, "peer")) * d;
	if (s.is_zero()) throw Err("shared point is the point at infinity");
	return json{{"out", hexint_fixed(s.get_affine_x(), grp.get_p_bytes())}};
}

json op_dh(const json& r)
{
	BigInt p = bigint(r, "p"), x = bigint(r, "x"), peer = bigint(r, "peer");
	if (has(r, "g")) bigint(r, "g");  // not needed for the computation, only checked for well-formedness
	if (p < 3) throw Err("bad DH p");
	return json{{"out", hexint_fixed(Botan::power_mod(peer % p, x, p), p.bytes())}};
}

// ---------------------------------------------------------------- EdDSA / XDH

Botan::Ed25519_PrivateKey ed25519_key(const Bytes& seed)
{
	if (seed.size() != 32) throw Err("Ed25519 private seed must be 32 bytes");
	return Botan::Ed25519_PrivateKey(Botan::secure_vector<uint8_t>(seed.begin(), seed.end()));
}

json op_eddsa_pub(const json& r)
{
	std::string c = str(r, "curve");
	Bytes d = bytes(r, "d");
	if (c == "Ed25519") return json{{"pub", hex(ed25519_key(d).get_public_key())}};
	if (c == "Ed448")
	{
		if (d.size() != ED448_KEY_SIZE) throw Err("Ed448 private seed must be 57 bytes");
		uint8_t pub[ED448_KEY_SIZE];
		ed448_shake256_public_key(pub, d.data());
		return json{{"pub", hex(pub, sizeof(pub))}};
	}
	throw Err("unsupported curve: " + c);
}

json op_eddsa_sign(const json& r)
{
	std::string c = str(r, "curve");
	Bytes d = bytes(r, "d"), msg = bytes(r, "msg");
	if (c == "Ed25519")
	{
		Botan::Ed25519_PrivateKey key = ed25519_key(d);
		Botan::PK_Signer signer(key, rng(), "Pure");
		std::vector<uint8_t> sig = signer.sign_message(msg.data(), msg.size(), rng());
		if (sig.size() != 64) throw Err("unexpected signature length");
		return json{{"out", hex(sig)}};
	}
	if (c == "Ed448")
	{
		if (d.size() != ED448_KEY_SIZE) throw Err("Ed448 private seed must be 57 bytes");
		uint8_t pub[ED448_KEY_SIZE], sig[ED448_SIGNATURE_SIZE];
		ed448_shake256_public_key(pub, d.data());
		ed448_shake256_sign(pub, d.data(), msg.size(), msg.data(), sig);
		return json{{"out", hex(sig, sizeof(sig))}};
	}
	throw Err("unsupported curve: " + c);
}

json op_eddsa_verify(const json& r)
{
	std::string c = str(r, "curve");
	Bytes pub = bytes(r, "pub"), msg = bytes(r, "msg"), sig = bytes(r, "sig");
	bool ok = false;
	if (c == "Ed25519")
	{
		if (pub.size() != 32) throw Err("Ed25519 public key must be 32 bytes");
		if (sig.size() == 64)
		{
			Botan::Ed25519_PublicKey key(pub.data(), pub.size());
			Botan::PK_Verifier ver(key, "Pure");
			try { ok = ver.verify_message(msg.data(), msg.size(), sig.data(), sig.size()); }
			catch (const std::exception&) { ok = false; }
		}
	}
	else if (c == "Ed448")
	{
		if (pub.size() != ED448_KEY_SIZE) throw Err("Ed448 public key must be 57 bytes");
		if (sig.size() == ED448_SIGNATURE_SIZE) ok = ed448_shake256_verify(pub.data(), msg.size(), msg.data(), sig.data()) == 1;
	}
	else throw Err("unsupported curve: " + c);
	return json{{"ok", ok}};
}

json op_xdh(const json& r, bool pub_only)
{
	std::string c = str(r, "curve");
	Bytes d = bytes(r, "d");
	Bytes peer;
	if (!pub_only) peer = bytes(r, "peer");
	const char* key = pub_only ? "pub" : "out";
	if (c == "X25519")
	{
		if (d.size() != 32) throw Err("X25519 scalar must be 32 bytes");
		uint8_t out[32];
		if (pub_only) Botan::curve25519_basepoint(out, d.data());
		else
		{
			if (peer.size() != 32) throw Err("X25519 peer must be 32 bytes");
			Botan::curve25519_donna(out, d.data(), peer.data());
		}
		return json{{key, hex(out, sizeof(out))}};
	}
	if (c == "X448")
	{
		if (d.size() != CURVE448_SIZE) throw Err("X448 scalar must be 56 bytes");
		uint8_t out[CURVE448_SIZE];
		if (pub_only) curve448_mul_g(out, d.data());
		else
		{
			if (peer.size() != CURVE448_SIZE) throw Err("X448 peer must be 56 bytes");
			curve448_mul(out, d.data(), peer.data());
		}
		return json{{key, hex(out, sizeof(out))}};
	}
	throw Err("unsupported curve: " + c);
}

// ---------------------------------------------------------------- PKCS#8

const char* OID_RSA = "1.2.840.113549.1.1.1";
const char* OID_DSA = "1.2.840.10040.4.1";
const char* OID_DH = "1.2.840.113549.1.3.1";      // PKCS#3 dhKeyAgreement
const char* OID_DH_X942 = "1.2.840.10046.2.1";    // X9.42 dhpublicnumber
const char* OID_EC = "1.2.840.10045.2.1";
const char* OID_X25519 = "1.3.101.110";
const char* OID_X448 = "1.3.101.111";
const char* OID_ED25519 = "1.3.101.112";
const char* OID_ED448 = "1.3.101.113";

std::string curve_name(const Botan::OID& oid)
{
	std::string dotted = oid.to_string();
	if (dotted == "1.2.840.10045.3.1.7") return "secp256r1";
	if (dotted == "1.3.132.0.34") return "secp384r1";
	if (dotted == "1.3.132.0.35") return "secp521r1";
	std::string n = Botan::OIDS::oid2str_or_empty(oid);
	return n.empty() ? dotted : n;
}

// ECParameters CHOICE -> curve description
std::string curve_from_params(const uint8_t* p, size_t n)
{
	if (n == 0) return "";
	if (p[0] == 0x06)
	{
		Botan::OID oid;
		Botan::BER_Decoder(p, n).decode(oid).verify_end();
		return curve_name(oid);
	}
	if (p[0] == 0x05) return "implicit";
	if (p[0] == 0x30)
	{
		try
		{
			Botan::EC_Group g(p, n);
			if (g.get_curve_oid().has_value()) return curve_name(g.get_curve_oid());
		}
		catch (const std::exception&) {}
		return "explicit";
	}
	throw Err("unrecognised EC parameters");
}

BigInt positive(const BigInt& b, const char* what)
{
	if (b.is_negative()) throw Err(std::string(what) + ": negative integer");
	if (b.bytes() > MAX_INT_BYTES) throw Err(std::string(what) + ": integer too large");
	return b;
}

json op_pkcs8_parse(const json& r)
{
	Bytes der = bytes(r, "der");
	Botan::BER_Decoder top(der.data(), der.size());
	Botan::BER_Decoder pki = top.start_cons(Botan::SEQUENCE);
	BigInt version;
	Botan::AlgorithmIdentifier alg;
	Botan::secure_vector<uint8_t> key;
	pki.decode(version).decode(alg).decode(key, Botan::OCTET_STRING);
	if (version != 0 && version != 1) throw Err("unsupported PrivateKeyInfo version");
	pki.discard_remaining();  // [0] attributes, [1] publicKey (RFC 5958)
	top.verify_end();
	const std::string oid = alg.get_oid().to_string();
	const std::vector<uint8_t>& params = alg.get_parameters();
	json out;

	if (oid == OID_RSA)
	{
		BigInt v, n, e, d, p, q, dp, dq, qinv;
		Botan::BER_Decoder k(key);
		Botan::BER_Decoder s = k.start_cons(Botan::SEQUENCE);
		s.decode(v).decode(n).decode(e).decode(d).decode(p).decode(q).decode(dp).decode(dq).decode(qinv);
		s.discard_remaining();  // otherPrimeInfos for multi-prime keys
		k.verify_end();
		out["type"] = "RSA";
		out["n"] = hexint(positive(n, "n"));
		out["e"] = hexint(positive(e, "e"));
		out["d"] = hexint(positive(d, "d"));
		out["p"] = hexint(positive(p, "p"));
		out["q"] = hexint(positive(q, "q"));
		out["dp"] = hexint(positive(dp, "dp"));
		out["dq"] = hexint(positive(dq, "dq"));
		out["qinv"] = hexint(positive(qinv, "qinv"));
		return out;
	}
	if (oid == OID_DSA)
	{
		BigInt p, q, g, x;
		Botan::BER_Decoder pd(params);
		Botan::BER_Decoder ps = pd.start_cons(Botan::SEQUENCE);
		ps.decode(p).decode(q).decode(g).verify_end();
		pd.verify_end();
		Botan::BER_Decoder(key).decode(x).verify_end();
		out["type"] = "DSA";
		out["p"] = hexint(positive(p, "p"));
		out["q"] = hexint(positive(q, "q"));
		out["g"] = hexint(positive(g, "g"));
		out["x"] = hexint(positive(x, "x"));
		return out;
	}
	if (oid == OID_DH || oid == OID_DH_X942)
	{
		BigInt p, g, q, x;
		Botan::BER_Decoder pd(params);
		Botan::BER_Decoder ps = pd.start_cons(Botan::SEQUENCE);
		ps.decode(p).decode(g);
		if (oid == OID_DH_X942) ps.decode(q);
		ps.discard_remaining();  // privateValueLength / j, validationParms
		pd.verify_end();
		Botan::BER_Decoder(key).decode(x).verify_end();
		out["type"] = "DH";
		out["p"] = hexint(positive(p, "p"));
		out["g"] = hexint(positive(g, "g"));
		if (oid == OID_DH_X942) out["q"] = hexint(positive(q, "q"));
		out["x"] = hexint(positive(x, "x"));
		return out;
	}
	if (oid == OID_EC)
	{
		std::string curve = curve_from_params(params.data(), params.size());
		BigInt v;
		Botan::secure_vector<uint8_t> d;
		Botan::BER_Decoder k(key);
		Botan::BER_Decoder s = k.start_cons(Botan::SEQUENCE);
		s.decode(v).decode(d, Botan::OCTET_STRING);
		if (v != 1) throw Err("unsupported ECPrivateKey version");
		const Botan::ASN1_Tag ctx_cons = Botan::ASN1_Tag(Botan::CONSTRUCTED | Botan::CONTEXT_SPECIFIC);
		while (s.more_items())
		{
			Botan::BER_Object o = s.get_next_object();
			if (o.is_a(0, ctx_cons))
			{
				std::string inner = curve_from_params(o.bits(), o.length());
				if (curve.empty()) curve = inner;
				else if (inner != curve) throw Err("ECPrivateKey parameters differ from the AlgorithmIdentifier");
			}
			else if (o.is_a(1, ctx_cons))
			{
				std::vector<uint8_t> bits;
				Botan::BER_Decoder(o.bits(), o.length()).decode(bits, Botan::BIT_STRING).verify_end();
				out["point"] = hex(bits);
			}
			else throw Err("unexpected element in ECPrivateKey");
		}
		k.verify_end();
		if (curve.empty()) throw Err("EC key without curve parameters");
		out["type"] = "EC";
		out["curve"] = curve;
		out["d"] = hex(d);
		return out;
	}
	const char* type = NULL;
	if (oid == OID_ED25519) type = "Ed25519";
	else if (oid == OID_ED448) type = "Ed448";
	else if (oid == OID_X25519) type = "X25519";
	else if (oid == OID_X448) type = "X448";
	if (type)
	{
		if (!params.empty()) throw Err("RFC 8410 keys must not have AlgorithmIdentifier parameters");
		Botan::secure_vector<uint8_t> d;
		Botan::BER_Decoder(key).decode(d, Botan::OCTET_STRING).verify_end();
		out["type"] = type;
		out["d"] = hex(d);
		return out;
	}
	throw Err("unsupported key algorithm OID " + oid);
}

std::vector<uint8_t> der_seq_of_ints(const std::vector<BigInt>& v)
{
	std::vector<uint8_t> out;
	Botan::DER_Encoder enc(out);
	enc.start_cons(Botan::SEQUENCE);
	for (size_t i = 0; i < v.size(); i++) enc.encode(v[i]);
	enc.end_cons();
	return out;
}

std::vector<uint8_t> der_int(const BigInt& x)
{
	std::vector<uint8_t> out;
	Botan::DER_Encoder(out).encode(x);
	return out;
}

bool looks_dotted(const std::string& s)
{
	if (s.empty() || s.find('.') == std::string::npos) return false;
	for (size_t i = 0; i < s.size(); i++)
		if (!((s[i] >= '0' && s[i] <= '9') || s[i] == '.')) return false;
	return true;
}

json op_pkcs8_make(const json& r)
{
	std::string type = str(r, "type");
	Botan::AlgorithmIdentifier alg;
	std::vector<uint8_t> key;
	if (type == "RSA")
	{
		BigInt n = bigint(r, "n"), e = bigint(r, "e"), d = bigint(r, "d"), p = bigint(r, "p"), q = bigint(r, "q");
		BigInt dp, dq, qinv;
		if (has(r, "dp")) dp = bigint(r, "dp");
		else { if (p < 2) throw Err("cannot derive dp"); dp = d % (p - 1); }
		if (has(r, "dq")) dq = bigint(r, "dq");
		else { if (q < 2) throw Err("cannot derive dq"); dq = d % (q - 1); }
		if (has(r, "qinv")) qinv = bigint(r, "qinv");
		else
		{
			if (p < 3 || q.is_zero()) throw Err("cannot derive qinv");
			qinv = Botan::inverse_mod(q % p, p);
			if (qinv.is_zero()) throw Err("cannot derive qinv");
		}
		std::vector<BigInt> v;
		v.push_back(BigInt(0)); v.push_back(n); v.push_back(e); v.push_back(d); v.push_back(p); v.push_back(q);
		v.push_back(dp); v.push_back(dq); v.push_back(qinv);
		key = der_seq_of_ints(v);
		alg = Botan::AlgorithmIdentifier(Botan::OID(OID_RSA), Botan::AlgorithmIdentifier::USE_NULL_PARAM);
	}
	else if (type == "DSA")
	{
		std::vector<BigInt> v;
		v.push_back(bigint(r, "p")); v.push_back(bigint(r, "q")); v.push_back(bigint(r, "g"));
		alg = Botan::AlgorithmIdentifier(Botan::OID(OID_DSA), der_seq_of_ints(v));
		key = der_int(bigint(r, "x"));
	}
	else if (type == "DH")
	{
		std::vector<BigInt> v;
		v.push_back(bigint(r, "p")); v.push_back(bigint(r, "g"));
		alg = Botan::AlgorithmIdentifier(Botan::OID(OID_DH), der_seq_of_ints(v));
		key = der_int(bigint(r, "x"));
	}
	else if (type == "EC")
	{
		std::string curve = str(r, "curve");
		if (curve == "prime256v1" || curve == "P-256") curve = "secp256r1";
		else if (curve == "P-384") curve = "secp384r1";
		else if (curve == "P-521") curve = "secp521r1";
		Botan::OID oid = looks_dotted(curve) ? Botan::OID(curve) : Botan::OIDS::str2oid_or_empty(curve);
		if (!oid.has_value()) throw Err("unknown curve: " + curve);
		BigInt d = bigint(r, "d");
		std::vector<uint8_t> dbytes, point;
		if (has(r, "point")) point = bytes(r, "point");
		try
		{
			Botan::EC_Group grp(oid);
			size_t len = d.bytes() > grp.get_order_bytes() ? d.bytes() : grp.get_order_bytes();
			dbytes = Botan::unlock(BigInt::encode_1363(d, len));
			if (point.empty() && !d.is_zero() && d < grp.get_order())
				point = (grp.get_base_point() * d).encode(Botan::PointGFp::UNCOMPRESSED);
		}
		catch (const std::exception&)
		{
			// curve not known to Botan: keep the private value as given, no public key
			dbytes = unhex(str(r, "d").size() % 2 ? "0" + str(r, "d") : str(r, "d"), "d");
		}
		std::vector<uint8_t> params;
		Botan::DER_Encoder(params).encode(oid);
		alg = Botan::AlgorithmIdentifier(Botan::OID(OID_EC), params);
		Botan::DER_Encoder enc(key);
		enc.start_cons(Botan::SEQUENCE).encode(size_t(1)).encode(dbytes, Botan::OCTET_STRING);
		if (!point.empty())
			enc.start_cons(Botan::ASN1_Tag(1), Botan::CONTEXT_SPECIFIC).encode(point, Botan::BIT_STRING).end_cons();
		enc.end_cons();
	}
	else if (type == "Ed25519" || type == "Ed448" || type == "X25519" || type == "X448")
	{
		const char* oid = type == "Ed25519" ? OID_ED25519 : type == "Ed448" ? OID_ED448 : type == "X25519" ? OID_X25519 : OID_X448;
		alg = Botan::AlgorithmIdentifier(Botan::OID(oid), std::vector<uint8_t>());
		Botan::DER_Encoder(key).encode(bytes(r, "d"), Botan::OCTET_STRING);
	}
	else throw Err("unsupported key type: " + type);

	std::vector<uint8_t> der;
	Botan::DER_Encoder(der)
		.start_cons(Botan::SEQUENCE)
		.encode(size_t(0))
		.encode(alg)
		.encode(key, Botan::OCTET_STRING)
		.end_cons();
	return json{{"der", hex(der)}};
}

// ---------------------------------------------------------------- dispatch

json dispatch(const json& r)
{
	std::string op = str(r, "op");
	if (op == "ping") return json{{"ok", true}};
	if (op == "hash") return op_hash(r);
	if (op == "mac") return op_mac(r);
	if (op == "cipher") return op_cipher(r);
	if (op == "keywrap") return op_keywrap(r);
	if (op == "kcv") return op_kcv(r);
	if (op == "rsa_sign") return op_rsa_sign(r);
	if (op == "rsa_verify") return op_rsa_verify(r);
	if (op == "rsa_encrypt") return op_rsa_encrypt(r);
	if (op == "rsa_decrypt") return op_rsa_decrypt(r);
	if (op == "dsa_sign") return op_dsa_sign(r);
	if (op == "dsa_verify") return op_dsa_verify(r);
	if (op == "ecdsa_sign") return op_ecdsa_sign(r);
	if (op == "ecdsa_verify") return op_ecdsa_verify(r);
	if (op == "ec_pub") return op_ec_pub(r);
	if (op == "eddsa_sign") return op_eddsa_sign(r);
	if (op == "eddsa_verify") return op_eddsa_verify(r);
	if (op == "eddsa_pub") return op_eddsa_pub(r);
	if (op == "dh") return op_dh(r);
	if (op == "ecdh") return op_ecdh(r);
	if (op == "xdh") return op_xdh(r, false);
	if (op == "xdh_pub") return op_xdh(r, true);
	if (op == "pkcs8_parse") return op_pkcs8_parse(r);
	if (op == "pkcs8_make") return op_pkcs8_make(r);
	throw Err("unknown op: " + op);
}

// refuse absurdly deep nesting before a tree is built (requests are flat objects)
bool depth_guard(int depth, json::parse_event_t, json&)
{
	if (depth > 16) throw Err("json nested too deeply");
	return true;
}

std::string handle_line(const std::string& line)
{
	json reply;
	json id;
	bool have_id = false;
	try
	{
		json req = json::parse(line, depth_guard, true);
		if (!req.is_object()) throw Err("request must be a JSON object");
		json::const_iterator it = req.find("id");
		if (it != req.end()) { id = *it; have_id = true; }
		reply = dispatch(req);
	}
	catch (const std::exception& e)
	{
		reply = json{{"error", std::string(e.what())}};
	}
	catch (...)
	{
		reply = json{{"error", "unknown exception"}};
	}
	try
	{
		if (have_id) reply["id"] = id;
		return reply.dump(-1, ' ', false, json::error_handler_t::replace);
	}
	catch (...)
	{
		return "{\"error\":\"cannot serialise the reply\"}";
	}
}

}  // namespace

int main()
{
	std::ios::sync_with_stdio(false);
	std::string line;
	while (std::getline(std::cin, line))
	{
		if (!line.empty() && line[line.size() - 1] == '\r') line.resize(line.size() - 1);
		std::string out;
		try { out = handle_line(line); }
		catch (...) { out = "{\"error\":\"internal failure\"}"; }
		std::cout << out << "\n";
		std::cout.flush();
	}
	return 0;
}
