// fuzz_api - libFuzzer target for C17: coverage-guided sequences of well-typed PKCS#11 calls.
//
// bytes -> (FuzzedDataProvider) <= 24 calls in the executor's JSON vocabulary, executed through the same handlers as p11worker
// (exact heap allocations inside canaries, nested pointers valid, NULL only where PKCS#11 permits).  The decoder is structure
// aware: operation init / update / single / final with mechanism parameters of the right family built from fuzz bytes, objects
// created from valid templates with fuzzed values, wrap / unwrap / derive / generate, attribute reads with exactly-sized buffers.
// state  : C_Finalize + token directory restored from an in-memory image + C_Initialize + login at the top of every iteration.
// oracle : ASan/UBSan, exit()/abort() (libFuzzer reports them), canaries of every output buffer, return codes are CKR_* values.
#define P11WORKER_NO_MAIN
#include "p11worker.cpp"

#include <dirent.h>
#include <fcntl.h>
#include <fuzzer/FuzzedDataProvider.h>

static std::string g_root, g_tokdir, g_sub;
static std::map<std::string, std::string> g_image;      // token directory after the one-time set-up
static bool g_inited = false;
static CK_SLOT_ID g_slot = 0;
static unsigned long g_stats[6];                          // execs, calls, calls ok, calls past validation, ops ok, objects created
static const char* PIN = "1234567890";
static const char* SOPIN = "so-pin-fuzz";

static std::string slurp(const std::string& p)
{
	std::string s; FILE* f = fopen(p.c_str(), "rb"); if (!f) return s;
	char buf[65536]; size_t n; while ((n = fread(buf, 1, sizeof(buf), f)) > 0) s.append(buf, n); fclose(f); return s;
}
static void spit(const std::string& p, const std::string& s)
{
	FILE* f = fopen(p.c_str(), "wb"); if (!f) return; if (!s.empty()) fwrite(s.data(), 1, s.size(), f); fclose(f);
}
static std::string hexs(const std::string& s) { return hex((const unsigned char*)s.data(), s.size()); }

static void dump_stats()
{
	const char* dir = getenv("C17_STATS_DIR");
	if (!dir) return;
	char p[4096]; snprintf(p, sizeof(p), "%s/api.%d.json", dir, (int)getpid());
	FILE* f = fopen(p, "w"); if (!f) return;
	fprintf(f, "{\"execs\":%lu,\"calls\":%lu,\"calls_ok\":%lu,\"calls_past_validation\":%lu,\"crypto_ops_ok\":%lu,\"objects_created\":%lu}\n", g_stats[0], g_stats[1], g_stats[2],
		g_stats[3], g_stats[4], g_stats[5]);
	fclose(f);
}

static json call(const json& cmd)
{
	auto it = H.find(cmd["fn"].get<std::string>());
	if (it == H.end()) { fprintf(stderr, "fuzz_api: unknown fn %s\n", cmd["fn"].get<std::string>().c_str()); __builtin_trap(); }
	json r = it->second(cmd);
	g_stats[1]++;
	CK_ULONG rv = r.value("rv", (CK_ULONG)0);
	if (rv == CKR_OK) g_stats[2]++;
	if (rv != CKR_ARGUMENTS_BAD && rv != CKR_SESSION_HANDLE_INVALID && rv != CKR_OBJECT_HANDLE_INVALID && rv != CKR_KEY_HANDLE_INVALID && rv != CKR_OPERATION_NOT_INITIALIZED) g_stats[3]++;
	// the oracle inside the target: canaries around every output buffer, and a return value that is a PKCS#11 code
	bool bad = false;
	if (r.contains("out") && r["out"].is_object() && r["out"].value("canary", true) == false) bad = true;
	if (r.value("canary", true) == false) bad = true;
	if (r.contains("attrs") && r["attrs"].is_array()) for (const json& a : r["attrs"]) if (a.is_object() && a.value("canary", true) == false) bad = true;
	if (rv > 0x200 && rv != CKR_VENDOR_DEFINED && !(rv >= 0x80000000UL)) bad = true;
	if (bad)
	{
		fprintf(stderr, "fuzz_api: %s wrote outside its buffer or returned a value that is no CKR code: %s\n", cmd["fn"].get<std::string>().c_str(), r.dump().substr(0, 400).c_str());
		dump_stats();
		__builtin_trap();
	}
	return r;
}

static json T1(CK_ULONG t, const char* kind, const json& v) { return json::array({ t, kind, v }); }

static void setup()
{
	register_handlers();
	char tmpl[] = "/dev/shm/fuzz_api.XXXXXX";
	if (!mkdtemp(tmpl)) { perror("mkdtemp"); _exit(3); }
	g_root = tmpl; g_tokdir = g_root + "/tokens"; mkdir(g_tokdir.c_str(), 0700);
	std::string conf = g_root + "/softhsm2.conf";
	spit(conf, "directories.tokendir = " + g_tokdir + "\nobjectstore.backend = file\nlog.level = ERROR\nslots.removable = false\nslots.mechanisms = ALL\nlibrary.reset_on_fork = false\n");
	setenv("SOFTHSM2_CONF", conf.c_str(), 1);
	int devnull = open("/dev/null", O_WRONLY); shim_set_report_fd(devnull);
	// one-time: a token with a user PIN and one token key of every useful kind
	json r = call({ { "fn", "C_Initialize" } });
	r = call({ { "fn", "C_GetSlotList" } });
	CK_SLOT_ID s0 = r["slots"][0].get<CK_ULONG>();
	std::string label(32, ' '); memcpy(&label[0], "fuzz", 4);
	call({ { "fn", "C_InitToken" }, { "slot", s0 }, { "pin", hexs(SOPIN) }, { "label", hexs(label) } });
	call({ { "fn", "C_Finalize" } });
	call({ { "fn", "C_Initialize" } });
	r = call({ { "fn", "C_GetSlotList" }, { "present", true } });
	g_slot = r["slots"][0].get<CK_ULONG>();
	r = call({ { "fn", "C_OpenSession" }, { "slot", g_slot }, { "flags", 6 } });
	CK_ULONG s = r["h"].get<CK_ULONG>();
	call({ { "fn", "C_Login" }, { "s", s }, { "user", 0 }, { "pin", hexs(SOPIN) } });
	call({ { "fn", "C_InitPIN" }, { "s", s }, { "pin", hexs(PIN) } });
	call({ { "fn", "C_Logout" }, { "s", s } });
	call({ { "fn", "C_Login" }, { "s", s }, { "user", 1 }, { "pin", hexs(PIN) } });
	json common = json::array({ T1(CKA_TOKEN, "bool", true), T1(CKA_PRIVATE, "bool", false), T1(CKA_SENSITIVE, "bool", false), T1(CKA_EXTRACTABLE, "bool", true), T1(CKA_ENCRYPT, "bool", true),
		T1(CKA_DECRYPT, "bool", true), T1(CKA_SIGN, "bool", true), T1(CKA_VERIFY, "bool", true), T1(CKA_WRAP, "bool", true), T1(CKA_UNWRAP, "bool", true), T1(CKA_DERIVE, "bool", true) });
	auto gen = [&](CK_ULONG m, const char* lab, json extra) {
		json t = common; for (auto& e : extra) t.push_back(e); t.push_back(T1(CKA_LABEL, "bytes", hexs(lab)));
		call({ { "fn", "C_GenerateKey" }, { "s", s }, { "mech", { { "m", m } } }, { "tpl", t } });
	};
	gen(CKM_AES_KEY_GEN, "aes", json::array({ T1(CKA_VALUE_LEN, "ulong", 16) }));
	gen(CKM_GENERIC_SECRET_KEY_GEN, "generic", json::array({ T1(CKA_VALUE_LEN, "ulong", 64) }));
	gen(CKM_DES3_KEY_GEN, "des3", json::array());
	auto pair = [&](CK_ULONG m, const char* lab, json pubx) {
		json pub = json::array({ T1(CKA_TOKEN, "bool", true), T1(CKA_PRIVATE, "bool", false), T1(CKA_VERIFY, "bool", true), T1(CKA_ENCRYPT, "bool", true), T1(CKA_WRAP, "bool", true),
			T1(CKA_LABEL, "bytes", hexs(std::string(lab) + "_pub")) });
		for (auto& e : pubx) pub.push_back(e);
		json prv = json::array({ T1(CKA_TOKEN, "bool", true), T1(CKA_PRIVATE, "bool", false), T1(CKA_SIGN, "bool", true), T1(CKA_DECRYPT, "bool", true), T1(CKA_UNWRAP, "bool", true),
			T1(CKA_DERIVE, "bool", true), T1(CKA_SENSITIVE, "bool", false), T1(CKA_EXTRACTABLE, "bool", true), T1(CKA_LABEL, "bytes", hexs(std::string(lab) + "_priv")) });
		call({ { "fn", "C_GenerateKeyPair" }, { "s", s }, { "mech", { { "m", m } } }, { "pub", pub }, { "prv", prv } });
	};
	pair(CKM_RSA_PKCS_KEY_PAIR_GEN, "rsa", json::array({ T1(CKA_MODULUS_BITS, "ulong", 1024), T1(CKA_PUBLIC_EXPONENT, "bytes", "010001") }));
	pair(CKM_EC_KEY_PAIR_GEN, "ec", json::array({ T1(CKA_EC_PARAMS, "bytes", "06082a8648ce3d030107") }));
	pair(CKM_EC_EDWARDS_KEY_PAIR_GEN, "ed", json::array({ T1(CKA_EC_PARAMS, "bytes", "06032b6570") }));
	call({ { "fn", "C_Finalize" } });
	DIR* d = opendir(g_tokdir.c_str());
	struct dirent* e;
	while ((e = readdir(d)) != NULL) if (e->d_name[0] != '.') g_sub = e->d_name;
	closedir(d);
	std::string dir = g_tokdir + "/" + g_sub;
	d = opendir(dir.c_str());
	while ((e = readdir(d)) != NULL) if (e->d_name[0] != '.') g_image[e->d_name] = slurp(dir + "/" + e->d_name);
	closedir(d);
	atexit(dump_stats);
}

static void restore()
{
	std::string dir = g_tokdir + "/" + g_sub;
	DIR* d = opendir(dir.c_str());
	if (d)
	{
		struct dirent* e;
		while ((e = readdir(d)) != NULL) { std::string n = e->d_name; if (n != "." && n != ".." && !g_image.count(n)) unlink((dir + "/" + n).c_str()); }
		closedir(d);
	}
	else mkdir(dir.c_str(), 0700);
	for (auto& kv : g_image) spit(dir + "/" + kv.first, kv.second);
	// other token directories a previous iteration may have made (C_InitToken on the free slot)
	d = opendir(g_tokdir.c_str());
	if (d)
	{
		struct dirent* e;
		while ((e = readdir(d)) != NULL)
		{
			std::string n = e->d_name;
			if (n == "." || n == ".." || n == g_sub) continue;
			std::string sub = g_tokdir + "/" + n;
			DIR* d2 = opendir(sub.c_str());
			if (d2) { struct dirent* e2; while ((e2 = readdir(d2)) != NULL) if (e2->d_name[0] != '.') unlink((sub + "/" + e2->d_name).c_str()); closedir(d2); }
			rmdir(sub.c_str());
		}
		closedir(d);
	}
}

struct MechSpec { CK_ULONG m; int fam; const char* role; };   // fam: 0 none 1 iv16 2 iv8 3 ctr 4 gcm 5 pss 6 oaep 7 ecdh 8 strdata 9 cbcenc16 10 cbcenc8
static const MechSpec MECHS[] = {
	{ CKM_AES_ECB, 0, "aes" }, { CKM_AES_CBC, 1, "aes" }, { CKM_AES_CBC_PAD, 1, "aes" }, { CKM_AES_CTR, 3, "aes" }, { CKM_AES_GCM, 4, "aes" }, { CKM_DES3_ECB, 0, "des3" },
	{ CKM_DES3_CBC, 2, "des3" }, { CKM_DES3_CBC_PAD, 2, "des3" }, { CKM_SHA256_HMAC, 0, "generic" }, { CKM_SHA512_HMAC, 0, "generic" }, { CKM_SHA_1_HMAC, 0, "generic" },
	{ CKM_AES_CMAC, 0, "aes" }, { CKM_DES3_CMAC, 0, "des3" }, { CKM_RSA_PKCS, 0, "rsa" }, { CKM_RSA_X_509, 0, "rsa" }, { CKM_SHA256_RSA_PKCS, 0, "rsa" }, { CKM_SHA1_RSA_PKCS, 0, "rsa" },
	{ CKM_RSA_PKCS_PSS, 5, "rsa" }, { CKM_SHA256_RSA_PKCS_PSS, 5, "rsa" }, { CKM_RSA_PKCS_OAEP, 6, "rsa" }, { CKM_ECDSA, 0, "ec" }, { CKM_EDDSA, 0, "ed" },
	{ CKM_SHA256, 0, NULL }, { CKM_SHA_1, 0, NULL }, { CKM_MD5, 0, NULL }, { CKM_SHA512, 0, NULL },
	{ CKM_ECDH1_DERIVE, 7, "ec" }, { CKM_AES_ECB_ENCRYPT_DATA, 8, "aes" }, { CKM_AES_CBC_ENCRYPT_DATA, 9, "aes" }, { CKM_DES3_ECB_ENCRYPT_DATA, 8, "des3" },
	{ CKM_DES3_CBC_ENCRYPT_DATA, 10, "des3" }, { CKM_CONCATENATE_BASE_AND_DATA, 8, "generic" }, { CKM_CONCATENATE_DATA_AND_BASE, 8, "generic" },
	{ CKM_AES_KEY_WRAP, 0, "aes" }, { CKM_AES_KEY_WRAP_PAD, 0, "aes" } };
static const size_t NMECH = sizeof(MECHS) / sizeof(MECHS[0]);

static std::string fbytes(FuzzedDataProvider& f, size_t maxlen)
{
	static const size_t LENS[] = { 0, 1, 7, 8, 9, 15, 16, 17, 20, 31, 32, 33, 48, 64, 65, 100, 127, 128, 129, 255, 256, 257 };
	size_t n = f.ConsumeBool() ? LENS[f.ConsumeIntegralInRange<size_t>(0, sizeof(LENS) / sizeof(LENS[0]) - 1)] : f.ConsumeIntegralInRange<size_t>(0, maxlen);
	if (n > maxlen) n = maxlen;
	std::string s = f.ConsumeBytesAsString(n);
	s.resize(n, (char)0x5a);        // length independent of how many bytes are left
	return s;
}

static json mech_json(FuzzedDataProvider& f, const MechSpec& ms)
{
	json m; m["m"] = ms.m;
	int fam = f.ConsumeIntegralInRange<int>(0, 15) == 0 ? f.ConsumeIntegralInRange<int>(0, 10) : ms.fam;    // rarely a foreign family (of another size)
	std::string b = fbytes(f, 64); b.resize(64, 0);
	switch (fam)
	{
		case 1: m["p"] = { { "raw", hexs(b.substr(0, f.ConsumeIntegralInRange<int>(0, 9) ? 16 : (size_t)f.ConsumeIntegralInRange<int>(0, 33))) } }; break;
		case 2: m["p"] = { { "raw", hexs(b.substr(0, f.ConsumeIntegralInRange<int>(0, 9) ? 8 : (size_t)f.ConsumeIntegralInRange<int>(0, 17))) } }; break;
		case 3: m["p"] = { { "ctr", { { "bits", f.ConsumeIntegralInRange<int>(0, 9) ? f.ConsumeIntegralInRange<CK_ULONG>(1, 128) : f.ConsumeIntegral<CK_ULONG>() }, { "cb", hexs(b.substr(0, 16)) } } } }; break;
		case 4: m["p"] = { { "gcm", { { "iv", hexs(b.substr(0, f.ConsumeIntegralInRange<size_t>(0, 20))) }, { "aad", hexs(fbytes(f, 64)) },
			{ "tagBits", f.ConsumeIntegralInRange<int>(0, 9) ? (CK_ULONG)(8 * f.ConsumeIntegralInRange<int>(0, 17)) : f.ConsumeIntegral<CK_ULONG>() } } } }; break;
		case 5: { static const CK_ULONG HS[] = { CKM_SHA_1, CKM_SHA224, CKM_SHA256, CKM_SHA384, CKM_SHA512 }; static const CK_ULONG MG[] = { 1, 5, 2, 3, 4 }; int i = f.ConsumeIntegralInRange<int>(0, 4);
			m["p"] = { { "pss", { { "hash", f.ConsumeIntegralInRange<int>(0, 9) ? HS[i] : f.ConsumeIntegral<CK_ULONG>() }, { "mgf", f.ConsumeBool() ? MG[i] : f.ConsumeIntegralInRange<CK_ULONG>(0, 6) },
				{ "slen", f.ConsumeBool() ? f.ConsumeIntegralInRange<CK_ULONG>(0, 130) : f.ConsumeIntegral<CK_ULONG>() } } } }; break; }
		case 6: m["p"] = { { "oaep", { { "hash", f.ConsumeIntegralInRange<int>(0, 9) ? (CK_ULONG)CKM_SHA_1 : f.ConsumeIntegral<CK_ULONG>() }, { "mgf", f.ConsumeIntegralInRange<CK_ULONG>(0, 3) },
			{ "source", f.ConsumeIntegralInRange<CK_ULONG>(0, 2) }, { "sourceData", f.ConsumeBool() ? json() : json(hexs(fbytes(f, 32))) } } } }; break;
		case 7: m["p"] = { { "ecdh", { { "kdf", f.ConsumeIntegralInRange<CK_ULONG>(1, 3) }, { "pub", hexs(fbytes(f, 140)) }, { "shared", f.ConsumeBool() ? json() : json(hexs(fbytes(f, 16))) } } } }; break;
		case 8: m["p"] = { { "strdata", hexs(fbytes(f, 80)) } }; break;
		case 9: m["p"] = { { "cbcenc", { { "iv", hexs(b.substr(0, 16)) }, { "ivlen", 16 }, { "data", hexs(fbytes(f, 80)) } } } }; break;
		case 10: m["p"] = { { "cbcenc", { { "iv", hexs(b.substr(0, 16)) }, { "ivlen", 8 }, { "data", hexs(fbytes(f, 80)) } } } }; break;
		default: if (f.ConsumeIntegralInRange<int>(0, 7) == 0) m["p"] = { { "raw", hexs(fbytes(f, 40)) } }; break;
	}
	// well-typedness: a parameter whose size equals a pointer-bearing struct the mechanism expects must be that struct
	static const struct { CK_ULONG m; int fam; } PTR[] = { { CKM_AES_GCM, 4 }, { CKM_RSA_PKCS_OAEP, 6 }, { CKM_ECDH1_DERIVE, 7 }, { CKM_AES_ECB_ENCRYPT_DATA, 8 }, { CKM_DES3_ECB_ENCRYPT_DATA, 8 },
		{ CKM_CONCATENATE_BASE_AND_DATA, 8 }, { CKM_CONCATENATE_DATA_AND_BASE, 8 }, { CKM_AES_CBC_ENCRYPT_DATA, 9 }, { CKM_DES3_CBC_ENCRYPT_DATA, 10 } };
	for (auto& p : PTR) if (p.m == ms.m && fam != p.fam) m.erase("p");
	return m;
}

static json outpol(FuzzedDataProvider& f)
{
	switch (f.ConsumeIntegralInRange<int>(0, 5))
	{
		case 0: return json();                                   // NULL: size query
		case 1: return json("$exact");
		case 2: return json("$minus1");
		case 3: return json(4100);
		default: { static const int L[] = { 0, 1, 8, 15, 16, 17, 32, 64, 128, 256 }; return json(L[f.ConsumeIntegralInRange<int>(0, 9)]); }
	}
}

// a call with an output buffer under the caller's usual protocol
static json call_out(json cmd, const json& pol)
{
	if (pol.is_string())
	{
		json q = call(cmd);
		if (q.value("rv", (CK_ULONG)1) != CKR_OK || !q.contains("out")) return q;
		CK_ULONG n = q["out"].value("len", (CK_ULONG)0);
		if (n > (1u << 20)) return q;
		cmd["out"] = pol.get<std::string>() == "$exact" ? n : (n ? n - 1 : 0);
		return call(cmd);
	}
	if (!pol.is_null()) cmd["out"] = pol;
	return call(cmd);
}

extern "C" int LLVMFuzzerTestOneInput(const uint8_t* data, size_t size)
{
	static bool once = false;
	if (!once) { setup(); once = true; }
	if (g_inited) { call({ { "fn", "C_Finalize" } }); g_inited = false; }
	restore();
	g_stats[0]++;
	FuzzedDataProvider f(data, size);
	if (call({ { "fn", "C_Initialize" } }).value("rv", (CK_ULONG)1) != CKR_OK) { fprintf(stderr, "fuzz_api: C_Initialize on the pristine token failed\n"); __builtin_trap(); }
	g_inited = true;
	json r = call({ { "fn", "C_OpenSession" }, { "slot", g_slot }, { "flags", 6 } });
	CK_ULONG s = r.value("h", (CK_ULONG)0);
	call({ { "fn", "C_Login" }, { "s", s }, { "user", 1 }, { "pin", hexs(PIN) } });
	std::map<std::string, CK_ULONG> role;
	std::vector<CK_ULONG> objs, sess;
	sess.push_back(s);
	for (const char* lab : { "aes", "generic", "des3", "rsa_pub", "rsa_priv", "ec_pub", "ec_priv", "ed_pub", "ed_priv" })
	{
		json fr = call({ { "fn", "findall" }, { "s", s }, { "tpl", json::array({ T1(CKA_LABEL, "bytes", hexs(lab)) }) } });
		if (fr.contains("h") && !fr["h"].empty()) { role[lab] = fr["h"][0].get<CK_ULONG>(); objs.push_back(role[lab]); }
	}
	std::string last_out, last_blob;
	auto pick_obj = [&](FuzzedDataProvider& f) -> CK_ULONG {
		int k = f.ConsumeIntegralInRange<int>(0, 9);
		if (k < 8 && !objs.empty()) return objs[f.ConsumeIntegralInRange<size_t>(0, objs.size() - 1)];
		return k == 8 ? f.ConsumeIntegralInRange<CK_ULONG>(0, 60) : f.ConsumeIntegral<CK_ULONG>();
	};
	auto pick_sess = [&](FuzzedDataProvider& f) -> CK_ULONG {
		int k = f.ConsumeIntegralInRange<int>(0, 11);
		if (k < 10) return sess[f.ConsumeIntegralInRange<size_t>(0, sess.size() - 1)];
		return f.ConsumeIntegralInRange<CK_ULONG>(0, 40);
	};
	auto key_for = [&](const MechSpec& ms, bool forward, FuzzedDataProvider& f) -> CK_ULONG {
		if (f.ConsumeIntegralInRange<int>(0, 7) == 0 || !ms.role) return pick_obj(f);
		std::string n = ms.role;
		if (n == "rsa" || n == "ec" || n == "ed") n += forward ? "_pub" : "_priv";
		return role.count(n) ? role[n] : 0;
	};
	static const CK_ULONG ATTRS[] = { CKA_CLASS, CKA_TOKEN, CKA_PRIVATE, CKA_LABEL, CKA_VALUE, CKA_KEY_TYPE, CKA_ID, CKA_SENSITIVE, CKA_ENCRYPT, CKA_DECRYPT, CKA_WRAP, CKA_UNWRAP, CKA_SIGN, CKA_VERIFY,
		CKA_DERIVE, CKA_MODULUS, CKA_MODULUS_BITS, CKA_PUBLIC_EXPONENT, CKA_PRIVATE_EXPONENT, CKA_PRIME_1, CKA_EC_PARAMS, CKA_EC_POINT, CKA_VALUE_LEN, CKA_EXTRACTABLE, CKA_LOCAL,
		CKA_NEVER_EXTRACTABLE, CKA_ALWAYS_SENSITIVE, CKA_KEY_GEN_MECHANISM, CKA_MODIFIABLE, CKA_COPYABLE, CKA_DESTROYABLE, CKA_CHECK_VALUE, CKA_ALLOWED_MECHANISMS, CKA_START_DATE, CKA_END_DATE,
		CKA_APPLICATION, CKA_OBJECT_ID, CKA_SUBJECT, CKA_ISSUER, CKA_SERIAL_NUMBER, CKA_CERTIFICATE_TYPE, CKA_TRUSTED, CKA_WRAP_WITH_TRUSTED, CKA_ALWAYS_AUTHENTICATE, CKA_PUBLIC_KEY_INFO,
		CKA_PRIME, CKA_SUBPRIME, CKA_BASE, CKA_PRIME_BITS, CKA_VALUE_BITS };
	const size_t NATTR = sizeof(ATTRS) / sizeof(ATTRS[0]);
	auto wild_entry = [&](FuzzedDataProvider& f) -> json {
		CK_ULONG t = ATTRS[f.ConsumeIntegralInRange<size_t>(0, NATTR - 1)];
		switch (f.ConsumeIntegralInRange<int>(0, 3))
		{
			case 0: return T1(t, "bool", f.ConsumeIntegralInRange<int>(0, 2));
			case 1: return T1(t, "ulong", f.ConsumeBool() ? f.ConsumeIntegralInRange<CK_ULONG>(0, 600) : f.ConsumeIntegral<CK_ULONG>());
			case 2: { json l = json::array(); int n = f.ConsumeIntegralInRange<int>(0, 4); for (int i = 0; i < n; i++) l.push_back(MECHS[f.ConsumeIntegralInRange<size_t>(0, NMECH - 1)].m); return T1(t, "mechs", l); }
			default: return T1(t, "bytes", hexs(fbytes(f, 140)));
		}
	};
	auto secret_tpl = [&](FuzzedDataProvider& f) -> json {
		static const CK_ULONG KT[] = { CKK_AES, CKK_GENERIC_SECRET, CKK_DES3, CKK_DES2, CKK_DES };
		json t = json::array({ T1(CKA_CLASS, "ulong", CKO_SECRET_KEY), T1(CKA_KEY_TYPE, "ulong", KT[f.ConsumeIntegralInRange<int>(0, 4)]), T1(CKA_TOKEN, "bool", f.ConsumeBool()),
			T1(CKA_PRIVATE, "bool", false), T1(CKA_SENSITIVE, "bool", false), T1(CKA_EXTRACTABLE, "bool", true), T1(CKA_ENCRYPT, "bool", true), T1(CKA_DECRYPT, "bool", true),
			T1(CKA_SIGN, "bool", true), T1(CKA_VERIFY, "bool", true), T1(CKA_DERIVE, "bool", true), T1(CKA_WRAP, "bool", true), T1(CKA_UNWRAP, "bool", true) });
		if (f.ConsumeBool()) { static const CK_ULONG VL[] = { 0, 1, 8, 16, 24, 32, 33, 64, 1024, 1UL << 48, ~0UL }; t.push_back(T1(CKA_VALUE_LEN, "ulong", VL[f.ConsumeIntegralInRange<int>(0, 10)])); }
		int n = f.ConsumeIntegralInRange<int>(0, 2);
		for (int i = 0; i < n; i++) t.push_back(wild_entry(f));
		return t;
	};
	int ncalls = f.ConsumeIntegralInRange<int>(1, 24);
	for (int c = 0; c < ncalls && f.remaining_bytes() > 0; c++)
	{
		int op = f.ConsumeIntegralInRange<int>(0, 19);
		CK_ULONG S = pick_sess(f);
		switch (op)
		{
			case 0: case 1: case 2: {        // operation: init + follow-ups
				const MechSpec& ms = MECHS[f.ConsumeIntegralInRange<size_t>(0, NMECH - 1)];
				int kind = f.ConsumeIntegralInRange<int>(0, 6);
				static const char* INIT[] = { "C_EncryptInit", "C_DecryptInit", "C_SignInit", "C_VerifyInit", "C_DigestInit", "C_SignRecoverInit", "C_VerifyRecoverInit" };
				static const char* ONE[] = { "C_Encrypt", "C_Decrypt", "C_Sign", "C_Verify", "C_Digest", "C_SignRecover", "C_VerifyRecover" };
				static const char* UPD[] = { "C_EncryptUpdate", "C_DecryptUpdate", "C_SignUpdate", "C_VerifyUpdate", "C_DigestUpdate", NULL, NULL };
				static const char* FIN[] = { "C_EncryptFinal", "C_DecryptFinal", "C_SignFinal", "C_VerifyFinal", "C_DigestFinal", NULL, NULL };
				bool forward = kind == 0 || kind == 3 || kind == 6;
				json init = { { "fn", INIT[kind] }, { "s", S }, { "mech", mech_json(f, ms) } };
				if (kind != 4) init["key"] = key_for(ms, forward, f);
				json ir = call(init);
				int nf = f.ConsumeIntegralInRange<int>(0, 4);
				for (int k = 0; k < nf; k++)
				{
					int how = f.ConsumeIntegralInRange<int>(0, 3);
					std::string d = (f.ConsumeIntegralInRange<int>(0, 3) == 0 && !last_out.empty()) ? last_out : fbytes(f, 300);
					json rr;
					if (how == 0 || !UPD[kind])
					{
						if (kind == 3) rr = call({ { "fn", "C_Verify" }, { "s", S }, { "data", hexs(d) }, { "sig", hexs(f.ConsumeBool() && !last_out.empty() ? last_out : fbytes(f, 140)) } });
						else rr = call_out({ { "fn", ONE[kind] }, { "s", S }, { "data", hexs(d) } }, outpol(f));
					}
					else if (how == 1 || how == 2)
					{
						if (kind <= 1) rr = call_out({ { "fn", UPD[kind] }, { "s", S }, { "data", hexs(d) } }, outpol(f));
						else rr = call({ { "fn", UPD[kind] }, { "s", S }, { "data", hexs(d) } });
					}
					else
					{
						if (kind == 3) rr = call({ { "fn", "C_VerifyFinal" }, { "s", S }, { "data", hexs(f.ConsumeBool() && !last_out.empty() ? last_out : fbytes(f, 140)) } });
						else rr = call_out({ { "fn", FIN[kind] }, { "s", S } }, outpol(f));
					}
					if (rr.value("rv", (CK_ULONG)1) == CKR_OK) { g_stats[4]++; if (rr.contains("out") && rr["out"].contains("data")) { std::vector<unsigned char> v = unhex(rr["out"]["data"].get<std::string>()); last_out.assign(v.begin(), v.end()); } }
				}
				break; }
			case 3: case 4: {                // create an object from a valid template with fuzzed parts
				json t;
				int cls = f.ConsumeIntegralInRange<int>(0, 4);
				if (cls == 0) t = json::array({ T1(CKA_CLASS, "ulong", CKO_DATA), T1(CKA_TOKEN, "bool", f.ConsumeBool()), T1(CKA_PRIVATE, "bool", f.ConsumeBool()), T1(CKA_VALUE, "bytes", hexs(fbytes(f, 300))) });
				else if (cls == 1) { t = secret_tpl(f); t.push_back(T1(CKA_VALUE, "bytes", hexs(fbytes(f, 70)))); for (size_t i = 0; i < t.size(); i++) if (t[i][0] == CKA_VALUE_LEN) { t.erase(i); break; } }
				else if (cls == 2)               // RSA public key with fuzzed components
					t = json::array({ T1(CKA_CLASS, "ulong", CKO_PUBLIC_KEY), T1(CKA_KEY_TYPE, "ulong", CKK_RSA), T1(CKA_TOKEN, "bool", false), T1(CKA_VERIFY, "bool", true), T1(CKA_ENCRYPT, "bool", true),
						T1(CKA_WRAP, "bool", true), T1(CKA_MODULUS, "bytes", hexs(fbytes(f, 130))), T1(CKA_PUBLIC_EXPONENT, "bytes", hexs(fbytes(f, 8))) });
				else if (cls == 3)               // EC / EdDSA public key with fuzzed params and point
					t = json::array({ T1(CKA_CLASS, "ulong", CKO_PUBLIC_KEY), T1(CKA_KEY_TYPE, "ulong", f.ConsumeBool() ? CKK_EC : CKK_EC_EDWARDS), T1(CKA_TOKEN, "bool", false), T1(CKA_VERIFY, "bool", true),
						T1(CKA_DERIVE, "bool", true), T1(CKA_EC_PARAMS, "bytes", f.ConsumeBool() ? std::string("06082a8648ce3d030107") : hexs(fbytes(f, 20))), T1(CKA_EC_POINT, "bytes", hexs(fbytes(f, 70))) });
				else                             // private keys with fuzzed components
				{
					int w = f.ConsumeIntegralInRange<int>(0, 2);
					t = json::array({ T1(CKA_CLASS, "ulong", CKO_PRIVATE_KEY), T1(CKA_TOKEN, "bool", false), T1(CKA_PRIVATE, "bool", false), T1(CKA_SIGN, "bool", true), T1(CKA_DECRYPT, "bool", true),
						T1(CKA_DERIVE, "bool", true), T1(CKA_UNWRAP, "bool", true), T1(CKA_SENSITIVE, "bool", false), T1(CKA_EXTRACTABLE, "bool", true) });
					if (w == 0) { t.push_back(T1(CKA_KEY_TYPE, "ulong", CKK_RSA)); for (CK_ULONG a : { CKA_MODULUS, CKA_PUBLIC_EXPONENT, CKA_PRIVATE_EXPONENT, CKA_PRIME_1, CKA_PRIME_2, CKA_EXPONENT_1, CKA_EXPONENT_2, CKA_COEFFICIENT }) if (f.ConsumeIntegralInRange<int>(0, 5)) t.push_back(T1(a, "bytes", hexs(fbytes(f, 130)))); }
					else if (w == 1) { t.push_back(T1(CKA_KEY_TYPE, "ulong", f.ConsumeBool() ? CKK_EC : CKK_EC_EDWARDS)); t.push_back(T1(CKA_EC_PARAMS, "bytes", f.ConsumeBool() ? std::string("06082a8648ce3d030107") : hexs(fbytes(f, 20)))); t.push_back(T1(CKA_VALUE, "bytes", hexs(fbytes(f, 70)))); }
					else { t.push_back(T1(CKA_KEY_TYPE, "ulong", f.ConsumeBool() ? CKK_DSA : CKK_DH)); for (CK_ULONG a : { CKA_PRIME, CKA_SUBPRIME, CKA_BASE, CKA_VALUE }) if (f.ConsumeIntegralInRange<int>(0, 5)) t.push_back(T1(a, "bytes", hexs(fbytes(f, 130)))); }
				}
				if (f.ConsumeIntegralInRange<int>(0, 3) == 0) t.push_back(wild_entry(f));
				json rr = call({ { "fn", "C_CreateObject" }, { "s", S }, { "tpl", t } });
				if (rr.value("rv", (CK_ULONG)1) == CKR_OK) { objs.push_back(rr["h"].get<CK_ULONG>()); g_stats[5]++; }
				break; }
			case 5: {                        // read attributes with exactly-sized buffers
				CK_ULONG o = pick_obj(f);
				json attrs = json::array(), types = json::array();
				int n = f.ConsumeIntegralInRange<int>(1, 8);
				for (int i = 0; i < n; i++) { CK_ULONG t = ATTRS[f.ConsumeIntegralInRange<size_t>(0, NATTR - 1)]; types.push_back(t); attrs.push_back(json::array({ t, json() })); }
				json q = call({ { "fn", "C_GetAttributeValue" }, { "s", S }, { "o", o }, { "attrs", attrs } });
				if (q.contains("attrs"))
				{
					json ex = json::array();
					for (size_t i = 0; i < q["attrs"].size() && i < types.size(); i++)
					{
						CK_ULONG ln = q["attrs"][i].value("len", (CK_ULONG)0);
						ex.push_back(json::array({ types[i], (ln != (CK_ULONG)-1 && ln <= 65536) ? json(f.ConsumeIntegralInRange<int>(0, 7) ? ln : (ln ? ln - 1 : 0)) : json() }));
					}
					call({ { "fn", "C_GetAttributeValue" }, { "s", S }, { "o", o }, { "attrs", ex } });
				}
				break; }
			case 6: call({ { "fn", "C_SetAttributeValue" }, { "s", S }, { "o", pick_obj(f) }, { "tpl", json::array({ wild_entry(f) }) } }); break;
			case 7: { json t = json::array(); int n = f.ConsumeIntegralInRange<int>(0, 2); for (int i = 0; i < n; i++) t.push_back(wild_entry(f));
				json rr = call({ { "fn", "C_CopyObject" }, { "s", S }, { "o", pick_obj(f) }, { "tpl", t } }); if (rr.value("rv", (CK_ULONG)1) == CKR_OK) objs.push_back(rr["h"].get<CK_ULONG>()); break; }
			case 8: call({ { "fn", "C_DestroyObject" }, { "s", S }, { "o", pick_obj(f) } }); break;
			case 9: { json t = json::array(); int n = f.ConsumeIntegralInRange<int>(0, 2); for (int i = 0; i < n; i++) t.push_back(wild_entry(f));
				call({ { "fn", "C_FindObjectsInit" }, { "s", S }, { "tpl", t } }); json rr = call({ { "fn", "C_FindObjects" }, { "s", S }, { "max", f.ConsumeIntegralInRange<CK_ULONG>(0, 10) } });
				if (rr.contains("h")) for (auto& h : rr["h"]) if (objs.size() < 40) objs.push_back(h.get<CK_ULONG>());
				if (f.ConsumeBool()) call({ { "fn", "C_FindObjectsFinal" }, { "s", S } }); break; }
			case 10: {                       // wrap, then unwrap the blob (possibly cut / extended / foreign)
				static const size_t WM[] = { 33, 34, 1, 2, 7, 13, 19 };
				const MechSpec& ms = MECHS[WM[f.ConsumeIntegralInRange<int>(0, 6)]];
				json m = mech_json(f, ms);
				json rr = call_out({ { "fn", "C_WrapKey" }, { "s", S }, { "mech", m }, { "wkey", key_for(ms, true, f) }, { "key", pick_obj(f) } }, outpol(f));
				if (rr.value("rv", (CK_ULONG)1) == CKR_OK && rr.contains("out") && rr["out"].contains("data")) { std::vector<unsigned char> v = unhex(rr["out"]["data"].get<std::string>()); last_blob.assign(v.begin(), v.end()); }
				std::string blob = f.ConsumeIntegralInRange<int>(0, 3) ? last_blob : fbytes(f, 300);
				int cut = f.ConsumeIntegralInRange<int>(0, 5);
				if (cut == 1 && !blob.empty()) blob.resize(blob.size() - 1); else if (cut == 2) blob.resize(blob.size() / 2); else if (cut == 3) blob += std::string(8, 0);
				else if (cut == 4 && !blob.empty()) blob[f.ConsumeIntegralInRange<size_t>(0, blob.size() - 1)] ^= 0x40;
				json t = f.ConsumeBool() ? secret_tpl(f) : json::array({ T1(CKA_CLASS, "ulong", CKO_PRIVATE_KEY), T1(CKA_KEY_TYPE, "ulong", f.ConsumeBool() ? CKK_RSA : CKK_EC), T1(CKA_TOKEN, "bool", false),
					T1(CKA_PRIVATE, "bool", false), T1(CKA_SENSITIVE, "bool", false), T1(CKA_EXTRACTABLE, "bool", true) });
				json ur = call({ { "fn", "C_UnwrapKey" }, { "s", S }, { "mech", m }, { "key", key_for(ms, false, f) }, { "data", hexs(blob) }, { "tpl", t } });
				if (ur.value("rv", (CK_ULONG)1) == CKR_OK) objs.push_back(ur["h"].get<CK_ULONG>());
				break; }
			case 11: {                       // derive
				const MechSpec& ms = MECHS[f.ConsumeIntegralInRange<size_t>(26, 32)];
				json rr = call({ { "fn", "C_DeriveKey" }, { "s", S }, { "mech", mech_json(f, ms) }, { "key", key_for(ms, false, f) }, { "tpl", secret_tpl(f) } });
				if (rr.value("rv", (CK_ULONG)1) == CKR_OK) objs.push_back(rr["h"].get<CK_ULONG>());
				break; }
			case 12: { static const CK_ULONG GM[] = { CKM_AES_KEY_GEN, CKM_DES3_KEY_GEN, CKM_GENERIC_SECRET_KEY_GEN, CKM_DES2_KEY_GEN, CKM_DES_KEY_GEN };
				json rr = call({ { "fn", "C_GenerateKey" }, { "s", S }, { "mech", { { "m", GM[f.ConsumeIntegralInRange<int>(0, 4)] } } }, { "tpl", secret_tpl(f) } });
				if (rr.value("rv", (CK_ULONG)1) == CKR_OK) objs.push_back(rr["h"].get<CK_ULONG>()); break; }
			case 13: {                       // key pair generation with small / wild sizes and fuzzed domain parameters
				int w = f.ConsumeIntegralInRange<int>(0, 2);
				json pub = json::array({ T1(CKA_TOKEN, "bool", false), T1(CKA_VERIFY, "bool", true) }), prv = json::array({ T1(CKA_TOKEN, "bool", false), T1(CKA_PRIVATE, "bool", false), T1(CKA_SIGN, "bool", true) });
				CK_ULONG m;
				if (w == 0) { m = CKM_RSA_PKCS_KEY_PAIR_GEN; static const CK_ULONG B[] = { 0, 8, 256, 511, 512, 513, 1024, 1UL << 48 }; pub.push_back(T1(CKA_MODULUS_BITS, "ulong", B[f.ConsumeIntegralInRange<int>(0, 7)]));
					pub.push_back(T1(CKA_PUBLIC_EXPONENT, "bytes", f.ConsumeBool() ? std::string("010001") : hexs(fbytes(f, 9)))); }
				else if (w == 1) { m = f.ConsumeBool() ? CKM_EC_KEY_PAIR_GEN : CKM_EC_EDWARDS_KEY_PAIR_GEN; pub.push_back(T1(CKA_EC_PARAMS, "bytes", f.ConsumeBool() ? std::string(f.ConsumeBool() ? "06082a8648ce3d030107" : "06032b6570") : hexs(fbytes(f, 20)))); }
				else { m = f.ConsumeBool() ? CKM_DSA_KEY_PAIR_GEN : CKM_DH_PKCS_KEY_PAIR_GEN; pub.push_back(T1(CKA_PRIME, "bytes", hexs(fbytes(f, 70)))); pub.push_back(T1(CKA_BASE, "bytes", hexs(fbytes(f, 70))));
					if (m == CKM_DSA_KEY_PAIR_GEN) pub.push_back(T1(CKA_SUBPRIME, "bytes", hexs(fbytes(f, 21)))); }
				if (f.ConsumeIntegralInRange<int>(0, 2) == 0) pub.push_back(wild_entry(f));
				if (f.ConsumeIntegralInRange<int>(0, 2) == 0) prv.push_back(wild_entry(f));
				json rr = call({ { "fn", "C_GenerateKeyPair" }, { "s", S }, { "mech", { { "m", m } } }, { "pub", pub }, { "prv", prv } });
				if (rr.value("rv", (CK_ULONG)1) == CKR_OK) { objs.push_back(rr["hpub"].get<CK_ULONG>()); objs.push_back(rr["hprv"].get<CK_ULONG>()); }
				break; }
			case 14: { json rr = call({ { "fn", "C_OpenSession" }, { "slot", f.ConsumeIntegralInRange<int>(0, 7) ? g_slot : f.ConsumeIntegral<CK_ULONG>() }, { "flags", f.ConsumeIntegralInRange<CK_ULONG>(0, 7) } });
				if (rr.value("rv", (CK_ULONG)1) == CKR_OK && sess.size() < 8) sess.push_back(rr["h"].get<CK_ULONG>()); break; }
			case 15: if (sess.size() > 1 && f.ConsumeBool()) { call({ { "fn", "C_CloseSession" }, { "s", sess.back() } }); sess.pop_back(); } else call({ { "fn", "C_GetSessionInfo" }, { "s", S } }); break;
			case 16: { int w = f.ConsumeIntegralInRange<int>(0, 3);
				if (w == 0) call({ { "fn", "C_Logout" }, { "s", S } });
				else if (w == 1) call({ { "fn", "C_Login" }, { "s", S }, { "user", f.ConsumeIntegralInRange<CK_ULONG>(0, 3) }, { "pin", hexs(f.ConsumeBool() ? std::string(PIN) : f.ConsumeBool() ? std::string(SOPIN) : fbytes(f, 40)) } });
				else if (w == 2) call({ { "fn", "C_SetPIN" }, { "s", S }, { "old", hexs(f.ConsumeBool() ? std::string(PIN) : fbytes(f, 40)) }, { "new", hexs(f.ConsumeBool() ? std::string(PIN) : fbytes(f, 300)) } });
				else call({ { "fn", "C_InitPIN" }, { "s", S }, { "pin", hexs(fbytes(f, 300)) } });
				break; }
			case 17: call_out({ { "fn", "C_GetOperationState" }, { "s", S } }, outpol(f)); call({ { "fn", "C_SetOperationState" }, { "s", S }, { "data", hexs(fbytes(f, 64)) }, { "ekey", pick_obj(f) }, { "akey", pick_obj(f) } }); break;
			case 18: call({ { "fn", "C_GenerateRandom" }, { "s", S }, { "out", f.ConsumeIntegralInRange<int>(0, 300) } }); call({ { "fn", "C_SeedRandom" }, { "s", S }, { "data", hexs(fbytes(f, 64)) } });
				call({ { "fn", "C_DigestKey" }, { "s", S }, { "key", pick_obj(f) } }); break;
			default: { int w = f.ConsumeIntegralInRange<int>(0, 6);
				if (w == 0) call({ { "fn", "C_GetTokenInfo" }, { "slot", f.ConsumeBool() ? g_slot : f.ConsumeIntegral<CK_ULONG>() } });
				else if (w == 1) call({ { "fn", "C_GetMechanismInfo" }, { "slot", g_slot }, { "m", f.ConsumeBool() ? MECHS[f.ConsumeIntegralInRange<size_t>(0, NMECH - 1)].m : f.ConsumeIntegral<CK_ULONG>() } });
				else if (w == 2) call({ { "fn", "C_GetMechanismList" }, { "slot", g_slot }, { "count", f.ConsumeIntegralInRange<CK_ULONG>(0, 100) } });
				else if (w == 3) call({ { "fn", "C_GetObjectSize" }, { "s", S }, { "o", pick_obj(f) } });
				else if (w == 4) call({ { "fn", "C_CloseAllSessions" }, { "slot", g_slot } });
				else if (w == 5) { std::string lab = fbytes(f, 32); lab.resize(32, ' '); call({ { "fn", "C_InitToken" }, { "slot", f.ConsumeBool() ? g_slot : g_slot + 1 }, { "pin", hexs(f.ConsumeBool() ? std::string(SOPIN) : fbytes(f, 40)) }, { "label", hexs(lab) } }); }
				else call({ { "fn", "C_GetSlotList" }, { "present", f.ConsumeBool() } });
				break; }
		}
	}
	return 0;
}
