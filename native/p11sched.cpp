// p11sched - C18 executor: the p11worker handlers driven by N threads of ONE process (DESIGN.md 2/C18).
//
// controlled mode: C_Initialize gets application mutex callbacks (CreateMutex/DestroyMutex/LockMutex/UnlockMutex). Exactly
//   one worker thread runs at any time (a baton); at every LockMutex / UnlockMutex callback and between calls the running
//   thread asks the schedule (a list of integers from the generator, used cyclically) who runs next.  A mutex that is taken makes the
//   thread "blocked" - it is never slept on - so a deadlock is detected exactly (nobody runnable), not by a timeout.
// free mode: CKF_OS_LOCKING_OK, the threads run freely (races inside code that takes no library mutex are reached only here).
//
// One job per input line:
//   {"mode":"controlled"|"free","setup":[cmd..],"threads":[[cmd..],..],"schedule":[int..],"teardown":[cmd..]}
// cmd = a p11worker command; a field value {"$":"name"} is replaced by the variable `name`; "save":"name" stores the
// response's handle ("h"); "save_pub"/"save_prv" store the pair handles.  Each thread starts with a copy of the variables
// the setup phase defined.  Every result carries t0/t1 = scheduler step (controlled) or global event counter (free) at
// invocation and at response.
#define P11WORKER_NO_MAIN
#include "p11worker.cpp"

#include <pthread.h>
#include <atomic>

struct SMutex { int owner; int id; };

struct Th
{
	int id;
	std::vector<json> prog;
	json results = json::array();
	std::map<std::string, json> vars;
	bool done = false;
	SMutex* blocked_on = NULL;
	pthread_cond_t cv;
	pthread_t tid;
};

static pthread_mutex_t G = PTHREAD_MUTEX_INITIALIZER;
static pthread_cond_t cv_main = PTHREAD_COND_INITIALIZER;
static std::vector<Th*> T;
static int current = -1;
static std::vector<long> schedule;
static size_t spos = 0;
static long steps = 0, switches = 0, switches_in_call = 0, lock_calls = 0, blocked_events = 0;
static std::atomic<long> evcount(0);
static bool controlled = false;
static bool all_done = false;
static std::string deadlock;
static int nmutex = 0;
static thread_local int tl_id = -1;
static thread_local bool tl_in_call = false;

static void finish_job_and_exit(const json& setup_res);
static json g_setup_res = json::array();

static std::vector<int> runnable()
{
	std::vector<int> r;
	for (size_t i = 0; i < T.size(); i++) if (!T[i]->done && T[i]->blocked_on == NULL) r.push_back((int)i);
	return r;
}

static void report_deadlock()
{
	std::string s = "no runnable thread:";
	for (size_t i = 0; i < T.size(); i++)
	{
		if (T[i]->done) continue;
		s += " t" + std::to_string(i) + " waits for mutex " + std::to_string(T[i]->blocked_on ? T[i]->blocked_on->id : -1) + " held by t" +
			std::to_string(T[i]->blocked_on ? T[i]->blocked_on->owner : -1) + ";";
	}
	deadlock = s;
	finish_job_and_exit(g_setup_res);
}

// G held. Hand the baton to `next` and wait until it comes back.
static void switch_to(int self, int next)
{
	if (next == self) return;
	switches++;
	if (tl_in_call) switches_in_call++;
	current = next;
	pthread_cond_signal(&T[next]->cv);
	while (current != self) pthread_cond_wait(&T[self]->cv, &G);
}

// G held. A scheduling decision.
static void sched_point(int self)
{
	steps++;
	std::vector<int> r = runnable();
	if (r.empty()) return;
	int next = self;
	if (!schedule.empty())
	{
		long d = schedule[spos++ % schedule.size()];
		// 99 = "stay" (long runs of one thread with few switches); anything else picks among the runnable threads
		if (d != 99) next = r[(size_t)(d < 0 ? -d : d) % r.size()];
	}
	switch_to(self, next);
}

static CK_RV cb_create(CK_VOID_PTR_PTR pp)
{
	SMutex* m = new SMutex();
	m->owner = -1;
	pthread_mutex_lock(&G); m->id = nmutex++; pthread_mutex_unlock(&G);
	*pp = m;
	return CKR_OK;
}

static CK_RV cb_destroy(CK_VOID_PTR p)
{
	delete (SMutex*)p;
	return CKR_OK;
}

static CK_RV cb_lock(CK_VOID_PTR p)
{
	SMutex* m = (SMutex*)p;
	int self = tl_id;
	pthread_mutex_lock(&G);
	lock_calls++;
	if (self < 0)
	{
		// main thread (setup / teardown): nobody else runs
		m->owner = -2;
		pthread_mutex_unlock(&G);
		return CKR_OK;
	}
	sched_point(self);
	while (m->owner != -1)
	{
		if (m->owner == self)
		{
			deadlock = "t" + std::to_string(self) + " locks mutex " + std::to_string(m->id) + " which it already holds";
			finish_job_and_exit(g_setup_res);
		}
		blocked_events++;
		T[self]->blocked_on = m;
		std::vector<int> r = runnable();
		if (r.empty()) report_deadlock();
		int next = r[0];
		if (!schedule.empty()) { long d = schedule[spos++ % schedule.size()]; next = r[(size_t)(d < 0 ? -d : d) % r.size()]; }
		steps++;
		switch_to(self, next);
	}
	m->owner = self;
	pthread_mutex_unlock(&G);
	return CKR_OK;
}

static CK_RV cb_unlock(CK_VOID_PTR p)
{
	SMutex* m = (SMutex*)p;
	int self = tl_id;
	pthread_mutex_lock(&G);
	m->owner = -1;
	for (size_t i = 0; i < T.size(); i++) if (T[i]->blocked_on == m) T[i]->blocked_on = NULL;
	if (self >= 0) sched_point(self);
	pthread_mutex_unlock(&G);
	return CKR_OK;
}

static json subst(const json& cmd, std::map<std::string, json>& vars)
{
	json c = cmd;
	for (auto it = c.begin(); it != c.end(); ++it)
	{
		if (it.value().is_object() && it.value().size() == 1 && it.value().contains("$"))
		{
			std::string n = it.value()["$"].get<std::string>();
			it.value() = vars.count(n) ? vars[n] : json(0);
		}
		else if (it.key() == "objects" && it.value().is_array())
		{
			for (auto& e : it.value()) for (auto& x : e) if (x.is_object() && x.contains("$")) { std::string n = x["$"].get<std::string>(); x = vars.count(n) ? vars[n] : json(0); }
		}
	}
	return c;
}

static json run_cmd(const json& cmd0, std::map<std::string, json>& vars)
{
	json cmd = subst(cmd0, vars);
	std::string fn = cmd.value("fn", std::string());
	json r;
	if (fn == "init_callbacks")
	{
		CK_C_INITIALIZE_ARGS a; memset(&a, 0, sizeof(a));
		a.CreateMutex = cb_create; a.DestroyMutex = cb_destroy; a.LockMutex = cb_lock; a.UnlockMutex = cb_unlock;
		a.flags = cmd.value("flags", (CK_ULONG)0);
		CK_RV rv = C_Initialize(&a);
		r["rv"] = rv;
		return r;
	}
	auto it = H.find(fn);
	if (it == H.end()) { r["error"] = "unknown fn " + fn; return r; }
	try { r = it->second(cmd); }
	catch (const std::exception& e) { r = json(); r["error"] = std::string("harness: ") + e.what(); }
	if (cmd.contains("save") && r.contains("h")) vars[cmd["save"].get<std::string>()] = r["h"];
	if (cmd.contains("save_first") && r.contains("h") && r["h"].is_array() && !r["h"].empty()) vars[cmd["save_first"].get<std::string>()] = r["h"][0];
	if (cmd.contains("save_pub") && r.contains("hpub")) vars[cmd["save_pub"].get<std::string>()] = r["hpub"];
	if (cmd.contains("save_prv") && r.contains("hprv")) vars[cmd["save_prv"].get<std::string>()] = r["hprv"];
	return r;
}

static void* thread_main(void* arg)
{
	Th* t = (Th*)arg;
	tl_id = t->id;
	if (controlled)
	{
		pthread_mutex_lock(&G);
		while (current != t->id) pthread_cond_wait(&t->cv, &G);
		pthread_mutex_unlock(&G);
	}
	for (size_t i = 0; i < t->prog.size(); i++)
	{
		long t0, t1;
		if (controlled)
		{
			pthread_mutex_lock(&G);
			sched_point(t->id);          // between calls
			t0 = steps;
			pthread_mutex_unlock(&G);
		}
		else t0 = ++evcount;
		tl_in_call = true;
		json r = run_cmd(t->prog[i], t->vars);
		tl_in_call = false;
		if (controlled) { pthread_mutex_lock(&G); t1 = steps; pthread_mutex_unlock(&G); }
		else t1 = ++evcount;
		r["t0"] = t0; r["t1"] = t1;
		t->results.push_back(r);
	}
	if (controlled)
	{
		pthread_mutex_lock(&G);
		t->done = true;
		std::vector<int> r = runnable();
		bool alld = true;
		for (size_t i = 0; i < T.size(); i++) if (!T[i]->done) alld = false;
		if (alld) { all_done = true; current = -1; pthread_cond_signal(&cv_main); }
		else if (r.empty()) report_deadlock();
		else
		{
			int next = r[0];
			if (!schedule.empty()) { long d = schedule[spos++ % schedule.size()]; next = r[(size_t)(d < 0 ? -d : d) % r.size()]; }
			current = next;
			pthread_cond_signal(&T[next]->cv);
		}
		pthread_mutex_unlock(&G);
	}
	return NULL;
}

static FILE* g_out = NULL;
static json g_job_out;

static void emit(const json& j)
{
	std::string s = j.dump();
	fputs(s.c_str(), g_out);
	fputc('\n', g_out);
	fflush(g_out);
}

// called with G held from a worker thread when the run cannot continue (deadlock): report what we have and leave
static void finish_job_and_exit(const json& setup_res)
{
	json o;
	o["deadlock"] = deadlock;
	o["setup"] = setup_res;
	o["threads"] = json::array();
	for (size_t i = 0; i < T.size(); i++) o["threads"].push_back(T[i]->results);
	o["steps"] = steps; o["switches"] = switches; o["switches_in_call"] = switches_in_call; o["lock_calls"] = lock_calls; o["blocked_events"] = blocked_events;
	emit(o);
	_exit(0);
}

int main(int, char**)
{
	signal(SIGXFSZ, SIG_IGN);
	register_handlers();
	int outfd = dup(1);
	g_out = fdopen(outfd, "w");
	shim_set_report_fd(outfd);
	std::string line;
	while (std::getline(std::cin, line))
	{
		if (line.empty()) continue;
		json job = json::parse(line);
		if (job.value("fn", std::string()) == "quit") break;
		controlled = job.value("mode", std::string("controlled")) == "controlled";
		schedule.clear(); spos = 0; steps = 0; switches = 0; switches_in_call = 0; lock_calls = 0; blocked_events = 0; all_done = false; deadlock.clear();
		evcount = 0;
		if (job.contains("schedule")) for (const json& d : job["schedule"]) schedule.push_back(d.get<long>());
		std::map<std::string, json> gvars;
		g_setup_res = json::array();
		for (const json& c : job["setup"]) g_setup_res.push_back(run_cmd(c, gvars));
		for (Th* t : T) delete t;
		T.clear();
		for (size_t i = 0; i < job["threads"].size(); i++)
		{
			Th* t = new Th();
			t->id = (int)i;
			for (const json& c : job["threads"][i]) t->prog.push_back(c);
			t->vars = gvars;
			pthread_cond_init(&t->cv, NULL);
			T.push_back(t);
		}
		for (Th* t : T) pthread_create(&t->tid, NULL, thread_main, t);
		if (controlled && !T.empty())
		{
			pthread_mutex_lock(&G);
			std::vector<int> r = runnable();
			int first = r[0];
			if (!schedule.empty()) { long d = schedule[spos++ % schedule.size()]; first = r[(size_t)(d < 0 ? -d : d) % r.size()]; }
			current = first;
			pthread_cond_signal(&T[first]->cv);
			while (!all_done) pthread_cond_wait(&cv_main, &G);
			pthread_mutex_unlock(&G);
		}
		for (Th* t : T) pthread_join(t->tid, NULL);
		json o;
		o["deadlock"] = nullptr;
		o["setup"] = g_setup_res;
		o["threads"] = json::array();
		for (Th* t : T) o["threads"].push_back(t->results);
		o["teardown"] = json::array();
		if (job.contains("teardown")) for (const json& c : job["teardown"]) o["teardown"].push_back(run_cmd(c, gvars));
		o["steps"] = steps; o["switches"] = switches; o["switches_in_call"] = switches_in_call; o["lock_calls"] = lock_calls; o["blocked_events"] = blocked_events;
		emit(o);
	}
	return 0;
}
