// fuzz_store - libFuzzer target for C17: arbitrary bytes in the files of a token directory (file backend).
//
// input  = [selector byte][file content...]; selector picks which file of a pristine token directory (copied from the
//          golden fixture named by $C17_FIXTURE_DIR) is replaced by the content: an object file or token.object.
// oracle = the process survives a fixed exercise (initialize, list, login, read every attribute of every object, use every
//          key, write, finalize) and a second initialize/finalize; ASan/UBSan are on; exit()/abort() inside the library end
//          the process and libFuzzer reports that as a crash.
// state  = C_Finalize + directory restored at the top of every iteration.
#include <dirent.h>
#include <stdint.h>
#include <stdio.h>
#include <stdlib.h>
#include <string.h>
#include <sys/stat.h>
#include <unistd.h>

#include <map>
#include <string>
#include <vector>

#include "cryptoki.h"

static std::map<std::string, std::string> g_files;   // pristine token directory: name -> content
static std::vector<std::string> g_objects;            // names of object files
static std::string g_root, g_tokdir, g_name, g_userpin;
static bool g_init = false;
static unsigned long g_stats[8];                       // 0 execs, 1 initialize ok, 2 token listed, 3 login ok, 4 objects read, 5 key uses ok

static std::string slurp(const std::string& p)
{
	std::string s;
	FILE* f = fopen(p.c_str(), "rb");
	if (!f) return s;
	char buf[65536];
	size_t n;
	while ((n = fread(buf, 1, sizeof(buf), f)) > 0) s.append(buf, n);
	fclose(f);
	return s;
}

static void spit(const std::string& p, const std::string& s)
{
	FILE* f = fopen(p.c_str(), "wb");
	if (!f) return;
	if (!s.empty()) fwrite(s.data(), 1, s.size(), f);
	fclose(f);
}

static void dump_stats()
{
	const char* dir = getenv("C17_STATS_DIR");
	if (!dir) return;
	char p[4096];
	snprintf(p, sizeof(p), "%s/store.%d.json", dir, (int)getpid());
	FILE* f = fopen(p, "w");
	if (!f) return;
	fprintf(f, "{\"execs\":%lu,\"initialize_ok\":%lu,\"token_listed\":%lu,\"login_ok\":%lu,\"objects_read\":%lu,\"key_uses_ok\":%lu}\n", g_stats[0], g_stats[1],
		g_stats[2], g_stats[3], g_stats[4], g_stats[5]);
	fclose(f);
}

static void setup()
{
	const char* fx = getenv("C17_FIXTURE_DIR");
	const char* pin = getenv("C17_USER_PIN");
	if (!fx || !pin) { fprintf(stderr, "fuzz_store: C17_FIXTURE_DIR / C17_USER_PIN not set\n"); _exit(3); }
	g_userpin = pin;
	std::string src = fx;
	while (!src.empty() && src[src.size() - 1] == '/') src.erase(src.size() - 1);
	g_name = src.substr(src.find_last_of('/') + 1);
	DIR* d = opendir(src.c_str());
	if (!d) { fprintf(stderr, "fuzz_store: cannot open %s\n", src.c_str()); _exit(3); }
	struct dirent* e;
	while ((e = readdir(d)) != NULL)
	{
		std::string n = e->d_name;
		if (n == "." || n == "..") continue;
		g_files[n] = slurp(src + "/" + n);
		if (n.size() > 7 && n.substr(n.size() - 7) == ".object" && n != "token.object") g_objects.push_back(n);
	}
	closedir(d);
	char tmpl[] = "/dev/shm/fuzz_store.XXXXXX";
	if (!mkdtemp(tmpl)) { perror("mkdtemp"); _exit(3); }
	g_root = tmpl;
	g_tokdir = g_root + "/tokens";
	mkdir(g_tokdir.c_str(), 0700);
	mkdir((g_tokdir + "/" + g_name).c_str(), 0700);
	std::string conf = g_root + "/softhsm2.conf";
	spit(conf, "directories.tokendir = " + g_tokdir + "\nobjectstore.backend = file\nlog.level = ERROR\nslots.removable = false\nslots.mechanisms = ALL\nlibrary.reset_on_fork = false\n");
	setenv("SOFTHSM2_CONF", conf.c_str(), 1);
	atexit(dump_stats);
}

static void restore()
{
	std::string dir = g_tokdir + "/" + g_name;
	DIR* d = opendir(dir.c_str());
	if (d)
	{
		struct dirent* e;
		while ((e = readdir(d)) != NULL)
		{
			std::string n = e->d_name;
			if (n == "." || n == "..") continue;
			unlink((dir + "/" + n).c_str());
		}
		closedir(d);
	}
	// only the token object; the iteration adds the one or two object files it is about (keeps the exercise short)
	spit(dir + "/token.object", g_files["token.object"]);
}

static const CK_ATTRIBUTE_TYPE ATTRS[] = { CKA_CLASS, CKA_TOKEN, CKA_PRIVATE, CKA_LABEL, CKA_APPLICATION, CKA_VALUE, CKA_OBJECT_ID, CKA_CERTIFICATE_TYPE, CKA_ISSUER,
	CKA_SERIAL_NUMBER, CKA_KEY_TYPE, CKA_SUBJECT, CKA_ID, CKA_SENSITIVE, CKA_ENCRYPT, CKA_DECRYPT, CKA_WRAP, CKA_UNWRAP, CKA_SIGN, CKA_VERIFY, CKA_DERIVE, CKA_START_DATE,
	CKA_END_DATE, CKA_MODULUS, CKA_MODULUS_BITS, CKA_PUBLIC_EXPONENT, CKA_PRIVATE_EXPONENT, CKA_PRIME_1, CKA_PRIME_2, CKA_EXPONENT_1, CKA_EXPONENT_2, CKA_COEFFICIENT,
	CKA_PRIME, CKA_SUBPRIME, CKA_BASE, CKA_PRIME_BITS, CKA_VALUE_BITS, CKA_VALUE_LEN, CKA_EXTRACTABLE, CKA_LOCAL, CKA_NEVER_EXTRACTABLE, CKA_ALWAYS_SENSITIVE,
	CKA_KEY_GEN_MECHANISM, CKA_MODIFIABLE, CKA_COPYABLE, CKA_DESTROYABLE, CKA_EC_PARAMS, CKA_EC_POINT, CKA_ALWAYS_AUTHENTICATE, CKA_WRAP_WITH_TRUSTED, CKA_CHECK_VALUE,
	CKA_ALLOWED_MECHANISMS, CKA_PUBLIC_KEY_INFO, CKA_TRUSTED, CKA_CERTIFICATE_CATEGORY, CKA_URL };

static void use_key(CK_SESSION_HANDLE s, CK_OBJECT_HANDLE h)
{
	unsigned char in[256], out[4096], iv[16];
	memset(in, 0x11, sizeof(in));
	memset(iv, 0, sizeof(iv));
	CK_ULONG n;
	struct { CK_MECHANISM_TYPE m; void* p; CK_ULONG pl; CK_ULONG inlen; } enc[] = { { CKM_AES_ECB, NULL, 0, 16 }, { CKM_AES_CBC_PAD, iv, 16, 5 }, { CKM_DES3_ECB, NULL, 0, 8 },
		{ CKM_DES_ECB, NULL, 0, 8 }, { CKM_RSA_PKCS, NULL, 0, 20 }, { CKM_RSA_X_509, NULL, 0, 64 } };
	for (size_t i = 0; i < sizeof(enc) / sizeof(enc[0]); i++)
	{
		CK_MECHANISM m = { enc[i].m, enc[i].p, enc[i].pl };
		if (C_EncryptInit(s, &m, h) == CKR_OK) { n = sizeof(out); if (C_Encrypt(s, in, enc[i].inlen, out, &n) == CKR_OK) g_stats[5]++; }
		if (C_DecryptInit(s, &m, h) == CKR_OK) { n = sizeof(out); if (C_Decrypt(s, in, 128, out, &n) == CKR_OK) g_stats[5]++; }
	}
	CK_MECHANISM_TYPE sg[] = { CKM_SHA256_HMAC, CKM_AES_CMAC, CKM_SHA256_RSA_PKCS, CKM_RSA_PKCS, CKM_ECDSA, CKM_EDDSA, CKM_DSA_SHA1, CKM_DSA };
	for (size_t i = 0; i < sizeof(sg) / sizeof(sg[0]); i++)
	{
		CK_MECHANISM m = { sg[i], NULL, 0 };
		if (C_SignInit(s, &m, h) == CKR_OK) { n = sizeof(out); if (C_Sign(s, in, 20, out, &n) == CKR_OK) g_stats[5]++; }
		if (C_VerifyInit(s, &m, h) == CKR_OK) { C_Verify(s, in, 20, in, 64); }
	}
	// derive
	CK_OBJECT_CLASS cls = CKO_SECRET_KEY; CK_KEY_TYPE kt = CKK_GENERIC_SECRET; CK_BBOOL f = CK_FALSE; CK_ULONG vl = 16;
	CK_ATTRIBUTE t[] = { { CKA_CLASS, &cls, sizeof(cls) }, { CKA_KEY_TYPE, &kt, sizeof(kt) }, { CKA_TOKEN, &f, 1 }, { CKA_VALUE_LEN, &vl, sizeof(vl) } };
	CK_OBJECT_HANDLE nh;
	unsigned char pub[128]; memset(pub, 2, sizeof(pub));
	CK_MECHANISM dh = { CKM_DH_PKCS_DERIVE, pub, sizeof(pub) };
	C_DeriveKey(s, &dh, h, t, 4, &nh);
	unsigned char pt[65]; memset(pt, 0x11, sizeof(pt)); pt[0] = 4;
	CK_ECDH1_DERIVE_PARAMS ep = { CKD_NULL, 0, NULL, sizeof(pt), pt };
	CK_MECHANISM ec = { CKM_ECDH1_DERIVE, &ep, sizeof(ep) };
	C_DeriveKey(s, &ec, h, t, 4, &nh);
	// wrap with / under itself
	CK_MECHANISM wm = { CKM_AES_KEY_WRAP_PAD, NULL, 0 };
	n = sizeof(out); C_WrapKey(s, &wm, h, h, out, &n);
	CK_BBOOL tr = CK_FALSE;
	CK_ATTRIBUTE ct[] = { { CKA_TOKEN, &tr, 1 } };
	if (C_CopyObject(s, h, ct, 1, &nh) == CKR_OK) C_DestroyObject(s, nh);
	char lab[] = "touched";
	CK_ATTRIBUTE st[] = { { CKA_LABEL, lab, 7 } };
	C_SetAttributeValue(s, h, st, 1);
}

static void exercise()
{
	CK_C_INITIALIZE_ARGS args; memset(&args, 0, sizeof(args)); args.flags = CKF_OS_LOCKING_OK;
	if (C_Initialize(&args) != CKR_OK) return;
	g_init = true;
	g_stats[1]++;
	CK_SLOT_ID slots[16]; CK_ULONG ns = 16;
	if (C_GetSlotList(CK_TRUE, slots, &ns) != CKR_OK) ns = 0;
	for (CK_ULONG i = 0; i < ns; i++)
	{
		CK_TOKEN_INFO ti; CK_SLOT_INFO si; CK_MECHANISM_TYPE ml[256]; CK_ULONG nm = 256;
		C_GetSlotInfo(slots[i], &si);
		C_GetMechanismList(slots[i], ml, &nm);
		if (C_GetTokenInfo(slots[i], &ti) != CKR_OK || !(ti.flags & CKF_TOKEN_INITIALIZED)) continue;
		g_stats[2]++;
		CK_SESSION_HANDLE s;
		if (C_OpenSession(slots[i], CKF_SERIAL_SESSION | CKF_RW_SESSION, NULL, NULL, &s) != CKR_OK) continue;
		if (C_Login(s, CKU_USER, (CK_UTF8CHAR_PTR)g_userpin.data(), g_userpin.size()) == CKR_OK) g_stats[3]++;
		CK_OBJECT_HANDLE hs[64]; CK_ULONG nh = 0;
		if (C_FindObjectsInit(s, NULL, 0) == CKR_OK) { if (C_FindObjects(s, hs, 64, &nh) != CKR_OK) nh = 0; C_FindObjectsFinal(s); }
		for (CK_ULONG k = 0; k < nh; k++)
		{
			CK_ULONG sz; C_GetObjectSize(s, hs[k], &sz);
			const size_t NA = sizeof(ATTRS) / sizeof(ATTRS[0]);
			CK_ATTRIBUTE q[NA];
			for (size_t a = 0; a < NA; a++) { q[a].type = ATTRS[a]; q[a].pValue = NULL; q[a].ulValueLen = 0; }
			C_GetAttributeValue(s, hs[k], q, NA);
			std::vector<std::vector<unsigned char> > bufs(NA);
			for (size_t a = 0; a < NA; a++)
			{
				if (q[a].ulValueLen == (CK_ULONG)-1 || q[a].ulValueLen > (1u << 20)) { q[a].pValue = NULL; q[a].ulValueLen = 0; continue; }
				bufs[a].resize(q[a].ulValueLen);   // exact size: ASan sees any overrun
				q[a].pValue = bufs[a].empty() ? NULL : &bufs[a][0];
			}
			C_GetAttributeValue(s, hs[k], q, NA);
			g_stats[4]++;
			use_key(s, hs[k]);
		}
		CK_OBJECT_CLASS dc = CKO_DATA; CK_BBOOL t = CK_TRUE, f = CK_FALSE; char v[] = "new";
		CK_ATTRIBUTE ct[] = { { CKA_CLASS, &dc, sizeof(dc) }, { CKA_TOKEN, &t, 1 }, { CKA_PRIVATE, &f, 1 }, { CKA_VALUE, v, 3 } };
		CK_OBJECT_HANDLE nhd;
		C_CreateObject(s, ct, 4, &nhd);
		if (nh) C_DestroyObject(s, hs[0]);
		C_Logout(s);
		C_CloseSession(s);
	}
	C_Finalize(NULL);
	g_init = false;
}

extern "C" int LLVMFuzzerTestOneInput(const uint8_t* data, size_t size)
{
	static bool once = false;
	if (!once) { setup(); once = true; }
	if (g_init) { C_Finalize(NULL); g_init = false; }
	restore();
	g_stats[0]++;
	if (size < 1) return 0;
	unsigned sel = data[0];
	std::string content((const char*)data + 1, size - 1);
	std::string dir = g_tokdir + "/" + g_name;
	if ((sel & 3) == 3 || g_objects.empty())
	{
		spit(dir + "/token.object", content);
		for (size_t i = 0; i < g_objects.size() && i < 2; i++) spit(dir + "/" + g_objects[i], g_files[g_objects[i]]);
	}
	else spit(dir + "/" + g_objects[(sel >> 2) % g_objects.size()], content);
	exercise();
	// "leaves its state such that a later call crashes": once more on whatever the exercise left on disk
	CK_C_INITIALIZE_ARGS args; memset(&args, 0, sizeof(args)); args.flags = CKF_OS_LOCKING_OK;
	if (C_Initialize(&args) == CKR_OK) C_Finalize(NULL);
	return 0;
}
