// fs_shim — link-time (-Wl,--wrap) observation / fault / crash-snapshot / stepping layer (DESIGN.md 1.4)
#ifndef VERIF_FS_SHIM_H
#define VERIF_FS_SHIM_H
#include <string>

void shim_enter_call();
void shim_leave_call();
void shim_set_report_fd(int fd);
// mode: off | trace | fault | snapshot | step
void shim_configure(const char* mode, long k, const char* kind, bool sticky, const char* dir, const char* snapdir, const char* filter);
long shim_op_count();
long shim_snap_count();
bool shim_fault_fired();
std::string shim_trace_json();

#endif
