def chk(pid, category, text, note, technique, design_ref):
    return {"property_id": pid, "quick_cmd": "./vcheck %s quick" % pid, "thorough_cmd": "./vcheck %s thorough" % pid,
            "evidence_file": "evidence/%s.json" % pid, "replay_cmd_template": "./vcheck replay %s {path}" % pid,
            "engine": "hypothesis+p11worker",
            "level_claimed": {"category": category, "text": text, "design_ref": design_ref},
            "level_note": note, "technique": technique}

CHECKS = [
    chk("C01", "exploration",
        "An exhaustive access matrix (5 session states x 12 object classes x token/session x {live handle used through the other token, stale handle after logout} x 17 entry points accepting an object handle) plus thousands of Hypothesis-generated histories over two tokens with same-token and cross-token probes; after every login-state change the complete object view of the sessions is compared with a reference model; creations are judged by their read-back effect. Held on everything explored; the matrix is enumerated completely.",
        "API-level judgement only: denials that also follow from the missing token key (defence in depth inside single entry points) cannot be separated from the access rule; trusts the reference model in py/vlib/objworld.py.",
        "model-based stateful PBT (Hypothesis) + exhaustive access-matrix enumeration", "DESIGN.md 2/C01"),
    chk("C04", "exploration",
        "Generated histories of C_SetPIN / C_InitPIN / C_InitToken / C_Login with PINs drawn from all byte strings of length 0..258 and 13 near-miss variants of the current PINs, interleaved with re-initialisations and process restarts; login must succeed IFF the PIN equals the model's; after every step both roles, former PINs, the private object and the other token are re-verified.",
        "Wrong-PIN acceptance with probability 2^-32 (blob magic check) is ignored; file backend.",
        "model-based stateful PBT (Hypothesis) with near-miss input construction and restart injection", "DESIGN.md 2/C04"),
    chk("C07", "exploration",
        "The complete table operation x key x usage flag x mechanism x CKA_ALLOWED_MECHANISMS x slots.mechanisms (52k cells, 5 configurations built from two complementary partitions of the mechanism list) is enumerated against the real library with valid parameters and valid wrapped blobs; the oracle is a reference table mechanism -> admissible key class/type transcribed from PKCS#11 v2.40; C_GetMechanismList is compared with the configuration text; keyless entry points and the ALWAYS_AUTHENTICATE protocol (single/multi-part sign, decrypt; none/wrong/right context-specific login) are included. exhaustive: true for this table.",
        "One-directional as stated: success implies all conditions. One key size per key type; only pMechanism->mechanism is judged against the configuration.",
        "exhaustive enumeration of a finite decision table against an independent reference table", "DESIGN.md 2/C07"),
    chk("C09", "exploration",
        "Generated histories biased to failing object-management calls (templates corrupted at a generated position, wrong session state, dead handles) on token and session objects; after every failing call the complete census through two sessions per token is compared with the state committed by the last successful call, and again at the end of the history.",
        "In-memory and API-visible state; the token directory / fault-injection legs are reported separately inside the evidence when present.",
        "model-based stateful PBT with full-census oracle after every failing call", "DESIGN.md 2/C09"),
    chk("C11", "exploration",
        "Generated histories of session and object lifecycle calls over two tokens; every handle ever issued is recorded with what it denotes and probed after EVERY call (C_GetSessionInfo / C_GetObjectSize) for being alive exactly when the model says so; every issued handle value is checked against all earlier ones; after lifecycle calls the object views of the remaining sessions are compared with the model.",
        "C_GetObjectSize as liveness probe; at most the 200 most recent object handles are swept per step.",
        "model-based stateful PBT with per-step handle liveness sweep", "DESIGN.md 2/C11"),
    chk("C12", "exploration",
        "Generated operations over 46 mechanism specs (block, padded, stream, AEAD, MAC, digest, all asymmetric families, find) run once plainly and once under a generated per-call buffer policy (NULL size query, exact, 1 short, half, zero, oversized) with generated noise calls interleaved; judged on PKCS#11 state codes, byte-identical (or cross-verified) output, length bounds needed <= L <= input+buffered+block+tag / fixed size, canaries behind announced and reported length, and disappearance of finished/failed operations.",
        "Update/Final on single-part-only mechanisms and single-part after Update are not generated (outcome not fixed by the statement); NULL arguments belong to C17.",
        "metamorphic PBT (query transparency) + protocol-state oracle + canary buffers", "DESIGN.md 2/C12"),
    chk("C19", "exploration",
        "Generated populations (11 classes, token/session, private/public, two tokens) and generated templates drawn from the population (plus one-byte-shorter/longer and literal values, empty values, lacking attributes) searched in every login state with generated batch-size sequences; the union of all batches must equal a reference matcher over the model exactly.",
        "The model's attribute values come from C_GetAttributeValue right after each mutation (a different code path from the search matcher).",
        "model-based PBT with reference matcher (differential against an independent matcher)", "DESIGN.md 2/C19"),
    chk("C03", "exploration",
        "Every call sequence up to depth 3 (quick) / 4 (thorough) over a 28-letter alphabet is executed against the real library and judged by a reference automaton written from PKCS#11, plus thousands of Hypothesis-generated sequences of up to 50/100 calls over the full alphabet; after every call every session handle ever issued is observed. Held on everything explored; exhaustive only up to the stated depth.",
        "Trusts the reference automaton (py/checks/c03.py Model) and C_GetSessionInfo as the observation; wrong-PIN acceptance (2^-32) ignored.",
        "model-based stateful PBT (Hypothesis) + bounded exhaustive sequence enumeration against a reference automaton", "DESIGN.md 2/C03"),
]

_PENDING = "check not built yet in this round (planned, see DESIGN.md section 8); not claimed until it exists"
NOT_APPLICABLE = [{"property_id": "C%02d" % i, "reason": _PENDING} for i in range(1, 21) if "C%02d" % i not in [c["property_id"] for c in CHECKS]]
