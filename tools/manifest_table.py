def chk(pid, category, text, note, technique, design_ref):
    return {"property_id": pid, "quick_cmd": "./vcheck %s quick" % pid, "thorough_cmd": "./vcheck %s thorough" % pid,
            "evidence_file": "evidence/%s.json" % pid, "replay_cmd_template": "./vcheck replay %s {path}" % pid,
            "engine": "hypothesis+p11worker",
            "level_claimed": {"category": category, "text": text, "design_ref": design_ref},
            "level_note": note, "technique": technique}

CHECKS = [
    chk("C03", "exploration",
        "Every call sequence up to depth 3 (quick) / 4 (thorough) over a 28-letter alphabet is executed against the real library and judged by a reference automaton written from PKCS#11, plus thousands of Hypothesis-generated sequences of up to 50/100 calls over the full alphabet; after every call every session handle ever issued is observed. Held on everything explored; exhaustive only up to the stated depth.",
        "Trusts the reference automaton (py/checks/c03.py Model) and C_GetSessionInfo as the observation; wrong-PIN acceptance (2^-32) ignored.",
        "model-based stateful PBT (Hypothesis) + bounded exhaustive sequence enumeration against a reference automaton", "DESIGN.md 2/C03"),
]

_PENDING = "check not built yet in this round (planned, see DESIGN.md section 8); not claimed until it exists"
NOT_APPLICABLE = [{"property_id": "C%02d" % i, "reason": _PENDING} for i in range(1, 21) if "C%02d" % i not in [c["property_id"] for c in CHECKS]]
