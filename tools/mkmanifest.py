#!/usr/bin/env python3
"""Regenerates MANIFEST.json from the table below (kept in one place so it is always valid)."""
import json, os
VERIF = os.path.dirname(os.path.dirname(os.path.abspath(__file__)))
from manifest_table import CHECKS, NOT_APPLICABLE  # noqa

m = {
    "version": 1,
    "setup_cmd": "python3 build/gen.py ossl-asan botan-asan ref",
    "hooks": {
        "guard": "SOFTHSM_VERIF",
        "enable": "n/a - no guarded code exists: observation uses link-time --wrap, coverage callbacks and SOFTHSM2_CONF; build/gen.py --guard would add -DSOFTHSM_VERIF",
        "baseline_off_cmd": "python3 tools/baseline_check.py",
        "source_commits": [],
        "add_only": True,
    },
    "engines": [
        {"name": "hypothesis+p11worker", "path": "py/vlib, native/p11worker.cpp",
         "serves_properties": [c["property_id"] for c in CHECKS],
         "kind_free_text": "Hypothesis 6.168 generators and reference models in Python driving a process-isolated ASan/UBSan build of the library through a JSON-lines executor"},
        {"name": "refworker", "path": "native/refworker.cpp, py/vlib/ref.py", "serves_properties": ["C10", "C13"],
         "kind_free_text": "independent reference cryptography (Botan 2 + nettle, no OpenSSL) behind the same JSON-lines protocol; self test native/test_refworker.py (837 vectors)"},
    ],
    "checks": CHECKS,
    "not_applicable": NOT_APPLICABLE,
    "notes": "See DESIGN.md. Exit codes: 0 held, 1 violation (VIOLATION line), 2 harness problem / vacuous generator (no verdict).",
}
json.dump(m, open(os.path.join(VERIF, "MANIFEST.json"), "w"), indent=1)
import jsonschema
jsonschema.validate(m, json.load(open("/root/.vp/MANIFEST.schema.json")))
print("MANIFEST.json written and valid: %d checks, %d not_applicable" % (len(CHECKS), len(NOT_APPLICABLE)))
