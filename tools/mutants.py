#!/usr/bin/env python3
"""Sensitivity protocol (DESIGN.md 1.11): apply each patch under /verif/mutants/<ID>/ (and /verif/seeded/*/patch.diff
whose meta.json names <ID>) to a scratch copy of /repo outside both trees, run the quick check against it and expect a
VIOLATION.  The scratch copy and its build output are removed afterwards.

usage: tools/mutants.py <ID> [patch-name-substring] [--tier quick|thorough] [--keep] [--patch <file>]...
       (--patch: run the check against exactly these patch files instead of the registered ones)
"""
import glob
import json
import os
import shutil
import subprocess
import sys
import time

VERIF = os.path.dirname(os.path.dirname(os.path.abspath(__file__)))


def sh(cmd, **kw):
    return subprocess.run(cmd, stdout=subprocess.PIPE, stderr=subprocess.STDOUT, text=True, **kw)


def main():
    extra = []
    argv = sys.argv[1:]
    while "--patch" in argv:
        i = argv.index("--patch")
        extra.append(os.path.abspath(argv[i + 1]))
        del argv[i:i + 2]
    if "--tier" in argv:
        del argv[argv.index("--tier") + 1]
    args = [a for a in argv if not a.startswith("--")]
    pid = args[0].upper()
    sub = args[1] if len(args) > 1 else ""
    tier = "quick"
    if "--tier" in sys.argv:
        tier = sys.argv[sys.argv.index("--tier") + 1]
    scratch = "/tmp/verif-mut-%s-%d" % (pid, os.getpid())
    repo = os.path.join(scratch, "repo")
    build = os.path.join(scratch, "build")
    os.makedirs(scratch)
    patches = sorted(glob.glob(os.path.join(VERIF, "mutants", pid, "*.diff")))
    for meta in sorted(glob.glob(os.path.join(VERIF, "seeded", "*", "meta.json"))):
        try:
            m = json.load(open(meta))
        except Exception:
            continue
        props = m.get("properties") or [m.get("property")]
        if pid in props:
            patches.append(os.path.join(os.path.dirname(meta), "patch.diff"))
    patches = [p for p in patches if sub in p]
    if extra:
        patches = extra
    results = []
    try:
        sh(["git", "clone", "-q", "/repo", repo])
        # carry uncommitted edits of /repo (none expected) is deliberately NOT done: mutants apply to HEAD
        env = dict(os.environ, VERIF_REPO=repo, VERIF_BUILD=build, VERIF_EVIDENCE_DIR=os.path.join(scratch, "evidence"),
                   VERIF_VIOLATIONS_DIR=os.path.join(scratch, "violations"))
        for p in patches:
            name = os.path.relpath(p, VERIF)
            r = sh(["git", "-C", repo, "apply", p])
            if r.returncode != 0:
                results.append((name, "PATCH-FAILED", 0, r.stdout.strip()[:200]))
                continue
            t0 = time.time()
            r = sh([os.path.join(VERIF, "vcheck"), pid, tier], env=env, cwd=VERIF)
            dt = time.time() - t0
            viol = [l for l in r.stdout.splitlines() if l.startswith("VIOLATION")]
            detail = ""
            if viol:
                idx = r.stdout.splitlines().index(viol[0])
                detail = " | ".join(r.stdout.splitlines()[idx + 1: idx + 2])
            status = "KILLED" if (r.returncode == 1 and viol) else ("SURVIVED" if r.returncode == 0 else "HARNESS rc=%d" % r.returncode)
            if status.startswith("HARNESS"):
                detail = r.stdout[-800:]
            results.append((name, status, dt, detail))
            print("%-60s %-10s %5.1fs %s" % (name, status, dt, detail[:300]), flush=True)
            sh(["git", "-C", repo, "checkout", "--", "."])
            sh(["git", "-C", repo, "clean", "-fdq"])
    finally:
        if "--keep" not in sys.argv:
            shutil.rmtree(scratch, ignore_errors=True)
    bad = [r for r in results if r[1] != "KILLED"]
    print("%s: %d/%d mutants killed" % (pid, len(results) - len(bad), len(results)))
    return 1 if bad else 0


if __name__ == "__main__":
    sys.exit(main())
