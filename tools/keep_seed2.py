#!/usr/bin/env python3
"""Copies a confirmed round-2 seeded change from its scratch output directory into /verif/seeded/<ID><b|c>/ with a meta.json.
usage: keep_seed2.py <ROOT> <ID> <A|B> <comma-separated check ids that catch it> [--also-breaks ID,...]"""
import json, os, shutil, sys
ROOT, ID, V, caught = sys.argv[1:5]
sys.path.insert(0, os.path.dirname(os.path.abspath(__file__)))
from seed2_meta_table import META
src = os.path.join(ROOT, "out", ID, V)
dst = os.path.join("/verif/seeded", ID + ("b" if V == "A" else "c"))
os.makedirs(dst, exist_ok=True)
for f in ("patch.diff", "demo.cpp", "notes.md", "verify.log"):
    if os.path.exists(os.path.join(src, f)):
        shutil.copy(os.path.join(src, f), os.path.join(dst, f))
breaks, needs = META["%s/%s" % (ID, V)]
props = [ID]
if "--also-breaks" in sys.argv:
    props += sys.argv[sys.argv.index("--also-breaks") + 1].split(",")
res = open(os.path.join(src, "verify.log")).read().strip().splitlines()[-1]
head = os.popen("git -C /repo rev-parse --short HEAD").read().strip()
json.dump({"property": ID, "properties": props, "round": 2, "breaks": breaks, "needs": needs,
           "origin": "independent sub-agent given only the property record and its own scratch worktree (tools/seedprompt.py)",
           "verified": "tools/verify_seed2.sh in the scratch worktree (tree %s + patch): %s; build demo with g++ -std=c++11 -O1 -I<worktree>/src/lib/pkcs11 demo.cpp -ldl -lpthread, run with <worktree>/_build/src/lib/libsofthsm2.so" % (head, res),
           "caught_by": [c for c in caught.split(",") if c], "base_commit": head}, open(os.path.join(dst, "meta.json"), "w"), indent=1)
print(dst)
