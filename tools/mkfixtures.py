#!/usr/bin/env python3-vt
"""One-off generator of the golden token fixtures (fixtures/tokens/<backend>/<name>/ + manifest.json + SHA256SUMS).

Must be run against the PINNED tree (4957998), before any 'fix:' commit: it pins the on-disk format the pinned version
wrote.  Usage (scratch worktree of the pinned commit):
    git -C /repo worktree add --detach /tmp/pinned 4957998
    VERIF_REPO=/tmp/pinned VERIF_BUILD=/tmp/pinned-build python3 build/gen.py ossl-asan
    VERIF_REPO=/tmp/pinned VERIF_BUILD=/tmp/pinned-build python3-vt tools/mkfixtures.py
The fixtures stay inside what the pinned version itself can read back (no dates on private objects).
"""
import hashlib
import json
import os
import shutil
import sys

sys.path.insert(0, os.path.join(os.path.dirname(os.path.abspath(__file__)), "..", "py"))
from vlib import consts as K
from vlib.env import Env, hx, label32
from vlib.objects import A, T, base_template, census, CLASSES, class_kind

VERIF = os.path.dirname(os.path.dirname(os.path.abspath(__file__)))
OUT = os.path.join(VERIF, "fixtures", "tokens")

TOKENS = [
    # name, so pin, user pin
    ("plain", b"so-pin-fixture-1", b"user-pin-fixture-1"),
    ("binarypins", b"\x00\x01\x02\x03so\xff\xfe", b"u\x00ser\x00pin\x80\x81"),
    ("utf8pins", "sö-pïn-中".encode(), "üser-\U0001F511-pin".encode()),
    ("longpins", bytes((i * 7 + 1) & 0xFF or 1 for i in range(255)), bytes((i * 5 + 3) & 0xFF or 2 for i in range(255))),
    ("minpins", b"abcd", b"wxyz"),
    ("nouserpin", b"only-so-pin-here", None),
]


def objects_for(name, backend="file"):
    """-> list of (who, template): who = 'user' (private allowed) or 'public'"""
    out = []
    n = 0
    for cls in CLASSES:
        for private in ((False, True) if cls in ("data", "aes", "rsa_priv", "ec_priv", "generic", "cert_x509") else (False,)):
            n += 1
            tpl = T(*base_template(cls, n)) + T(("CKA_TOKEN", True), ("CKA_PRIVATE", private), ("CKA_LABEL", b"fx-%s-%s-%d" % (cls.encode(), b"prv" if private else b"pub", n)))
            kind = class_kind(cls)
            if kind in ("secret", "public", "private"):
                tpl += T(("CKA_ID", bytes([n]) * (n % 5)))
                if not private:
                    tpl += T(("CKA_START_DATE", b"20200102"), ("CKA_END_DATE", b"20351231"))
                if n % 3:
                    tpl += T(("CKA_ALLOWED_MECHANISMS", ["CKM_AES_CBC", "CKM_SHA256_HMAC"][:n % 3]))
            if kind == "secret":
                tpl += T(("CKA_ENCRYPT", n % 2 == 0), ("CKA_SIGN", n % 3 == 0), ("CKA_SENSITIVE", n % 4 == 0), ("CKA_EXTRACTABLE", n % 2 == 1),
                         ("CKA_WRAP_TEMPLATE", [("CKA_EXTRACTABLE", True), ("CKA_KEY_TYPE", "CKK_AES"), ("CKA_ID", b"wt-last")]),
                         ("CKA_UNWRAP_TEMPLATE", [("CKA_LABEL", b"ut-label"), ("CKA_SENSITIVE", False)]))
            if kind == "private":
                tpl += T(("CKA_SIGN", True), ("CKA_SENSITIVE", n % 2 == 0), ("CKA_EXTRACTABLE", True), ("CKA_SUBJECT", b"subject-%d" % n),
                         ("CKA_UNWRAP_TEMPLATE", [("CKA_KEY_TYPE", "CKK_AES")]))
            if kind == "public":
                tpl += T(("CKA_VERIFY", True), ("CKA_WRAP", n % 2 == 0), ("CKA_WRAP_TEMPLATE", [("CKA_LABEL", b"only-bytes")]))
            if kind == "data":
                tpl += T(("CKA_APPLICATION", b"fixture-app"), ("CKA_OBJECT_ID", b"\x06\x03\x55\x04\x03"),
                         ("CKA_VALUE", bytes((i * 31 + n) & 0xFF for i in range([0, 1, 4095, 4096, 100000][n % 5]))), ("CKA_MODIFIABLE", n % 2 == 0))
            if kind == "cert":
                tpl += T(("CKA_ID", b"cert-id"), ("CKA_ISSUER", b"issuer"), ("CKA_SERIAL_NUMBER", b"\x02\x01\x05"))
            out.append(("user" if private else "public", tpl))
    # explicitly empty byte strings on a private object, non-copyable / non-destroyable flags
    # (the pinned SQLite backend cannot read CKA_DESTROYABLE back: the db fixtures stay inside what it reads back correctly)
    out.append(("user", T(("CKA_CLASS", "CKO_DATA"), ("CKA_TOKEN", True), ("CKA_PRIVATE", True), ("CKA_LABEL", b""), ("CKA_APPLICATION", b""), ("CKA_VALUE", b""),
                          ("CKA_COPYABLE", False)) + (T(("CKA_DESTROYABLE", False)) if backend == "file" else [])))
    return out


def main():
    env = Env("fixtures")
    manifest = {"made_by_repo_commit": os.popen("git -C %s rev-parse HEAD" % os.environ.get("VERIF_REPO", "/repo")).read().strip(), "tokens": {}}
    for backend in ("file", "db"):
        sb = env.sandbox(backend=backend)
        w = sb.worker()
        assert w.C_Initialize()["rv"] == 0
        for name, so, up in TOKENS:
            free = w.C_GetSlotList()["slots"][-1]
            assert w.C_InitToken(slot=free, pin=hx(so), label=hx(label32("fx-" + name)))["rv"] == 0
            s = w.C_OpenSession(slot=free, flags=6)["h"]
            if up is not None:
                assert w.C_Login(s=s, user=K.CKU_SO, pin=hx(so))["rv"] == 0
                assert w.C_InitPIN(s=s, pin=hx(up))["rv"] == 0
                w.C_Logout(s=s)
                assert w.C_Login(s=s, user=K.CKU_USER, pin=hx(up))["rv"] == 0
            nobj = 0
            for who, tpl in objects_for(name, backend):
                if who == "user" and up is None:
                    continue
                if name not in ("plain", "binarypins") and nobj >= 6:
                    break
                r = w.C_CreateObject(s=s, tpl=tpl)
                if r["rv"] != 0:
                    raise SystemExit("[%s/%s] create failed %s: fixtures must not contain left-overs of failed calls" % (backend, name, K.rvname(r["rv"])))
                else:
                    nobj += 1
            w.C_CloseSession(s=s)
        assert w.C_Finalize()["rv"] == 0
        w.close()
        # read everything back in a NEW process of the same (pinned) build: that is the recorded truth
        w = sb.worker()
        assert w.C_Initialize()["rv"] == 0
        for slot in w.C_GetSlotList()["slots"]:
            ti = w.C_GetTokenInfo(slot=slot)
            if not (ti["flags"] & K.CKF_TOKEN_INITIALIZED):
                continue
            label = bytes.fromhex(ti["label"]).decode().rstrip()
            name = label[3:]
            so, up = [(a, b) for n, a, b in TOKENS if n == name][0]
            s = w.C_OpenSession(slot=slot, flags=6)["h"]
            rv, pub = census(w, s)
            assert rv == 0
            rec = {"label": label, "serial": bytes.fromhex(ti["serial"]).decode(), "flags": ti["flags"], "slot": slot, "so_pin": so.hex(),
                   "user_pin": up.hex() if up is not None else None,
                   "public_view": sorted([{str(t): v for t, v in a.items()} for a in pub.values()], key=lambda d: json.dumps(d, sort_keys=True))}
            if up is not None:
                assert w.C_Login(s=s, user=K.CKU_USER, pin=hx(up))["rv"] == 0
                rv, usr = census(w, s)
                assert rv == 0
                for a in usr.values():
                    bad = [t for t, v in a.items() if isinstance(v, str) and v.startswith("ERR:")]
                    assert not bad, (label, bad)
                rec["user_view"] = sorted([{str(t): v for t, v in a.items()} for a in usr.values()], key=lambda d: json.dumps(d, sort_keys=True))
                w.C_Logout(s=s)
            assert w.C_Login(s=s, user=K.CKU_SO, pin=hx(so))["rv"] == 0
            w.C_CloseSession(s=s)
            manifest["tokens"].setdefault(backend, {})[name] = rec
            print("[%s] %-12s %3d public, %3d with user login" % (backend, name, len(pub), len(rec.get("user_view", []))))
        w.C_Finalize()
        w.close()
        dst = os.path.join(OUT, backend)
        shutil.rmtree(dst, ignore_errors=True)
        shutil.copytree(sb.tokendir, dst)
    json.dump(manifest, open(os.path.join(OUT, "manifest.json"), "w"), indent=1, sort_keys=True)
    sums = []
    for root, dirs, files in os.walk(OUT):
        for f in sorted(files):
            if f == "SHA256SUMS":
                continue
            p = os.path.join(root, f)
            sums.append("%s  %s" % (hashlib.sha256(open(p, "rb").read()).hexdigest(), os.path.relpath(p, OUT)))
    open(os.path.join(OUT, "SHA256SUMS"), "w").write("\n".join(sorted(sums)) + "\n")
    env.cleanup()
    print("fixtures written to", OUT)


if __name__ == "__main__":
    main()
