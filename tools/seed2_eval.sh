#!/bin/sh
# usage: seed2_eval.sh <ROOT> <ID> [check ids...]  -- verify both round-2 seeded changes of <ID>, then run the quick check(s) against them
ROOT=$1; ID=$2; shift 2
CHECKS=${*:-$ID}
cd /verif
{
for V in A B; do [ -f $ROOT/out/$ID/$V/patch.diff ] && tools/verify_seed2.sh $ROOT $ID $V; done
for C in $CHECKS; do
  P=""; for V in A B; do [ -f $ROOT/out/$ID/$V/patch.diff ] && P="$P --patch $ROOT/out/$ID/$V/patch.diff"; done
  python3 tools/mutants.py $C $P 2>&1 | cut -c1-600
done
} > $ROOT/out/$ID/eval.txt 2>&1
cat $ROOT/out/$ID/eval.txt
