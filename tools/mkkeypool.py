#!/usr/bin/env python3-vt
"""One-off generator of fixtures/keypool.json: asymmetric key material used by the generators as importable keys.
Generated with the token itself (C_GenerateKeyPair, extractable, non-sensitive) and sanity-checked here with
Python integers (RSA, DSA, DH); EC/Ed keys are cross-checked against the reference implementation by C10."""
import json
import os
import sys

sys.path.insert(0, os.path.join(os.path.dirname(os.path.abspath(__file__)), "..", "py"))
from vlib import consts as K
from vlib.env import Env, Template, hx
from vlib.objects import T, census

RFC2409_1024 = int("FFFFFFFFFFFFFFFFC90FDAA22168C234C4C6628B80DC1CD129024E088A67CC74020BBEA63B139B22514A08798E3404DD"
                   "EF9519B3CD3A431B302B0A6DF25F14374FE1356D6D51C245E485B576625E7EC6F44C42E9A637ED6B0BFF5CB6F406B7ED"
                   "EE386BFB5A899FA5AE9F24117C4B1FE649286651ECE65381FFFFFFFFFFFFFFFF", 16)
RFC3526_2048 = int("FFFFFFFFFFFFFFFFC90FDAA22168C234C4C6628B80DC1CD129024E088A67CC74020BBEA63B139B22514A08798E3404DD"
                   "EF9519B3CD3A431B302B0A6DF25F14374FE1356D6D51C245E485B576625E7EC6F44C42E9A637ED6B0BFF5CB6F406B7ED"
                   "EE386BFB5A899FA5AE9F24117C4B1FE649286651ECE45B3DC2007CB8A163BF0598DA48361C55D39A69163FA8FD24CF5F"
                   "83655D23DCA3AD961C62F356208552BB9ED529077096966D670C354E4ABC9804F1746C08CA18217C32905E462E36CE3B"
                   "E39E772C180E86039B2783A2EC07A28FB5C55DF06F4C52C9DE2BCBF6955817183995497CEA956AE515D2261898FA0510"
                   "15728E5A8AACAA68FFFFFFFFFFFFFFFF", 16)

OIDS = {"P-256": "06082a8648ce3d030107", "P-384": "06052b81040022", "P-521": "06052b81040023",
        "Ed25519": "06032b6570", "Ed448": "06032b6571", "X25519": "06032b656e", "X448": "06032b656f"}


def ih(x):
    h = "%x" % x
    return "0" * (len(h) % 2) + h


def main():
    env = Env("keypool")
    tpl = Template(env, ntokens=1)
    sb = env.sandbox(template=tpl)
    w = sb.worker()
    assert w.C_Initialize()["rv"] == 0
    s = w.C_OpenSession(slot=tpl.tokens[0].slot, flags=6)["h"]
    assert w.C_Login(s=s, user=1, pin=hx(tpl.tokens[0].user_pin))["rv"] == 0
    pool = {"rsa": [], "dsa": [], "dh": [], "ec": [], "ed": [], "x": []}
    priv_common = T(("CKA_SENSITIVE", False), ("CKA_EXTRACTABLE", True), ("CKA_TOKEN", False))

    def read(h):
        r = w.readattrs(s=s, o=h, types=[K.C[n] for n in ("CKA_MODULUS", "CKA_PUBLIC_EXPONENT", "CKA_PRIVATE_EXPONENT",
                                                             "CKA_PRIME_1", "CKA_PRIME_2", "CKA_EXPONENT_1", "CKA_EXPONENT_2",
                                                             "CKA_COEFFICIENT", "CKA_PRIME", "CKA_SUBPRIME", "CKA_BASE",
                                                             "CKA_VALUE", "CKA_EC_PARAMS", "CKA_EC_POINT")])["attrs"]
        return {K.name("CKA", int(t)): v[1] for t, v in r.items() if v[0] == 0}

    for bits in (1024, 1024, 2048, 2048, 1536):
        r = w.C_GenerateKeyPair(s=s, mech={"m": K.CKM_RSA_PKCS_KEY_PAIR_GEN},
                                pub=T(("CKA_MODULUS_BITS", bits), ("CKA_PUBLIC_EXPONENT", "010001"), ("CKA_TOKEN", False)),
                                prv=priv_common)
        assert r["rv"] == 0, r
        a = read(r["hprv"])
        k = {"bits": bits, "n": a["CKA_MODULUS"], "e": a["CKA_PUBLIC_EXPONENT"], "d": a["CKA_PRIVATE_EXPONENT"],
             "p": a["CKA_PRIME_1"], "q": a["CKA_PRIME_2"], "dp": a["CKA_EXPONENT_1"], "dq": a["CKA_EXPONENT_2"],
             "qinv": a["CKA_COEFFICIENT"]}
        n, e, d, p, q = (int(k[x], 16) for x in ("n", "e", "d", "p", "q"))
        assert n == p * q and pow(pow(12345, e, n), d, n) == 12345 and n.bit_length() == bits
        assert int(k["dp"], 16) == d % (p - 1) and int(k["dq"], 16) == d % (q - 1) and (int(k["qinv"], 16) * q) % p == 1
        pool["rsa"].append(k)
    for bits in (1024, 2048):
        r = w.C_GenerateKey(s=s, mech={"m": K.CKM_DSA_PARAMETER_GEN}, tpl=T(("CKA_PRIME_BITS", bits), ("CKA_TOKEN", False)))
        assert r["rv"] == 0, r
        a = read(r["h"])
        for _ in range(2):
            r2 = w.C_GenerateKeyPair(s=s, mech={"m": K.CKM_DSA_KEY_PAIR_GEN},
                                     pub=T(("CKA_PRIME", a["CKA_PRIME"]), ("CKA_SUBPRIME", a["CKA_SUBPRIME"]),
                                           ("CKA_BASE", a["CKA_BASE"]), ("CKA_TOKEN", False)), prv=priv_common)
            assert r2["rv"] == 0, r2
            pa, pb = read(r2["hprv"]), read(r2["hpub"])
            k = {"bits": bits, "p": a["CKA_PRIME"], "q": a["CKA_SUBPRIME"], "g": a["CKA_BASE"], "x": pa["CKA_VALUE"],
                 "y": pb["CKA_VALUE"]}
            assert pow(int(k["g"], 16), int(k["x"], 16), int(k["p"], 16)) == int(k["y"], 16)
            pool["dsa"].append(k)
    for prime in (RFC2409_1024, RFC3526_2048):
        for _ in range(2):
            r2 = w.C_GenerateKeyPair(s=s, mech={"m": K.CKM_DH_PKCS_KEY_PAIR_GEN},
                                     pub=T(("CKA_PRIME", ih(prime)), ("CKA_BASE", "02"), ("CKA_TOKEN", False)), prv=priv_common)
            assert r2["rv"] == 0, r2
            pa, pb = read(r2["hprv"]), read(r2["hpub"])
            k = {"bits": prime.bit_length(), "p": ih(prime), "g": "02", "x": pa["CKA_VALUE"], "y": pb["CKA_VALUE"]}
            assert pow(2, int(k["x"], 16), prime) == int(k["y"], 16)
            pool["dh"].append(k)
    for curve in ("P-256", "P-256", "P-384", "P-521"):
        r2 = w.C_GenerateKeyPair(s=s, mech={"m": K.CKM_EC_KEY_PAIR_GEN},
                                 pub=T(("CKA_EC_PARAMS", OIDS[curve]), ("CKA_TOKEN", False)), prv=priv_common)
        assert r2["rv"] == 0, r2
        pa, pb = read(r2["hprv"]), read(r2["hpub"])
        pool["ec"].append({"curve": curve, "params": OIDS[curve], "d": pa["CKA_VALUE"], "point": pb["CKA_EC_POINT"]})
    for curve in ("Ed25519", "Ed25519", "Ed448"):
        r2 = w.C_GenerateKeyPair(s=s, mech={"m": K.CKM_EC_EDWARDS_KEY_PAIR_GEN},
                                 pub=T(("CKA_EC_PARAMS", OIDS[curve]), ("CKA_TOKEN", False)), prv=priv_common)
        assert r2["rv"] == 0, r2
        pa, pb = read(r2["hprv"]), read(r2["hpub"])
        pool["ed"].append({"curve": curve, "params": OIDS[curve], "d": pa["CKA_VALUE"], "point": pb["CKA_EC_POINT"]})
    for curve in ("X25519", "X448"):
        r2 = w.C_GenerateKeyPair(s=s, mech={"m": K.CKM_EC_EDWARDS_KEY_PAIR_GEN},
                                 pub=T(("CKA_EC_PARAMS", OIDS[curve]), ("CKA_TOKEN", False)),
                                 prv=priv_common + T(("CKA_DERIVE", True)))
        if r2["rv"] != 0:
            print("skip", curve, K.rvname(r2["rv"]))
            continue
        pa, pb = read(r2["hprv"]), read(r2["hpub"])
        pool["x"].append({"curve": curve, "params": OIDS[curve], "d": pa["CKA_VALUE"], "point": pb["CKA_EC_POINT"]})
    w.close()
    env.cleanup()
    os.makedirs(os.path.join(os.path.dirname(os.path.abspath(__file__)), "..", "fixtures"), exist_ok=True)
    out = os.path.join(os.path.dirname(os.path.abspath(__file__)), "..", "fixtures", "keypool.json")
    json.dump(pool, open(out, "w"), indent=1)
    print({k: len(v) for k, v in pool.items()})


if __name__ == "__main__":
    main()
