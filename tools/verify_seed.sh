#!/bin/sh
# usage: verify_seed.sh <ID>   -- confirms a seeded change in its scratch worktree /tmp/seed/<ID>:
#  (1) with the patch: demo exits non-zero   (2) with the patch: all 195 baseline tests pass
#  (3) without the patch (git stash + rebuild): demo exits 0.  Writes /tmp/seed/<ID>.verify.log
ID=$1
WT=/tmp/seed/$ID
OUT=/tmp/seed/out/$ID
LOG=/tmp/seed/$ID.verify.log
exec > $LOG 2>&1
cd $WT || exit 9
echo "== diff matches patch.diff?"
git diff > /tmp/seed/$ID.cur.diff; cmp /tmp/seed/$ID.cur.diff $OUT/patch.diff && echo SAME || echo DIFFERENT
cmake --build _build -j8 > /dev/null 2>&1
echo "== demo with patch"
sh $OUT/build_and_run.sh $WT > /tmp/seed/$ID.demo_patched.log 2>&1; echo "exit=$?"; tail -5 /tmp/seed/$ID.demo_patched.log
echo "== baseline tests with patch"
python3 /verif/tools/baseline_check.py $WT
echo "== demo without patch"
git stash -q
cmake --build _build -j8 > /dev/null 2>&1
sh $OUT/build_and_run.sh $WT > /tmp/seed/$ID.demo_orig.log 2>&1; echo "exit=$?"; tail -3 /tmp/seed/$ID.demo_orig.log
git stash pop -q
echo "== done"
