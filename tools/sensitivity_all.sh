#!/bin/sh
# Runs the sensitivity protocol for every property and writes SENSITIVITY.txt (one line per mutant / seeded change).
cd "$(dirname "$0")/.." || exit 2
out=SENSITIVITY.txt
: > $out.tmp
for id in ${*:-C01 C02 C03 C04 C05 C06 C07 C08 C09 C10 C11 C12 C13 C14 C15 C16 C17 C18 C19 C20}; do
  C17_FUZZ_SECONDS=${C17_FUZZ_SECONDS:-20} python3 tools/mutants.py $id 2>&1 | cut -c1-260 >> $out.tmp
done
mv $out.tmp $out
