#!/bin/sh
# usage: mkseedwt.sh <ROOT> <ID>...   -- scratch worktrees <ROOT>/<ID> of /repo HEAD, configured and built like /repo/_build
ROOT=$1; shift
mkdir -p $ROOT/out
for ID in "$@"; do
  WT=$ROOT/$ID
  [ -d $WT ] || git -C /repo worktree add --detach $WT HEAD >/dev/null 2>&1
  mkdir -p $ROOT/out/$ID
  ( cd $WT && cmake -G Ninja -B _build -DBUILD_TESTS=ON -DCMAKE_BUILD_TYPE=RelWithDebInfo -DCMAKE_CXX_FLAGS=-Wno-error \
      -DENABLE_ECC=ON -DENABLE_EDDSA=ON -DWITH_CRYPTO_BACKEND=openssl >/dev/null 2>&1 && cmake --build _build -j16 >/dev/null 2>&1 \
      && echo "$ID built" || echo "$ID BUILD FAILED" )
done
