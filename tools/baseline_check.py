#!/usr/bin/env python3
"""Builds /repo/_build (guard off: no guarded code exists) and runs the registered suite; compares per-test results
with /root/.vp/BASELINE.json stable_pass.  Exit 0 iff every stable test passed."""
import json
import re
import subprocess
import sys

REPO = sys.argv[1] if len(sys.argv) > 1 else "/repo"
b = subprocess.run(["cmake", "--build", REPO + "/_build", "-j16"], stdout=subprocess.PIPE, stderr=subprocess.STDOUT, text=True)
if b.returncode != 0:
    print(b.stdout[-3000:])
    print("BUILD FAILED")
    sys.exit(2)
subprocess.run(["ctest", "--test-dir", REPO + "/_build", "-j8", "--timeout", "900"], stdout=subprocess.PIPE, stderr=subprocess.STDOUT)
log = open(REPO + "/_build/Testing/Temporary/LastTest.log", errors="replace").read()
passed = set()
cur = None
for line in log.splitlines():
    m = re.match(r"\d+/\d+ Test: (\w+)", line)
    if m:
        cur = m.group(1)
    m = re.match(r"(\S+::\S+.*?) : OK\s*$", line)
    if m and cur:
        passed.add("%s::%s" % (cur, m.group(1)))
    m = re.match(r"OK \((\d+) tests?\)", line)
    if m and cur == "handlemgrtest":
        passed.add("handlemgrtest::handlemgrtest")
base = json.load(open("/root/.vp/BASELINE.json"))["stable_pass"]
missing = [t for t in base if t not in passed]
print("stable baseline tests passing: %d/%d" % (len(base) - len(missing), len(base)))
for t in missing:
    print("  NOT PASSING:", t)
sys.exit(1 if missing else 0)
