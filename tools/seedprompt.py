#!/usr/bin/env python3
"""Prints the brief for an independent sub-agent that seeds a property-breaking change (round 2: two changes per agent).
usage: seedprompt.py <ID> [<root, default /tmp/seed2>]   -- the brief contains the property text and the scratch worktree only."""
import json
import sys

ID = sys.argv[1]
ROOT = sys.argv[2] if len(sys.argv) > 2 else "/tmp/seed2"
prop = None
for line in open("/verif/properties.jsonl"):
    p = json.loads(line)
    if p["id"] == ID:
        prop = p
p = {k: prop[k] for k in ("id", "title", "statement", "quantifier", "why_tests_cant", "anchors")}
WT = "%s/%s" % (ROOT, ID)
OUT = "%s/out/%s" % (ROOT, ID)
print("""You are helping to evaluate a verification effort for SoftHSMv2 (a software PKCS#11 token). Your job is to play the
role of a developer who introduces a realistic regression. You work ONLY inside your own scratch git worktree of the
repository: %(WT)s  (already configured and built: %(WT)s/_build, cmake + Ninja, OpenSSL backend, file object store).
Do not read or touch /repo, /verif or any other directory under %(ROOT)s; do not look for other people's patches.

Here is a semantic property the library is supposed to satisfy (JSON record):

%(PROP)s

TASK. Produce TWO independent changes (call them A and B) to the library source under %(WT)s/src/ — at different
sites, ideally breaking different clauses of the property — such that each one, applied alone:
  1. still compiles (cmake --build %(WT)s/_build -j8),
  2. still passes the complete existing test suite, unedited
     (python3 /tmp/seed2/baseline_check.py %(WT)s   must print "stable baseline tests passing: 195/195"; it takes
     about 5 minutes; this script is the only file you may use from outside your worktree),
  3. BREAKS the property above for some input / history / schedule / crash point the property quantifies over,
  4. looks like something a real developer could plausibly commit (an "optimisation", a refactoring slip, a dropped
     check on one path, an off-by-one, a wrong variable, two cooperating sites that each look fine alone ...),
     not sabotage, and is small (roughly <= 30 changed lines).
To spread the two changes over different kinds of mistakes: change A should only show LATER or ELSEWHERE than where it is made - after a
C_Finalize/C_Initialize, in a new process, in another session or another token, after a logout/login cycle, on the second use of something
(stale cache, state that survives when it should not, state that is lost when it should survive, something persisted differently from how
it is used in memory); change B should sit on a RARELY TAKEN VARIANT of a common path - the less common key type, mechanism, parameter
shape, attribute kind, object class, session kind, or the second of several similar functions (the copy-pasted sibling that gets the
slightly wrong condition), while the common variant keeps working.
Prefer changes that need something SPECIFIC to manifest — a particular multi-step sequence of operations, an unusual
but legal input (length, attribute combination, key type, mechanism parameter), a particular interleaving, a crash or
I/O fault at a particular point, a specific configuration — and that ordinary use or the obvious smoke test would NOT
expose at once. Do not disable functionality wholesale. Do not touch tests, build files or the PKCS#11 headers.
The code you change must be code that is compiled in this build (OpenSSL crypto backend, file-based object store), unless
the property is explicitly about the other backends.

For each change write a demonstration: a small self-contained C++ program (demoA.cpp / demoB.cpp) that dlopen()s
<worktree>/_build/src/lib/libsofthsm2.so (path given as argv[1]), sets up its own token directory and SOFTHSM2_CONF
under a fresh mktemp directory, drives the PKCS#11 API (or, if the property needs it, forks processes / starts threads /
damages files / kills a child at a chosen point), and exits 0 when the property holds and 1 when it is violated (2 for
set-up errors), printing what it observed. It must exit 1 with the change applied and 0 on the unchanged tree. Build it
with:  g++ -std=c++11 -O1 -I%(WT)s/src/lib/pkcs11 demoA.cpp -o demoA -ldl -lpthread

Work flow: read the code the property is anchored in; design change A; apply it in the worktree; rebuild; run the demo
(must exit 1); run the baseline script (must be 195/195); save `git -C %(WT)s diff > %(OUT)s/A/patch.diff`; then
`git -C %(WT)s checkout -- src` ; rebuild; run the demo again (must exit 0). Repeat for B. Leave the worktree clean
(no source modifications) at the end.

Deliverables, in %(OUT)s/A/ and %(OUT)s/B/ :
  patch.diff   (applies with `git apply` at the worktree's HEAD)
  demo.cpp     (the demonstration; copy of demoA.cpp / demoB.cpp)
  notes.md     (which clause breaks, what exactly is needed for it to manifest, why the existing tests do not see it)
Your final message: for A and B one paragraph each — the site changed, what is needed to manifest, and the observed
demo exit codes with/without the patch and the baseline result. If you cannot make one of them work, say so plainly;
one good change is better than two doubtful ones.
""" % {"WT": WT, "OUT": OUT, "ROOT": ROOT, "PROP": json.dumps(p, indent=1)})
