#!/bin/sh
# usage: verify_seed2.sh <ROOT> <ID> <A|B>  -- confirms a round-2 seeded change in its scratch worktree <ROOT>/<ID>:
#  (1) patch applies at HEAD and builds  (2) demo exits 1 with it  (3) all 195 baseline tests pass with it
#  (4) demo exits 0 without it.  Prints one summary line; log in <ROOT>/out/<ID>/<V>/verify.log
ROOT=$1; ID=$2; V=$3
WT=$ROOT/$ID; OUT=$ROOT/out/$ID/$V; LOG=$OUT/verify.log
cd $WT || exit 9
{
git checkout -q -- . ; git clean -fdq -e _build
git apply $OUT/patch.diff || { echo "PATCH DOES NOT APPLY"; }
cmake --build _build -j16 >/dev/null 2>&1 || echo "BUILD FAILED"
g++ -std=c++11 -O1 -I$WT/src/lib/pkcs11 $OUT/demo.cpp -o $OUT/demo.bin -ldl -lpthread || echo "DEMO BUILD FAILED"
$OUT/demo.bin $WT/_build/src/lib/libsofthsm2.so > $OUT/demo_patched.log 2>&1; P=$?
python3 /verif/tools/baseline_check.py $WT > $OUT/baseline.log 2>&1; B=$?
git checkout -q -- . ; cmake --build _build -j16 >/dev/null 2>&1
$OUT/demo.bin $WT/_build/src/lib/libsofthsm2.so > $OUT/demo_orig.log 2>&1; O=$?
rm -f $OUT/demo.bin
echo "RESULT $ID/$V demo_patched=$P baseline_rc=$B ($(tail -1 $OUT/baseline.log | cut -c1-60)) demo_orig=$O"
} > $LOG 2>&1
tail -1 $LOG
