#!/usr/bin/env python3
"""C10 - cryptographic results are correct, interoperable and verification is sound (DESIGN.md section 2, C10).

Differential against an independent implementation (Botan 2 / nettle via native/refworker.cpp; the token under test is
built on OpenSSL) + metamorphic relations (tamper => reject; multi-part == single-part).
"""
import os
import sys

sys.path.insert(0, os.path.join(os.path.dirname(os.path.abspath(__file__)), "..", "py"))
from hypothesis import strategies as st  # noqa: E402

from vlib import consts as K  # noqa: E402
from vlib.env import Stage, Template  # noqa: E402
from vlib.objects import T, keypool, usage_all  # noqa: E402
from vlib.ref import Ref, RefError  # noqa: E402
from vlib.runner import Check, Violation, main  # noqa: E402

RW = K.CKF_SERIAL_SESSION | K.CKF_RW_SESSION
HASHES = {"MD5": ("CKM_MD5", 16), "SHA-1": ("CKM_SHA_1", 20), "SHA-224": ("CKM_SHA224", 28), "SHA-256": ("CKM_SHA256", 32),
          "SHA-384": ("CKM_SHA384", 48), "SHA-512": ("CKM_SHA512", 64)}
HN = {"MD5": "MD5", "SHA-1": "SHA1", "SHA-224": "SHA224", "SHA-256": "SHA256", "SHA-384": "SHA384", "SHA-512": "SHA512"}
CURVES = {"06082a8648ce3d030107": ("secp256r1", 32), "06052b81040022": ("secp384r1", 48), "06052b81040023": ("secp521r1", 66)}

FAMILIES = ["cipher", "cipher", "cipher", "gcm", "gcm", "mac", "mac", "digest", "rsa_sign", "rsa_sign", "rsa_enc", "dsa", "ecdsa", "eddsa",
            "derive"]


def flip(b, bit):
    if not b:
        return b
    i = (bit // 8) % len(b)
    return b[:i] + bytes([b[i] ^ (1 << (bit % 8))]) + b[i + 1:]


class C10(Check):
    pid = "C10"
    level = "exploration"
    variants = ["ossl-asan", "ref"]
    rule = ("Cases (mechanism, key, parameters, message, chunking, tamper) over AES-128/192/256 and 2-/3-key 3DES in ECB, CBC, "
            "CBC-PAD, AES-CTR (counter widths 1..128 bits, counter values near wrap), AES-GCM (IV 1..64 bytes, AAD 0..40, tag "
            "32..128 bits); HMAC-MD5/SHA-1/SHA-2, AES/3DES-CMAC; 6 digests; RSA-1024/1536/2048 PKCS#1 v1.5 (raw and 5 hashes), "
            "PSS (raw and hashed, salt 0..max), OAEP, X.509 raw, encrypt/decrypt; DSA-1024/2048 raw and hashed; ECDSA "
            "P-256/384/521; Ed25519/Ed448; DH-1024/2048, ECDH, X25519/X448 derivation. Messages 0..70 bytes around block "
            "boundaries and up to 5000 bytes (stdio/EVP buffer boundaries), split into <= 6 parts incl. empty ones. Oracle: "
            "deterministic outputs equal the reference's (both directions); randomised ones are verified/decrypted by the "
            "reference and the token accepts the reference's output; flipping one generated bit of data / signature / MAC / "
            "IV / AAD / tag makes verification or authenticated decryption fail with no plaintext released; multi-part == "
            "single-part; derived secrets equal the reference's. Non-trivial = message not a block multiple, or >= 2 parts, "
            "or a tamper case.")
    assumptions = ["Botan 2.19 and nettle 3.8 are trusted as independent references; parameter combinations they cannot express "
                   "are skipped and counted", "keys are imported from a fixed pool generated once (fixtures/keypool.json)"]
    essential_labels = {"tamper_rejected": 1000, "multipart_equal": 1000, "ref_equal": 2500, "cross_verified": 600}

    def setup(self, ctx):
        ctx.shared["tpl"] = Template(ctx.env, ntokens=1)
        ctx.shared["stage"] = Stage(ctx.env, ctx.shared["tpl"], reuse=not ctx.replaying)
        ctx.shared["ref"] = Ref()

    def budget(self, tier):
        return {"examples": 6400, "shards": 16} if tier == "quick" else {"examples": 96000, "shards": 16}

    def strategy(self, tier):
        msglen = st.one_of(st.integers(0, 70), st.integers(0, 70), st.sampled_from([15, 16, 17, 31, 32, 33, 63, 64, 65, 127, 128, 129]),
                           st.sampled_from([4095, 4096, 4097, 5000, 1023, 1024, 1025]))
        return st.fixed_dictionaries({
            "family": st.sampled_from(FAMILIES),
            "alg": st.integers(0, 63),
            "keysel": st.integers(0, 7),
            "hash": st.sampled_from(sorted(HASHES)),
            "msglen": msglen,
            "seed": st.integers(0, 255),
            "cuts": st.lists(st.integers(0, 5000), max_size=5),
            "iv": st.binary(min_size=16, max_size=16).map(lambda b: b.hex()),
            "ivlen": st.one_of(st.integers(1, 16), st.sampled_from([12, 12, 32, 64])),
            "aadlen": st.integers(0, 40),
            "tagbits": st.sampled_from([128, 128, 120, 112, 104, 96, 64, 32]),
            "ctrbits": st.sampled_from([128, 64, 32, 16, 8, 5, 1, 127, 33]),
            "ctrhigh": st.booleans(),
            "saltlen": st.integers(0, 64),
            "tamper": st.sampled_from(["none", "data", "sig", "iv", "aad", "tag", "ct"]),
            "bit": st.integers(0, 4095),
        })

    # ----------------------------------------------------------------------------------------------
    def V(self, msg):
        return Violation("%s: %s" % (self._desc, msg), self._prog)

    def count(self, k, n=1):
        self._ctx.label(k, n)

    def mk(self, tpl, kind):
        r = self.w.C_CreateObject(s=self.s, tpl=tpl + T(*usage_all(kind)))
        if r["rv"] != 0:
            raise RuntimeError("key import failed: %s" % K.rvname(r["rv"]))
        return r["h"]

    def chunks(self, data, cuts):
        pts = sorted(set(c % (len(data) + 1) for c in cuts)) if data else [0] * min(len(cuts), 2)
        out, prev = [], 0
        for p in pts:
            out.append(data[prev:p])
            prev = p
        out.append(data[prev:])
        return out

    def enc_multi(self, init, upd, fin, mech, key, parts):
        w, s = self.w, self.s
        r = w.call(init, s=s, mech=mech, key=key)
        if r["rv"] != 0:
            return r["rv"], None
        out = b""
        for p in parts:
            r = w.call(upd, s=s, data=p.hex(), out=len(p) + 64)
            if r["rv"] == K.CKR_BUFFER_TOO_SMALL:
                # AEAD decryption may ask for input + buffered bytes although it releases nothing before Final
                r = w.call(upd, s=s, data=p.hex(), out=r["out"]["len"])
            if r["rv"] != 0:
                return r["rv"], None
            out += bytes.fromhex(r["out"]["data"])
        r = w.call(fin, s=s, out=sum(len(x) for x in parts) + 128)
        if r["rv"] != 0:
            return r["rv"], None
        return 0, out + bytes.fromhex(r["out"]["data"])

    def enc_single(self, init, one, mech, key, data, outlen=None):
        w, s = self.w, self.s
        r = w.call(init, s=s, mech=mech, key=key)
        if r["rv"] != 0:
            return r["rv"], None
        # every other single-part call is made the way callers make it: a length query (NULL output) first, then the call with a buffer -
        # the result must be that of the one call (the differential oracle downstream compares it with the reference)
        self._single_calls = getattr(self, "_single_calls", 0) + 1
        if self._single_calls % 2 == 0:
            q = w.call(one, s=s, data=data.hex())
            if q["rv"] != 0:
                return q["rv"], None
            self.count("single_part_query_then_call")
        r = w.call(one, s=s, data=data.hex(), out=outlen or len(data) + 128)
        if r["rv"] != 0:
            return r["rv"], None
        return 0, bytes.fromhex(r["out"]["data"])

    def sign_multi(self, mech, key, parts):
        w, s = self.w, self.s
        r = w.C_SignInit(s=s, mech=mech, key=key)
        if r["rv"] != 0:
            return r["rv"], None
        for p in parts:
            r = w.C_SignUpdate(s=s, data=p.hex())
            if r["rv"] != 0:
                return r["rv"], None
        r = w.C_SignFinal(s=s, out=1024)
        return r["rv"], bytes.fromhex(r["out"].get("data", "")) if r["rv"] == 0 else None

    def verify(self, mech, key, data, sig, parts=None):
        w, s = self.w, self.s
        r = w.C_VerifyInit(s=s, mech=mech, key=key)
        if r["rv"] != 0:
            return r["rv"]
        if parts is None:
            return w.C_Verify(s=s, data=data.hex(), sig=sig.hex())["rv"]
        for p in parts:
            r = w.C_VerifyUpdate(s=s, data=p.hex())
            if r["rv"] != 0:
                return r["rv"]
        return w.C_VerifyFinal(s=s, data=sig.hex())["rv"]

    def run_program(self, ctx, prog):
        self._ctx, self._prog = ctx, prog
        self._desc = prog["family"]
        self.w = ctx.shared["stage"].fresh()
        self.ref = ctx.shared["ref"]
        self.s = self.w.C_OpenSession(slot=ctx.shared["tpl"].tokens[0].slot, flags=RW)["h"]
        ctx.steps += 1
        self.nt = False
        msg = bytes(((prog["seed"] * 7 + i * 13 + (i >> 8)) & 0xFF) for i in range(prog["msglen"]))
        try:
            getattr(self, "f_" + prog["family"])(prog, msg)
        except RefError as e:
            self.count("ref_cannot_express")
            self.count("ref_error_" + str(e)[:40].replace(" ", "_"))
        ctx.case(prog, self.nt, [prog["family"]])

    # -- symmetric ciphers ------------------------------------------------------------------------------
    def f_cipher(self, p, msg):
        algs = [("AES", 16, "CKK_AES", k) for k in (16, 24, 32)] + [("3DES", 8, "CKK_DES3", 24), ("3DES", 8, "CKK_DES2", 16)]
        alg, bs, kt, klen = algs[p["alg"] % len(algs)]
        modes = ["ECB", "CBC", "CBC_PAD"] + (["CTR"] if alg == "AES" else [])
        mode = modes[p["keysel"] % len(modes)]
        self._desc = "%s-%d/%s" % (alg, klen * 8, mode)
        key = bytes((((p["seed"] + i * 11) & 0xFE) | 1) if alg == "3DES" else ((p["seed"] + i * 11) & 0xFF) for i in range(klen))
        if alg == "3DES" and klen == 24 and key[:8] == key[8:16]:
            return
        h = self.mk(T(("CKA_CLASS", "CKO_SECRET_KEY"), ("CKA_KEY_TYPE", kt), ("CKA_VALUE", key)), "secret")
        iv = bytes.fromhex(p["iv"])[:bs]
        m = {"AES": {"ECB": "CKM_AES_ECB", "CBC": "CKM_AES_CBC", "CBC_PAD": "CKM_AES_CBC_PAD", "CTR": "CKM_AES_CTR"},
             "3DES": {"ECB": "CKM_DES3_ECB", "CBC": "CKM_DES3_CBC", "CBC_PAD": "CKM_DES3_CBC_PAD"}}[alg][mode]
        mech = {"m": K.C[m]}
        refkw = dict(alg=alg, mode=mode, key=key, iv=iv if mode != "ECB" else b"")
        if mode in ("CBC", "CBC_PAD"):
            mech["p"] = {"raw": iv.hex()}
        if mode == "CTR":
            cb = bytes.fromhex(p["iv"])
            bits = p["ctrbits"]
            if p["ctrhigh"]:
                # counter value a few steps before wrapping
                full = int.from_bytes(cb, "big") | ((1 << bits) - 1)
                full -= (p["saltlen"] % 4)
                cb = full.to_bytes(16, "big")
            nblocks = (len(msg) + 15) // 16
            mech["p"] = {"ctr": {"bits": bits, "cb": cb.hex()}}
            refkw.update(iv=cb, ctrbits=bits)
            if nblocks > (1 << min(bits, 40)):
                self._note = "exceeds counter space"
        if mode in ("ECB", "CBC"):
            msg = msg[:len(msg) - len(msg) % bs]
        self.nt = self.nt or (len(msg) % bs != 0)
        rv, ct = self.enc_single("C_EncryptInit", "C_Encrypt", mech, h, msg)
        if rv != 0:
            # refusal is only legitimate for a counter that would wrap
            if mode == "CTR" and ((len(msg) + 15) // 16) > (1 << min(p["ctrbits"], 40)) - 0:
                self.count("ctr_refused_wrap")
                return
            if mode == "CTR":
                # the token refuses counters that would overflow their width; the reference wraps: not comparable
                self.count("ctr_refused")
                return
            raise self.V("single-part encryption failed: %s" % K.rvname(rv))
        want = self.ref.out("cipher", dir="enc", data=msg, **refkw)
        if ct != want:
            raise self.V("ciphertext differs from the reference: token %s.. reference %s.. (len %d, msg %d bytes)" % (ct.hex()[:48], want.hex()[:48], len(ct), len(msg)))
        self.count("ref_equal")
        parts = self.chunks(msg, p["cuts"])
        if len(parts) > 1:
            self.nt = True
            rv, ct2 = self.enc_multi("C_EncryptInit", "C_EncryptUpdate", "C_EncryptFinal", mech, h, parts)
            if rv != 0 or ct2 != ct:
                raise self.V("multi-part encryption (%s) differs from single-part: %s" % ([len(x) for x in parts], K.rvname(rv)))
            self.count("multipart_equal")
        # decrypt what the reference produced, in parts
        cparts = self.chunks(want, p["cuts"])
        rv, pt = self.enc_multi("C_DecryptInit", "C_DecryptUpdate", "C_DecryptFinal", mech, h, cparts)
        if rv != 0 or pt != msg:
            raise self.V("multi-part decryption of the reference ciphertext failed (%s) or returned other bytes" % K.rvname(rv))
        rv, pt = self.enc_single("C_DecryptInit", "C_Decrypt", mech, h, want)
        if rv != 0 or pt != msg:
            raise self.V("single-part decryption of the reference ciphertext failed (%s) or returned other bytes" % K.rvname(rv))
        self.count("ref_equal")
        if mode == "CBC_PAD" and p["tamper"] != "none" and len(want) >= bs:
            # a corrupted last block must not decrypt to the original message
            bad = want[:-1] + bytes([want[-1] ^ (1 << (p["bit"] % 8))])
            rv, pt2 = self.enc_single("C_DecryptInit", "C_Decrypt", mech, h, bad)
            if rv == 0 and pt2 == msg:
                raise self.V("corrupted padded ciphertext decrypts to the original plaintext")

    def f_gcm(self, p, msg):
        klen = [16, 24, 32][p["alg"] % 3]
        key = bytes((p["seed"] * 3 + i * 5) & 0xFF for i in range(klen))
        h = self.mk(T(("CKA_CLASS", "CKO_SECRET_KEY"), ("CKA_KEY_TYPE", "CKK_AES"), ("CKA_VALUE", key)), "secret")
        iv = (bytes.fromhex(p["iv"]) * 4)[:p["ivlen"]]
        aad = bytes((p["seed"] + i) & 0xFF for i in range(p["aadlen"]))
        tb = p["tagbits"] // 8
        self._desc = "AES-%d/GCM iv=%d aad=%d tag=%d msg=%d" % (klen * 8, len(iv), len(aad), tb, len(msg))
        mech = {"m": K.CKM_AES_GCM, "p": {"gcm": {"iv": iv.hex(), "aad": aad.hex(), "tagBits": p["tagbits"]}}}
        self.nt = True
        rv, ct = self.enc_single("C_EncryptInit", "C_Encrypt", mech, h, msg)
        if rv != 0:
            raise self.V("encryption failed: %s" % K.rvname(rv))
        want = self.ref.out("cipher", alg="AES", mode="GCM", dir="enc", key=key, iv=iv, aad=aad, tagbytes=tb, data=msg)
        if ct != want:
            raise self.V("ciphertext||tag differs from the reference: %s vs %s" % (ct.hex()[:64], want.hex()[:64]))
        self.count("ref_equal")
        parts = self.chunks(msg, p["cuts"])
        if len(parts) > 1:
            rv, ct2 = self.enc_multi("C_EncryptInit", "C_EncryptUpdate", "C_EncryptFinal", mech, h, parts)
            if rv != 0 or ct2 != ct:
                raise self.V("multi-part GCM encryption differs from single-part (%s)" % K.rvname(rv))
            self.count("multipart_equal")
        rv, pt = self.enc_multi("C_DecryptInit", "C_DecryptUpdate", "C_DecryptFinal", mech, h, self.chunks(want, p["cuts"]))
        if rv != 0 or pt != msg:
            raise self.V("multi-part decryption of the reference output failed (%s)" % K.rvname(rv))
        rv, pt = self.enc_single("C_DecryptInit", "C_Decrypt", mech, h, want)
        if rv != 0 or pt != msg:
            raise self.V("decryption of the reference output failed (%s)" % K.rvname(rv))
        # tamper: any single bit of ciphertext, tag, IV or AAD
        t = p["tamper"]
        if t == "none":
            return
        tm = {"m": K.CKM_AES_GCM, "p": {"gcm": dict(mech["p"]["gcm"])}}
        data = want
        if t in ("tag", "sig"):
            data = want[:len(want) - tb] + flip(want[len(want) - tb:], p["bit"])
        elif t in ("ct", "data"):
            if len(want) == tb:
                data = want[:len(want) - tb] + flip(want[len(want) - tb:], p["bit"])
            else:
                data = flip(want[:len(want) - tb], p["bit"]) + want[len(want) - tb:]
        elif t == "iv":
            tm["p"]["gcm"]["iv"] = flip(iv, p["bit"]).hex()
        elif t == "aad":
            if not aad:
                tm["p"]["gcm"]["aad"] = "00"
            else:
                tm["p"]["gcm"]["aad"] = flip(aad, p["bit"]).hex()
        for multi in (False, True):
            if multi:
                r = self.w.C_DecryptInit(s=self.s, mech=tm, key=h)
                released = b""
                rv = r["rv"]
                if rv == 0:
                    for part in self.chunks(data, p["cuts"]):
                        r = self.w.C_DecryptUpdate(s=self.s, data=part.hex(), out=len(data) + 64)
                        rv = r["rv"]
                        if rv != 0:
                            break
                        released += bytes.fromhex(r["out"].get("data", ""))
                    if rv == 0:
                        r = self.w.C_DecryptFinal(s=self.s, out=len(data) + 64)
                        rv = r["rv"]
                        released += bytes.fromhex(r["out"].get("data", "")) if rv == 0 else b""
                if rv == 0:
                    raise self.V("multi-part authenticated decryption accepted a message with a flipped %s bit" % t)
                if released:
                    raise self.V("multi-part authenticated decryption released %d plaintext bytes of a forged message" % len(released))
            else:
                rv, pt = self.enc_single("C_DecryptInit", "C_Decrypt", tm, h, data)
                if rv == 0:
                    raise self.V("authenticated decryption accepted a message with a flipped %s bit (tag %d bytes, message %d bytes)" % (t, tb, len(msg)))
        self.count("tamper_rejected")

    # -- MACs and digests ---------------------------------------------------------------------------------
    def f_mac(self, p, msg):
        kinds = [("HMAC(%s)" % h, "CKM_%s_HMAC" % HN[h].replace("SHA1", "SHA_1"), "generic", HASHES[h][1]) for h in sorted(HASHES)]
        kinds += [("CMAC(AES)", "CKM_AES_CMAC", "aes", 16), ("CMAC(3DES)", "CKM_DES3_CMAC", "des3", 8)]
        name, m, kk, outlen = kinds[p["alg"] % len(kinds)]
        if kk == "generic":
            klen = [outlen, outlen + 1, 64, 65, 128, 200][p["keysel"] % 6]
            kt = "CKK_GENERIC_SECRET"
        elif kk == "aes":
            klen, kt = [16, 24, 32][p["keysel"] % 3], "CKK_AES"
        else:
            klen, kt = [24, 16][p["keysel"] % 2], ["CKK_DES3", "CKK_DES2"][p["keysel"] % 2]
        key = bytes((((p["seed"] + i * 3) & 0xFE) | 1) if kk == "des3" else ((p["seed"] + i * 3) & 0xFF) for i in range(klen))
        self._desc = "%s key=%d msg=%d" % (name, klen, len(msg))
        h = self.mk(T(("CKA_CLASS", "CKO_SECRET_KEY"), ("CKA_KEY_TYPE", kt), ("CKA_VALUE", key)), "secret")
        mech = {"m": K.C[m]}
        want = self.ref.out("mac", alg=name, key=key, data=msg)
        rv, mac = self.enc_single("C_SignInit", "C_Sign", mech, h, msg, 256)
        if rv != 0:
            raise self.V("C_Sign failed: %s" % K.rvname(rv))
        if mac != want:
            raise self.V("MAC differs from the reference: %s vs %s" % (mac.hex(), want.hex()))
        self.count("ref_equal")
        parts = self.chunks(msg, p["cuts"])
        if len(parts) > 1:
            self.nt = True
            rv, mac2 = self.sign_multi(mech, h, parts)
            if rv != 0 or mac2 != mac:
                raise self.V("multi-part MAC differs from single-part")
            self.count("multipart_equal")
        if self.verify(mech, h, msg, want) != 0:
            raise self.V("the token rejects the reference MAC")
        if self.verify(mech, h, msg, want, parts) != 0:
            raise self.V("the token rejects the reference MAC in multi-part verification")
        t = p["tamper"]
        if t != "none":
            self.nt = True
            tparts = None if p["bit"] % 2 else parts       # single- and multi-part verification alternate
            if t in ("data", "ct", "aad", "iv") and msg:
                rv = self.verify(mech, h, flip(msg, p["bit"]), want, parts=None if p["bit"] % 2 else self.chunks(flip(msg, p["bit"]), p["cuts"]))
            elif t == "tag":
                rv = self.verify(mech, h, msg, want[:-(1 + p["bit"] % 3)], tparts)          # truncated MAC
            else:
                rv = self.verify(mech, h, msg, flip(want, p["bit"]), tparts)
            if rv == 0:
                raise self.V("MAC verification accepted a forged %s" % t)
            self.count("tamper_rejected")

    def f_digest(self, p, msg):
        hn = p["hash"]
        m, n = HASHES[hn]
        self._desc = "%s msg=%d" % (hn, len(msg))
        want = self.ref.out("hash", alg=hn, data=msg)
        w, s = self.w, self.s
        w.C_DigestInit(s=s, mech={"m": K.C[m]})
        r = w.C_Digest(s=s, data=msg.hex(), out=64)
        if r["rv"] != 0 or bytes.fromhex(r["out"]["data"]) != want:
            raise self.V("digest differs from the reference")
        self.count("ref_equal")
        parts = self.chunks(msg, p["cuts"])
        if len(parts) > 1:
            self.nt = True
            w.C_DigestInit(s=s, mech={"m": K.C[m]})
            for part in parts:
                w.C_DigestUpdate(s=s, data=part.hex())
            r = w.C_DigestFinal(s=s, out=64)
            if r["rv"] != 0 or bytes.fromhex(r["out"]["data"]) != want:
                raise self.V("multi-part digest (%s) differs from the reference" % [len(x) for x in parts])
            self.count("multipart_equal")

    # -- RSA ------------------------------------------------------------------------------------------------
    def rsa_keys(self, p):
        k = keypool()["rsa"][p["keysel"] % len(keypool()["rsa"])]
        pub = self.mk(T(("CKA_CLASS", "CKO_PUBLIC_KEY"), ("CKA_KEY_TYPE", "CKK_RSA"), ("CKA_MODULUS", k["n"]), ("CKA_PUBLIC_EXPONENT", k["e"])), "public")
        prv = self.mk(T(("CKA_CLASS", "CKO_PRIVATE_KEY"), ("CKA_KEY_TYPE", "CKK_RSA"), ("CKA_MODULUS", k["n"]), ("CKA_PUBLIC_EXPONENT", k["e"]),
                        ("CKA_PRIVATE_EXPONENT", k["d"]), ("CKA_PRIME_1", k["p"]), ("CKA_PRIME_2", k["q"]), ("CKA_EXPONENT_1", k["dp"]),
                        ("CKA_EXPONENT_2", k["dq"]), ("CKA_COEFFICIENT", k["qinv"])), "private")
        return k, pub, prv, len(k["n"]) // 2

    def f_rsa_sign(self, p, msg):
        k, pub, prv, klen = self.rsa_keys(p)
        rk = dict(n=k["n"], e=k["e"], d=k["d"], p=k["p"], q=k["q"])
        pk = dict(n=k["n"], e=k["e"])
        hn = p["hash"]
        variants = ["pkcs1_raw", "pkcs1", "pss", "pss_raw", "raw"]
        var = variants[p["alg"] % len(variants)]
        hlen = HASHES[hn][1]
        slen = min(p["saltlen"], klen - hlen - 2)
        if var in ("pss", "pss_raw") and (hn == "MD5" or slen < 0):
            hn, hlen = "SHA-256", 32
            slen = min(p["saltlen"], klen - hlen - 2)
        self._desc = "RSA-%d %s %s salt=%d msg=%d" % (klen * 8, var, hn, slen, len(msg))
        det = var in ("pkcs1_raw", "pkcs1", "raw")
        parts = None
        if var == "pkcs1_raw":
            mech, data = {"m": K.CKM_RSA_PKCS}, msg[:klen - 11]
        elif var == "pkcs1":
            mech, data = {"m": K.C["CKM_%s_RSA_PKCS" % HN[hn]]}, msg
            parts = self.chunks(msg, p["cuts"])
        elif var == "pss":
            mech = {"m": K.C["CKM_%s_RSA_PKCS_PSS" % HN[hn]], "p": {"pss": {"hash": K.C[HASHES[hn][0]], "mgf": K.C["CKG_MGF1_" + HN[hn]], "slen": slen}}}
            data = msg
            parts = self.chunks(msg, p["cuts"])
        elif var == "pss_raw":
            mech = {"m": K.CKM_RSA_PKCS_PSS, "p": {"pss": {"hash": K.C[HASHES[hn][0]], "mgf": K.C["CKG_MGF1_" + HN[hn]], "slen": slen}}}
            data = self.ref.out("hash", alg=hn, data=msg)
        else:
            mech = {"m": K.CKM_RSA_X_509}
            data = (b"\x00" + msg + bytes(klen))[:klen]
        refkw = dict(pad=var, hash=hn, saltlen=slen)
        rv, sig = self.enc_single("C_SignInit", "C_Sign", mech, prv, data, 1024)
        if rv != 0:
            raise self.V("C_Sign failed: %s" % K.rvname(rv))
        if len(sig) != klen:
            raise self.V("signature length %d, modulus length %d" % (len(sig), klen))
        if det:
            want = self.ref.out("rsa_sign", msg=data, **rk, **refkw)
            if sig != want:
                raise self.V("deterministic signature differs from the reference")
            self.count("ref_equal")
        if not self.ref.ok("rsa_verify", msg=data, sig=sig, **pk, **refkw):
            raise self.V("the reference rejects the token's signature")
        rsig = self.ref.out("rsa_sign", msg=data, **rk, **refkw)
        if self.verify(mech, pub, data, rsig) != 0:
            raise self.V("the token rejects the reference's signature")
        self.count("cross_verified")
        if parts and len(parts) > 1:
            self.nt = True
            rv, sig2 = self.sign_multi(mech, prv, parts)
            if rv != 0 or (det and sig2 != sig) or not self.ref.ok("rsa_verify", msg=data, sig=sig2, **pk, **refkw):
                raise self.V("multi-part signature wrong (%s)" % K.rvname(rv))
            if self.verify(mech, pub, data, rsig, parts) != 0:
                raise self.V("multi-part verification rejects the reference's signature")
            self.count("multipart_equal")
        t = p["tamper"]
        if t != "none":
            self.nt = True
            if t in ("sig", "tag", "ct", "iv"):
                rv = self.verify(mech, pub, data, flip(rsig, p["bit"]))
            else:
                d2 = flip(data, p["bit"]) if data else b"\x01"
                if var == "raw":
                    d2 = data[:-1] + bytes([data[-1] ^ 1])
                rv = self.verify(mech, pub, d2, rsig)
            if rv == 0:
                raise self.V("verification accepted a forged %s" % t)
            self.count("tamper_rejected")

    def f_rsa_enc(self, p, msg):
        k, pub, prv, klen = self.rsa_keys(p)
        rk = dict(n=k["n"], e=k["e"], d=k["d"], p=k["p"], q=k["q"])
        var = ["pkcs1", "oaep", "raw"][p["alg"] % 3]
        self._desc = "RSA-%d encrypt %s msg=%d" % (klen * 8, var, len(msg))
        if var == "pkcs1":
            mech, data = {"m": K.CKM_RSA_PKCS}, msg[:klen - 11]
        elif var == "oaep":
            mech = {"m": K.CKM_RSA_PKCS_OAEP, "p": {"oaep": {"hash": K.CKM_SHA_1, "mgf": K.CKG_MGF1_SHA1, "source": K.CKZ_DATA_SPECIFIED}}}
            data = msg[:klen - 42]
        else:
            mech, data = {"m": K.CKM_RSA_X_509}, (b"\x00" + msg + bytes(klen))[:klen]
        refkw = dict(pad=var, hash="SHA-1", label=b"")
        rv, ct = self.enc_single("C_EncryptInit", "C_Encrypt", mech, pub, data, 1024)
        if rv != 0:
            raise self.V("C_Encrypt failed: %s" % K.rvname(rv))
        back = self.ref.out("rsa_decrypt", ct=ct, **rk, **refkw)
        if back != data:
            raise self.V("the reference decrypts the token's ciphertext to other bytes")
        rct = self.ref.out("rsa_encrypt", msg=data, n=k["n"], e=k["e"], **refkw)
        rv, pt = self.enc_single("C_DecryptInit", "C_Decrypt", mech, prv, rct, 1024)
        if rv != 0 or pt != data:
            raise self.V("the token fails to decrypt the reference's ciphertext (%s)" % K.rvname(rv))
        self.count("cross_verified")
        if var == "raw":
            if ct != rct:
                raise self.V("raw RSA result differs from the reference")
            self.count("ref_equal")
        if p["tamper"] != "none" and var != "raw":
            self.nt = True
            rv, pt = self.enc_single("C_DecryptInit", "C_Decrypt", mech, prv, flip(rct, p["bit"]), 1024)
            if rv == 0 and pt == data:
                raise self.V("a corrupted ciphertext decrypts to the original plaintext")
            self.count("tamper_rejected")

    # -- DSA / ECDSA / EdDSA ------------------------------------------------------------------------------------
    def f_dsa(self, p, msg):
        k = keypool()["dsa"][p["keysel"] % len(keypool()["dsa"])]
        pub = self.mk(T(("CKA_CLASS", "CKO_PUBLIC_KEY"), ("CKA_KEY_TYPE", "CKK_DSA"), ("CKA_PRIME", k["p"]), ("CKA_SUBPRIME", k["q"]), ("CKA_BASE", k["g"]), ("CKA_VALUE", k["y"])), "public")
        prv = self.mk(T(("CKA_CLASS", "CKO_PRIVATE_KEY"), ("CKA_KEY_TYPE", "CKK_DSA"), ("CKA_PRIME", k["p"]), ("CKA_SUBPRIME", k["q"]), ("CKA_BASE", k["g"]), ("CKA_VALUE", k["x"])), "private")
        qlen = len(k["q"]) // 2
        hs = ["Raw", "SHA-1", "SHA-224", "SHA-256", "SHA-384", "SHA-512"]
        hn = hs[p["alg"] % len(hs)]
        self._desc = "DSA-%d %s msg=%d" % (k["bits"], hn, len(msg))
        if hn == "Raw":
            mech, data = {"m": K.CKM_DSA}, self.ref.out("hash", alg="SHA-256", data=msg)[:qlen]
            parts = None
        else:
            mech, data = {"m": K.C["CKM_DSA_" + HN[hn]]}, msg
            parts = self.chunks(msg, p["cuts"])
        pubk = dict(p=k["p"], q=k["q"], g=k["g"], y=k["y"])
        rv, sig = self.enc_single("C_SignInit", "C_Sign", mech, prv, data, 256)
        if rv != 0:
            raise self.V("C_Sign failed: %s" % K.rvname(rv))
        if len(sig) != 2 * qlen:
            raise self.V("signature length %d, expected %d" % (len(sig), 2 * qlen))
        if not self.ref.ok("dsa_verify", hash=hn, msg=data, sig=sig, **pubk):
            raise self.V("the reference rejects the token's signature")
        rsig = self.ref.out("dsa_sign", hash=hn, msg=data, p=k["p"], q=k["q"], g=k["g"], x=k["x"])
        if self.verify(mech, pub, data, rsig, parts) != 0:
            raise self.V("the token rejects the reference's signature")
        self.count("cross_verified")
        if parts and len(parts) > 1:
            self.nt = True
            rv, sig2 = self.sign_multi(mech, prv, parts)
            if rv != 0 or not self.ref.ok("dsa_verify", hash=hn, msg=data, sig=sig2, **pubk):
                raise self.V("multi-part signature is rejected by the reference")
            self.count("multipart_equal")
        if p["tamper"] != "none":
            self.nt = True
            if p["tamper"] in ("sig", "tag", "ct", "iv"):
                rv = self.verify(mech, pub, data, flip(rsig, p["bit"]))
            else:
                rv = self.verify(mech, pub, flip(data, p["bit"]) if data else b"\x01", rsig)
            if rv == 0:
                raise self.V("verification accepted a forged %s" % p["tamper"])
            self.count("tamper_rejected")

    def f_ecdsa(self, p, msg):
        k = keypool()["ec"][p["keysel"] % len(keypool()["ec"])]
        curve, flen = CURVES[k["params"]]
        pub = self.mk(T(("CKA_CLASS", "CKO_PUBLIC_KEY"), ("CKA_KEY_TYPE", "CKK_EC"), ("CKA_EC_PARAMS", k["params"]), ("CKA_EC_POINT", k["point"])), "public")
        prv = self.mk(T(("CKA_CLASS", "CKO_PRIVATE_KEY"), ("CKA_KEY_TYPE", "CKK_EC"), ("CKA_EC_PARAMS", k["params"]), ("CKA_VALUE", k["d"])), "private")
        hn = ["SHA-1", "SHA-256", "SHA-384", "SHA-512", "SHA-224"][p["alg"] % 5]
        data = self.ref.out("hash", alg=hn, data=msg)
        self._desc = "ECDSA %s hash=%s" % (curve, hn)
        pt = self.raw_point(k["point"])
        mech = {"m": K.CKM_ECDSA}
        rv, sig = self.enc_single("C_SignInit", "C_Sign", mech, prv, data, 256)
        if rv != 0:
            raise self.V("C_Sign failed: %s" % K.rvname(rv))
        if len(sig) != 2 * flen:
            raise self.V("signature length %d, expected %d" % (len(sig), 2 * flen))
        if not self.ref.ok("ecdsa_verify", curve=curve, point=pt, hash="Raw", msg=data, sig=sig):
            raise self.V("the reference rejects the token's signature")
        rsig = self.ref.out("ecdsa_sign", curve=curve, d=k["d"], hash="Raw", msg=data)
        if self.verify(mech, pub, data, rsig) != 0:
            raise self.V("the token rejects the reference's signature")
        self.count("cross_verified")
        if p["tamper"] != "none":
            self.nt = True
            if p["tamper"] in ("sig", "tag", "ct", "iv"):
                rv = self.verify(mech, pub, data, flip(rsig, p["bit"]))
            else:
                rv = self.verify(mech, pub, flip(data, p["bit"] % (min(len(data), flen) * 8)), rsig)
            if rv == 0:
                raise self.V("verification accepted a forged %s" % p["tamper"])
            self.count("tamper_rejected")

    @staticmethod
    def raw_point(derhex):
        b = bytes.fromhex(derhex)
        if b[0] == 0x04 and b[1] < 0x80 and b[1] == len(b) - 2:
            return b[2:]
        if b[0] == 0x04 and b[1] == 0x81 and b[2] == len(b) - 3:
            return b[3:]
        return b

    def f_eddsa(self, p, msg):
        k = keypool()["ed"][p["keysel"] % len(keypool()["ed"])]
        curve = k["curve"]
        pub = self.mk(T(("CKA_CLASS", "CKO_PUBLIC_KEY"), ("CKA_KEY_TYPE", "CKK_EC_EDWARDS"), ("CKA_EC_PARAMS", k["params"]), ("CKA_EC_POINT", k["point"])), "public")
        prv = self.mk(T(("CKA_CLASS", "CKO_PRIVATE_KEY"), ("CKA_KEY_TYPE", "CKK_EC_EDWARDS"), ("CKA_EC_PARAMS", k["params"]), ("CKA_VALUE", k["d"])), "private")
        self._desc = "EdDSA %s msg=%d" % (curve, len(msg))
        mech = {"m": K.CKM_EDDSA}
        rawpub = self.raw_point(k["point"])
        if self.ref.call("eddsa_pub", curve=curve, d=k["d"])["pub"] != rawpub.hex():
            raise self.V("public key of the pool key differs from the reference's derivation")
        rv, sig = self.enc_single("C_SignInit", "C_Sign", mech, prv, msg, 256)
        if rv != 0:
            raise self.V("C_Sign failed: %s" % K.rvname(rv))
        want = self.ref.out("eddsa_sign", curve=curve, d=k["d"], msg=msg)
        if sig != want:
            raise self.V("deterministic EdDSA signature differs from the reference")
        self.count("ref_equal")
        if self.verify(mech, pub, msg, want) != 0:
            raise self.V("the token rejects the reference's signature")
        self.count("cross_verified")
        if p["tamper"] != "none":
            self.nt = True
            if p["tamper"] in ("sig", "tag", "ct", "iv") or not msg:
                rv = self.verify(mech, pub, msg, flip(want, p["bit"]))
            else:
                rv = self.verify(mech, pub, flip(msg, p["bit"]), want)
            if rv == 0:
                raise self.V("verification accepted a forged %s" % p["tamper"])
            self.count("tamper_rejected")

    # -- key agreement ---------------------------------------------------------------------------------------------
    def derive_value(self, mech, base, length=None):
        tpl = T(("CKA_CLASS", "CKO_SECRET_KEY"), ("CKA_KEY_TYPE", "CKK_GENERIC_SECRET"), ("CKA_TOKEN", False), ("CKA_PRIVATE", False),
                ("CKA_SENSITIVE", False), ("CKA_EXTRACTABLE", True))
        # the requested length: the whole secret, or fewer bytes (PKCS#11: "the truncation removes bytes from the leading end of the secret value" -
        # stated for CKM_DH_PKCS_DERIVE and CKM_ECDH1_DERIVE alike, so the key is the LAST n bytes of the secret)
        self._cut = None
        if length:
            sel = getattr(self, "_cutsel", 0) % 4
            n = length if sel == 0 else max(1, min(length, (16, 20, length - 1)[sel - 1]))
            if n != length:
                self._cut = n
                self.count("derive_truncated")
            tpl += T(("CKA_VALUE_LEN", n))
        r = self.w.C_DeriveKey(s=self.s, mech=mech, key=base, tpl=tpl)
        if r["rv"] != 0:
            return r["rv"], None
        v = self.w.readattrs(s=self.s, o=r["h"], types=[K.CKA_VALUE])["attrs"][str(K.CKA_VALUE)]
        return 0, bytes.fromhex(v[1]) if v[0] == 0 and v[1] is not None else None

    def f_derive(self, p, msg):
        kp = keypool()
        self._cutsel = p["bit"] // 3
        which = ["dh", "ecdh", "xdh"][p["alg"] % 3]
        self.nt = True
        if which == "dh":
            grp = [k for k in kp["dh"] if k["bits"] == [1024, 2048][p["keysel"] % 2]]
            a, b = grp[0], grp[1]
            if p["alg"] & 4:
                a, b = b, a
            self._desc = "DH-%d derive" % a["bits"]
            base = self.mk(T(("CKA_CLASS", "CKO_PRIVATE_KEY"), ("CKA_KEY_TYPE", "CKK_DH"), ("CKA_PRIME", a["p"]), ("CKA_BASE", a["g"]), ("CKA_VALUE", a["x"])), "private")
            # peer value: the pool peer's, or a generated one (g^r) to vary the secret (leading zero bytes included)
            peer = b["y"]
            if p["tamper"] != "none":
                P_, G_, X_ = int(a["p"], 16), int(a["g"], 16), int(a["x"], 16)
                r_ = int.from_bytes(bytes.fromhex(p["iv"]), "big") + p["bit"] + 2
                plen_ = len(a["p"]) // 2
                if p["bit"] % 3 == 0:
                    # hunt for the tiny region: a shared secret with leading zero octets (about 1 peer value in 256)
                    for _ in range(3000):
                        if pow(pow(G_, r_, P_), X_, P_) >> (8 * (plen_ - 1)) == 0:
                            self.count("dh_leading_zero_secret")
                            break
                        r_ += 1
                peer = "%x" % pow(G_, r_, P_)
                peer = "0" * (len(peer) % 2) + peer
            plen = len(a["p"]) // 2
            peerb = bytes.fromhex(peer).rjust(plen, b"\x00") if p["bit"] % 2 else bytes.fromhex(peer)
            want = self.ref.out("dh", p=a["p"], g=a["g"], x=a["x"], peer=peer)
            rv, val = self.derive_value({"m": K.CKM_DH_PKCS_DERIVE, "p": {"raw": peerb.hex()}}, base, len(want))
        elif which == "ecdh":
            pool = kp["ec"]
            a = pool[p["keysel"] % len(pool)]
            same = [k for k in pool if k["params"] == a["params"] and k is not a]
            curve, flen = CURVES[a["params"]]
            self._desc = "ECDH %s" % curve
            base = self.mk(T(("CKA_CLASS", "CKO_PRIVATE_KEY"), ("CKA_KEY_TYPE", "CKK_EC"), ("CKA_EC_PARAMS", a["params"]), ("CKA_VALUE", a["d"])), "private")
            if same and p["tamper"] == "none":
                peer = self.raw_point(same[0]["point"])
            else:
                d2 = (int.from_bytes(bytes.fromhex(p["iv"]), "big") + p["bit"] + 1)
                peer = bytes.fromhex(self.ref.call("ec_pub", curve=curve, d="%064x" % d2)["point"])
                if p["bit"] % 3 == 0:
                    # hunt for a shared x coordinate with a leading zero octet
                    for _ in range(1500):
                        if self.ref.out("ecdh", curve=curve, d=a["d"], peer=peer)[0] == 0:
                            self.count("ecdh_leading_zero_secret")
                            break
                        d2 += 1
                        peer = bytes.fromhex(self.ref.call("ec_pub", curve=curve, d="%064x" % d2)["point"])
            want = self.ref.out("ecdh", curve=curve, d=a["d"], peer=peer)
            rv, val = self.derive_value({"m": K.CKM_ECDH1_DERIVE, "p": {"ecdh": {"kdf": K.CKD_NULL, "pub": peer.hex()}}}, base, len(want))
        else:
            a = kp["x"][p["keysel"] % len(kp["x"])]
            curve = a["curve"]
            n = 32 if curve == "X25519" else 56
            self._desc = "%s derive" % curve
            base = self.mk(T(("CKA_CLASS", "CKO_PRIVATE_KEY"), ("CKA_KEY_TYPE", "CKK_EC_EDWARDS"), ("CKA_EC_PARAMS", a["params"]), ("CKA_VALUE", a["d"])), "private")
            d2 = bytes(((p["seed"] + i * 9 + p["bit"]) & 0xFF) for i in range(n))
            peer = bytes.fromhex(self.ref.call("xdh_pub", curve=curve, d=d2)["pub"])
            want = self.ref.out("xdh", curve=curve, d=a["d"], peer=peer)
            rv, val = self.derive_value({"m": K.CKM_ECDH1_DERIVE, "p": {"ecdh": {"kdf": K.CKD_NULL, "pub": peer.hex()}}}, base, len(want))
        if rv != 0:
            raise self.V("C_DeriveKey failed: %s" % K.rvname(rv))
        if getattr(self, "_cut", None):
            want = want[-self._cut:]
        if val != want:
            raise self.V("derived secret differs from the reference: token %s.. (%d bytes) reference %s.. (%d bytes)" % (
                (val or b"").hex()[:40], len(val or b""), want.hex()[:40], len(want)))
        self.count("ref_equal")
        self.count("derive_equal")


if __name__ == "__main__":
    sys.exit(main(C10))
