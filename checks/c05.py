#!/usr/bin/env python3
"""C05 - token objects persist durably, faithfully and in a stable on-disk format (DESIGN.md section 2, C05)."""
import hashlib
import json
import os
import shutil
import sys

sys.path.insert(0, os.path.dirname(os.path.abspath(__file__)))
from objbase import ObjCheck  # noqa: E402
from vlib import consts as K  # noqa: E402
from vlib.env import Sandbox, Stage, Template, hx  # noqa: E402
from vlib.objects import CLASSES, census  # noqa: E402
from vlib.objworld import World, program_st  # noqa: E402
from vlib.ref import Ref  # noqa: E402
from vlib.worker import WorkerDied  # noqa: E402
from vlib.runner import VERIF, Violation, main  # noqa: E402

WEIGHTS = {"open": 3, "close": 1, "login": 3, "logout": 1, "create": 12, "copy": 3, "destroy": 3, "set": 6, "gen": 2, "genpair": 1,
           "restart": 3, "reinit": 2, "find": 1}
FIX = os.path.join(VERIF, "fixtures", "tokens")
COUNT_LOW = 0


class C05(ObjCheck):
    pid = "C05"
    level = "exploration"
    variants = ["ossl-asan", "ref"]
    world_kw = {"check_views": "never", "probe_handles": False, "judge_access": False}
    rule = ("(a) Histories of create/copy/set/destroy/generate on token and session objects of 20 classes with attributes of "
            "every kind (booleans, integers, byte strings of 0 B..4 KB [thorough: 300 KB], mechanism sets incl. empty, nested "
            "wrap/unwrap templates incl. ones ending in a byte string, dates), interleaved with C_Finalize/C_Initialize and "
            "process restarts, on the file backend and on the SQLite backend: after every restart the complete user view of each "
            "token equals the model (all values identical, destroyed objects absent, session objects gone). (b) At the same "
            "points the token directory is decoded by an independent decoder written from the format description (AES via "
            "Botan) and compared attribute by attribute with the API view. (c) Golden fixtures written by the pinned version "
            "(6 tokens x 2 backends, all attribute kinds, 6 PIN shapes) are copied and opened with the current build: PINs log "
            "in, every object reads back exactly as recorded. Non-trivial = a write followed by a restart followed by a read of "
            "a non-default attribute kind.")
    assumptions = ["fixtures were generated once by the pinned tree 4957998 (tools/mkfixtures.py) and are verified by SHA-256 before use",
                   "both backends are decoded independently (file: format description; SQLite: sqlite3 + the serialisation rules of attribute maps and mechanism sets)"]
    essential_labels = {"restarts": 300, "directories_decoded": 300, "persistence_views_checked": 600}

    def setup(self, ctx):
        ctx.shared["ref"] = Ref()
        ctx.shared["tpls"] = {b: Template(ctx.env, ntokens=2, backend=b) for b in ("file", "db")}
        ctx.shared["stages"] = {b: Stage(ctx.env, t, reuse=not ctx.replaying) for b, t in ctx.shared["tpls"].items()}

    def budget(self, tier):
        return {"examples": 3200, "shards": 16, "maxlen": 32} if tier == "quick" else {"examples": 16000, "shards": 16, "maxlen": 56}

    def strategy(self, tier):
        from hypothesis import strategies as st
        body = program_st(WEIGHTS, self.budget(tier)["maxlen"], classes=CLASSES, prefix=[("open", 0, 1), ("login", 0, "USER")])
        hist = st.tuples(st.sampled_from(["file", "file", "db"]), body).map(lambda t: {"backend": t[0], "ops": t[1]})
        from vlib import faultleg
        fault = faultleg.strategy()
        return st.sampled_from([0] * 12 + [1]).flatmap(lambda k: fault if k else hist)

    def run_fault(self, ctx, prog):
        """fault leg (clause d): a call that returns CKR_OK although a file-system operation failed must have persisted its effect"""
        from vlib import faultleg
        if "fstage" not in ctx.shared:
            ctx.shared["fstage"] = Stage(ctx.env, ctx.shared["tpls"]["file"], reuse=False)
        r = faultleg.run(ctx, prog, ctx.shared["fstage"], ctx.shared["tpls"]["file"])
        if r is None or not r["fired"]:
            ctx.label("fault_cases_not_fired")
            ctx.case(prog, False, set())
            return
        ctx.label("fault_cases")
        if r["rv"] != 0:
            ctx.label("fault_cases_call_failed")          # judged by C09 (no effect)
            ctx.case(prog, False, set())
            return
        ctx.label("fault_cases_call_ok")
        ctx.label("fault_ok_op_" + r["op"])
        if r["ref_rv"] != 0:
            raise RuntimeError("fault leg: the fault-free reference run of %s failed: %s" % (prog["call"], K.rvname(r["ref_rv"])))
        if r["disk"] != r["ref_new"]:
            where = "%s returned CKR_OK although operation %d/%d (%s%s%s) failed" % (prog["call"], r["k"], r["nops"], r["op"], ", sticky" if prog["sticky"] else "",
                                                                                    ", " + prog["errno"] if prog["errno"] else "")
            if os.environ.get("C05_FAULT_SURVEY"):
                with open(os.environ["C05_FAULT_SURVEY"], "a") as f:
                    f.write(json.dumps({"call": prog["call"], "op": r["op"], "sticky": prog["sticky"], "errno": prog["errno"], "diff": faultleg.diff(r["ref_new"], r["disk"])}) + "\n")
                return
            if ctx.known({"leg": "fault", "deviation": "ok_but_not_persisted", "op": r["op"]}):
                ctx.case(prog, True, set())
                return
            raise Violation("%s, but a fresh process does not see the effect a fault-free run has: %s" % (where, faultleg.diff(r["ref_new"], r["disk"])), prog)
        ctx.case(prog, True, set())

    def run_program(self, ctx, prog):
        if isinstance(prog, dict) and prog.get("fixture"):
            return self.run_fixture(ctx, prog)
        if isinstance(prog, dict) and prog.get("fault"):
            return self.run_fault(ctx, prog)
        backend = prog["backend"]
        stage = ctx.shared["stages"][backend]
        if backend == "db" and ctx.kf.entry("KF-C20-01") and ctx.kf.entry("KF-C20-01")["status"].startswith("open"):
            # known finding excluded by construction: C_CopyObject is unusable on the SQLite backend
            n0 = len(prog["ops"])
            prog = {"backend": backend, "ops": [op for op in prog["ops"] if op[0] != "copy"]}
            ctx.label("excluded_db_copy_ops", n0 - len(prog["ops"]))
        w = stage.fresh()
        world = World(ctx, w, ctx.shared["tpls"][backend].tokens, prog["ops"], stage=stage, ref=ctx.shared["ref"], **self.world_kw)
        world.run()
        world.step = len(prog["ops"])
        world.op_restart()
        nt = world.counts.get("restarts", 0) >= 2 and (world.counts.get("set_ok", 0) > 0 or any(o.token for o in world.objs.values()))
        for k, v in world.counts.items():
            ctx.label(k, v)
        ctx.label("backend_" + backend)
        ctx.case(prog, nt, [])

    def probe_known(self, ctx, entry):
        if entry["id"] != "KF-C20-01":
            return False
        stage = ctx.shared["stages"]["db"]
        w = stage.fresh()
        tok = ctx.shared["tpls"]["db"].tokens[0]
        s = w.C_OpenSession(slot=tok.slot, flags=6)["h"]
        from vlib.objects import T
        h = w.C_CreateObject(s=s, tpl=T(("CKA_CLASS", "CKO_DATA"), ("CKA_TOKEN", True), ("CKA_PRIVATE", False), ("CKA_LABEL", b"kf-src"), ("CKA_VALUE", b"v")))["h"]
        r = w.C_CopyObject(s=s, o=h, tpl=T(("CKA_LABEL", b"kf-copy")))
        if r["rv"] != K.CKR_OK:
            return True
        v = w.readattrs(s=s, o=r["h"], types=[K.CKA_VALUE, K.CKA_TOKEN])["attrs"]
        return v[str(K.CKA_VALUE)][1] != b"v".hex() or v[str(K.CKA_TOKEN)][1] != "01"

    # -- golden fixtures ---------------------------------------------------------------------------------
    def extra(self, ctx, tier, shard, nshards):
        sums = open(os.path.join(FIX, "SHA256SUMS")).read().split("\n")
        for line in sums:
            if not line.strip():
                continue
            h, rel = line.split("  ", 1)
            if hashlib.sha256(open(os.path.join(FIX, rel), "rb").read()).hexdigest() != h:
                raise RuntimeError("fixture file %s was modified" % rel)
        man = json.load(open(os.path.join(FIX, "manifest.json")))
        n = 0
        for backend in sorted(man["tokens"]):
            for name in sorted(man["tokens"][backend]):
                n += 1
                if n % nshards != shard:
                    continue
                prog = {"fixture": True, "backend": backend, "token": name}
                try:
                    self.run_fixture(ctx, prog)
                except Violation as v:
                    v.program = prog
                    return v
        # deterministic sweep of the fault leg (clause d) over every call kind and (a stated subset of / all) its file-system operations
        from vlib import faultleg
        if "fstage" not in ctx.shared:
            ctx.shared["fstage"] = Stage(ctx.env, ctx.shared["tpls"]["file"], reuse=False)
        cells, total = faultleg.sweep_cells(ctx, tier, shard, nshards, ctx.shared["fstage"], ctx.shared["tpls"]["file"])
        ctx.extra["fault_sweep_cells_total"] = total if shard == 0 else 0
        for prog in cells:
            try:
                self.run_fault(ctx, prog)
                ctx.label("fault_sweep_cells")
            except Violation as v:
                v.program = prog
                return v
            except WorkerDied as d:
                v = self.on_worker_death(ctx, prog, d)
                if v is not None:
                    return v
        return None

    def run_fixture(self, ctx, prog):
        man = json.load(open(os.path.join(FIX, "manifest.json")))
        backend, name = prog["backend"], prog["token"]
        rec = man["tokens"][backend][name]
        sb = ctx.env.sandbox(backend=backend)
        shutil.rmtree(sb.tokendir)
        shutil.copytree(os.path.join(FIX, backend), sb.tokendir)
        w = sb.worker()
        try:
            r = w.C_Initialize()
            if r["rv"] != 0:
                raise Violation("fixture %s/%s: C_Initialize on the golden token directory failed: %s" % (backend, name, K.rvname(r["rv"])), prog)
            slot = rec["slot"]
            ti = w.C_GetTokenInfo(slot=slot)
            if ti["rv"] != 0:
                raise Violation("fixture %s/%s: the token is not found under the slot derived from its serial (%d): %s" % (backend, name, slot, K.rvname(ti["rv"])), prog)
            if bytes.fromhex(ti["label"]).decode().rstrip() != rec["label"] or bytes.fromhex(ti["serial"]).decode() != rec["serial"]:
                raise Violation("fixture %s/%s: label/serial read back differently" % (backend, name), prog)
            mask = ~(K.CKF_SO_PIN_COUNT_LOW | K.CKF_USER_PIN_COUNT_LOW) & 0xFFFFFFFF
            if ti["flags"] & mask != rec["flags"] & mask:
                raise Violation("fixture %s/%s: token flags 0x%x, recorded 0x%x" % (backend, name, ti["flags"], rec["flags"]), prog)
            s = w.C_OpenSession(slot=slot, flags=6)["h"]

            def view():
                rv, objs = census(w, s)
                if rv != 0:
                    raise Violation("fixture %s/%s: census failed: %s" % (backend, name, K.rvname(rv)), prog)
                return sorted([{str(t): v for t, v in a.items()} for a in objs.values()], key=lambda d: json.dumps(d, sort_keys=True))

            def same(got, want, what):
                got = json.loads(json.dumps(got))
                if got != want:
                    for g, w_ in zip(got, want):
                        if g != w_:
                            diff = {K.name("CKA", int(t)): (str(g.get(t))[:60], str(w_.get(t))[:60]) for t in set(g) | set(w_) if g.get(t) != w_.get(t)}
                            raise Violation("fixture %s/%s: %s differs from what the pinned version returned (now, recorded): %s" % (backend, name, what, diff), prog)
                    raise Violation("fixture %s/%s: %s: %d objects now, %d recorded" % (backend, name, what, len(got), len(want)), prog)
            same(view(), rec["public_view"], "the public view")
            if rec["user_pin"] is not None:
                rv = w.C_Login(s=s, user=K.CKU_USER, pin=rec["user_pin"])["rv"]
                if rv != 0:
                    raise Violation("fixture %s/%s: the recorded user PIN does not log in: %s" % (backend, name, K.rvname(rv)), prog)
                same(view(), rec["user_view"], "the user view")
                w.C_Logout(s=s)
                wrong = bytes.fromhex(rec["user_pin"])[:-1] + b"\x7e"
                if w.C_Login(s=s, user=K.CKU_USER, pin=wrong.hex())["rv"] == 0:
                    raise Violation("fixture %s/%s: a wrong user PIN logs in" % (backend, name), prog)
            rv = w.C_Login(s=s, user=K.CKU_SO, pin=rec["so_pin"])["rv"]
            if rv != 0:
                raise Violation("fixture %s/%s: the recorded SO PIN does not log in: %s" % (backend, name, K.rvname(rv)), prog)
            ctx.label("fixtures_checked")
            ctx.label("fixture_objects_compared", len(rec["public_view"]) + len(rec.get("user_view", [])))
            ctx.case(prog, True, ["fixture"])
        finally:
            w.close()
            sb.remove()


if __name__ == "__main__":
    sys.exit(main(C05))
