#!/usr/bin/env python3
"""C11 - handles are never reused and die exactly with what they denote (DESIGN.md section 2, C11)."""
import os
import sys

sys.path.insert(0, os.path.dirname(os.path.abspath(__file__)))
from objbase import ObjCheck  # noqa: E402
from vlib.objworld import program_st  # noqa: E402
from vlib.runner import main  # noqa: E402

WEIGHTS = {"open": 5, "close": 3, "closeall": 1, "login": 3, "logout": 2, "create": 8, "copy": 2, "destroy": 2,
           "find": 3, "gen": 1, "genpair": 1, "set": 1}


class C11(ObjCheck):
    pid = "C11"
    level = "exploration"
    world_kw = {"check_views": "lifecycle", "probe_handles": True, "judge_access": False}
    rule = ("Histories of open/close/close-all, login/logout, create/copy/generate/find/destroy over <= 12 sessions and 2 "
            "tokens; session and object references resolved modulo everything ever issued (stale handles included). The "
            "model records every handle ever issued with what it denotes; after EVERY call all session handles and the 200 "
            "most recent object handles are probed (C_GetSessionInfo / C_GetObjectSize through a session of the handle's own "
            "token, or a temporary session when the token has none) and must be alive exactly when the model says so; every "
            "returned handle is checked against all handles issued before. Searches must return, for re-found token "
            "objects, either their still-valid handle or a never-used one. Non-trivial = a history in which some handles "
            "die while other handles of the same slot survive.")
    assumptions = ["C_GetObjectSize is used as liveness probe: it performs handle validation but no access check",
                   "liveness of object handles is probed through a session of the handle's own token"]
    essential_labels = {"partial_death": 40}

    def budget(self, tier):
        return {"examples": 4800, "shards": 16, "maxlen": 40} if tier == "quick" else {"examples": 16000, "shards": 16, "maxlen": 80}

    def strategy(self, tier):
        return program_st(WEIGHTS, self.budget(tier)["maxlen"], classes=["data", "aes", "rsa_pub", "ec_priv", "cert_x509", "generic"],
                          prefix=[("open", 0, 1), ("login", 0, "USER")])

    def make_world(self, ctx, prog):
        world = ObjCheck.make_world(self, ctx, prog)
        orig_logout, orig_closed, orig_destroy = world.on_logout, world.on_session_closed, world.kill_obj

        def survivors(tok):
            return sum(1 for h, oid in world.hmap.items() if world.objs[oid].tok == tok)

        def on_logout(tok):
            before = survivors(tok)
            orig_logout(tok)
            after = survivors(tok)
            if 0 < after < before:
                world.labels.add("partial_death")
                world.nontrivial = True

        def on_closed(sh):
            tok = world.sessions[sh][0]
            before = survivors(tok)
            orig_closed(sh)
            after = survivors(tok)
            if (0 < after < before) or (after > 0 and after == before and world.tok_sessions(tok)):
                world.labels.add("partial_death")
                world.nontrivial = True
        world.on_logout = on_logout
        world.on_session_closed = on_closed
        return world


if __name__ == "__main__":
    sys.exit(main(C11))
