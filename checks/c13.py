#!/usr/bin/env python3
"""C13 - wrap, unwrap and derive produce exactly the specified keys (DESIGN.md section 2, C13)."""
import os
import sys

sys.path.insert(0, os.path.join(os.path.dirname(os.path.abspath(__file__)), "..", "py"))
from hypothesis import strategies as st  # noqa: E402

from vlib import consts as K  # noqa: E402
from vlib.env import Stage, Template  # noqa: E402
from vlib.objects import A, T, keypool, usage_all  # noqa: E402
from vlib.ref import Ref, RefError  # noqa: E402
from vlib.runner import Check, Violation, main  # noqa: E402

RW = K.CKF_SERIAL_SESSION | K.CKF_RW_SESSION
WRAP_MECHS = ["AES_KEY_WRAP", "AES_KEY_WRAP_PAD", "RSA_PKCS", "RSA_OAEP", "AES_CBC", "AES_CBC_PAD", "DES3_CBC_PAD"]
TARGETS = ["aes16", "aes24", "aes32", "generic", "generic", "des3", "rsa_priv", "ec_priv", "dsa_priv", "dh_priv", "ed_priv"]
DERIVES = ["AES_ECB_ENCRYPT_DATA", "AES_CBC_ENCRYPT_DATA", "DES3_ECB_ENCRYPT_DATA", "DES3_CBC_ENCRYPT_DATA", "CONCATENATE_BASE_AND_DATA",
           "CONCATENATE_DATA_AND_BASE", "CONCATENATE_BASE_AND_KEY"]
KT = {"aes": "CKK_AES", "generic": "CKK_GENERIC_SECRET", "des3": "CKK_DES3", "des2": "CKK_DES2", "des": "CKK_DES"}


def odd_parity(b):
    out = bytearray()
    for x in b:
        x &= 0xFE
        if bin(x).count("1") % 2 == 0:
            x |= 1
        out.append(x)
    return bytes(out)


def flip(b, bit):
    i = (bit // 8) % len(b)
    return b[:i] + bytes([b[i] ^ (1 << (bit % 8))]) + b[i + 1:]


class C13(Check):
    pid = "C13"
    level = "exploration"
    variants = ["ossl-asan", "ref"]
    rule = ("Cases: (a) wrap mechanism (AES-KEY-WRAP, AES-KEY-WRAP-PAD, RSA-PKCS, RSA-OAEP, AES-CBC, AES-CBC-PAD; unwrap also "
            "DES3-CBC-PAD) x wrapping key (AES-128/192/256, RSA-1024..2048, 3DES) x wrapped key (AES 16/24/32, generic 1..64 "
            "bytes incl. non block multiples, 3DES, RSA/DSA/DH/EC/EdDSA private keys) x generated IV x unwrap template; the "
            "token's blob is unwrapped by the reference (RFC 3394/5649, PKCS#1 v1.5, OAEP, CBC+PKCS#7 under the caller's IV, "
            "PKCS#8 parsed by Botan) and by the token, the reference's blob by the token; truncated / bit-flipped / empty "
            "blobs must be rejected and create no object (census). (b) derive mechanism (AES/3DES ECB/CBC_ENCRYPT_DATA, 3 "
            "CONCATENATE) x base key x data length x requested type/length: value == reference encryption / concatenation cut "
            "to the requested length, DES parity adjusted. (c) every non-empty CKA_CHECK_VALUE of every secret key seen == "
            "reference KCV. (d) CKA_WRAP_TEMPLATE / CKA_UNWRAP_TEMPLATE honoured. Non-trivial = wrapped key length not a block "
            "multiple, a non-zero IV, a private-key wrap, a malformed blob, or a derive with truncation.")
    assumptions = ["Botan 2.19 (reference unwrap / PKCS#8 parser) is trusted", "flipping a bit of an RSA-PKCS#1 v1.5 or CBC-PAD blob may still unpad by chance: only 'no object when rejected' is judged there"]
    essential_labels = {"interop_ref_unwraps_token": 500, "interop_token_unwraps_ref": 500, "malformed_rejected": 400, "kcv_checked": 700,
                        "derive_equal": 500, "pkcs8_interop": 200}

    def setup(self, ctx):
        ctx.shared["tpl"] = Template(ctx.env, ntokens=1)
        ctx.shared["stage"] = Stage(ctx.env, ctx.shared["tpl"], reuse=not ctx.replaying)
        ctx.shared["ref"] = Ref()

    def budget(self, tier):
        return {"examples": 4800, "shards": 16} if tier == "quick" else {"examples": 64000, "shards": 16}

    def strategy(self, tier):
        return st.fixed_dictionaries({
            "what": st.sampled_from(["wrap", "wrap", "wrap", "derive", "derive", "template", "kex"]),
            "mech": st.integers(0, 20),
            "wkey": st.integers(0, 7),
            "target": st.sampled_from(TARGETS),
            "tlen": st.integers(1, 64),
            "seed": st.integers(0, 255),
            "iv": st.one_of(st.just("00" * 16), st.binary(min_size=16, max_size=16).map(lambda b: b.hex())),
            "mal": st.sampled_from(["none", "none", "trunc1", "trunc8", "flip", "empty", "extend"]),
            "bit": st.integers(0, 4095),
            "derive": st.sampled_from(DERIVES),
            "dlen": st.integers(0, 5),
            "want_type": st.sampled_from(["generic", "generic", "aes", "des3", "des2", "des"]),
            "want_len": st.integers(0, 70),
            "tplmatch": st.booleans(),
        })

    def on_worker_death(self, ctx, prog, d):
        if prog.get("what") == "wrap" and prog.get("mal") != "none":
            return Violation("%s: the library process died (%s %s) while unwrapping a malformed blob (%s) instead of rejecting it" % (
                getattr(self, "_desc", "wrap"), d.how, d.detail, prog["mal"]), prog)
        return Check.on_worker_death(self, ctx, prog, d)

    def V(self, msg):
        return Violation("%s: %s" % (self._desc, msg), self._prog)

    def count(self, k, n=1):
        self._ctx.label(k, n)

    def mk(self, tpl, kind, extra=()):
        r = self.w.C_CreateObject(s=self.s, tpl=tpl + T(*usage_all(kind)) + list(extra))
        if r["rv"] != 0:
            raise RuntimeError("key import failed: %s" % K.rvname(r["rv"]))
        return r["h"]

    def read(self, h, names):
        r = self.w.readattrs(s=self.s, o=h, types=[K.C[n] for n in names])["attrs"]
        out = {}
        for n in names:
            rv, v, ln = r[str(K.C[n])]
            out[n] = bytes.fromhex(v) if rv == 0 and v is not None else None
        return out

    def nobjects(self):
        return len(self.w.findall(s=self.s)["h"])

    def check_kcv(self, h, kind, value, how):
        cv = self.read(h, ["CKA_CHECK_VALUE"])["CKA_CHECK_VALUE"]
        if not cv:
            return
        alg = {"aes": "AES", "des3": "3DES", "des2": "3DES", "des": "DES", "generic": "GENERIC"}[kind]
        try:
            want = self.ref.out("kcv", alg=alg, key=value)
        except RefError:
            return
        self.count("kcv_checked")
        if cv != want[:len(cv)] or len(cv) != 3:
            raise self.V("CKA_CHECK_VALUE of the %s key (%s, %d bytes) is %s, the standard check value is %s" % (kind, how, len(value), cv.hex(), want.hex()))

    # ----------------------------------------------------------------------------------------------
    def run_program(self, ctx, prog):
        self._ctx, self._prog = ctx, prog
        self._desc = prog["what"]
        self.w = ctx.shared["stage"].fresh()
        self.ref = ctx.shared["ref"]
        self.s = self.w.C_OpenSession(slot=ctx.shared["tpl"].tokens[0].slot, flags=RW)["h"]
        ctx.steps += 1
        self.nt = False
        try:
            getattr(self, "c_" + prog["what"])(prog)
        except RefError as e:
            self.count("ref_cannot_express")
            self.count("ref_error_" + str(e)[:40].replace(" ", "_"))
        ctx.case(prog, self.nt, [prog["what"]])


    # -- PKCS#7 padding of the CBC_PAD wrap formats: complete small-scope enumeration -------------------------------------------
    def pad_cells(self):
        """every padding length N of a block with (a) the valid padding, (b) each single padding byte replaced, (c) the length byte itself
        replaced by 0 / N-1 / N+1 / blocksize+1 / 0xFF; for AES (16) and DES3 (8), two key-value lengths each"""
        cells = []
        for mname, bs in (("AES_CBC_PAD", 16), ("DES3_CBC_PAD", 8)):
            for n in range(1, bs + 1):
                cells.append(["padcell", mname, n, "valid", 0])
                for j in range(n - 1):
                    cells.append(["padcell", mname, n, "wrongbyte", j])
                for v in ("zero", "minus1", "plus1", "bs_plus1", "ff"):
                    cells.append(["padcell", mname, n, "lastbyte_" + v, 0])
        return cells

    def extra(self, ctx, tier, shard, nshards):
        cells = self.pad_cells()
        ctx.extra["pad_cells_total"] = len(cells) if shard == 0 else 0
        for i, cell in enumerate(cells):
            if i % nshards != shard:
                continue
            prog = {"what": "padcell", "cell": cell, "seed": 9, "iv": "5a" * 16, "wkey": i % 3}
            try:
                self.run_program(ctx, prog)
            except Violation as v:
                v.program = prog
                return v
        return None

    def c_padcell(self, p):
        _, mname, n, how, j = p["cell"]
        bs = 16 if mname.startswith("AES") else 8
        self._desc = "unwrap %s, padding length %d, %s%s" % (mname, n, how, (" at %d" % j) if how == "wrongbyte" else "")
        wh, uh, ref_wrap, ref_unwrap, mech = self.wrapper(p, mname)
        iv = bytes.fromhex(p["iv"])[:bs]
        # the key value fills the rest of two blocks: 2*bs - n bytes (>= bs), so every N is a legal padding of a generic secret
        val = bytes((0x21 + i * 7) & 0xFF for i in range(2 * bs - n))
        pad = bytearray([n] * n)
        valid = how == "valid"
        if how == "wrongbyte":
            pad[j] ^= 0x01
        elif how.startswith("lastbyte_"):
            v = {"zero": 0, "minus1": n - 1, "plus1": n + 1, "bs_plus1": bs + 1, "ff": 0xFF}[how[9:]]
            if v == n:
                return
            pad[-1] = v
            if v == n + 1 and n + 1 <= bs and all(b == n + 1 for b in (val + bytes(pad))[-(n + 1):]):
                return          # would be a valid padding of another length
            if 0 < v < n:
                # ... v bytes of value v at the end? only then it is a valid (shorter) padding: not the case here, the byte before is n
                if v == 1:
                    valid = "shorter"    # a single 0x01 at the end IS a valid padding of length 1: the value is then longer
        plain = val + bytes(pad)
        kek_alg = "AES" if bs == 16 else "3DES"
        sd = p["seed"]
        if bs == 16:
            klen = [16, 24, 32][p["wkey"] % 3]
            kek = bytes((sd + 0x40 + i * 3) & 0xFF for i in range(klen))
        else:
            kek = odd_parity(bytes((sd + 0x33 + i * 5) & 0xFF for i in range(24)))
        blob = self.ref.out("cipher", alg=kek_alg, mode="CBC", dir="enc", key=kek, iv=iv, data=plain)
        utpl = T(("CKA_CLASS", "CKO_SECRET_KEY"), ("CKA_KEY_TYPE", "CKK_GENERIC_SECRET"), ("CKA_TOKEN", False), ("CKA_PRIVATE", False), ("CKA_SENSITIVE", False),
                 ("CKA_EXTRACTABLE", True))
        before = self.nobjects()
        r = self.w.C_UnwrapKey(s=self.s, mech=mech, key=uh, data=blob.hex(), tpl=utpl)
        self.nt = True
        if valid is True or valid == "shorter":
            want = val if valid is True else plain[:-1]
            if r["rv"] != K.CKR_OK:
                raise self.V("a blob with a valid PKCS#7 padding is refused: %s" % K.rvname(r["rv"]))
            got = self.read(r["h"], ["CKA_VALUE"])["CKA_VALUE"]
            if got != want:
                raise self.V("unwrapped value is %s.. (%d bytes), the padded plaintext carries %s.. (%d bytes)" % ((got or b"").hex()[:40], len(got or b""), want.hex()[:40], len(want)))
            self.count("padding_valid_accepted")
            self.w.C_DestroyObject(s=self.s, o=r["h"])
            return
        if r["rv"] == K.CKR_OK:
            got = self.read(r["h"], ["CKA_VALUE"])["CKA_VALUE"]
            raise self.V("a blob whose PKCS#7 padding is malformed (plaintext ends in %s) was unwrapped into a %d-byte key" % (plain[-(n + 1):].hex(), len(got or b"")))
        if self.nobjects() != before:
            raise self.V("a rejected malformed blob left an object behind")
        self.count("padding_malformed_rejected")

    # -- material ---------------------------------------------------------------------------------------
    def target(self, p):
        """-> (handle, kind, secret bytes or None, pkcs8 components or None, unwrap template)"""
        t = p["target"]
        kp = keypool()
        sd = p["seed"]
        if t.startswith("aes"):
            n = int(t[3:])
            val = bytes((sd * 5 + i * 9 + 1) & 0xFF for i in range(n))
            h = self.mk(T(("CKA_CLASS", "CKO_SECRET_KEY"), ("CKA_KEY_TYPE", "CKK_AES"), ("CKA_VALUE", val)), "secret")
            return h, "aes", val, None, T(("CKA_CLASS", "CKO_SECRET_KEY"), ("CKA_KEY_TYPE", "CKK_AES"))
        if t == "generic":
            val = bytes((sd * 3 + i * 7 + 2) & 0xFF for i in range(p["tlen"]))
            h = self.mk(T(("CKA_CLASS", "CKO_SECRET_KEY"), ("CKA_KEY_TYPE", "CKK_GENERIC_SECRET"), ("CKA_VALUE", val)), "secret")
            return h, "generic", val, None, T(("CKA_CLASS", "CKO_SECRET_KEY"), ("CKA_KEY_TYPE", "CKK_GENERIC_SECRET"))
        if t == "des3":
            val = odd_parity(bytes((sd * 11 + i * 3 + 4) & 0xFF for i in range(24)))
            h = self.mk(T(("CKA_CLASS", "CKO_SECRET_KEY"), ("CKA_KEY_TYPE", "CKK_DES3"), ("CKA_VALUE", val)), "secret")
            return h, "des3", val, None, T(("CKA_CLASS", "CKO_SECRET_KEY"), ("CKA_KEY_TYPE", "CKK_DES3"))
        if t == "rsa_priv":
            k = kp["rsa"][sd % len(kp["rsa"])]
            h = self.mk(T(("CKA_CLASS", "CKO_PRIVATE_KEY"), ("CKA_KEY_TYPE", "CKK_RSA"), ("CKA_MODULUS", k["n"]), ("CKA_PUBLIC_EXPONENT", k["e"]),
                          ("CKA_PRIVATE_EXPONENT", k["d"]), ("CKA_PRIME_1", k["p"]), ("CKA_PRIME_2", k["q"]), ("CKA_EXPONENT_1", k["dp"]),
                          ("CKA_EXPONENT_2", k["dq"]), ("CKA_COEFFICIENT", k["qinv"])), "private")
            return h, "rsa_priv", None, {"type": "RSA", "n": k["n"], "e": k["e"], "d": k["d"], "p": k["p"], "q": k["q"]}, \
                T(("CKA_CLASS", "CKO_PRIVATE_KEY"), ("CKA_KEY_TYPE", "CKK_RSA"))
        if t == "ec_priv":
            k = kp["ec"][sd % len(kp["ec"])]
            h = self.mk(T(("CKA_CLASS", "CKO_PRIVATE_KEY"), ("CKA_KEY_TYPE", "CKK_EC"), ("CKA_EC_PARAMS", k["params"]), ("CKA_VALUE", k["d"])), "private")
            return h, "ec_priv", None, {"type": "EC", "d": k["d"], "params": k["params"]}, T(("CKA_CLASS", "CKO_PRIVATE_KEY"), ("CKA_KEY_TYPE", "CKK_EC"))
        if t == "dsa_priv":
            k = kp["dsa"][sd % len(kp["dsa"])]
            h = self.mk(T(("CKA_CLASS", "CKO_PRIVATE_KEY"), ("CKA_KEY_TYPE", "CKK_DSA"), ("CKA_PRIME", k["p"]), ("CKA_SUBPRIME", k["q"]), ("CKA_BASE", k["g"]), ("CKA_VALUE", k["x"])), "private")
            return h, "dsa_priv", None, {"type": "DSA", "p": k["p"], "q": k["q"], "g": k["g"], "x": k["x"]}, T(("CKA_CLASS", "CKO_PRIVATE_KEY"), ("CKA_KEY_TYPE", "CKK_DSA"))
        if t == "dh_priv":
            k = kp["dh"][sd % len(kp["dh"])]
            h = self.mk(T(("CKA_CLASS", "CKO_PRIVATE_KEY"), ("CKA_KEY_TYPE", "CKK_DH"), ("CKA_PRIME", k["p"]), ("CKA_BASE", k["g"]), ("CKA_VALUE", k["x"])), "private")
            return h, "dh_priv", None, {"type": "DH", "p": k["p"], "g": k["g"], "x": k["x"]}, T(("CKA_CLASS", "CKO_PRIVATE_KEY"), ("CKA_KEY_TYPE", "CKK_DH"))
        k = kp["ed"][sd % len(kp["ed"])]
        h = self.mk(T(("CKA_CLASS", "CKO_PRIVATE_KEY"), ("CKA_KEY_TYPE", "CKK_EC_EDWARDS"), ("CKA_EC_PARAMS", k["params"]), ("CKA_VALUE", k["d"])), "private")
        return h, "ed_priv", None, {"type": k["curve"], "d": k["d"]}, T(("CKA_CLASS", "CKO_PRIVATE_KEY"), ("CKA_KEY_TYPE", "CKK_EC_EDWARDS"))

    def wrapper(self, p, mname):
        """-> (wrap handle, unwrap handle, reference closure wrap(data)->blob, unwrap(blob)->data, mech dict)"""
        kp = keypool()
        sd = p["seed"]
        iv = bytes.fromhex(p["iv"])
        if mname in ("AES_KEY_WRAP", "AES_KEY_WRAP_PAD", "AES_CBC", "AES_CBC_PAD"):
            klen = [16, 24, 32][p["wkey"] % 3]
            kek = bytes((sd + 0x40 + i * 3) & 0xFF for i in range(klen))
            h = self.mk(T(("CKA_CLASS", "CKO_SECRET_KEY"), ("CKA_KEY_TYPE", "CKK_AES"), ("CKA_VALUE", kek)), "secret")
            if mname.startswith("AES_KEY_WRAP"):
                mode = "rfc3394" if mname == "AES_KEY_WRAP" else "rfc5649"
                mech = {"m": K.C["CKM_" + mname]}
                return h, h, (lambda d: self.ref.out("keywrap", mode=mode, dir="wrap", kek=kek, data=d)), \
                    (lambda b: self.ref.out("keywrap", mode=mode, dir="unwrap", kek=kek, data=b)), mech
            mode = "CBC" if mname == "AES_CBC" else "CBC_PAD"
            mech = {"m": K.C["CKM_" + mname], "p": {"raw": iv.hex()}}
            return h, h, (lambda d: self.ref.out("cipher", alg="AES", mode=mode, dir="enc", key=kek, iv=iv, data=d)), \
                (lambda b: self.ref.out("cipher", alg="AES", mode=mode, dir="dec", key=kek, iv=iv, data=b)), mech
        if mname == "DES3_CBC_PAD":
            kek = odd_parity(bytes((sd + 0x33 + i * 5) & 0xFF for i in range(24)))
            h = self.mk(T(("CKA_CLASS", "CKO_SECRET_KEY"), ("CKA_KEY_TYPE", "CKK_DES3"), ("CKA_VALUE", kek)), "secret")
            mech = {"m": K.CKM_DES3_CBC_PAD, "p": {"raw": iv[:8].hex()}}
            return h, h, (lambda d: self.ref.out("cipher", alg="3DES", mode="CBC_PAD", dir="enc", key=kek, iv=iv[:8], data=d)), \
                (lambda b: self.ref.out("cipher", alg="3DES", mode="CBC_PAD", dir="dec", key=kek, iv=iv[:8], data=b)), mech
        k = kp["rsa"][p["wkey"] % len(kp["rsa"])]
        pub = self.mk(T(("CKA_CLASS", "CKO_PUBLIC_KEY"), ("CKA_KEY_TYPE", "CKK_RSA"), ("CKA_MODULUS", k["n"]), ("CKA_PUBLIC_EXPONENT", k["e"])), "public")
        prv = self.mk(T(("CKA_CLASS", "CKO_PRIVATE_KEY"), ("CKA_KEY_TYPE", "CKK_RSA"), ("CKA_MODULUS", k["n"]), ("CKA_PUBLIC_EXPONENT", k["e"]),
                        ("CKA_PRIVATE_EXPONENT", k["d"]), ("CKA_PRIME_1", k["p"]), ("CKA_PRIME_2", k["q"]), ("CKA_EXPONENT_1", k["dp"]),
                        ("CKA_EXPONENT_2", k["dq"]), ("CKA_COEFFICIENT", k["qinv"])), "private")
        pad = "pkcs1" if mname == "RSA_PKCS" else "oaep"
        mech = {"m": K.CKM_RSA_PKCS} if pad == "pkcs1" else {"m": K.CKM_RSA_PKCS_OAEP, "p": {"oaep": {"hash": K.CKM_SHA_1, "mgf": K.CKG_MGF1_SHA1, "source": K.CKZ_DATA_SPECIFIED}}}
        rk = dict(n=k["n"], e=k["e"], d=k["d"], p=k["p"], q=k["q"])
        return pub, prv, (lambda d: self.ref.out("rsa_encrypt", n=k["n"], e=k["e"], pad=pad, hash="SHA-1", label=b"", msg=d)), \
            (lambda b: self.ref.out("rsa_decrypt", pad=pad, hash="SHA-1", label=b"", ct=b, **rk)), mech

    # -- wrap / unwrap ---------------------------------------------------------------------------------------
    def c_wrap(self, p):
        mname = WRAP_MECHS[p["mech"] % len(WRAP_MECHS)]
        th, kind, val, comps, utpl = self.target(p)
        wh, uh, ref_wrap, ref_unwrap, mech = self.wrapper(p, mname)
        self._desc = "wrap %s of a %s key%s" % (mname, kind, (" (%d bytes)" % len(val)) if val else "")
        secret = val is not None
        if secret:
            self.check_kcv(th, kind, val, "C_CreateObject")
        utpl = utpl + T(("CKA_TOKEN", False), ("CKA_PRIVATE", False), ("CKA_SENSITIVE", False), ("CKA_EXTRACTABLE", True), ("CKA_LABEL", b"unwrapped-%d" % p["seed"]),
                        ("CKA_ID", bytes([p["seed"]]) * 3))
        if p["iv"] != "00" * 16 and "CBC" in mname:
            self.nt = True
        if not secret or (val and len(val) % 8):
            self.nt = True
        blob = None
        if mname != "DES3_CBC_PAD":
            r = self.w.C_WrapKey(s=self.s, mech=mech, wkey=wh, key=th, out=8192)
            if r["rv"] == K.CKR_OK:
                blob = bytes.fromhex(r["out"]["data"])
            else:
                self.count("wrap_refused_%s_%s" % (mname, kind if not secret else kind + ("_blockmultiple" if len(val) % 16 == 0 else "_odd")))
        # (ii) the reference unwraps the token's blob
        if blob is not None:
            plain = None
            try:
                plain = ref_unwrap(blob)
            except RefError as e:
                raise self.V("the reference cannot unwrap the token's blob (%s)" % e)
            if secret:
                want = val
                if mname == "AES_KEY_WRAP" and len(val) % 8:
                    want = val + bytes(8 - len(val) % 8)
                if mname == "AES_CBC" and len(val) % 16:
                    want = None
                if want is not None and plain != want:
                    raise self.V("the reference unwraps the token's blob to %s.., the key value is %s.." % (plain.hex()[:48], want.hex()[:48]))
            else:
                if mname == "AES_KEY_WRAP" and len(plain) > 4 and plain[0] == 0x30:
                    # RFC 3394 carries no length: the PKCS#8 DER was zero-padded to a multiple of 8; cut at the DER length
                    if plain[1] < 0x80:
                        n = 2 + plain[1]
                    else:
                        k_ = plain[1] & 0x7F
                        n = 2 + k_ + int.from_bytes(plain[2:2 + k_], "big")
                    if n <= len(plain) and n > len(plain) - 8 and not any(plain[n:]):
                        plain = plain[:n]
                try:
                    parsed = self.ref.call("pkcs8_parse", der=plain)
                except RefError as e:
                    raise self.V("the wrapped private key is not valid PKCS#8 for the reference (%s)" % e)
                self.compare_pkcs8(parsed, comps)
                self.count("pkcs8_interop")
            self.count("interop_ref_unwraps_token")
        # (i) + (ii) the token unwraps its own and the reference's blob
        sources = []
        if blob is not None and mname != "AES_CBC":
            sources.append(("token", blob))
        if mname not in ("AES_CBC",):
            try:
                if secret:
                    data = val
                    if mname == "AES_KEY_WRAP" and len(val) % 8:
                        data = None
                    if data is not None:
                        sources.append(("reference", ref_wrap(data)))
                else:
                    der = bytes.fromhex(self.ref.call("pkcs8_make", **self.pkcs8_args(comps))["der"])
                    if mname in ("RSA_PKCS", "RSA_OAEP"):
                        der = None      # too long for RSA and the token refuses private keys there
                    if der is not None and not (mname == "AES_KEY_WRAP" and len(der) % 8):
                        sources.append(("reference", ref_wrap(der)))
            except RefError:
                self.count("ref_cannot_wrap")
        before = self.nobjects()
        for who, b in sources:
            r = self.w.C_UnwrapKey(s=self.s, mech=mech, key=uh, data=b.hex(), tpl=utpl)
            if r["rv"] != K.CKR_OK:
                raise self.V("the token fails to unwrap the %s's blob: %s" % (who, K.rvname(r["rv"])))
            nh = r["h"]
            got = self.read(nh, ["CKA_VALUE", "CKA_LABEL", "CKA_ID", "CKA_LOCAL", "CKA_NEVER_EXTRACTABLE", "CKA_ALWAYS_SENSITIVE", "CKA_KEY_TYPE", "CKA_CLASS",
                                 "CKA_PRIVATE_EXPONENT", "CKA_PRIME", "CKA_EC_PARAMS", "CKA_MODULUS"])
            if secret:
                want = val
                if mname == "AES_KEY_WRAP" and len(val) % 8:
                    want = val + bytes(8 - len(val) % 8)
                if got["CKA_VALUE"] != want:
                    raise self.V("unwrapping the %s's blob yields value %s.., expected %s.." % (who, (got["CKA_VALUE"] or b"").hex()[:48], want.hex()[:48]))
                self.check_kcv(nh, kind, want, "C_UnwrapKey")
            else:
                self.compare_unwrapped_private(got, comps, who)
            for n in ("CKA_LOCAL", "CKA_NEVER_EXTRACTABLE", "CKA_ALWAYS_SENSITIVE"):
                if got[n] not in (b"\x00",):
                    raise self.V("unwrapped key reports %s = %s" % (n, got[n]))
            if got["CKA_LABEL"] != b"unwrapped-%d" % p["seed"] or got["CKA_ID"] != bytes([p["seed"]]) * 3:
                raise self.V("unwrapped key does not carry the supplied template (label %s id %s)" % (got["CKA_LABEL"], got["CKA_ID"]))
            self.count("interop_token_unwraps_%s" % ("ref" if who == "reference" else "token"))
            self.w.C_DestroyObject(s=self.s, o=nh)
        # (vi) malformed blobs
        if p["mal"] != "none" and sources:
            self.nt = True
            b = sources[-1][1]
            mal = {"trunc1": b[:-1], "trunc8": b[:-8], "flip": flip(b, p["bit"]), "empty": b"", "extend": b + b"\x00" * 8}[p["mal"]]
            before = self.nobjects()
            r = self.w.C_UnwrapKey(s=self.s, mech=mech, key=uh, data=mal.hex(), tpl=utpl)
            integrity = mname in ("AES_KEY_WRAP", "AES_KEY_WRAP_PAD", "RSA_OAEP")
            if r["rv"] == K.CKR_OK:
                if integrity or p["mal"] in ("empty",):
                    raise self.V("a malformed blob (%s) was unwrapped successfully" % p["mal"])
                # padding-only formats may accept by chance: the result must then at least not be the original key silently
                self.w.C_DestroyObject(s=self.s, o=r["h"])
                self.count("malformed_accepted_by_chance")
            else:
                after = self.nobjects()
                if after != before:
                    raise self.V("a rejected malformed blob (%s -> %s) left %d new object(s)" % (p["mal"], K.rvname(r["rv"]), after - before))
                if r["h"] not in (0,):
                    raise self.V("a rejected unwrap stored handle %d" % r["h"])
                self.count("malformed_rejected")

    def pkcs8_args(self, c):
        c = dict(c)
        if c["type"] == "EC":
            from_oid = {"06082a8648ce3d030107": "secp256r1", "06052b81040022": "secp384r1", "06052b81040023": "secp521r1"}
            c["curve"] = from_oid[c.pop("params")]
        return c

    def compare_pkcs8(self, parsed, comps):
        t = comps["type"]
        if parsed["type"] != t:
            raise self.V("wrapped PKCS#8 has type %s, expected %s" % (parsed["type"], t))
        for f in ("n", "e", "d", "p", "q", "g", "x"):
            if f in comps and f in parsed and int(parsed[f], 16) != int(comps[f], 16):
                raise self.V("PKCS#8 component %s differs from the wrapped key" % f)
        if t in ("EC", "Ed25519", "Ed448") and int(parsed["d"], 16) != int(comps["d"], 16):
            raise self.V("PKCS#8 private value differs from the wrapped key")

    def compare_unwrapped_private(self, got, comps, who):
        t = comps["type"]
        if t == "RSA":
            if got["CKA_PRIVATE_EXPONENT"] is None or int.from_bytes(got["CKA_PRIVATE_EXPONENT"], "big") != int(comps["d"], 16):
                raise self.V("unwrapped RSA key (%s blob) has another private exponent" % who)
            if int.from_bytes(got["CKA_MODULUS"], "big") != int(comps["n"], 16):
                raise self.V("unwrapped RSA key (%s blob) has another modulus" % who)
        else:
            f = "x" if t in ("DSA", "DH") else "d"
            if got["CKA_VALUE"] is None or int.from_bytes(got["CKA_VALUE"], "big") != int(comps[f], 16):
                raise self.V("unwrapped %s key (%s blob) has another private value" % (t, who))

    # -- derive --------------------------------------------------------------------------------------------------
    def c_derive(self, p):
        d = p["derive"]
        sd = p["seed"]
        self._desc = "derive %s -> %s/%d" % (d, p["want_type"], p["want_len"])
        if d.startswith("AES"):
            bval = bytes((sd + 7 + i * 13) & 0xFF for i in range([16, 24, 32][p["wkey"] % 3]))
            bkind = "aes"
        elif d.startswith("DES3"):
            bval = odd_parity(bytes((sd + 9 + i * 17) & 0xFF for i in range(24)))
            bkind = "des3"
        else:
            bkind = ["generic", "aes", "des3"][p["wkey"] % 3]
            n = {"generic": p["tlen"], "aes": 16, "des3": 24}[bkind]
            bval = bytes((sd + 11 + i * 19) & 0xFF for i in range(n))
            if bkind == "des3":
                bval = odd_parity(bval)
        base = self.mk(T(("CKA_CLASS", "CKO_SECRET_KEY"), ("CKA_KEY_TYPE", KT[bkind]), ("CKA_VALUE", bval)), "secret")
        bs = 16 if d.startswith("AES") else 8
        data = bytes((sd * 2 + i * 23 + 5) & 0xFF for i in range(bs * (p["dlen"] + 1)))
        iv = bytes.fromhex(p["iv"])[:bs]
        if d.endswith("ECB_ENCRYPT_DATA"):
            mech = {"m": K.C["CKM_" + d], "p": {"strdata": data.hex()}}
            full = self.ref.out("cipher", alg="AES" if bs == 16 else "3DES", mode="ECB", dir="enc", key=bval, iv=b"", data=data)
        elif d.endswith("CBC_ENCRYPT_DATA"):
            mech = {"m": K.C["CKM_" + d], "p": {"cbcenc": {"iv": iv.hex(), "data": data.hex(), "ivlen": bs}}}
            full = self.ref.out("cipher", alg="AES" if bs == 16 else "3DES", mode="CBC", dir="enc", key=bval, iv=iv, data=data)
        elif d == "CONCATENATE_BASE_AND_DATA":
            data = data[:max(1, p["dlen"] * 3 + 1)]
            mech = {"m": K.CKM_CONCATENATE_BASE_AND_DATA, "p": {"strdata": data.hex()}}
            full = bval + data
        elif d == "CONCATENATE_DATA_AND_BASE":
            data = data[:max(1, p["dlen"] * 3 + 1)]
            mech = {"m": K.CKM_CONCATENATE_DATA_AND_BASE, "p": {"strdata": data.hex()}}
            full = data + bval
        else:
            oval = bytes((sd + 99 + i * 29) & 0xFF for i in range(max(1, p["dlen"] * 4 + 1)))
            other = self.mk(T(("CKA_CLASS", "CKO_SECRET_KEY"), ("CKA_KEY_TYPE", "CKK_GENERIC_SECRET"), ("CKA_VALUE", oval)), "secret")
            mech = {"m": K.CKM_CONCATENATE_BASE_AND_KEY, "p": {"ulong": other}}
            full = bval + oval
        wt = p["want_type"]
        tpl = T(("CKA_CLASS", "CKO_SECRET_KEY"), ("CKA_KEY_TYPE", KT[wt]), ("CKA_TOKEN", False), ("CKA_PRIVATE", False), ("CKA_SENSITIVE", False),
                ("CKA_EXTRACTABLE", True))
        fixed = {"des": 8, "des2": 16, "des3": 24}.get(wt)
        want_len = fixed
        if fixed is None:
            want_len = p["want_len"]
            if wt == "aes":
                want_len = [16, 24, 32][p["want_len"] % 3]
            if want_len:
                tpl += T(("CKA_VALUE_LEN", want_len))
        before = self.nobjects()
        r = self.w.C_DeriveKey(s=self.s, mech=mech, key=base, tpl=tpl)
        if r["rv"] != K.CKR_OK:
            after = self.nobjects()
            if after != before:
                raise self.V("failed C_DeriveKey (%s) left %d new object(s)" % (K.rvname(r["rv"]), after - before))
            if want_len and want_len <= len(full) and wt in ("generic", "aes", "des3", "des2"):
                self.count("derive_refused_%s_%s" % (d, wt))
            self.count("derive_refused")
            return
        got = self.read(r["h"], ["CKA_VALUE", "CKA_KEY_TYPE", "CKA_VALUE_LEN"])
        val = got["CKA_VALUE"]
        if not want_len:
            want_len = len(full)
        if want_len > len(full):
            raise self.V("derived a %d-byte key from only %d bytes of derived material" % (want_len, len(full)))
        want = full[:want_len]
        if want_len < len(full):
            self.nt = True
        if wt in ("des", "des2", "des3"):
            want = odd_parity(want)
            self.nt = True
        if val != want:
            raise self.V("derived value %s.. (%d bytes) differs from the mechanism's definition %s.. (%d bytes; material %d bytes)" % (
                (val or b"").hex()[:48], len(val or b""), want.hex()[:48], len(want), len(full)))
        self.count("derive_equal")
        self.check_kcv(r["h"], wt, val, "C_DeriveKey(%s)" % d)

    # -- key agreement: the derived key is exactly the shared secret (shares the case code of C10) -----------------------
    def c_kex(self, p):
        import c10
        helper = c10.C10()
        helper._ctx, helper._prog, helper._desc = self._ctx, self._prog, "kex"
        helper.w, helper.ref, helper.s, helper.nt = self.w, self.ref, self.s, False
        q = {"alg": p["mech"], "keysel": p["wkey"], "tamper": "none" if p["mal"] == "none" else "data", "iv": p["iv"], "bit": p["bit"], "seed": p["seed"]}
        try:
            helper.f_derive(q, b"")
        except Violation as v:
            raise Violation(v.what, self._prog)
        self._desc = helper._desc
        self.nt = True

    # -- wrap / unwrap templates ----------------------------------------------------------------------------------------
    def c_template(self, p):
        sd = p["seed"]
        kek = bytes((sd + 1 + i) & 0xFF for i in range(16))
        match = p["tplmatch"]
        self._desc = "WRAP_TEMPLATE/UNWRAP_TEMPLATE match=%s" % match
        self.nt = True
        wt = [("CKA_KEY_TYPE", "CKK_AES"), ("CKA_ID", b"ok")] if p["mech"] % 2 else [("CKA_EXTRACTABLE", True), ("CKA_LABEL", b"wrapme")]
        ut = [("CKA_SENSITIVE", False), ("CKA_LABEL", b"fromunwrap")] if p["mech"] % 3 else [("CKA_KEY_TYPE", "CKK_AES")]
        wk = self.mk(T(("CKA_CLASS", "CKO_SECRET_KEY"), ("CKA_KEY_TYPE", "CKK_AES"), ("CKA_VALUE", kek)), "secret",
                     [A("CKA_WRAP_TEMPLATE", wt), A("CKA_UNWRAP_TEMPLATE", ut)])
        tval = bytes((sd + 50 + i * 3) & 0xFF for i in range(16))
        tid = b"ok" if match else b"no"
        tlab = b"wrapme" if match else b"other"
        tgt = self.mk(T(("CKA_CLASS", "CKO_SECRET_KEY"), ("CKA_KEY_TYPE", "CKK_AES"), ("CKA_VALUE", tval), ("CKA_ID", tid), ("CKA_LABEL", tlab)), "secret")
        mech = {"m": K.CKM_AES_KEY_WRAP_PAD}
        r = self.w.C_WrapKey(s=self.s, mech=mech, wkey=wk, key=tgt, out=256)
        if not match and r["rv"] == K.CKR_OK:
            raise self.V("a key that does not match CKA_WRAP_TEMPLATE %s was wrapped" % wt)
        if match and r["rv"] != K.CKR_OK:
            self.count("matching_wrap_refused")
        self.count("wrap_template_checked")
        blob = self.ref.out("keywrap", mode="rfc5649", dir="wrap", kek=kek, data=tval)
        # unwrap template: contradicting entry -> must fail; consistent -> attributes of CKA_UNWRAP_TEMPLATE applied
        utpl = T(("CKA_CLASS", "CKO_SECRET_KEY"), ("CKA_KEY_TYPE", "CKK_AES"), ("CKA_TOKEN", False), ("CKA_PRIVATE", False), ("CKA_EXTRACTABLE", True))
        if not match:
            if p["mech"] % 3:
                utpl += T(("CKA_SENSITIVE", False), ("CKA_LABEL", b"contradictio"[:10]))       # same length as 'fromunwrap'
            else:
                utpl[1] = A("CKA_KEY_TYPE", "CKK_GENERIC_SECRET")
        elif p["mech"] % 3:
            # this token applies CKA_UNWRAP_TEMPLATE by requiring its entries in the caller's template
            utpl += T(("CKA_SENSITIVE", False), ("CKA_LABEL", b"fromunwrap"))
        before = self.nobjects()
        r = self.w.C_UnwrapKey(s=self.s, mech=mech, key=wk, data=blob.hex(), tpl=utpl)
        if not match:
            if r["rv"] == K.CKR_OK:
                raise self.V("an unwrap template contradicting CKA_UNWRAP_TEMPLATE %s was accepted" % ut)
            if self.nobjects() != before:
                raise self.V("a rejected unwrap left an object behind")
        elif r["rv"] == K.CKR_OK:
            got = self.read(r["h"], ["CKA_LABEL", "CKA_SENSITIVE", "CKA_VALUE"])
            if p["mech"] % 3 and got["CKA_LABEL"] != b"fromunwrap":
                raise self.V("CKA_UNWRAP_TEMPLATE entry CKA_LABEL was not applied to the unwrapped key (label %s)" % got["CKA_LABEL"])
            if got["CKA_VALUE"] != tval:
                raise self.V("unwrapped value differs")
        self.count("unwrap_template_checked")


if __name__ == "__main__":
    sys.exit(main(C13))
