#!/usr/bin/env python3
"""C01 - private objects are unreachable unless the normal user is logged in (DESIGN.md section 2, C01)."""
import itertools
import os
import sys

sys.path.insert(0, os.path.dirname(os.path.abspath(__file__)))
from objbase import ObjCheck  # noqa: E402
from vlib import consts as K  # noqa: E402
from vlib.objects import CLASSES  # noqa: E402
from vlib.objworld import World, program_st  # noqa: E402
from vlib.runner import Violation, main  # noqa: E402

WEIGHTS = {"open": 4, "close": 2, "closeall": 1, "login": 4, "logout": 3, "create": 10, "copy": 3, "destroy": 1, "set": 2,
           "find": 3, "gen": 2, "genpair": 1, "use": 14, "read": 3, "size": 1}

KEY_CLASSES = ["data", "cert_x509", "aes", "des3", "generic", "rsa_pub", "rsa_priv", "ec_pub", "ec_priv", "ed_priv", "dsa_priv", "dh_priv"]


class C01(ObjCheck):
    pid = "C01"
    level = "exploration"
    world_kw = {"check_views": "access", "probe_handles": False, "judge_access": True}
    rule = ("(a) Exhaustive matrix: session state of the probing session (RO public, RW public, RW SO, and RO/RW user as "
            "controls) x object kind (token/session x 12 classes, all private, live handles obtained on a second token whose "
            "user is logged in, or stale handles obtained before a logout on the same token) x 16 entry points that accept an "
            "object handle: every cell where the probing session's token has no user logged in must fail, return no handle, "
            "write no attribute/key bytes. (b) Hypothesis-generated histories over 2 tokens (open/close/login USER|SO/logout, "
            "create/copy/set/destroy/generate/find and 'use' probes through all entry points, same-token and cross-token, "
            "live and stale handles); after every login-state change the complete view of two sessions per token is "
            "compared with the model (private objects invisible unless the user is logged in); every successful creation is "
            "judged by its read-back effect (no private object from a public/SO session, no token object from an RO session); "
            "successful set/destroy of a token object through an RO session is a violation. Non-trivial = a probe of a "
            "private object in a non-user state, or a creation attempt of a private/token object in a forbidding state.")
    assumptions = ["a handle is 'usable' iff calls through it succeed; dead handle numbers returned by a search continued after "
                   "C_Logout are not handles to the object",
                   "cross-token use of a handle is judged by the login state of the session's token"]
    essential_labels = {"xtok_private_probe": 60, "stale_private_handle_probe": 100, "views_checked": 500}

    def budget(self, tier):
        return {"examples": 3200, "shards": 16, "maxlen": 40} if tier == "quick" else {"examples": 32000, "shards": 16, "maxlen": 70}

    def strategy(self, tier):
        return program_st(WEIGHTS, self.budget(tier)["maxlen"], classes=KEY_CLASSES,
                          prefix=[("open", 0, 1), ("open", 1, 1), ("login", 0, "USER")])

    # -- exhaustive matrix ---------------------------------------------------------------------------
    def extra(self, ctx, tier, shard, nshards):
        states = ["RO_PUBLIC", "RW_PUBLIC", "RW_SO", "RO_USER", "RW_USER"]
        combos = list(itertools.product(states, KEY_CLASSES, [True, False], ["xtok_live", "stale"]))
        ctx.extra["matrix_cells"] = 0
        ctx.extra["matrix_cells_must_fail"] = 0
        for n, (state, cls, token, mode) in enumerate(combos):
            if n % nshards != shard:
                continue
            prog = [["matrix", state, cls, token, mode]]
            try:
                self.run_program(ctx, prog)
            except Violation as v:
                v.program = prog
                return v
        ctx.extra["exhaustive"] = True
        return None

    def run_program(self, ctx, prog):
        if prog and prog[0][0] == "matrix":
            return self.run_matrix_row(ctx, prog, *prog[0][1:])
        return ObjCheck.run_program(self, ctx, prog)

    def run_matrix_row(self, ctx, prog, state, cls, token, mode):
        cells = 0
        denied = 0
        for _ in (0,):
            prog = [["matrix", state, cls, token, mode]]
            world = self.make_world(ctx, prog)
            world.step = 0
            w = world.w
            # token 1 = owner of the object; token 0 = the probing side (for xtok) or the same token (stale)
            owner = 1 if mode == "xtok_live" else 0
            world.op_open(owner, 1)
            so = world.ever_sessions[-1]
            world.op_login(len(world.ever_sessions) - 1, "USER")
            if world.login[owner] != "user":
                raise Violation("matrix setup: user login failed", prog)
            # every usage flag true, extractable, not sensitive: only the access rule can refuse the probes
            flags = [[n, 0] for n in ("CKA_ENCRYPT", "CKA_DECRYPT", "CKA_SIGN", "CKA_VERIFY", "CKA_WRAP", "CKA_UNWRAP", "CKA_DERIVE",
                                      "CKA_EXTRACTABLE")] + [["CKA_SENSITIVE", 1]]
            rv = world.op_create(len(world.ever_sessions) - 1, cls, 0, token, True, flags, None)
            if rv != K.CKR_OK:
                ctx.label("matrix_class_not_creatable_" + cls)
                continue
            oid = max(world.objs)
            o = world.objs[oid]
            h = o.handle
            if mode == "stale":
                world.op_logout(len(world.ever_sessions) - 1)
                if not token:
                    pass  # private session object: destroyed by the logout, handle dead
            # bring the probing token into the requested state
            probe_tok = 0
            if state.startswith("RO"):
                if mode == "stale":
                    world.op_closeall(0) if False else None
                world.op_open(probe_tok, 0)
            else:
                world.op_open(probe_tok, 1)
            ps = world.ever_sessions[-1]
            if state == "RW_SO":
                if mode == "stale":
                    # SO login needs no RO session on token 0: the owner session so is RW
                    pass
                world.op_login(len(world.ever_sessions) - 1, "SO")
                if world.login[probe_tok] != "so":
                    ctx.label("matrix_so_login_unavailable")
                    continue
            elif state.endswith("USER"):
                world.op_login(len(world.ever_sessions) - 1, "USER")
            login = world.login[probe_tok]
            for fi, fn in enumerate(World.USE_FNS):
                if fn == "C_FindObjects":
                    # a search through the probing session must not yield a usable handle to the object
                    r = w.findall(s=ps)
                    for fh in r.get("h", []):
                        if fh == h:
                            raise Violation("matrix %s: C_FindObjects through %s session returned the private object's handle" % (prog, state), prog)
                    continue
                alive = world.hmap.get(h) == oid
                rv, leak = world.use(ps, h, cls, fn)
                if rv is None:
                    continue
                cells += 1
                must_fail = (login != "user") or not alive
                if must_fail:
                    denied += 1
                    if rv == K.CKR_OK or leak:
                        raise Violation("matrix cell state=%s class=%s token=%s mode=%s fn=%s: call on a private object %s -> %s%s" % (
                            state, cls, token, mode, fn, "(live handle, user logged in on the OTHER token only)" if alive else "(stale handle)",
                            K.rvname(rv), "; " + leak if leak else ""), prog)
                elif rv == K.CKR_OK and fn == "C_DestroyObject":
                    world.kill_obj(o)
                if world.created is not None:
                    w.C_DestroyObject(s=ps, o=world.created[0])
                ctx.steps += 1
            # afterwards the object is unchanged for its owner
            if mode == "xtok_live" and o.alive:
                rvc, seen = __import__("vlib.objects", fromlist=["census"]).census(w, so)
                if h not in seen or seen[h] != o.attrs:
                    raise Violation("matrix %s: the private object changed or vanished for its owner after the probes: %s" % (prog, seen.get(h)), prog)
            ctx.case(prog, state in ("RO_PUBLIC", "RW_PUBLIC", "RW_SO"), ["matrix_rows"])
        ctx.extra["matrix_cells"] = ctx.extra.get("matrix_cells", 0) + cells
        ctx.extra["matrix_cells_must_fail"] = ctx.extra.get("matrix_cells_must_fail", 0) + denied


if __name__ == "__main__":
    sys.exit(main(C01))
