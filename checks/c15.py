#!/usr/bin/env python3
"""C15 - processes sharing a token directory see each other's committed changes (DESIGN.md section 2, C15).

2-3 worker processes on ONE token directory.  (a) call-granularity programs: any interleaving of completed calls, a shared
model of the committed token objects judges every observation.  (b) file-operation granularity: two calls are started
together with both workers in fs-shim 'step' mode; a generated schedule decides which process performs its next
file-system operation; blocked F_SETLKW are reported, never slept on.
"""
import os
import sys

sys.path.insert(0, os.path.join(os.path.dirname(os.path.abspath(__file__)), "..", "py"))
from hypothesis import strategies as st  # noqa: E402

from vlib import consts as K  # noqa: E402
from vlib.env import Stage, Template, hx  # noqa: E402
from vlib.objects import T, census  # noqa: E402
from vlib.runner import Check, Violation, main  # noqa: E402
from vlib.worker import Worker, WorkerDied  # noqa: E402

RW = K.CKF_SERIAL_SESSION | K.CKF_RW_SESSION
ATTRS = [K.CKA_VALUE, K.CKA_LABEL, K.CKA_ID, K.CKA_PRIVATE, K.CKA_WRAP_WITH_TRUSTED]      # CKA_VALUE (never modified) is the identity of an object


class Proc:
    def __init__(self, w, s):
        self.w, self.s = w, s
        self.handles = {}      # label -> handle as last seen by this process
        self.wk = None         # a session AES key of this process (for C_WrapKey through cached handles)


class C15(Check):
    pid = "C15"
    level = "exploration"
    variants = ["ossl-asan"]
    rule = ("(a) Programs of <= 24 calls issued by 2-3 processes on one token directory (file backend): create / modify / destroy "
            "token objects (public and private), read through cached handles, complete searches; after EVERY call the next call "
            "of another process must observe it (census == shared model of committed objects; destroyed objects' cached handles "
            "invalid; modified attributes read the new value through old handles), without re-initialising anybody. (b) Two "
            "calls of two processes started together and interleaved at file-operation granularity by a generated schedule "
            "(create/create, set/set on the same object and different attributes, set/set same attribute, set/destroy, "
            "create/search): the final state must equal SOME serial order of the two calls attribute by attribute, nothing "
            "duplicated, no undecodable object, no deadlock. Non-trivial = a schedule in which the two calls overlap at "
            "file-operation level, or a read through a cached handle right after another process wrote.")
    assumptions = ["interleavings are at file-system-operation granularity; atomicity of a single write()/read() is the kernel's",
                   "all processes log in the same user (the shared token key makes private objects mutually readable)"]
    essential_labels = {"cross_process_observations": 2000, "overlapping_schedules": 150, "cached_handle_reads": 200}

    def setup(self, ctx):
        ctx.shared["tpl"] = Template(ctx.env, ntokens=1)
        ctx.shared["stage"] = Stage(ctx.env, ctx.shared["tpl"], reuse=False)

    def budget(self, tier):
        return {"examples": 640, "shards": 16} if tier == "quick" else {"examples": 8000, "shards": 16}

    def strategy(self, tier):
        p = st.integers(0, 2)
        i = st.integers(0, 7)
        op = st.one_of(
            st.tuples(st.just("create"), p, st.booleans(), st.integers(0, 99)),
            st.tuples(st.just("create"), p, st.booleans(), st.integers(0, 99)),
            st.tuples(st.just("set"), p, i, st.sampled_from(["CKA_LABEL", "CKA_ID"]), st.integers(0, 99)),
            st.tuples(st.just("set"), p, i, st.sampled_from(["CKA_LABEL", "CKA_ID"]), st.integers(0, 99)),
            st.tuples(st.just("destroy"), p, i),
            st.tuples(st.just("read"), p, i),
            st.tuples(st.just("flag"), p, i),
            st.tuples(st.just("use"), p, i, st.sampled_from(["wrap", "wrap", "copy"])),
            st.tuples(st.just("check"), p),
            st.tuples(st.just("pair"), st.sampled_from(["create_create", "set_set_diff", "set_set_same", "set_destroy", "create_check", "destroy_check", "set_read"]),
                      i, st.lists(st.integers(0, 1), min_size=0, max_size=40), st.integers(0, 99)),
            st.tuples(st.just("pair"), st.sampled_from(["create_create", "set_set_diff", "set_set_same", "set_destroy", "create_check", "destroy_check", "set_read"]),
                      i, st.lists(st.integers(0, 1), min_size=0, max_size=40), st.integers(0, 99)),
        ).map(list)
        part = st.lists(op, min_size=0, max_size=8)
        # lazy: nobody looks after a write unless the program says so ('check'/'read'), so several changes accumulate between two looks
        return st.tuples(st.integers(2, 3), part, part, part, st.booleans()).map(
            lambda x: {"nproc": x[0], "lazy": x[4], "ops": [["create", 0, False, 1], ["create", 1, True, 2]] + x[1] + x[2] + x[3]})

    # ----------------------------------------------------------------------------------------------
    def run_program(self, ctx, prog):
        stage = ctx.shared["stage"]
        stage._restore()
        tok = ctx.shared["tpl"].tokens[0]
        procs = []
        procs_all = []
        step = [-1]

        def V(msg):
            return Violation("step %d %s: %s" % (step[0], prog["ops"][step[0]] if 0 <= step[0] < len(prog["ops"]) else "", msg), prog)
        model = {}         # label -> {attr type: hex value}
        try:
            for n in range(prog["nproc"]):
                w = stage.sb.worker()
                if w.C_Initialize()["rv"] != 0:
                    raise V("C_Initialize failed in process %d" % n)
                s = w.C_OpenSession(slot=tok.slot, flags=RW)["h"]
                if w.C_Login(s=s, user=K.CKU_USER, pin=hx(tok.user_pin))["rv"] != 0:
                    raise V("login failed in process %d" % n)
                procs.append(Proc(w, s))
                procs_all.append(procs[-1])
            nontrivial = [False]
            labels = set()
            def P(i):
                return procs[i % len(procs)]

            def obj(i):
                ls = sorted(model)
                return ls[i % len(ls)] if ls else None

            def observe(p, why):
                """a complete search in process p equals the model"""
                rv, objs = census(p.w, p.s, types=ATTRS)
                if rv != 0:
                    raise V("%s: census in process %d failed: %s" % (why, procs.index(p), K.rvname(rv)))
                seen = {}
                for h, a in objs.items():
                    if p.wk is not None and int(h) == p.wk:
                        continue          # the process's own session wrapping key (not a token object)
                    lab = a.get(K.CKA_VALUE)
                    if lab in seen:
                        raise V("%s: process %d finds object %s twice (handles %d and %d)" % (why, procs.index(p), bytes.fromhex(lab), seen[lab][0], h))
                    seen[lab] = (h, a)
                want = {lab.hex(): v for lab, v in model.items()}
                if set(seen) != set(want):
                    raise V("%s: process %d sees objects %s, committed are %s" % (why, procs.index(p), sorted(bytes.fromhex(x) for x in seen if isinstance(x, str)),
                                                                             sorted(model)))
                for lab, (h, a) in seen.items():
                    for t, v in want[lab].items():
                        if a.get(t) != v:
                            raise V("%s: process %d reads %s of object %s as %s, committed value is %s" % (
                                why, procs.index(p), K.name("CKA", t), bytes.fromhex(lab), str(a.get(t))[:40], v[:40]))
                    p.handles[bytes.fromhex(lab)] = h
                ctx.label("cross_process_observations")

            def handle(p, label):
                if label in p.handles:
                    return p.handles[label], True
                hs = p.w.findall(s=p.s, tpl=T(("CKA_VALUE", label)))["h"]
                if not hs:
                    return None, False
                p.handles[label] = hs[0]
                return hs[0], False

            def create_cmd(p, private, n, i, pre=b"obj"):
                label = b"%s-%d-%d" % (pre, i, n)
                tpl = T(("CKA_CLASS", "CKO_SECRET_KEY"), ("CKA_KEY_TYPE", "CKK_GENERIC_SECRET"), ("CKA_TOKEN", True), ("CKA_PRIVATE", private),
                        ("CKA_SENSITIVE", False), ("CKA_EXTRACTABLE", True), ("CKA_VALUE", label), ("CKA_LABEL", b"label0"), ("CKA_ID", b"id0"))
                return label, {K.CKA_VALUE: label.hex(), K.CKA_LABEL: b"label0".hex(), K.CKA_ID: b"id0".hex(), K.CKA_PRIVATE: private, K.CKA_WRAP_WITH_TRUSTED: False}, \
                    {"fn": "C_CreateObject", "s": p.s, "tpl": tpl}

            for i, op in enumerate(prog["ops"]):
                step[0] = i
                ctx.steps += 1
                kind = op[0]
                if kind == "create":
                    p = P(op[1])
                    label, attrs, cmd = create_cmd(p, op[2], op[3], i)
                    r = p.w.call(cmd.pop("fn"), **{k: v for k, v in cmd.items()})
                    if r["rv"] != 0:
                        raise V("C_CreateObject failed: %s" % K.rvname(r["rv"]))
                    model[label] = attrs
                    p.handles[label] = r["h"]
                elif kind == "set":
                    p = P(op[1])
                    label = obj(op[2])
                    if label is None:
                        continue
                    h, cached = handle(p, label)
                    if h is None:
                        raise V("process %d cannot find committed object %s" % (procs.index(p), label))
                    v = b"%s-%d-%d" % (op[3].encode()[4:], op[4], i) + (b"." * 6000 if op[4] % 3 == 0 else b"")     # > one stdio buffer: written in pieces
                    rv = p.w.C_SetAttributeValue(s=p.s, o=h, tpl=T((op[3], v)))["rv"]
                    if rv != 0:
                        raise V("C_SetAttributeValue on committed object %s through a %s handle failed: %s" % (label, "cached" if cached else "fresh", K.rvname(rv)))
                    model[label][K.C[op[3]]] = v.hex()
                elif kind == "destroy":
                    p = P(op[1])
                    label = obj(op[2])
                    if label is None or len(model) < 2:
                        continue
                    h, cached = handle(p, label)
                    if h is None:
                        raise V("process %d cannot find committed object %s" % (procs.index(p), label))
                    rv = p.w.C_DestroyObject(s=p.s, o=h)["rv"]
                    if rv != 0:
                        raise V("C_DestroyObject of committed object %s failed: %s" % (label, K.rvname(rv)))
                    del model[label]
                    p.handles.pop(label, None)
                elif kind == "read":
                    p = P(op[1])
                    cands = sorted(p.handles)
                    if not cands:
                        continue
                    label = cands[op[2] % len(cands)]
                    h = p.handles[label]
                    r = p.w.readattrs(s=p.s, o=h, types=ATTRS)["attrs"]
                    ctx.label("cached_handle_reads")
                    nontrivial[0] = True
                    if label not in model:
                        if any(v[0] == 0 for v in r.values()):
                            raise V("process %d still reads object %s through its cached handle although another process destroyed it" % (procs.index(p), label))
                        p.handles.pop(label)
                    else:
                        for t, want in model[label].items():
                            got = r[str(t)]
                            gv = got[1] if got[0] == 0 else None
                            if t in (K.CKA_PRIVATE, K.CKA_WRAP_WITH_TRUSTED):
                                gv = (gv != "00") if gv is not None else None
                            if gv != want:
                                raise V("process %d reads %s of %s through a cached handle as %s, committed value is %s" % (
                                    procs.index(p), K.name("CKA", t), label, str(gv)[:40], str(want)[:40]))
                elif kind == "flag":
                    # a committed change of a POLICY attribute (one way: may be wrapped under any key -> only under a trusted key; the value stays readable)
                    p = P(op[1])
                    label = obj(op[2])
                    if label is None or model[label][K.CKA_WRAP_WITH_TRUSTED]:
                        continue
                    h, cached = handle(p, label)
                    if h is None:
                        raise V("process %d cannot find committed object %s" % (procs.index(p), label))
                    rv = p.w.C_SetAttributeValue(s=p.s, o=h, tpl=T(("CKA_WRAP_WITH_TRUSTED", True)))["rv"]
                    if rv == 0:
                        model[label][K.CKA_WRAP_WITH_TRUSTED] = True
                    else:
                        raise V("C_SetAttributeValue(CKA_WRAP_WITH_TRUSTED=true) on committed object %s failed: %s" % (label, K.rvname(rv)))
                elif kind == "use":
                    # another entry point than C_GetAttributeValue through a CACHED handle: C_WrapKey / C_CopyObject must see the committed state too
                    p = P(op[1])
                    cands = sorted(p.handles)
                    if not cands:
                        continue
                    label = cands[op[2] % len(cands)]
                    h = p.handles[label]
                    if p.wk is None:
                        p.wk = p.w.C_CreateObject(s=p.s, tpl=T(("CKA_CLASS", "CKO_SECRET_KEY"), ("CKA_KEY_TYPE", "CKK_AES"), ("CKA_VALUE", b"W" * 16), ("CKA_TOKEN", False),
                                                               ("CKA_PRIVATE", False), ("CKA_WRAP", True)))["h"]
                    if op[3] == "wrap":
                        r = p.w.C_WrapKey(s=p.s, mech={"m": K.CKM_AES_KEY_WRAP_PAD}, wkey=p.wk, key=h, out=512)
                    else:
                        r = p.w.C_CopyObject(s=p.s, o=h, tpl=T(("CKA_TOKEN", False)))
                        if r["rv"] == 0:
                            p.w.C_DestroyObject(s=p.s, o=r["h"])
                    ctx.label("cached_handle_uses")
                    nontrivial[0] = True
                    if label not in model:
                        if r["rv"] == 0:
                            raise V("process %d still %s object %s through its cached handle although another process destroyed it" % (
                                procs.index(p), "wraps" if op[3] == "wrap" else "copies", label))
                        p.handles.pop(label)
                    elif op[3] == "wrap" and r["rv"] == 0 and model[label][K.CKA_WRAP_WITH_TRUSTED]:
                        raise V("process %d wraps object %s under an ordinary key through its cached handle although another process committed CKA_WRAP_WITH_TRUSTED=true" % (
                            procs.index(p), label))
                    elif r["rv"] != 0 and (op[3] == "copy" or not model[label][K.CKA_WRAP_WITH_TRUSTED]):
                        raise V("process %d: %s of committed object %s through a cached handle failed: %s" % (procs.index(p), op[3], label, K.rvname(r["rv"])))
                elif kind == "check":
                    observe(P(op[1]), "check")
                    continue
                elif kind == "pair":
                    self.run_pair(ctx, prog, op, procs, model, handle, create_cmd, V, i, labels, nontrivial, stage)
                # "the next call of ANOTHER process observes it"
                if kind in ("create", "set", "destroy", "pair", "flag") and not prog.get("lazy"):
                    who = P(op[1] + 1) if kind != "pair" else procs[-1]
                    observe(who, "after %s" % kind)
            for p in procs:
                observe(p, "end")
            ctx.case(prog, nontrivial[0], labels)
        finally:
            for p in procs_all:
                p.w.close()

    # -- two calls interleaved at file-operation granularity ------------------------------------------------------
    def run_pair(self, ctx, prog, op, procs, model, handle, create_cmd, V, i, labels, nontrivial, stage):
        _, what, oi, schedule, n = op
        A, B = procs[0], procs[1]
        ls = sorted(model)
        label = ls[oi % len(ls)] if ls else None
        outcomes = []           # list of acceptable final models
        cmds = []
        if what == "create_create":
            la, aa, ca = create_cmd(A, False, n, i, b"pairA")
            lb, ab, cb = create_cmd(B, True, n, i, b"pairB")
            cmds = [ca, cb]
            final = dict(model)
            final[la] = aa
            final[lb] = ab
            outcomes = [final]
        elif what in ("set_set_diff", "set_set_same", "set_destroy", "set_read", "destroy_check"):
            if label is None or (what in ("set_destroy", "destroy_check") and len(model) < 2):
                return
            ha, _ = handle(A, label)
            hb, _ = handle(B, label)
            if ha is None or hb is None:
                raise V("a process cannot find committed object %s" % label)
            big = b"." * 6000 if n % 2 == 0 else b""
            va, vb = b"A-%d-%d" % (n, i) + big, b"B-%d-%d" % (n, i) + big
            if what == "set_set_diff":
                cmds = [{"fn": "C_SetAttributeValue", "s": A.s, "o": ha, "tpl": T(("CKA_LABEL", va))},
                        {"fn": "C_SetAttributeValue", "s": B.s, "o": hb, "tpl": T(("CKA_ID", vb))}]
                f = {k: dict(v) for k, v in model.items()}
                f[label][K.CKA_LABEL] = va.hex()
                f[label][K.CKA_ID] = vb.hex()
                outcomes = [f]                      # different attributes: every serial order applies both
            elif what == "set_set_same":
                cmds = [{"fn": "C_SetAttributeValue", "s": A.s, "o": ha, "tpl": T(("CKA_LABEL", va))},
                        {"fn": "C_SetAttributeValue", "s": B.s, "o": hb, "tpl": T(("CKA_LABEL", vb))}]
                for v in (va, vb):
                    f = {k: dict(x) for k, x in model.items()}
                    f[label][K.CKA_LABEL] = v.hex()
                    outcomes.append(f)
            elif what == "set_destroy":
                cmds = [{"fn": "C_SetAttributeValue", "s": A.s, "o": ha, "tpl": T(("CKA_LABEL", va))}, {"fn": "C_DestroyObject", "s": B.s, "o": hb}]
                f = {k: dict(x) for k, x in model.items() if k != label}
                outcomes = [f]
            elif what == "set_read":
                cmds = [{"fn": "C_SetAttributeValue", "s": A.s, "o": ha, "tpl": T(("CKA_LABEL", va))}, {"fn": "readattrs", "s": B.s, "o": hb, "types": ATTRS}]
                f = {k: dict(x) for k, x in model.items()}
                f[label][K.CKA_LABEL] = va.hex()
                outcomes = [f]
            else:
                cmds = [{"fn": "C_DestroyObject", "s": A.s, "o": ha}, {"fn": "census", "s": B.s, "types": ATTRS}]
                outcomes = [{k: dict(x) for k, x in model.items() if k != label}]
        elif what == "create_check":
            la, aa, ca = create_cmd(A, False, n, i, b"pairA")
            cmds = [ca, {"fn": "census", "s": B.s, "types": ATTRS}]
            final = dict(model)
            final[la] = aa
            outcomes = [final]
        res, overlapped, deadlock = self.interleave(A.w, cmds[0], B.w, cmds[1], schedule, stage.sb.tokendir)
        if deadlock:
            raise V("%s: both processes are blocked on file locks (deadlock): %s" % (what, deadlock))
        if overlapped:
            nontrivial[0] = True
            ctx.label("overlapping_schedules")
        ctx.label("pairs_" + what)
        # writers must succeed, except a set racing with a destroy of the same object
        for k_, (c, r) in enumerate(zip(cmds, res)):
            if c["fn"] in ("C_CreateObject", "C_DestroyObject") and r["rv"] != 0:
                raise V("%s: %s in process %d failed under the schedule: %s" % (what, c["fn"], k_, K.rvname(r["rv"])))
            if c["fn"] == "C_SetAttributeValue" and r["rv"] != 0 and what != "set_destroy":
                raise V("%s: C_SetAttributeValue in process %d failed under the schedule: %s" % (what, k_, K.rvname(r["rv"])))
        if what == "create_create":
            A.handles[la], B.handles[lb] = res[0]["h"], res[1]["h"]
        if what == "set_read":
            # the reader overlaps the writer: every attribute is read, and reads the old or the new committed value
            for t, want in model[label].items():
                got = res[1]["attrs"][str(t)]
                if got[0] != 0:
                    raise V("set_read under schedule %s: reading %s of a committed object while another process rewrites it: %s" % (
                        schedule[:20], K.name("CKA", t), K.rvname(got[0])))
                gv = got[1] if t not in (K.CKA_PRIVATE, K.CKA_WRAP_WITH_TRUSTED) else (got[1] != "00")
                if gv != want and not (t == K.CKA_LABEL and gv == va.hex()):
                    raise V("set_read under schedule %s: %s reads %s, neither the old nor the new committed value" % (schedule[:20], K.name("CKA", t), str(gv)[:40]))
        if what in ("create_check", "destroy_check") and res[1]["rv"] != 0:
            raise V("%s: the search overlapping the writer failed: %s" % (what, K.rvname(res[1]["rv"])))
        # the final state, seen by the third process if there is one (else by both), equals some serial order
        obs = procs[-1]
        rv, objs = census(obs.w, obs.s, types=ATTRS)
        if rv != 0:
            raise V("%s: census after the pair failed: %s" % (what, K.rvname(rv)))
        seen = {}
        for h, a in objs.items():
            if obs.wk is not None and int(h) == obs.wk:
                continue
            lab = a.get(K.CKA_VALUE)
            if lab in seen:
                raise V("%s: object %s exists twice after the concurrent calls" % (what, lab))
            seen[lab] = a
        ok = None
        for f in outcomes:
            want = {lab.hex(): v for lab, v in f.items()}
            if set(want) == set(seen) and all(seen[lab].get(t) == v for lab, at in want.items() for t, v in at.items()):
                ok = f
                break
        if ok is None:
            lab_ = label.hex() if label else None
            raise V("%s under schedule %s: the final state equals no serial order of the two calls; object %s now reads %s; acceptable: %s" % (
                what, schedule[:20], label, {K.name("CKA", t): str(v)[:30] for t, v in (seen.get(lab_) or {}).items()},
                [{K.name("CKA", t): str(v)[:30] for t, v in (f.get(label) or {}).items()} for f in outcomes][:2]))
        model.clear()
        model.update(ok)
        for p in procs:
            for l_ in list(p.handles):
                if l_ not in model:
                    p.handles.pop(l_)

    def interleave(self, wa, ca, wb, cb, schedule, tokendir):
        """start both calls in step mode; the schedule (list of 0/1) picks who performs the next fs operation.
        -> ([resp_a, resp_b], overlapped, deadlock description or None)"""
        ws = [wa, wb]
        for w in ws:
            w.fsmode(mode="step", dir=tokendir)
        cmds = [dict(ca), dict(cb)]
        for w, c in zip(ws, cmds):
            w.send(c)
        pending = [None, None]       # None = running; dict with 'step' = waiting; dict with 'rv' = done
        done = [None, None]
        steps = [0, 0]

        def nxt(k):
            r = ws[k].recv(step_ok=True)
            if "step" in r:
                pending[k] = r
            else:
                done[k] = r
                pending[k] = None
        nxt(0)
        nxt(1)
        si = 0
        overlapped = False
        guard = 0
        stuck = 0
        while done[0] is None or done[1] is None:
            guard += 1
            if guard > 5000:
                return [done[0] or {"rv": -1}, done[1] or {"rv": -1}], overlapped, "no progress after 5000 scheduling decisions"
            waiting = [k for k in (0, 1) if done[k] is None and pending[k] is not None]
            if not waiting:
                break
            # a 'blocked' report is stale as soon as the other process moved: a blocked process is retried only when nobody
            # else can run; two processes that both come back blocked again and again without progress are deadlocked
            runnable = [k for k in waiting if not pending[k].get("blocked")]
            if not runnable:
                stuck += 1
                if stuck > 6 and len(waiting) == 2:
                    return [done[0] or {"rv": -1}, done[1] or {"rv": -1}], overlapped, "A: %s / B: %s" % (pending[0], pending[1])
                if stuck > 50:
                    return [done[0] or {"rv": -1}, done[1] or {"rv": -1}], overlapped, "blocked on a lock nobody holds: %s" % (pending,)
                runnable = [waiting[stuck % len(waiting)]]
            else:
                stuck = 0
            if len(runnable) == 2:
                k = schedule[si % len(schedule)] if schedule else 0
                si += 1
            else:
                k = runnable[0]
            if steps[0] > 0 and steps[1] > 0 and done[0] is None and done[1] is None:
                overlapped = True
            steps[k] += 1
            ws[k].p.stdin.write(b"\n")
            nxt(k)
        for w in ws:
            w.fsmode(mode="off")
        return [done[0], done[1]], overlapped, None


if __name__ == "__main__":
    sys.exit(main(C15))
