#!/usr/bin/env python3
"""C16 - a crash at any point leaves the token usable and loses nothing committed (DESIGN.md section 2, C16).

For a generated scenario and a generated writing call, the worker runs the call in fs-shim 'snapshot' mode: before every
write-class file-system operation of the call (and after every fwrite that spilled to disk) the token directory is copied.
Only flushed bytes are on disk, so each image is exactly what a process death at that point leaves behind.  Every image is
then opened by a FRESH process and judged.
"""
import json
import os
import shutil
import sys

sys.path.insert(0, os.path.join(os.path.dirname(os.path.abspath(__file__)), "..", "py"))
from hypothesis import strategies as st  # noqa: E402

from vlib import consts as K  # noqa: E402
from vlib.env import Sandbox, Stage, Template, hx, label32  # noqa: E402
from vlib.objects import T, base_template, census  # noqa: E402
from vlib.runner import Check, Violation, main  # noqa: E402
from vlib.worker import WorkerDied  # noqa: E402

RW = K.CKF_SERIAL_SESSION | K.CKF_RW_SESSION
CALLS = ["create_small", "create_large", "create_rsa", "create_private", "set_large", "set_small", "set_private", "copy", "destroy",
         "login_user", "login_wrong", "login_so", "setpin_user", "setpin_so", "initpin", "inittoken_new", "inittoken_reinit", "genkey",
         "genpair_ec"] + ["gen_des3", "gen_generic", "genpair_rsa", "genpair_ed", "genpair_dsa", "genpair_dh", "unwrap_secret", "unwrap_rsa",
                          "derive_sym", "derive_dh", "derive_concat"]
# calls that store a new key through the key-generation / unwrap / derive paths of the library (each has its own commit tail)
KEYPATH_CALLS = ["genkey", "genpair_ec", "gen_des3", "gen_generic", "genpair_rsa", "genpair_ed", "genpair_dsa", "genpair_dh", "unwrap_secret", "unwrap_rsa",
                 "derive_sym", "derive_dh", "derive_concat"]


def prepare_extra(w, s, objs, sd):
    """session-side helper objects of the key-path calls (public session objects: no file-system traffic, they survive C_Logout):
    a wrapping / base key, two wrapped blobs made by the token itself, a DH base key"""
    def mk(name, tpl_):
        r = w.C_CreateObject(s=s, tpl=tpl_ + T(("CKA_TOKEN", False), ("CKA_PRIVATE", False)))
        if r["rv"] != 0:
            raise RuntimeError("scenario setup (%s): %s" % (name, K.rvname(r["rv"])))
        objs[name] = r["h"]
        return r["h"]
    wk = mk("_wk", T(("CKA_CLASS", "CKO_SECRET_KEY"), ("CKA_KEY_TYPE", "CKK_AES"), ("CKA_VALUE", bytes((sd * 5 + i * 3 + 1) & 0xFF for i in range(32))),
                     ("CKA_WRAP", True), ("CKA_UNWRAP", True), ("CKA_DERIVE", True), ("CKA_ENCRYPT", True)))
    sec = mk("_sec", T(("CKA_CLASS", "CKO_SECRET_KEY"), ("CKA_KEY_TYPE", "CKK_GENERIC_SECRET"), ("CKA_VALUE", bytes((sd * 7 + i * 5 + 2) & 0xFF for i in range(32))),
                       ("CKA_EXTRACTABLE", True), ("CKA_SENSITIVE", False)))
    rsa = mk("_rsa", T(*base_template("rsa_priv", sd)) + T(("CKA_EXTRACTABLE", True), ("CKA_SENSITIVE", False)))
    r = w.C_WrapKey(s=s, mech={"m": K.CKM_AES_KEY_WRAP}, wkey=wk, key=sec, out=256)
    if r["rv"] != 0:
        raise RuntimeError("scenario setup (wrap secret): %s" % K.rvname(r["rv"]))
    objs["_blob_secret"] = r["out"]["data"]
    r = w.C_WrapKey(s=s, mech={"m": K.CKM_AES_KEY_WRAP_PAD}, wkey=wk, key=rsa, out=8192)
    if r["rv"] != 0:
        raise RuntimeError("scenario setup (wrap rsa): %s" % K.rvname(r["rv"]))
    objs["_blob_rsa"] = r["out"]["data"]
    mk("_dh", T(*base_template("dh_priv", sd)) + T(("CKA_DERIVE", True)))
    mk("_gen", T(("CKA_CLASS", "CKO_SECRET_KEY"), ("CKA_KEY_TYPE", "CKK_GENERIC_SECRET"), ("CKA_VALUE", bytes((sd * 11 + i * 7 + 3) & 0xFF for i in range(20))),
                 ("CKA_DERIVE", True)))
ATTRS = [K.CKA_LABEL, K.CKA_VALUE, K.CKA_CLASS, K.CKA_ID, K.CKA_PRIVATE, K.CKA_APPLICATION, K.CKA_KEY_TYPE, K.CKA_MODULUS, K.CKA_TOKEN,
         K.CKA_SENSITIVE, K.CKA_EC_PARAMS, K.CKA_ISSUER, K.CKA_SERIAL_NUMBER]


def well_formed(b):
    """a complete object file by the format description: generation field + whole attribute records, no attribute type twice"""
    from vlib.store import FormatError, decode_object
    import struct
    try:
        pos, seen = 8, set()
        gen, attrs = decode_object(b)
        # decode_object keeps the last record of a type: count the records
        n = 0
        data = b
        while pos < len(data):
            t = struct.unpack(">Q", data[pos:pos + 8])[0]
            k = struct.unpack(">Q", data[pos + 8:pos + 16])[0]
            pos += 16
            if k == 1:
                pos += 1
            elif k == 2:
                pos += 8
            else:
                ln = struct.unpack(">Q", data[pos:pos + 8])[0]
                pos += 8 + (ln * 8 if k == 5 else ln)
            n += 1
        return n == len(attrs)
    except (FormatError, struct.error, IndexError, ValueError, KeyError):
        return False


def record_boundaries(b):
    """offsets at which an object file may end and still consist of whole records (0, after the generation field, after each record)"""
    import struct
    out, pos = {0, 8}, 8
    try:
        while pos < len(b):
            k = struct.unpack(">Q", b[pos + 8:pos + 16])[0]
            pos += 16
            if k == 1:
                pos += 1
            elif k == 2:
                pos += 8
            else:
                ln = struct.unpack(">Q", b[pos:pos + 8])[0]
                pos += 8 + (ln * 8 if k == 5 else ln)
            out.add(pos)
    except struct.error:
        pass
    return out


def read_tree(root):
    out = {}
    for r, d, files in os.walk(root):
        for f in files:
            p = os.path.join(r, f)
            with open(p, "rb") as fh:
                out[os.path.relpath(p, root)] = fh.read()
    return out


class C16(Check):
    pid = "C16"
    level = "fault_enumeration"
    variants = ["ossl-asan"]
    rule = ("A case = a generated scenario (two tokens; token objects incl. a private AES key, a 5-9 KB data object, a "
            "certificate; generated value sizes 0..9000 bytes) + one writing call out of 30 kinds (C_CreateObject small / large "
            "/ RSA / private, C_SetAttributeValue rewriting a multi-buffer attribute longer or shorter / a small one / one of a private object, C_CopyObject, C_DestroyObject, C_Login "
            "user / wrong PIN / SO (flag rewrites), C_SetPIN user / SO, C_InitPIN, C_InitToken fresh / re-init, C_GenerateKey AES / DES3 / generic, "
            "C_GenerateKeyPair EC / RSA / EdDSA / DSA / DH, C_UnwrapKey of a secret / an RSA private key, C_DeriveKey by encryption / DH / concatenation). EVERY crash point of that call is enumerated: an image of the token directory is taken before "
            "each write-class file-system operation (open/create, truncate, fwrite, flush, close, unlink, mkdir, rmdir) and "
            "after each stdio spill. Each image is opened by a fresh process: C_Initialize returns (no crash / hang); every "
            "token not being written is listed with both PINs working; every object whose file is not in flight has exactly "
            "its old or its new attribute values; objects that exist neither before nor after do not appear. Non-trivial = an "
            "image taken strictly inside the call (not identical to the state before or after it).")
    assumptions = ["process-death model: what reached the kernel survives; no reordering below write()",
                   "open known findings KF-C16-01 / KF-C16-02 (non-atomic rewrite in place) are excluded by this predicate and counted: the deviating "
                   "object's / token's own file is in flight (content neither as before nor as after the call), and no more objects deviate than object "
                   "files are in flight"]
    essential_labels = {"images_judged": 1500, "images_inside_call": 800}

    def setup(self, ctx):
        ctx.shared["tpl"] = Template(ctx.env, ntokens=2)
        ctx.shared["stage"] = Stage(ctx.env, ctx.shared["tpl"], reuse=False)


    # -- the loader against every truncation of an object file (deterministic, no generator) ----------------------------------------------
    def cut_setup(self, ctx):
        """the scenario of the truncation sweep -> (base directory, {label: object file}, full view, pins, {label: record boundaries})"""
        if "cut_setup" in ctx.shared:
            return ctx.shared["cut_setup"]
        stage = ctx.shared["stage"]
        tpl = ctx.shared["tpl"]
        w = stage.fresh()
        t0, t1 = tpl.tokens
        pins = {t0.label: ([t0.so_pin], [t0.user_pin]), t1.label: ([t1.so_pin], [t1.user_pin])}
        s = w.C_OpenSession(slot=t0.slot, flags=RW)["h"]
        w.C_Login(s=s, user=K.CKU_USER, pin=hx(t0.user_pin))
        big = bytes((7 + i * 7) & 0xFF for i in range(5000))
        made = {}
        for label, tpl_ in (("A-private-aes", T(("CKA_CLASS", "CKO_SECRET_KEY"), ("CKA_KEY_TYPE", "CKK_AES"), ("CKA_VALUE", bytes(range(32))), ("CKA_TOKEN", True), ("CKA_PRIVATE", True),
                                               ("CKA_SENSITIVE", False), ("CKA_EXTRACTABLE", True), ("CKA_ID", b"id-of-the-key"))),
                            ("B-data", T(("CKA_CLASS", "CKO_DATA"), ("CKA_TOKEN", True), ("CKA_PRIVATE", False), ("CKA_VALUE", b"bystander"))),
                            ("C-cert", T(*base_template("cert_x509", 3)) + T(("CKA_TOKEN", True), ("CKA_PRIVATE", False), ("CKA_ISSUER", big), ("CKA_ID", b"id-of-the-cert")))):
            before = set(read_tree(stage.sb.tokendir))
            r = w.C_CreateObject(s=s, tpl=tpl_ + T(("CKA_LABEL", label.encode())))
            if r["rv"] != 0:
                raise RuntimeError("cut sweep setup: %s" % K.rvname(r["rv"]))
            made[label] = [f for f in set(read_tree(stage.sb.tokendir)) - before if f.endswith(".object")][0]
        w.C_Finalize()
        stage.w.close()
        stage.w = None
        base = os.path.join(ctx.env.root, "cutbase")
        shutil.rmtree(base, ignore_errors=True)
        shutil.copytree(stage.sb.tokendir, base)
        full = self.view_of_tree(ctx, base, pins)
        if full is None or set(full[t0.label]["objs"]) != {"A-private-aes", "B-data", "C-cert"}:
            raise RuntimeError("cut sweep setup: unexpected view %s" % (full and list(full[t0.label]["objs"])))
        bounds = {label: record_boundaries(open(os.path.join(base, made[label]), "rb").read()) for label in ("A-private-aes", "C-cert")}
        ctx.shared["cut_setup"] = (base, made, full, pins, bounds)
        return ctx.shared["cut_setup"]

    def judge_cut(self, ctx, label, c):
        base, made, full, pins, bounds = self.cut_setup(ctx)
        t0, t1 = ctx.shared["tpl"].tokens
        prog = {"cut": [label, c]}
        img = os.path.join(ctx.env.root, "cutimg")
        shutil.rmtree(img, ignore_errors=True)
        shutil.copytree(base, img)
        n = os.path.getsize(os.path.join(img, made[label]))
        with open(os.path.join(img, made[label]), "r+b") as f:
            f.truncate(c)
        try:
            view = self.view_of_tree(ctx, img, pins)
        except WorkerDied as d:
            return Violation("object file of %s cut at byte %d: the recovering process died (%s %s)" % (label, c, d.how, d.detail), prog)
        ctx.steps += 1
        if view is None:
            return Violation("object file of %s cut at byte %d: C_Initialize fails" % (label, c), prog)
        for lab in (t0.label, t1.label):
            got, want = view.get(lab), full.get(lab)
            if got is None or got["so"] != want["so"] or got["user"] != want["user"]:
                return Violation("object file of %s cut at byte %d: token %s / its PINs are affected" % (label, c, lab), prog)
            for name, attrs in (got["objs"] or {}).items():
                if want["objs"].get(name) == attrs and name != label:
                    continue
                # (an object that looks complete in the attributes of this view lacks later records only: judged like any other partial object)
                # the cut object shows up (under its label, or label-less)
                # the listed finding: the loader takes "no further attribute TYPE can be read" for the end of the object - a cut on a record
                # boundary or inside the 8-byte type field that follows it (the generation field counts as the first boundary)
                if any(b_ <= c <= b_ + 7 for b_ in bounds[label]):
                    if ctx.known({"file": "object", "state": "in_flight", "deviation": "object_in_flight_partial_or_lost", "call": "create_small"}):
                        ctx.label("cut_on_record_boundary_partial_object")
                        continue
                return Violation("object file of %s cut at byte %d of %d (inside a record: not on a record boundary nor in the type field after one): a fresh process returns it as a valid object %s with "
                                 "attributes %s" % (label, c, n, name, {K.name("CKA", int(k)): str(v)[:24] for k, v in attrs.items()}), prog)
            missing = [n_ for n_ in want["objs"] if n_ not in (got["objs"] or {}) and n_ != label]
            if missing:
                return Violation("object file of %s cut at byte %d: other objects are gone: %s" % (label, c, missing), prog)
        ctx.label("cut_cells")
        ctx.case(prog, True, ["cut"])
        return None

    def extra(self, ctx, tier, shard, nshards):
        """A crash can cut an object file anywhere (the stdio buffer spills at arbitrary offsets).  For two object files of a fixed scenario - the
        private AES key (every cut position) and the multi-buffer certificate (every position of the first 400 bytes and around the 4096-byte
        spill, every 37th elsewhere) - the truncated file is put in place and a fresh process opens the token: the object must be ABSENT, unless
        the cut falls on a record boundary (then the listed finding KF-C16-01 applies: a valid object with missing attributes).  Every other
        object and both PINs must be intact."""
        base, made, full, pins, bounds = self.cut_setup(ctx)
        cells = []
        for label in ("A-private-aes", "C-cert"):
            n = os.path.getsize(os.path.join(base, made[label]))
            pos = range(n) if n <= 1500 else sorted(set(range(400)) | set(range(4070, 4130)) | set(range(0, n, 37)))
            cells += [(label, c) for c in pos if c < n]
        ctx.extra["cut_cells_total"] = len(cells) if shard == 0 else 0
        for i, (label, c) in enumerate(cells):
            if i % nshards != shard:
                continue
            v = self.judge_cut(ctx, label, c)
            if v is not None:
                return v
        return None

    def budget(self, tier):
        return {"examples": 320, "shards": 16} if tier == "quick" else {"examples": 4800, "shards": 16}

    def strategy(self, tier):
        return st.fixed_dictionaries({"call": st.sampled_from(CALLS), "size": st.one_of(st.integers(0, 200), st.integers(3900, 4300), st.integers(8000, 9000)),
                                      "bsize": st.integers(4000, 9000), "seed": st.integers(0, 255), "extra_objs": st.integers(0, 2)})

    # ----------------------------------------------------------------------------------------------
    def view(self, w, tokens, pins):
        """-> {token label: {"pins": (so ok, user ok), "objs": {label or '#n': attrs}}} with a user login where possible"""
        out = {}
        slots = w.C_GetSlotList()["slots"]
        for slot in slots:
            ti = w.C_GetTokenInfo(slot=slot)
            if ti["rv"] != 0 or not (ti["flags"] & K.CKF_TOKEN_INITIALIZED):
                continue
            lab = bytes.fromhex(ti["label"]).decode("latin-1").rstrip()
            so_pins, user_pins = pins.get(lab, ([], []))
            rec = {"so": None, "user": None, "objs": None, "flags": ti["flags"]}
            r = w.C_OpenSession(slot=slot, flags=RW)
            if r["rv"] != 0:
                rec["error"] = "C_OpenSession: " + K.rvname(r["rv"])
                out[lab] = rec
                continue
            s = r["h"]
            for p in so_pins:
                if w.C_Login(s=s, user=K.CKU_SO, pin=hx(p))["rv"] == 0:
                    rec["so"] = p.hex()
                    w.C_Logout(s=s)
                    break
            for p in user_pins:
                if w.C_Login(s=s, user=K.CKU_USER, pin=hx(p))["rv"] == 0:
                    rec["user"] = p.hex()
                    break
            rv, objs = census(w, s, types=ATTRS)
            if rv == 0:
                d = {}
                for n, a in enumerate(sorted(objs.values(), key=lambda a: json.dumps(a, sort_keys=True, default=str))):
                    lab_ = a.get(K.CKA_LABEL)
                    key = bytes.fromhex(lab_).decode("latin-1") if isinstance(lab_, str) and lab_ and not lab_.startswith(("ERR", "raw")) else "#%d" % n
                    while key in d:
                        key += "'"
                    d[key] = {str(k): v for k, v in a.items()}
                rec["objs"] = d
            else:
                rec["error"] = "census: " + K.rvname(rv)
            w.C_CloseSession(s=s)
            out[lab] = rec
        return out

    def run_program(self, ctx, prog):
        if isinstance(prog, dict) and prog.get("cut"):
            v = self.judge_cut(ctx, prog["cut"][0], prog["cut"][1])
            if v is not None:
                raise v
            return
        stage = ctx.shared["stage"]
        tpl = ctx.shared["tpl"]
        w = stage.fresh()
        t0, t1 = tpl.tokens
        sd = prog["seed"]
        pins = {t0.label: ([t0.so_pin], [t0.user_pin]), t1.label: ([t1.so_pin], [t1.user_pin])}
        s = w.C_OpenSession(slot=t0.slot, flags=RW)["h"]
        assert w.C_Login(s=s, user=K.CKU_USER, pin=hx(t0.user_pin))["rv"] == 0
        big = bytes((sd + i * 7) & 0xFF for i in range(prog["bsize"]))
        objs = {}

        def mk(label, tpl_):
            r = w.C_CreateObject(s=s, tpl=tpl_ + T(("CKA_LABEL", label.encode())))
            if r["rv"] != 0:
                raise RuntimeError("scenario setup: %s %s" % (label, K.rvname(r["rv"])))
            objs[label] = r["h"]
        mk("A-private-aes", T(("CKA_CLASS", "CKO_SECRET_KEY"), ("CKA_KEY_TYPE", "CKK_AES"), ("CKA_VALUE", bytes((sd + i) & 0xFF for i in range(32))), ("CKA_TOKEN", True),
                            ("CKA_PRIVATE", True), ("CKA_SENSITIVE", False), ("CKA_EXTRACTABLE", True)))
        mk("B-big-data", T(("CKA_CLASS", "CKO_DATA"), ("CKA_TOKEN", True), ("CKA_PRIVATE", False), ("CKA_VALUE", big), ("CKA_APPLICATION", b"app")))
        mk("C-cert", T(*base_template("cert_x509", sd)) + T(("CKA_TOKEN", True), ("CKA_PRIVATE", False), ("CKA_ISSUER", big[::-1])))
        for i in range(prog["extra_objs"]):
            mk("X-extra-%d" % i, T(("CKA_CLASS", "CKO_DATA"), ("CKA_TOKEN", True), ("CKA_PRIVATE", bool(i % 2)), ("CKA_VALUE", b"extra-%d" % i * 3)))
        call = prog["call"]
        if call in KEYPATH_CALLS:
            prepare_extra(w, s, objs, sd)
        w.C_Logout(s=s)
        # login state needed by the call
        val = bytes((sd * 3 + i * 5) & 0xFF for i in range(prog["size"]))
        need_user = call in ("create_private", "set_private", "setpin_user", "genkey", "genpair_ec", "create_small", "create_large", "create_rsa", "set_large",
                             "set_small", "copy", "destroy") or call in KEYPATH_CALLS
        if need_user:
            w.C_Login(s=s, user=K.CKU_USER, pin=hx(t0.user_pin))
        elif call in ("setpin_so", "initpin"):
            w.C_Login(s=s, user=K.CKU_SO, pin=hx(t0.so_pin))
        elif call in ("inittoken_reinit",):
            w.C_CloseSession(s=s)
        old_tree = read_tree(stage.sb.tokendir)
        # the "old" view, taken by a separate fresh process on a copy (the running process must not be disturbed)
        old_view = self.view_of_tree(ctx, stage.sb.tokendir, pins)

        snapdir = os.path.join(stage.sb.root, "snap")
        shutil.rmtree(snapdir, ignore_errors=True)
        os.makedirs(snapdir)
        w.fsmode(mode="snapshot", dir=stage.sb.tokendir, snapdir=snapdir)
        newpins = {k: (list(v[0]), list(v[1])) for k, v in pins.items()}
        rv = self.do_call(w, s, call, prog, val, objs, t0, t1, newpins)
        w.fsmode(mode="off")
        rep = w.fsreport()
        new_tree = read_tree(stage.sb.tokendir)
        try:
            w.C_Finalize()
        except WorkerDied:
            pass
        stage.w.close()
        stage.w = None
        new_view = self.view_of_tree(ctx, stage.sb.tokendir, newpins)
        images = sorted(int(d) for d in os.listdir(snapdir) if d.isdigit())
        ctx.label("calls_" + call)
        ctx.label("call_failed" if rv != 0 else "call_ok")
        inside = 0
        trees = {i: read_tree(os.path.join(snapdir, str(i))) for i in images}
        for i in images:
            img = os.path.join(snapdir, str(i))
            tree = trees[i]
            if tree == old_tree or tree == new_tree:
                ctx.label("images_equal_to_before_or_after")
            else:
                inside += 1
                ctx.label("images_inside_call")
            later = [trees[j] for j in images if j > i] + [new_tree]
            self.judge_image(ctx, prog, i, img, tree, old_tree, new_tree, old_view, new_view, newpins, open(img + ".label").read().strip(), later=later)
            ctx.label("images_judged")
            ctx.steps += 1
        ctx.case(prog, inside > 0, [])

    def view_of_tree(self, ctx, tokendir, pins):
        sb = ctx.env.sandbox()
        shutil.rmtree(sb.tokendir)
        shutil.copytree(tokendir, sb.tokendir)
        w = sb.worker()
        try:
            if w.C_Initialize()["rv"] != 0:
                return None
            return self.view(w, None, pins)
        finally:
            w.close()
            sb.remove()

    def do_call(self, w, s, call, prog, val, objs, t0, t1, newpins):
        sd = prog["seed"]
        if call in ("create_small", "create_large"):
            v = val if call == "create_large" else val[:40]
            return w.C_CreateObject(s=s, tpl=T(("CKA_CLASS", "CKO_DATA"), ("CKA_TOKEN", True), ("CKA_PRIVATE", False), ("CKA_LABEL", b"N-new"), ("CKA_VALUE", v)))["rv"]
        if call == "create_rsa":
            return w.C_CreateObject(s=s, tpl=T(*base_template("rsa_priv", sd)) + T(("CKA_TOKEN", True), ("CKA_PRIVATE", False), ("CKA_LABEL", b"N-new")))["rv"]
        if call == "create_private":
            return w.C_CreateObject(s=s, tpl=T(("CKA_CLASS", "CKO_DATA"), ("CKA_TOKEN", True), ("CKA_PRIVATE", True), ("CKA_LABEL", b"N-new"), ("CKA_VALUE", val)))["rv"]
        if call == "set_large":
            # (on this token a data object's CKA_VALUE is read-only; the multi-buffer attribute that can be rewritten - longer or shorter - is the
            # certificate's CKA_ISSUER)
            return w.C_SetAttributeValue(s=s, o=objs["C-cert"], tpl=T(("CKA_ISSUER", val), ("CKA_SERIAL_NUMBER", b"changed")))["rv"]
        if call == "set_small":
            return w.C_SetAttributeValue(s=s, o=objs["C-cert"], tpl=T(("CKA_ID", val[:30])))["rv"]
        if call == "set_private":
            return w.C_SetAttributeValue(s=s, o=objs["A-private-aes"], tpl=T(("CKA_ID", val[:50])))["rv"]
        if call == "copy":
            return w.C_CopyObject(s=s, o=objs["B-big-data"], tpl=T(("CKA_LABEL", b"N-new")))["rv"]
        if call == "destroy":
            return w.C_DestroyObject(s=s, o=objs["C-cert"])["rv"]
        if call == "login_user":
            return w.C_Login(s=s, user=K.CKU_USER, pin=hx(t0.user_pin))["rv"]
        if call == "login_wrong":
            return w.C_Login(s=s, user=K.CKU_USER, pin=hx(b"wrong-pin-xx"))["rv"]
        if call == "login_so":
            return w.C_Login(s=s, user=K.CKU_SO, pin=hx(t0.so_pin))["rv"]
        if call == "setpin_user":
            newpins[t0.label][1].append(b"new-user-pin-%d" % sd)
            return w.C_SetPIN(s=s, old=hx(t0.user_pin), new=hx(b"new-user-pin-%d" % sd))["rv"]
        if call == "setpin_so":
            newpins[t0.label][0].append(b"new-so-pin-%d" % sd)
            return w.C_SetPIN(s=s, old=hx(t0.so_pin), new=hx(b"new-so-pin-%d" % sd))["rv"]
        if call == "initpin":
            newpins[t0.label][1].append(b"init-user-pin-%d" % sd)
            return w.C_InitPIN(s=s, pin=hx(b"init-user-pin-%d" % sd))["rv"]
        if call == "inittoken_new":
            free = w.C_GetSlotList()["slots"][-1]
            newpins["fresh"] = ([b"fresh-so-pin"], [])
            return w.C_InitToken(slot=free, pin=hx(b"fresh-so-pin"), label=hx(label32("fresh")))["rv"]
        if call == "inittoken_reinit":
            newpins["reinit"] = ([t0.so_pin], [])
            newpins[t0.label] = ([t0.so_pin], [t0.user_pin])
            return w.C_InitToken(slot=t0.slot, pin=hx(t0.so_pin), label=hx(label32("reinit")))["rv"]
        if call == "genkey":
            return w.C_GenerateKey(s=s, mech={"m": K.CKM_AES_KEY_GEN}, tpl=T(("CKA_VALUE_LEN", 32), ("CKA_TOKEN", True), ("CKA_PRIVATE", True), ("CKA_LABEL", b"N-new")))["rv"]
        if call == "genpair_ec":
            return w.C_GenerateKeyPair(s=s, mech={"m": K.CKM_EC_KEY_PAIR_GEN},
                                       pub=T(("CKA_EC_PARAMS", "06082a8648ce3d030107"), ("CKA_TOKEN", True), ("CKA_LABEL", b"N-new")),
                                       prv=T(("CKA_TOKEN", True), ("CKA_PRIVATE", True), ("CKA_LABEL", b"N-newprv")))["rv"]
        newpriv = T(("CKA_TOKEN", True), ("CKA_PRIVATE", True), ("CKA_LABEL", b"N-newprv"), ("CKA_SENSITIVE", False), ("CKA_EXTRACTABLE", True))
        newpub = T(("CKA_TOKEN", True), ("CKA_LABEL", b"N-new"))
        if call == "gen_des3":
            return w.C_GenerateKey(s=s, mech={"m": K.CKM_DES3_KEY_GEN}, tpl=T(("CKA_TOKEN", True), ("CKA_PRIVATE", True), ("CKA_LABEL", b"N-new")))["rv"]
        if call == "gen_generic":
            return w.C_GenerateKey(s=s, mech={"m": K.CKM_GENERIC_SECRET_KEY_GEN}, tpl=T(("CKA_VALUE_LEN", 24), ("CKA_TOKEN", True), ("CKA_PRIVATE", False), ("CKA_LABEL", b"N-new")))["rv"]
        if call == "genpair_rsa":
            return w.C_GenerateKeyPair(s=s, mech={"m": K.CKM_RSA_PKCS_KEY_PAIR_GEN}, pub=newpub + T(("CKA_MODULUS_BITS", 1024), ("CKA_PUBLIC_EXPONENT", bytes.fromhex("010001"))),
                                       prv=newpriv)["rv"]
        if call == "genpair_ed":
            return w.C_GenerateKeyPair(s=s, mech={"m": K.CKM_EC_EDWARDS_KEY_PAIR_GEN}, pub=newpub + T(("CKA_EC_PARAMS", "06032b6570")), prv=newpriv)["rv"]
        if call == "genpair_dsa":
            d = dict(base_template("dsa_pub", sd))
            return w.C_GenerateKeyPair(s=s, mech={"m": K.CKM_DSA_KEY_PAIR_GEN}, pub=newpub + T(("CKA_PRIME", d["CKA_PRIME"]), ("CKA_SUBPRIME", d["CKA_SUBPRIME"]), ("CKA_BASE", d["CKA_BASE"])),
                                       prv=newpriv)["rv"]
        if call == "genpair_dh":
            d = dict(base_template("dh_pub", sd))
            return w.C_GenerateKeyPair(s=s, mech={"m": K.CKM_DH_PKCS_KEY_PAIR_GEN}, pub=newpub + T(("CKA_PRIME", d["CKA_PRIME"]), ("CKA_BASE", d["CKA_BASE"])), prv=newpriv)["rv"]
        newsec = T(("CKA_CLASS", "CKO_SECRET_KEY"), ("CKA_TOKEN", True), ("CKA_PRIVATE", True), ("CKA_LABEL", b"N-new"), ("CKA_SENSITIVE", False), ("CKA_EXTRACTABLE", True))
        if call == "unwrap_secret":
            return w.C_UnwrapKey(s=s, mech={"m": K.CKM_AES_KEY_WRAP}, key=objs["_wk"], data=objs["_blob_secret"], tpl=newsec + T(("CKA_KEY_TYPE", "CKK_GENERIC_SECRET")))["rv"]
        if call == "unwrap_rsa":
            return w.C_UnwrapKey(s=s, mech={"m": K.CKM_AES_KEY_WRAP_PAD}, key=objs["_wk"], data=objs["_blob_rsa"],
                                 tpl=T(("CKA_CLASS", "CKO_PRIVATE_KEY"), ("CKA_KEY_TYPE", "CKK_RSA"), ("CKA_TOKEN", True), ("CKA_PRIVATE", bool(sd & 1)), ("CKA_LABEL", b"N-new"),
                                       ("CKA_SENSITIVE", False), ("CKA_EXTRACTABLE", True)))["rv"]
        if call == "derive_sym":
            return w.C_DeriveKey(s=s, mech={"m": K.CKM_AES_ECB_ENCRYPT_DATA, "p": {"strdata": (bytes([sd]) * 32).hex()}}, key=objs["_wk"],
                                 tpl=newsec + T(("CKA_KEY_TYPE", "CKK_AES"), ("CKA_VALUE_LEN", 32)))["rv"]
        if call == "derive_dh":
            peer = dict(base_template("dh_pub", sd))["CKA_VALUE"]
            peer = peer.hex() if isinstance(peer, (bytes, bytearray)) else peer
            return w.C_DeriveKey(s=s, mech={"m": K.CKM_DH_PKCS_DERIVE, "p": {"raw": peer}}, key=objs["_dh"],
                                 tpl=newsec + T(("CKA_KEY_TYPE", "CKK_GENERIC_SECRET"), ("CKA_VALUE_LEN", 32)))["rv"]
        if call == "derive_concat":
            return w.C_DeriveKey(s=s, mech={"m": K.CKM_CONCATENATE_BASE_AND_DATA, "p": {"strdata": (bytes([sd ^ 0x5a]) * 12).hex()}}, key=objs["_gen"],
                                 tpl=newsec + T(("CKA_KEY_TYPE", "CKK_GENERIC_SECRET")))["rv"]
        raise KeyError(call)

    # ----------------------------------------------------------------------------------------------
    def judge_image(self, ctx, prog, idx, imgdir, tree, old_tree, new_tree, old_view, new_view, pins, where, later=None):
        def V(msg):
            return Violation("%s, crash point %d (%s): %s" % (prog["call"], idx, where, msg), prog)
        # files in flight: content is neither the old nor the new one
        inflight = {}
        for f, b in tree.items():
            if b == old_tree.get(f) or b == new_tree.get(f):
                continue
            inflight[f] = b
        for f in list(old_tree) + list(new_tree):
            if f not in tree and f in old_tree and f in new_tree:
                inflight[f] = None
        # a file "in flight" = its content in the image is neither what it was before the call nor what it is after it:
        # the call was in the middle of (one of its several) rewrites of that file.  The call writes only these files.
        prefix_state = {f: True for f in inflight}
        # The registered findings (an object is built by several transactions, each a rewrite in place: truncate, then write) explain exactly
        # two shapes of an in-flight file: for a file the call CREATES a complete, well-formed intermediate version (some attributes not stored
        # yet; a file that exists before the call is rewritten by one transaction and has no intermediate versions), or a PROPER PREFIX
        # (empty included) of a version of that file that the call goes on to complete - apart from the 8-byte generation field, which each
        # version counts up.  Anything else in flight (new content followed by a stale tail, a hole, mixed versions) is not that finding.
        if later is not None:
            for f, b in inflight.items():
                if b is None:
                    continue
                prefix_state[f] = any(lt.get(f) is not None and len(lt[f]) > len(b) and lt[f][8:].startswith(b[8:]) for lt in later) or (f not in old_tree and well_formed(b))
        sb = ctx.env.sandbox()
        shutil.rmtree(sb.tokendir)
        shutil.copytree(imgdir, sb.tokendir)
        w = sb.worker()
        try:
            try:
                r = w.C_Initialize()
                if r["rv"] != 0:
                    raise V("C_Initialize on the crash image fails: %s" % K.rvname(r["rv"]))
                view = self.view(w, None, pins)
            except WorkerDied as d:
                raise V("the recovering process died while opening the crash image (%s %s): %s" % (d.how, d.detail, d.stderr[-300:]))
            tokdirs = {}
            for f in set(list(tree) + list(old_tree) + list(new_tree)):
                tokdirs.setdefault(f.split("/")[0], []).append(f)
            # map token label -> directory via token.object content of old/new tree (label bytes are stored in clear)
            for lab in set(list(old_view or {}) + list(new_view or {})):
                ov, nv = (old_view or {}).get(lab), (new_view or {}).get(lab)
                d_ = [d for d in tokdirs if any(lab.encode() in (t_.get(d + "/token.object") or b"") for t_ in (old_tree, new_tree))]
                tokobj_inflight = any(prefix_state.get(d + "/token.object") is True for d in d_)
                tokobj_weird = any((d + "/token.object") in inflight and prefix_state.get(d + "/token.object") is False for d in d_)
                got = view.get(lab)
                if tokobj_inflight:
                    # KF-C16-02: token.object is being rewritten in place and holds a proper prefix of its new content
                    if ctx.known({"file": "token.object", "state": "in_flight", "deviation": "token_unusable_or_pins_lost", "call": prog["call"]}):
                        ctx.label("excluded_token_object_in_flight")
                        continue
                    if got is None or got["so"] is None:
                        raise V("token %s: token.object is half-written (rewrite in place) and the token / its PINs are lost" % lab)
                    continue
                if got is None:
                    if ov is not None and nv is not None:
                        raise V("token %s exists before and after the call but is not listed after the crash" % lab)
                    ctx.label("token_in_creation_absent")
                    continue
                # PINs: old or new
                for role in ("so", "user"):
                    allowed = {x.get(role) for x in (ov, nv) if x is not None}
                    if got[role] not in allowed:
                        raise V("token %s: the %s PIN that logs in after the crash is %s, before/after the call it is %s" % (lab, role, got[role], sorted(str(a) for a in allowed)))
                if got.get("objs") is None:
                    raise V("token %s: %s" % (lab, got.get("error")))
                # objects
                oo = (ov or {}).get("objs") or {}
                no = (nv or {}).get("objs") or {}
                obj_inflight = [f for f in prefix_state if prefix_state[f] is True and f.endswith(".object") and not f.endswith("token.object") and any(f.startswith(d + "/") for d in d_)]
                weird = [f for f in inflight if prefix_state.get(f) is False and f.endswith(".object") and any(f.startswith(d + "/") for d in d_)]
                # one file in flight explains at most one deviating (partial / attribute-less) object and one missing object
                budget = len(obj_inflight)
                budget_missing = len(obj_inflight)
                # the objects the call is entitled to write
                targets = {"create_small": ["N-new"], "create_large": ["N-new"], "create_rsa": ["N-new"], "create_private": ["N-new"], "copy": ["N-new"],
                           "genkey": ["N-new"], "genpair_ec": ["N-new", "N-newprv"], "set_large": ["C-cert"], "set_small": ["C-cert"], "destroy": ["C-cert"],
                           "set_private": ["A-private-aes"]}.get(prog["call"])
                if prog["call"] in KEYPATH_CALLS:
                    targets = ["N-new", "N-newprv"]
                if prog["call"] == "inittoken_reinit":
                    targets = list(oo)
                targets = targets or []
                # byte-string values some object has before or after the call, per attribute type
                legit = {}
                for view_ in (oo, no):
                    for a_ in view_.values():
                        for t_, v_ in a_.items():
                            legit.setdefault(t_, set()).add(v_ if not isinstance(v_, list) else json.dumps(v_))
                for name, attrs in got["objs"].items():
                    if attrs == oo.get(name) or attrs == no.get(name):
                        continue
                    # whatever file is in flight: a byte string (>= 8 bytes) that is returned as a value must be a value that exists before or
                    # after the call - a cut or mixed value is "a half-written object returned as valid with wrong attribute values", which
                    # no registered finding covers (those yield MISSING attributes: empty, generation-only or attribute-boundary-cut files)
                    for t_, v_ in attrs.items():
                        if isinstance(v_, str) and len(v_) >= 16 and not v_.startswith(("ERR", "raw")) and int(t_) != K.CKA_LABEL and v_ not in legit.get(t_, ()):
                            raise V("token %s: object %s is returned with a %s (%d bytes: %s..) that no object has before or after the call - a half-written value "
                                    "passed off as valid (files in flight: %s)" % (lab, name, K.name("CKA", int(t_)), len(v_) // 2, v_[:32], sorted(inflight)))
                    budget -= 1
                    # (an object still carrying the label of its copy source - a duplicate name - is the copy in flight)
                    if not (name.startswith("#") or name.endswith("'") or name in targets):
                        raise V("token %s: object %s, which the call is not writing, has attributes that are neither the old nor the new ones after the crash: %s" % (
                            lab, name, {K.name("CKA", int(k)): str(v)[:40] for k, v in attrs.items()}))
                    if budget >= 0 and ctx.known({"file": "object", "state": "in_flight", "deviation": "object_in_flight_partial_or_lost", "call": prog["call"]}):
                        ctx.label("excluded_object_file_in_flight")
                        continue
                    raise V("token %s: object %s has attributes that are neither the old nor the new ones: %s (old %s, new %s; files in flight: %s)" % (
                        lab, name, {K.name("CKA", int(k)): str(v)[:40] for k, v in attrs.items()},
                        "present" if name in oo else "absent", "present" if name in no else "absent", obj_inflight + weird))
                for name in set(oo) | set(no):
                    if name not in got["objs"] and name in oo and name in no:
                        budget_missing -= 1
                        if name not in targets:
                            raise V("token %s: object %s, which the call is not writing, exists before and after the call but is gone after the crash" % (lab, name))
                        if budget_missing >= 0 and ctx.known({"file": "object", "state": "in_flight", "deviation": "object_in_flight_partial_or_lost", "call": prog["call"]}):
                            ctx.label("excluded_object_file_in_flight")
                            continue
                        raise V("token %s: object %s exists before and after the call but is gone after the crash (files in flight: %s)" % (lab, name, obj_inflight + weird))
        finally:
            w.close()
            sb.remove()

    def probe_known(self, ctx, entry):
        """deterministic reproduction of the two rewrite-in-place findings"""
        stage = ctx.shared["stage"]
        tpl = ctx.shared["tpl"]
        w = stage.fresh()
        t0 = tpl.tokens[0]
        s = w.C_OpenSession(slot=t0.slot, flags=RW)["h"]
        w.C_Login(s=s, user=K.CKU_USER, pin=hx(t0.user_pin))
        h = w.C_CreateObject(s=s, tpl=T(("CKA_CLASS", "CKO_DATA"), ("CKA_TOKEN", True), ("CKA_PRIVATE", False), ("CKA_LABEL", b"kf"), ("CKA_VALUE", b"v" * 100)))["h"]
        w.C_Finalize()
        stage.w.close()
        stage.w = None
        td = [d for d in os.listdir(stage.sb.tokendir) if t0.label.encode() in open(os.path.join(stage.sb.tokendir, d, "token.object"), "rb").read()][0]
        if entry["id"] == "KF-C16-01":
            f = [x for x in os.listdir(os.path.join(stage.sb.tokendir, td)) if x.endswith(".object") and x != "token.object"][0]
            open(os.path.join(stage.sb.tokendir, td, f), "wb").close()      # the state right after the truncate
            v = self.view_of_tree(ctx, stage.sb.tokendir, {t0.label: ([t0.so_pin], [t0.user_pin])})
            objs = (v or {}).get(t0.label, {}).get("objs") or {}
            return any(not a.get(str(K.CKA_LABEL)) for a in objs.values())
        if entry["id"] == "KF-C16-02":
            open(os.path.join(stage.sb.tokendir, td, "token.object"), "wb").close()
            v = self.view_of_tree(ctx, stage.sb.tokendir, {t0.label: ([t0.so_pin], [t0.user_pin])})
            return v is None or t0.label not in v or v[t0.label]["so"] is None
        return False


if __name__ == "__main__":
    sys.exit(main(C16))
