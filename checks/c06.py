#!/usr/bin/env python3
"""C06 - private objects are encrypted at rest under a key only a PIN unlocks (DESIGN.md section 2, C06)."""
import copy
import os
import stat
import sys

sys.path.insert(0, os.path.dirname(os.path.abspath(__file__)))
from objbase import ObjCheck  # noqa: E402
from vlib import consts as K  # noqa: E402
from vlib.env import Stage, Template  # noqa: E402
from vlib.objects import kind_of  # noqa: E402
from vlib.objworld import World, program_st  # noqa: E402
from vlib.ref import Ref  # noqa: E402
from vlib.runner import Violation, main  # noqa: E402
from vlib.store import FormatError, all_file_bytes, token_dirs  # noqa: E402

WEIGHTS = {"open": 3, "close": 1, "login": 4, "logout": 1, "create": 10, "copy": 8, "destroy": 1, "set": 6, "gen": 3, "genpair": 2,
           "unwrap": 4, "derive": 3, "setpin": 2, "inittoken": 1, "restart": 1}
UMASKS = ["0077", "0027", "0022", "0007", "27", "7"]      # the value is octal however it is spelled (the manual: "This value is in octal")
CLASSES = ["data", "cert_x509", "aes", "des3", "generic", "rsa_priv", "ec_priv", "ed_priv", "dsa_priv", "dh_priv", "rsa_pub"]


class C06(ObjCheck):
    pid = "C06"
    level = "exploration"
    variants = ["ossl-asan", "ref"]
    rule = ("Histories (as C05) biased to private objects and to every path that stores a byte-string attribute of one: "
            "C_CreateObject, C_GenerateKey(Pair), C_UnwrapKey, C_DeriveKey, C_CopyObject (incl. public-to-private upgrade with "
            "replaced attributes), C_SetAttributeValue, plus user PIN changes, token re-initialisation and restarts, with "
            "objectstore.umask in {0077, 0027, 0022, 0007} and the process umask forced to 0. After EVERY step: (1) the raw bytes "
            "of every file below directories.tokendir contain no 8-byte window of any byte-string value (>= 8 bytes) of any "
            "private token object, nor of the master key; (2) the independent decoder recovers, with the user PIN and with the "
            "SO PIN, the same 32-byte key and exactly the attribute values the API returns; (3) no IV is ever used for two "
            "different ciphertexts; (4) every file / directory created since the start has no permission bit inside the "
            "configured umask. Non-trivial = a private object with a non-empty byte-string attribute stored through a path "
            "other than C_CreateObject, or a PIN change with private objects present.")
    assumptions = ["values shared with a public object of the same history are excluded from the plaintext scan (they are "
                   "legitimately on disk in clear)", "both backends: the raw scan reads every file below the token directory (for SQLite: the database file and its "
                   "journal, free pages included); the decoders are py/vlib/store.py (file format) and its sqlite3-based counterpart"]
    essential_labels = {"dir_scans": 4000, "private_values_scanned": 2000, "perm_checked_paths": 2000, "backend_db": 100, "backend_file": 300}

    def setup(self, ctx):
        ctx.shared["ref"] = Ref()
        ctx.shared["tpls"] = {b: Template(ctx.env, ntokens=2, backend=b) for b in ("file", "db")}
        ctx.shared["tpl"] = ctx.shared["tpls"]["file"]
        ctx.shared["stages"] = {}

    def stage_for(self, ctx, um, backend="file"):
        st_ = ctx.shared["stages"].get((um, backend))
        if st_ is None:
            st_ = Stage(ctx.env, ctx.shared["tpls"][backend], reuse=not ctx.replaying, umask=um)
            ctx.shared["stages"][(um, backend)] = st_
        return st_

    # -- explicit scenarios: multi-step patterns every run must contain (the generator reaches them only now and then) ---------------------
    def scenarios(self):
        P = [["open", 0, 1], ["login", 0, "USER"]]

        def mk(i):      # private token objects through the storing paths, numbered so that values differ
            return [["create", 0, "data", i % 4, True, True, [], None], ["gen", 0, "aes", True, True, [], None], ["create", 0, "aes", (i + 1) % 4, True, True, [], None],
                    ["unwrap", 0, "generic", True, True, None, None], ["derive", 0, True, True, None], ["genpair", 0, "ec", True, True, 0, None]]
        out = []
        for backend in ("file", "db"):
            # values stored in two / three different login sessions of one process (fresh IV per value, also across logins)
            out.append({"umask": "0077", "backend": backend, "ops": P + mk(0) + [["logout", 0], ["login", 0, "USER"]] + mk(1)})
            out.append({"umask": "0027", "backend": backend, "ops": P + mk(0)[:2] + [["logout", 0], ["login", 0, "USER"]] + mk(1)[:3] + [["logout", 0], ["login", 0, "USER"]] + mk(2)})
            # SO login in between, PIN change, restart, re-initialisation of the library
            out.append({"umask": "0077", "backend": backend, "ops": P + mk(0)[:3] + [["logout", 0], ["login", 0, "SO"], ["logout", 0], ["login", 0, "USER"]] + mk(1)[:3]})
            out.append({"umask": "0022", "backend": backend, "ops": P + mk(0)[:3] + [["setpin", 0, 1]] + mk(1)[:3] + [["restart"], ["open", 0, 1], ["login", 0, "USER"]] + mk(2)[:3]})
            out.append({"umask": "0007", "backend": backend, "ops": P + mk(0)[:2] + [["reinit"], ["open", 0, 1], ["login", 0, "USER"]] + mk(1)[:2] + [["close", 0], ["open", 0, 1], ["login", 0, "USER"]] + mk(2)[:2]})
        return out

    def extra(self, ctx, tier, shard, nshards):
        for i, prog in enumerate(self.scenarios()):
            if i % nshards != shard:
                continue
            try:
                self.run_program(ctx, prog)
                ctx.label("scenarios_run")
            except Violation as v:
                v.program = prog
                return v
        return None

    def budget(self, tier):
        return {"examples": 1600, "shards": 16, "maxlen": 28} if tier == "quick" else {"examples": 16000, "shards": 16, "maxlen": 48}

    def strategy(self, tier):
        from hypothesis import strategies as st
        body = program_st(WEIGHTS, self.budget(tier)["maxlen"], classes=CLASSES, prefix=[("open", 0, 1), ("login", 0, "USER")])
        return st.tuples(st.sampled_from(UMASKS), body, st.sampled_from(["file", "file", "db"])).map(lambda t: {"umask": t[0], "ops": t[1], "backend": t[2]})

    def run_program(self, ctx, prog):
        um = prog["umask"]
        backend = prog.get("backend", "file")
        if backend == "db" and ctx.kf.entry("KF-C20-01") and ctx.kf.entry("KF-C20-01")["status"].startswith("open"):
            # known finding excluded by construction (as in C05): C_CopyObject is unusable on the SQLite backend
            n0 = len(prog["ops"])
            prog = dict(prog, ops=[op for op in prog["ops"] if op[0] != "copy"])
            ctx.label("excluded_db_copy_ops", n0 - len(prog["ops"]))
        ctx.label("backend_" + backend)
        stage = self.stage_for(ctx, um, backend)
        w = stage.fresh(initialize=False)
        w.umask(mask=0)
        r = w.C_Initialize()
        stage.initialised = r["rv"] == 0
        tokens = copy.deepcopy(ctx.shared["tpls"][backend].tokens)
        world = World(ctx, w, tokens, prog["ops"], stage=stage, ref=ctx.shared["ref"], check_views="never", judge_access=False)
        ref = ctx.shared["ref"]
        tokendir = stage.sb.tokendir
        before_paths = set()
        for root, dirs, files in os.walk(tokendir):
            for n in dirs + files:
                before_paths.add(os.path.join(root, n))
        ivs = {}
        mask = int(um, 8)
        state = {"nt": False}

        def scan(op, rv):
            world.w  # noqa
            files = all_file_bytes(tokendir)
            blob = b"".join(files.values())
            # values of public token objects that are legitimately in clear
            pub = b"\x00".join(bytes.fromhex(v) for o in world.objs.values() if not o.private and o.token
                               for t, v in o.attrs.items() if kind_of(t) == "bytes" and isinstance(v, str) and not v.startswith(("ERR", "raw")))
            # ... also when the API does not reveal them (a public object may be sensitive: its value is in clear on disk by design, and the key
            # pool is small, so a private key of the same history can carry the same material): the byte strings of every object file whose
            # CKA_PRIVATE is false, as the independent decoder reads them
            try:
                for td_ in token_dirs(tokendir, ref):
                    for attrs_ in td_.objects.values():
                        pv_ = attrs_.get(K.CKA_PRIVATE)
                        if pv_ is not None and pv_[0] == "bool" and pv_[1] is False:
                            pub += b"\x00" + b"\x00".join(bytes(v_[1]) for v_ in attrs_.values() if v_[0] == "bytes")
            except (FormatError, KeyError):
                pass
            for o in world.objs.values():
                if not (o.private and o.token and o.alive):
                    continue
                for t, v in o.attrs.items():
                    if isinstance(v, str) and v.startswith("ERR:"):
                        raise world.V("attribute %s of private object %d (%s, stored by %s) cannot be read through the API (%s): it is not stored under the token key" % (
                            K.name("CKA", t), o.oid, o.cls, o.how, v))
                vals = {t: bytes.fromhex(v) for t, v in o.attrs.items() if kind_of(t) == "bytes" and isinstance(v, str) and not v.startswith(("ERR", "raw"))}
                vals.update(getattr(o, "known", {}))
                for t, val in vals.items():
                    if len(val) < 8:
                        continue
                    if any(val[i:i + 8] in pub for i in range(0, len(val) - 7, 4)):
                        ctx.label("values_shared_with_public_object")
                        continue
                    ctx.label("private_values_scanned")
                    if o.how != "C_CreateObject":
                        state["nt"] = True
                    for i in range(0, len(val) - 7):
                        if len(set(val[i:i + 8])) < 6:
                            continue        # low-entropy window (e.g. FF..FF of a well-known prime): chance matches possible
                        if val[i:i + 8] in blob:
                            fn = [f for f, b in files.items() if val[i:i + 8] in b]
                            raise world.V("plaintext bytes of %s of private object %d (%s, stored by %s) are in the token directory (%s)" % (
                                K.name("CKA", t), o.oid, o.cls, o.how, fn[:2]))
            ctx.label("dir_scans")
            # decoder: keys, IV freshness
            try:
                dirs = token_dirs(tokendir, ref)
            except (FormatError, KeyError) as e:
                raise world.V("the token directory cannot be decoded: %s" % e)
            for td in dirs:
                lab = td.label()
                toks = [i for i, t in enumerate(tokens) if t.label == lab]
                if not toks or td.errors:
                    if td.errors:
                        raise world.V("undecodable object file(s): %s" % td.errors)
                    continue
                tk = tokens[toks[0]]
                k1 = td.master_key(tk.user_pin) if tk.user_pin is not None else None
                k2 = td.master_key(tk.so_pin, so=True)
                if k2 is None or (tk.user_pin is not None and k1 != k2):
                    raise world.V("the PIN blobs of %s do not unwrap to one 32-byte key (user: %s, SO: %s)" % (lab, k1 is not None, k2 is not None))
                for i in range(0, 25):
                    if k2[i:i + 8] in blob:
                        raise world.V("the master key of %s is in the token directory in clear" % lab)
                for f, t, iv in td.ivs():
                    ct = td.objects[f][t][1]
                    if iv in ivs and ivs[iv] != ct:
                        raise world.V("IV %s is used for two different ciphertexts" % iv.hex())
                    ivs[iv] = ct
                if op[0] == "setpin" and rv == 0 and any(o.private and o.token and o.alive for o in world.objs.values()):
                    state["nt"] = True
            if rv == 0 and op[0] in ("create", "copy", "set", "gen", "genpair", "unwrap", "derive", "setpin", "inittoken"):
                world.verify_directory("after %s" % op[0])
            # permissions of everything created since the start
            for root, dirs_, files_ in os.walk(tokendir):
                for n in dirs_ + files_:
                    p = os.path.join(root, n)
                    if p in before_paths:
                        continue
                    try:
                        m = stat.S_IMODE(os.lstat(p).st_mode)
                    except OSError:
                        continue
                    ctx.label("perm_checked_paths")
                    if m & mask:
                        raise world.V("%s was created with mode %04o, objectstore.umask is %s" % (os.path.relpath(p, tokendir), m, um))
        world.after_step = scan
        world.run()
        world.step = len(prog["ops"])
        world.op_restart()
        for k, v in world.counts.items():
            ctx.label(k, v)
        ctx.label("umask_" + um)
        ctx.case(prog, state["nt"], [])


if __name__ == "__main__":
    sys.exit(main(C06))
