"""Shared base of the object-world checks (C01, C09, C11, C19)."""
import os
import sys

sys.path.insert(0, os.path.join(os.path.dirname(os.path.abspath(__file__)), "..", "py"))
from vlib.env import Stage, Template  # noqa: E402
from vlib.objworld import World  # noqa: E402
from vlib.runner import Check  # noqa: E402


class ObjCheck(Check):
    variants = ["ossl-asan"]
    world_kw = {}
    backend = "file"

    def setup(self, ctx):
        ctx.shared["tpl"] = Template(ctx.env, ntokens=2, backend=self.backend)
        ctx.shared["stage"] = Stage(ctx.env, ctx.shared["tpl"], reuse=not ctx.replaying)

    def make_world(self, ctx, prog):
        stage = ctx.shared["stage"]
        w = stage.fresh()
        return World(ctx, w, ctx.shared["tpl"].tokens, prog, **self.world_kw)

    def finish(self, ctx, world, prog):
        pass

    def run_program(self, ctx, prog):
        world = self.make_world(ctx, prog)
        world.run()
        self.finish(ctx, world, prog)
        labels = set(world.labels)
        for k, v in world.counts.items():
            ctx.label(k, v)
        ctx.case(prog, world.nontrivial, labels)
