#!/usr/bin/env python3
"""C19 - object search is sound and complete (DESIGN.md section 2, C19)."""
import os
import sys

sys.path.insert(0, os.path.dirname(os.path.abspath(__file__)))
from objbase import ObjCheck  # noqa: E402
from vlib.objworld import program_st  # noqa: E402
from vlib.runner import main  # noqa: E402

WEIGHTS = {"open": 3, "close": 1, "closeall": 1, "login": 3, "logout": 2, "create": 12, "copy": 2, "destroy": 2, "set": 3,
           "find": 14, "gen": 1}


class C19(ObjCheck):
    pid = "C19"
    level = "exploration"
    world_kw = {"check_views": "never", "probe_handles": False, "judge_access": False}
    rule = ("Populations of token and session, private and public objects of 11 classes on 2 tokens are built by generated "
            "histories (create/copy/set/destroy/generate, login/logout, open/close); every object's full attribute set is "
            "read back through its creating session (the model). Searches use templates of 0-4 entries whose values are "
            "drawn FROM the population (so matches exist) or from literal pools, optionally truncated/extended by one byte, "
            "including empty values and attributes an object lacks, in every login state, with generated C_FindObjects batch "
            "size sequences from {1,2,3,5,64}. The union of all batches must equal the reference matcher's result exactly: "
            "each visible matching object once, nothing else. Non-trivial = template with >= 2 entries (or a byte-string "
            "entry matching a private object) whose result is neither empty nor everything visible.")
    assumptions = ["mechanism-set and nested-template attributes are not used as search keys (outside the property's quantifier)",
                   "secret values of sensitive keys are not used as search keys"]
    essential_labels = {"finds_nontrivial": 150, "finds_multi_batch": 200}

    def budget(self, tier):
        return {"examples": 4000, "shards": 16, "maxlen": 40} if tier == "quick" else {"examples": 40000, "shards": 16, "maxlen": 70}

    def strategy(self, tier):
        return program_st(WEIGHTS, self.budget(tier)["maxlen"], prefix=[("open", 0, 1), ("login", 0, "USER")])


if __name__ == "__main__":
    sys.exit(main(C19))
