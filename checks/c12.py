#!/usr/bin/env python3
"""C12 - one active operation per session and an honest output-length protocol (DESIGN.md section 2, C12).

A case = one cryptographic (or find) operation described by (mechanism, key, parameters, data, chunking), executed in
session A with size queries / too-small buffers inserted per call and "noise" calls interleaved (Init of other
operations, continuation calls of kinds that are not active), and executed plainly in session B.  Oracles: operation
state codes, query transparency (A's output == B's output, or cross-verification for randomised mechanisms), length
honesty bounds, canaries.
"""
import os
import sys

sys.path.insert(0, os.path.join(os.path.dirname(os.path.abspath(__file__)), "..", "py"))
from hypothesis import strategies as st  # noqa: E402

from vlib import consts as K  # noqa: E402
from vlib.env import Stage, Template, hx  # noqa: E402
from vlib.objects import T, keypool, usage_all  # noqa: E402
from vlib.runner import Check, Violation, main  # noqa: E402

RW = K.CKF_SERIAL_SESSION | K.CKF_RW_SESSION
ALLUSE = [("CKA_ENCRYPT", True), ("CKA_DECRYPT", True), ("CKA_SIGN", True), ("CKA_VERIFY", True), ("CKA_TOKEN", False),
          ("CKA_PRIVATE", False)]

DIGEST_LEN = {"CKM_MD5": 16, "CKM_SHA_1": 20, "CKM_SHA224": 28, "CKM_SHA256": 32, "CKM_SHA384": 48, "CKM_SHA512": 64}

# name -> dict(kind, key, multi, block, pad, tag?, fixed?)
SPECS = {}


def spec(name, **kw):
    kw["name"] = name
    SPECS[name] = kw


for m, bs, key in (("AES", 16, "aes"), ("DES3", 8, "des3")):
    spec("%s_ECB" % m, kind="cipher", mech="CKM_%s_ECB" % m, key=key, block=bs, pad=False, iv=0)
    spec("%s_CBC" % m, kind="cipher", mech="CKM_%s_CBC" % m, key=key, block=bs, pad=False, iv=bs)
    spec("%s_CBC_PAD" % m, kind="cipher", mech="CKM_%s_CBC_PAD" % m, key=key, block=bs, pad=True, iv=bs)
spec("AES_CTR", kind="cipher", mech="CKM_AES_CTR", key="aes", block=1, pad=False, iv=0, ctr=True)
spec("AES_GCM", kind="cipher", mech="CKM_AES_GCM", key="aes", block=1, pad=False, iv=0, gcm=True)
for h, n in (("MD5", 16), ("SHA_1", 20), ("SHA224", 28), ("SHA256", 32), ("SHA384", 48), ("SHA512", 64)):
    spec("%s_HMAC" % h, kind="mac", mech="CKM_%s_HMAC" % h, key="generic", fixed=n)
    spec("DIGEST_%s" % h, kind="digest", mech="CKM_%s" % h if h != "SHA_1" else "CKM_SHA_1", key=None, fixed=n)
spec("AES_CMAC", kind="mac", mech="CKM_AES_CMAC", key="aes", fixed=16)
spec("DES3_CMAC", kind="mac", mech="CKM_DES3_CMAC", key="des3", fixed=8)
spec("RSA_PKCS_SIGN", kind="asign", mech="CKM_RSA_PKCS", key="rsa", multi=False, maxin=lambda k: k - 11, det=True)
spec("RSA_X509_SIGN", kind="asign", mech="CKM_RSA_X_509", key="rsa", multi=False, maxin=lambda k: k, det=True, exact_in=False)
spec("SHA256_RSA_PKCS", kind="asign", mech="CKM_SHA256_RSA_PKCS", key="rsa", multi=True, det=True)
spec("SHA1_RSA_PKCS", kind="asign", mech="CKM_SHA1_RSA_PKCS", key="rsa", multi=True, det=True)
spec("SHA512_RSA_PKCS", kind="asign", mech="CKM_SHA512_RSA_PKCS", key="rsa", multi=True, det=True)
spec("SHA256_RSA_PSS", kind="asign", mech="CKM_SHA256_RSA_PKCS_PSS", key="rsa", multi=True, det=False, pss=("CKM_SHA256", "CKG_MGF1_SHA256", 32))
spec("RSA_PSS_RAW", kind="asign", mech="CKM_RSA_PKCS_PSS", key="rsa", multi=False, det=False, pss=("CKM_SHA256", "CKG_MGF1_SHA256", 32), fixed_in=32)
spec("ECDSA", kind="asign", mech="CKM_ECDSA", key="ec", multi=False, det=False, fixed_in=32)
spec("EDDSA", kind="asign", mech="CKM_EDDSA", key="ed", multi=False, det=True)
spec("DSA_SHA1", kind="asign", mech="CKM_DSA_SHA1", key="dsa", multi=True, det=False)
spec("DSA_RAW", kind="asign", mech="CKM_DSA", key="dsa", multi=False, det=False, fixed_in=20)
spec("RSA_PKCS_ENC", kind="aenc", mech="CKM_RSA_PKCS", key="rsa", maxin=lambda k: k - 11)
spec("RSA_OAEP_ENC", kind="aenc", mech="CKM_RSA_PKCS_OAEP", key="rsa", maxin=lambda k: k - 42, oaep=True)
spec("RSA_X509_ENC", kind="aenc", mech="CKM_RSA_X_509", key="rsa", maxin=lambda k: k, raw=True)
spec("FIND", kind="find", mech=None, key=None)

SPEC_NAMES = sorted(SPECS)
BUFMODES = ["big", "exact", "query", "small1", "smallhalf", "zero", "query_small"]
NOISE = ["init_digest", "init_encrypt", "init_decrypt", "init_sign", "init_verify", "init_find", "init_same",
         "digest_update", "encrypt_update", "decrypt_final", "sign_final", "verify_update", "find_objects", "digest_key",
         "encrypt_single", "sign_single", "digest_final"]


class OpDriver:
    """Drives one operation in one session, feeding chunks, with a buffer policy per output-producing call."""

    def __init__(self, chk, w, s, sp, keys, params, direction):
        self.chk, self.w, self.s, self.sp, self.keys, self.params, self.dir = chk, w, s, sp, keys, params, direction
        self.fed = 0
        self.emitted = 0
        self.out = b""
        self.active = False

    # names of the calls for this kind/direction
    def fns(self):
        k = self.sp["kind"]
        if k == "cipher" or k == "aenc":
            return ("C_EncryptInit", "C_Encrypt", "C_EncryptUpdate", "C_EncryptFinal") if self.dir == "enc" else \
                ("C_DecryptInit", "C_Decrypt", "C_DecryptUpdate", "C_DecryptFinal")
        if k in ("mac", "asign"):
            return ("C_SignInit", "C_Sign", "C_SignUpdate", "C_SignFinal") if self.dir == "enc" else \
                ("C_VerifyInit", "C_Verify", "C_VerifyUpdate", "C_VerifyFinal")
        if k == "digest":
            return ("C_DigestInit", "C_Digest", "C_DigestUpdate", "C_DigestFinal")
        return ("C_FindObjectsInit", None, "C_FindObjects", "C_FindObjectsFinal")

    def mech(self):
        sp, p = self.sp, self.params
        m = {"m": K.C[sp["mech"]]}
        if sp.get("iv"):
            m["p"] = {"raw": p["iv"][:sp["iv"] * 2]}
        if sp.get("ctr"):
            m["p"] = {"ctr": {"bits": p["ctrbits"], "cb": p["iv"][:32]}}
        if sp.get("gcm"):
            m["p"] = {"gcm": {"iv": p["iv"][:p["ivlen"] * 2], "aad": p["aad"], "tagBits": p["tagbits"]}}
        if sp.get("pss"):
            h, g, sl = sp["pss"]
            m["p"] = {"pss": {"hash": K.C[h], "mgf": K.C[g], "slen": sl}}
        if sp.get("oaep"):
            m["p"] = {"oaep": {"hash": K.CKM_SHA_1, "mgf": K.CKG_MGF1_SHA1, "source": K.CKZ_DATA_SPECIFIED}}
        return m

    def key(self):
        sp = self.sp
        if sp["key"] is None:
            return None
        if sp["kind"] in ("asign", "aenc"):
            if sp["kind"] == "asign":
                return self.keys[sp["key"] + ("_priv" if self.dir == "enc" else "_pub")]
            return self.keys[sp["key"] + ("_pub" if self.dir == "enc" else "_priv")]
        return self.keys[sp["key"]]

    def init(self):
        fn = self.fns()[0]
        if self.sp["kind"] == "digest":
            r = self.w.call(fn, s=self.s, mech=self.mech())
        elif self.sp["kind"] == "find":
            r = self.w.call(fn, s=self.s, tpl=[])
        else:
            r = self.w.call(fn, s=self.s, mech=self.mech(), key=self.key())
        self.active = r["rv"] == K.CKR_OK
        return r["rv"]

    def bound(self, inlen):
        sp = self.sp
        if "fixed" in sp:
            return sp["fixed"]
        if sp["kind"] == "asign":
            return self.keys["siglen_" + sp["key"]]
        if sp["kind"] == "aenc":
            return self.keys["siglen_rsa"]
        buffered = max(0, self.fed - self.emitted)
        tag = self.params.get("tagbits", 0) // 8 if sp.get("gcm") else 0
        return inlen + buffered + (sp["block"] if sp["block"] > 1 else 16 if sp.get("gcm") else 0) + tag

    def produce(self, fn, data, bufmode, what):
        """an output-producing call under a buffer policy.  -> (rv, output bytes or None)"""
        w, s, chk = self.w, self.s, self.chk
        kw = {"s": s}
        if data is not None:
            kw["data"] = data.hex()
        inlen = len(data) if data is not None else 0
        bound = self.bound(inlen)
        L = None
        if bufmode in ("query", "query_small", "exact", "small1", "smallhalf"):
            r = w.call(fn, **kw)      # NULL output pointer: size query
            chk.count("size_queries")
            if r["rv"] != K.CKR_OK:
                self.active = False
                return r["rv"], None
            L = r["out"]["len"]
            if L > bound:
                raise chk.V("%s %s: size query reports %d bytes, more than the mechanism can need (%d = input %d + buffered %d + block/tag)" % (
                    what, fn, L, bound, inlen, max(0, self.fed - self.emitted)))
        if bufmode in ("small1", "smallhalf", "query_small", "zero"):
            if L is None:
                ann = 0
            else:
                ann = L - 1 if bufmode != "smallhalf" else L // 2
            if bufmode == "zero":
                ann = 0
            if L is None or (L > 0 and ann < L):
                r = w.call(fn, out=ann, **kw)
                if r["rv"] == K.CKR_BUFFER_TOO_SMALL:
                    chk.count("too_small_answers")
                    if r["out"].get("canary") is False or r["out"].get("tail") is False:
                        raise chk.V("%s %s: CKR_BUFFER_TOO_SMALL but the %d-byte buffer was written" % (what, fn, ann))
                    L2 = r["out"]["len"]
                    if L2 <= ann:
                        raise chk.V("%s %s: CKR_BUFFER_TOO_SMALL for a %d-byte buffer but reports %d as needed" % (what, fn, ann, L2))
                    if L2 > bound:
                        raise chk.V("%s %s: CKR_BUFFER_TOO_SMALL reports %d bytes, more than the mechanism can need (%d)" % (what, fn, L2, bound))
                    L = L2
                elif r["rv"] == K.CKR_OK:
                    # the real need was smaller than announced: fine if it fits
                    out = bytes.fromhex(r["out"].get("data", ""))
                    self._check_out(r, ann, fn, what)
                    return K.CKR_OK, out
                else:
                    self.active = False
                    return r["rv"], None
        ann = L if L is not None else bound + 32
        if bufmode == "big":
            ann = bound + 64
        r = w.call(fn, out=ann, **kw)
        if r["rv"] == K.CKR_BUFFER_TOO_SMALL:
            raise chk.V("%s %s: the length %d reported by the library itself is answered with CKR_BUFFER_TOO_SMALL (now %d)" % (
                what, fn, ann, r["out"]["len"]))
        if r["rv"] != K.CKR_OK:
            self.active = False
            return r["rv"], None
        self._check_out(r, ann, fn, what)
        return K.CKR_OK, bytes.fromhex(r["out"].get("data", ""))

    def _check_out(self, r, ann, fn, what):
        o = r["out"]
        if o.get("canary") is False:
            raise self.chk.V("%s %s: wrote outside the announced %d-byte buffer" % (what, fn, ann))
        if o.get("tail") is False:
            raise self.chk.V("%s %s: wrote more bytes than the %d it reports" % (what, fn, o["len"]))
        if o["len"] > ann:
            raise self.chk.V("%s %s: reports %d bytes written into a %d-byte buffer" % (what, fn, o["len"], ann))

    def update(self, chunk, bufmode, what):
        fn = self.fns()[2]
        k = self.sp["kind"]
        if k in ("cipher",):
            rv, out = self.produce(fn, chunk, bufmode, what)
            if rv == K.CKR_OK:
                self.fed += len(chunk)
                self.emitted += len(out)
                self.out += out
            return rv
        r = self.w.call(fn, s=self.s, data=chunk.hex())
        if r["rv"] == K.CKR_OK:
            self.fed += len(chunk)
        else:
            self.active = False
        return r["rv"]

    def final(self, bufmode, what, sig=None):
        fn = self.fns()[3]
        if self.sp["kind"] in ("mac", "asign") and self.dir == "dec":
            r = self.w.call(fn, s=self.s, data=sig.hex())
            self.active = False
            return r["rv"]
        rv, out = self.produce(fn, None, bufmode, what)
        if rv == K.CKR_OK:
            self.out += out
            self.emitted += len(out)
            self.active = False
        return rv

    def single(self, data, bufmode, what, sig=None):
        fn = self.fns()[1]
        if self.sp["kind"] in ("mac", "asign") and self.dir == "dec":
            r = self.w.call(fn, s=self.s, data=data.hex(), sig=sig.hex())
            self.active = False
            return r["rv"]
        rv, out = self.produce(fn, data, bufmode, what)
        if rv == K.CKR_OK:
            self.out += out
            self.active = False
        return rv


class C12(Check):
    pid = "C12"
    level = "exploration"
    variants = ["ossl-asan"]
    rule = ("A case = (mechanism from 46 specs: AES/DES3 ECB, CBC, CBC-PAD, AES-CTR, AES-GCM, 6 HMACs, AES/DES3-CMAC, 6 digests, "
            "RSA PKCS#1/X.509/PSS/OAEP, ECDSA, EdDSA, DSA, find; key size; IV/AAD/tag/counter parameters; message 0..100 "
            "bytes around block boundaries; split into <= 5 parts incl. empty; single- or multi-part; direction), run in "
            "session A with a generated buffer policy per call (NULL size query, exact, 1 byte short, half, zero, oversized) and "
            "generated noise calls interleaved (Init of every kind while active -> CKR_OPERATION_ACTIVE; continuation calls "
            "of inactive kinds -> CKR_OPERATION_NOT_INITIALIZED), and plainly in session B. Judged: state codes; A's output "
            "== B's output (randomised mechanisms: cross-verify / decrypt); every reported length L satisfies needed <= L <= "
            "input + buffered + block + tag (or the fixed size) and a buffer of L succeeds; canaries behind the announced and "
            "the reported length; after the end (success or failure) the operation is gone - the latter also as a complete small-scope "
            "enumeration: every mechanism x direction x way to make the operation fail (input of a wrong length, undecryptable / wrongly padded / "
            "wrongly tagged ciphertext, wrong signature or signature length, over-long input to RSA; single-part and at the Final of a multi-part "
            "operation; 4 RSA key sizes): the continuation call must answer CKR_OPERATION_NOT_INITIALIZED and a new Init must not find an "
            "operation active. Non-trivial = a query or "
            "too-small attempt in the middle of a multi-part operation, or a Final with zero buffered bytes.")
    assumptions = ["Update/Final on single-part-only mechanisms and single-part calls after an Update are not generated "
                   "(the statement does not fix their outcome)", "arguments are non-NULL and well formed (NULL arguments belong to C17)"]
    essential_labels = {"size_queries": 3000, "too_small_answers": 2000, "noise_active": 1500, "noise_not_initialized": 2000,
                        "mid_multipart_query": 1500}

    def setup(self, ctx):
        ctx.shared["tpl"] = Template(ctx.env, ntokens=1)
        ctx.shared["stage"] = Stage(ctx.env, ctx.shared["tpl"], reuse=not ctx.replaying)

    def budget(self, tier):
        return {"examples": 16000, "shards": 16} if tier == "quick" else {"examples": 160000, "shards": 16}

    def strategy(self, tier):
        chunks = st.lists(st.integers(0, 40), min_size=1, max_size=5)
        return st.fixed_dictionaries({
            "spec": st.sampled_from(SPEC_NAMES),
            "dir": st.sampled_from(["enc", "enc", "dec"]),
            "keylen": st.sampled_from([16, 24, 32]),
            "rsa": st.integers(0, 3),
            "multi": st.booleans(),
            "chunks": chunks,
            "bufmodes": st.lists(st.sampled_from(BUFMODES), min_size=6, max_size=6),
            "noise": st.lists(st.tuples(st.integers(0, 6), st.sampled_from(NOISE)).map(list), max_size=5),
            "iv": st.binary(min_size=16, max_size=16).map(lambda b: b.hex()),
            "ivlen": st.integers(1, 16),
            "aad": st.binary(max_size=20).map(lambda b: b.hex()),
            "tagbits": st.sampled_from([128, 128, 96, 64, 32, 8, 120, 104]),
            "ctrbits": st.sampled_from([128, 64, 32, 16, 8, 1, 127]),
            "seed": st.integers(0, 255),
            "abort": st.sampled_from([None, None, None, "bad_len", "after_finish"]),
        })

    # ----------------------------------------------------------------------------------------------
    def V(self, msg):
        return Violation("%s: %s" % (self._desc, msg), self._prog)

    def count(self, k, n=1):
        self._ctx.label(k, n)

    def make_keys(self, w, s, prog):
        kp = keypool()
        keys = {}

        def create(name, tpl):
            kind = "public" if name.endswith("_pub") else "private" if name.endswith("_priv") else "secret"
            r = w.C_CreateObject(s=s, tpl=tpl + T(*usage_all(kind)))
            if r["rv"] != 0:
                raise RuntimeError("key setup failed: %s %s" % (name, K.rvname(r["rv"])))
            keys[name] = r["h"]
        seed = prog["seed"]
        sp = SPECS[prog["spec"]]
        kt = sp["key"]
        if kt == "aes":
            create("aes", T(("CKA_CLASS", "CKO_SECRET_KEY"), ("CKA_KEY_TYPE", "CKK_AES"), ("CKA_VALUE", bytes((seed + i * 7) & 0xFF for i in range(prog["keylen"])))))
        elif kt == "des3":
            create("des3", T(("CKA_CLASS", "CKO_SECRET_KEY"), ("CKA_KEY_TYPE", "CKK_DES3"), ("CKA_VALUE", bytes(((seed + i * 13) & 0xFE) | 1 for i in range(24)))))
        elif kt == "generic":
            create("generic", T(("CKA_CLASS", "CKO_SECRET_KEY"), ("CKA_KEY_TYPE", "CKK_GENERIC_SECRET"), ("CKA_VALUE", bytes((seed + i) & 0xFF for i in range(64)))))
        elif kt == "rsa":
            k = kp["rsa"][prog["rsa"] % len(kp["rsa"])]
            create("rsa_pub", T(("CKA_CLASS", "CKO_PUBLIC_KEY"), ("CKA_KEY_TYPE", "CKK_RSA"), ("CKA_MODULUS", k["n"]), ("CKA_PUBLIC_EXPONENT", k["e"])))
            create("rsa_priv", T(("CKA_CLASS", "CKO_PRIVATE_KEY"), ("CKA_KEY_TYPE", "CKK_RSA"), ("CKA_MODULUS", k["n"]), ("CKA_PUBLIC_EXPONENT", k["e"]),
                                 ("CKA_PRIVATE_EXPONENT", k["d"]), ("CKA_PRIME_1", k["p"]), ("CKA_PRIME_2", k["q"]), ("CKA_EXPONENT_1", k["dp"]),
                                 ("CKA_EXPONENT_2", k["dq"]), ("CKA_COEFFICIENT", k["qinv"])))
            keys["siglen_rsa"] = len(k["n"]) // 2
        elif kt == "ec":
            k = kp["ec"][0]
            create("ec_pub", T(("CKA_CLASS", "CKO_PUBLIC_KEY"), ("CKA_KEY_TYPE", "CKK_EC"), ("CKA_EC_PARAMS", k["params"]), ("CKA_EC_POINT", k["point"])))
            create("ec_priv", T(("CKA_CLASS", "CKO_PRIVATE_KEY"), ("CKA_KEY_TYPE", "CKK_EC"), ("CKA_EC_PARAMS", k["params"]), ("CKA_VALUE", k["d"])))
            keys["siglen_ec"] = 64
        elif kt == "ed":
            k = kp["ed"][0]
            create("ed_pub", T(("CKA_CLASS", "CKO_PUBLIC_KEY"), ("CKA_KEY_TYPE", "CKK_EC_EDWARDS"), ("CKA_EC_PARAMS", k["params"]), ("CKA_EC_POINT", k["point"])))
            create("ed_priv", T(("CKA_CLASS", "CKO_PRIVATE_KEY"), ("CKA_KEY_TYPE", "CKK_EC_EDWARDS"), ("CKA_EC_PARAMS", k["params"]), ("CKA_VALUE", k["d"])))
            keys["siglen_ed"] = 64
        elif kt == "dsa":
            k = kp["dsa"][0]
            create("dsa_pub", T(("CKA_CLASS", "CKO_PUBLIC_KEY"), ("CKA_KEY_TYPE", "CKK_DSA"), ("CKA_PRIME", k["p"]), ("CKA_SUBPRIME", k["q"]), ("CKA_BASE", k["g"]), ("CKA_VALUE", k["y"])))
            create("dsa_priv", T(("CKA_CLASS", "CKO_PRIVATE_KEY"), ("CKA_KEY_TYPE", "CKK_DSA"), ("CKA_PRIME", k["p"]), ("CKA_SUBPRIME", k["q"]), ("CKA_BASE", k["g"]), ("CKA_VALUE", k["x"])))
            keys["siglen_dsa"] = 2 * (len(k["q"]) // 2)
        # a spare AES key and generic key for noise Inits
        r = w.C_CreateObject(s=s, tpl=T(("CKA_CLASS", "CKO_SECRET_KEY"), ("CKA_KEY_TYPE", "CKK_AES"), ("CKA_VALUE", b"N" * 16)) + T(*usage_all("secret")))
        keys["noise_aes"] = r["h"]
        return keys

    def noise(self, w, s, what, keys, active_kind):
        """-> nothing; raises on a wrong state code.  active_kind: kind of the operation active in this session or None"""
        aes = keys["noise_aes"]
        iv = {"raw": "00" * 16}
        inits = {"init_digest": ("C_DigestInit", dict(mech={"m": K.CKM_SHA256}), "digest"),
                 "init_encrypt": ("C_EncryptInit", dict(mech={"m": K.CKM_AES_CBC_PAD, "p": iv}, key=aes), "encrypt"),
                 "init_decrypt": ("C_DecryptInit", dict(mech={"m": K.CKM_AES_CBC_PAD, "p": iv}, key=aes), "decrypt"),
                 "init_sign": ("C_SignInit", dict(mech={"m": K.CKM_AES_CMAC}, key=aes), "sign"),
                 "init_verify": ("C_VerifyInit", dict(mech={"m": K.CKM_AES_CMAC}, key=aes), "verify"),
                 "init_find": ("C_FindObjectsInit", dict(tpl=[]), "find")}
        conts = {"digest_update": ("C_DigestUpdate", dict(data="00"), "digest"), "digest_final": ("C_DigestFinal", dict(out=64), "digest"),
                 "digest_key": ("C_DigestKey", dict(key=aes), "digest"),
                 "encrypt_update": ("C_EncryptUpdate", dict(data="00" * 16, out=64), "encrypt"),
                 "encrypt_single": ("C_Encrypt", dict(data="00" * 16, out=64), "encrypt"),
                 "decrypt_final": ("C_DecryptFinal", dict(out=64), "decrypt"),
                 "sign_final": ("C_SignFinal", dict(out=512), "sign"), "sign_single": ("C_Sign", dict(data="00", out=512), "sign"),
                 "verify_update": ("C_VerifyUpdate", dict(data="00"), "verify"),
                 "find_objects": ("C_FindObjects", dict(max=4), "find")}
        if what == "init_same":
            return "skip"
        if what in inits:
            fn, kw, kind = inits[what]
            r = w.call(fn, s=s, **kw)
            if active_kind is not None:
                if r["rv"] != K.CKR_OPERATION_ACTIVE:
                    raise self.V("%s while a %s operation is active -> %s, expected CKR_OPERATION_ACTIVE" % (fn, active_kind, K.rvname(r["rv"])))
                self.count("noise_active")
                return "active"
            # nothing active: the Init may succeed; terminate what it started
            if r["rv"] == K.CKR_OK:
                term = {"digest": ("C_DigestFinal", dict(out=64)), "encrypt": ("C_Encrypt", dict(data="00" * 16, out=64)),
                        "decrypt": ("C_Decrypt", dict(data="00" * 16, out=64)), "sign": ("C_Sign", dict(data="00", out=64)),
                        "verify": ("C_Verify", dict(data="00", sig="00" * 16)), "find": ("C_FindObjectsFinal", dict())}[kind]
                w.call(term[0], s=s, **term[1])
            return "idle"
        fn, kw, kind = conts[what]
        if active_kind == kind:
            return "skip"
        r = w.call(fn, s=s, **kw)
        if r["rv"] != K.CKR_OPERATION_NOT_INITIALIZED:
            raise self.V("%s although no %s operation was started (active: %s) -> %s, expected CKR_OPERATION_NOT_INITIALIZED" % (
                fn, kind, active_kind, K.rvname(r["rv"])))
        if r.get("out", {}).get("tail") is False:
            raise self.V("%s without an active operation wrote into the output buffer" % fn)
        self.count("noise_not_initialized")
        return "notinit"


    # -- small-scope enumeration: an operation that FAILED is gone (every mechanism x direction x way to make it fail) -------------------
    def fail_cells(self):
        cells = []
        for name in SPEC_NAMES:
            sp = SPECS[name]
            k = sp["kind"]
            if k == "cipher":
                if sp["block"] > 1 and not sp["pad"]:
                    for d in ("enc", "dec"):
                        cells += [[name, d, "single_badlen"], [name, d, "multi_badlen_final"]]
                if sp["pad"]:
                    cells += [[name, "dec", "single_badlen"], [name, "dec", "single_garbage"], [name, "dec", "multi_garbage_final"], [name, "dec", "multi_badlen_final"]]
                if sp.get("gcm"):
                    cells += [[name, "dec", "single_garbage"], [name, "dec", "multi_garbage_final"], [name, "dec", "single_short"]]
            elif k == "mac":
                cells += [[name, "dec", "single_badsig"], [name, "dec", "single_badsiglen"], [name, "dec", "multi_badsig_final"], [name, "dec", "multi_badsiglen_final"]]
            elif k == "asign":
                cells += [[name, "dec", "single_badsig"], [name, "dec", "single_badsiglen"]]
                if sp.get("multi"):
                    cells += [[name, "dec", "multi_badsig_final"], [name, "dec", "multi_badsiglen_final"]]
                if "maxin" in sp or "fixed_in" in sp:
                    cells.append([name, "enc", "single_toolong"])
            elif k == "aenc":
                cells += [[name, "enc", "single_toolong"], [name, "dec", "single_badlen"], [name, "dec", "single_garbage"]]
        out = []
        for c in cells:
            for rsa in ((0, 1, 2, 3) if SPECS[c[0]]["key"] == "rsa" else (0,)):
                out.append(["failcell"] + c + [rsa])
        return out

    def extra(self, ctx, tier, shard, nshards):
        cells = self.fail_cells()
        ctx.extra["fail_cells_total"] = len(cells) if shard == 0 else 0
        for i, cell in enumerate(cells):
            if i % nshards != shard:
                continue
            self.run_failcell(ctx, cell)
        if shard == 0:
            self.run_failed_init_leaves_no_trace(ctx)
        return None

    def run_failed_init_leaves_no_trace(self, ctx):
        """an Init that FAILS (wrong key type for the mechanism, malformed parameters, disabled usage) on any key - in particular on a private
        CKA_ALWAYS_AUTHENTICATE key - leaves nothing behind: the same session then runs an ordinary operation exactly like a fresh session"""
        from vlib.objects import base_template
        prog = {"failcell": ["failcell", "INIT", "enc", "failed_init_leaves_no_trace", 0]}
        self._ctx, self._prog, self._desc = ctx, prog, "failed Init leaves no trace"
        stage = ctx.shared["stage"]
        w = stage.fresh()
        tok = ctx.shared["tpl"].tokens[0]
        s = w.C_OpenSession(slot=tok.slot, flags=RW)["h"]
        try:
            if w.C_Login(s=s, user=K.CKU_USER, pin=hx(tok.user_pin))["rv"] != 0:
                raise RuntimeError("login failed")
            def mk(tpl_):
                r = w.C_CreateObject(s=s, tpl=tpl_)
                if r["rv"] != 0:
                    raise RuntimeError("key setup: %s" % K.rvname(r["rv"]))
                return r["h"]
            aa = mk(T(*base_template("rsa_priv", 0)) + T(("CKA_TOKEN", False), ("CKA_PRIVATE", True), ("CKA_SIGN", True), ("CKA_DECRYPT", True), ("CKA_ALWAYS_AUTHENTICATE", True)))
            nosign = mk(T(*base_template("rsa_priv", 0)) + T(("CKA_TOKEN", False), ("CKA_PRIVATE", True), ("CKA_SIGN", False), ("CKA_DECRYPT", False), ("CKA_ALWAYS_AUTHENTICATE", True)))
            plain = mk(T(*base_template("rsa_priv", 0)) + T(("CKA_TOKEN", False), ("CKA_PRIVATE", False), ("CKA_SIGN", True), ("CKA_DECRYPT", True)))
            aes = mk(T(("CKA_CLASS", "CKO_SECRET_KEY"), ("CKA_KEY_TYPE", "CKK_AES"), ("CKA_VALUE", b"K" * 16), ("CKA_TOKEN", False), ("CKA_PRIVATE", False), ("CKA_SIGN", True),
                       ("CKA_ENCRYPT", True)))
            badpss = {"pss": {"hash": K.CKM_SHA_1, "mgf": K.CKG_MGF1_SHA256, "slen": 20}}
            failing = [("C_SignInit", {"m": K.CKM_ECDSA}, aa), ("C_SignInit", {"m": K.CKM_SHA256_RSA_PKCS_PSS, "p": badpss}, aa), ("C_SignInit", {"m": K.CKM_RSA_PKCS_PSS, "p": badpss}, aa),
                       ("C_SignInit", {"m": K.CKM_RSA_PKCS}, nosign), ("C_SignInit", {"m": K.CKM_AES_CMAC}, aa), ("C_SignInit", {"m": K.CKM_SHA256_HMAC}, aa),
                       ("C_DecryptInit", {"m": K.CKM_AES_CBC_PAD, "p": {"raw": "00" * 16}}, aa), ("C_DecryptInit", {"m": K.CKM_RSA_PKCS}, nosign),
                       ("C_DecryptInit", {"m": K.CKM_RSA_PKCS_OAEP, "p": {"oaep": {"hash": K.CKM_SHA256, "mgf": K.CKG_MGF1_SHA1, "source": K.CKZ_DATA_SPECIFIED}}}, aa),
                       ("C_SignInit", {"m": K.CKM_RSA_PKCS}, 0x7FFFFF), ("C_VerifyInit", {"m": K.CKM_RSA_PKCS}, aa), ("C_EncryptInit", {"m": K.CKM_RSA_PKCS}, aa)]
            # what a fresh session answers
            s2 = w.C_OpenSession(slot=tok.slot, flags=RW)["h"]
            def canon(sess):
                out = []
                out.append(w.C_SignInit(s=sess, mech={"m": K.CKM_RSA_PKCS}, key=plain)["rv"])
                r_ = w.C_Sign(s=sess, data="31" * 20, out=512)
                out.append((r_["rv"], r_["out"].get("data")))
                out.append(w.C_SignInit(s=sess, mech={"m": K.CKM_AES_CMAC}, key=aes)["rv"])
                r_ = w.C_Sign(s=sess, data="32" * 20, out=64)
                out.append((r_["rv"], r_["out"].get("data")))
                out.append(w.C_Login(s=sess, user=K.CKU_CONTEXT_SPECIFIC, pin=hx(tok.user_pin))["rv"])
                return out
            want = canon(s2)
            w.C_CloseSession(s=s2)
            for fn, mech, key in failing:
                sx = w.C_OpenSession(slot=tok.slot, flags=RW)["h"]
                r = w.call(fn, s=sx, mech=mech, key=key)
                if r["rv"] == K.CKR_OK:
                    ctx.label("failed_init_cells_init_ok")
                else:
                    got = canon(sx)
                    if got != want:
                        raise self.V("after %s(%s) FAILED with %s, the same session does not behave like a fresh one: sign with an ordinary RSA key, CMAC, context-specific "
                                     "login with nothing pending answer %s, a fresh session answers %s" % (
                                         fn, K.name("CKM", mech["m"]), K.rvname(r["rv"]), [x if isinstance(x, int) else x[0] for x in got],
                                         [x if isinstance(x, int) else x[0] for x in want]))
                    ctx.label("failed_init_cells")
                w.C_CloseSession(s=sx)
            ctx.case(prog, True, ["failcell"])
        finally:
            w.C_Logout(s=s)
            w.C_CloseSession(s=s)

    def run_failcell(self, ctx, cell):
        _, name, direction, how, rsa = cell
        prog = {"failcell": cell, "spec": name, "seed": 17 + rsa, "keylen": [16, 24, 32][rsa % 3], "rsa": rsa}
        self._ctx, self._prog = ctx, prog
        sp = SPECS[name]
        self._desc = "%s/%s %s" % (name, direction, how)
        stage = ctx.shared["stage"]
        w = stage.fresh()
        slot = ctx.shared["tpl"].tokens[0].slot
        sa = w.C_OpenSession(slot=slot, flags=RW)["h"]
        ctx.steps += 1
        try:
            keys = self.make_keys(w, sa, prog)
            params = {"iv": "a5" * 16, "ivlen": 12, "aad": "0102", "tagbits": 128, "ctrbits": 64}
            D = OpDriver(self, w, sa, sp, keys, params, direction)
            if D.init() != K.CKR_OK:
                ctx.label("failcell_init_refused")
                return
            fi, fs, fu, ff = D.fns()
            bs = sp.get("block", 1)
            klen = keys.get("siglen_" + str(sp["key"]), 0)
            siglen = sp.get("fixed") or klen
            garbage = bytes((i * 37 + 11) & 0xFF for i in range(512))
            if how == "single_badlen":
                n = (klen - 1) if sp["kind"] == "aenc" else bs + 3
                r = w.call(fs, s=sa, data=garbage[:n].hex(), out=1024)
            elif how == "single_short":
                r = w.call(fs, s=sa, data=garbage[:7].hex(), out=1024)
            elif how == "single_garbage":
                n = klen if sp["kind"] == "aenc" else 32
                g = (b"\x00" + garbage)[:n] if sp["kind"] == "aenc" else garbage[:n]
                r = w.call(fs, s=sa, data=g.hex(), out=1024)
            elif how == "single_toolong":
                if "maxin" in sp:
                    n = sp["maxin"](klen) + 1
                else:
                    n = sp["fixed_in"] + 200 if sp["key"] != "rsa" else sp["fixed_in"] - 1
                r = w.call(fs, s=sa, data=garbage[:n].hex(), out=1024)
            elif how in ("single_badsig", "single_badsiglen"):
                n = siglen if how == "single_badsig" else siglen - 1
                din = garbage[:sp.get("fixed_in", 20)]
                if sp.get("raw") or sp["mech"] == "CKM_RSA_X_509":
                    din = (b"\x00" + garbage)[:klen]
                r = w.call(fs, s=sa, data=din.hex(), sig=(b"\x01" + garbage)[:n].hex())
            elif how in ("multi_badlen_final", "multi_garbage_final"):
                n = bs + 3 if how == "multi_badlen_final" else 32
                r1 = w.call(fu, s=sa, data=garbage[:n].hex(), out=1024)
                if r1["rv"] != K.CKR_OK:
                    r = r1
                else:
                    r = w.call(ff, s=sa, out=1024)
            elif how in ("multi_badsig_final", "multi_badsiglen_final"):
                n = siglen if how == "multi_badsig_final" else siglen - 1
                r1 = w.call(fu, s=sa, data=garbage[:20].hex())
                if r1["rv"] != K.CKR_OK:
                    r = r1
                else:
                    r = w.call(ff, s=sa, data=(b"\x01" + garbage)[:n].hex())
            else:
                raise KeyError(how)
            rv = r["rv"]
            if rv == K.CKR_OK:
                ctx.label("failcell_call_succeeded")          # (e.g. raw RSA accepts any block below the modulus, a mechanism that takes any length)
                ctx.case(prog, False, ["failcell"])
                return
            if rv == K.CKR_BUFFER_TOO_SMALL:
                ctx.label("failcell_buffer_too_small")
                return
            # the operation failed: it must be gone
            kindname = {"C_EncryptInit": "encrypt", "C_DecryptInit": "decrypt", "C_SignInit": "sign", "C_VerifyInit": "verify"}[fi]
            cont = {"encrypt": ("C_EncryptUpdate", dict(data="00" * 16, out=64)), "decrypt": ("C_DecryptUpdate", dict(data="00" * 16, out=64)),
                    "sign": ("C_SignUpdate", dict(data="00")), "verify": ("C_VerifyUpdate", dict(data="00"))}[kindname]
            r2 = w.call(cont[0], s=sa, **cont[1])
            if r2["rv"] != K.CKR_OPERATION_NOT_INITIALIZED:
                raise self.V("the operation failed (%s -> %s) but is still there: %s -> %s, expected CKR_OPERATION_NOT_INITIALIZED" % (
                    how, K.rvname(rv), cont[0], K.rvname(r2["rv"])))
            r3 = w.call(fi, s=sa, mech=D.mech(), key=D.key())
            if r3["rv"] == K.CKR_OPERATION_ACTIVE:
                raise self.V("the operation failed (%s -> %s) but a new %s answers CKR_OPERATION_ACTIVE" % (how, K.rvname(rv), fi))
            ctx.label("failed_op_gone")
            ctx.label("failcell_rv_" + K.rvname(rv))
            ctx.case(prog, True, ["failcell"])
        finally:
            w.C_CloseSession(s=sa)

    def run_program(self, ctx, prog):
        if isinstance(prog, dict) and prog.get("failcell"):
            if prog["failcell"][1] == "INIT":
                return self.run_failed_init_leaves_no_trace(ctx)
            return self.run_failcell(ctx, prog["failcell"])
        self._ctx, self._prog = ctx, prog
        sp = SPECS[prog["spec"]]
        self._desc = "%s/%s" % (prog["spec"], prog["dir"])
        stage = ctx.shared["stage"]
        w = stage.fresh()
        slot = ctx.shared["tpl"].tokens[0].slot
        sa = w.C_OpenSession(slot=slot, flags=RW)["h"]
        sb = w.C_OpenSession(slot=slot, flags=RW)["h"]
        keys = self.make_keys(w, sa, prog)
        kind = sp["kind"]
        direction = prog["dir"] if kind != "digest" and kind != "find" else "enc"
        labels = set()
        nontrivial = False
        ctx.steps += 1

        # ---- data ----------------------------------------------------------------------------------
        chunks = [bytes(((prog["seed"] + i * 31 + j) & 0xFF) for j in range(n)) for i, n in enumerate(prog["chunks"])]
        multi = prog["multi"] and sp.get("multi", True) and kind not in ("aenc",)
        if kind == "find":
            multi = True
        if "fixed_in" in sp:
            chunks = [bytes(((prog["seed"] + j) & 0xFF) for j in range(sp["fixed_in"]))]
            multi = False
        data = b"".join(chunks)
        if kind in ("asign", "aenc") and "maxin" in sp:
            mx = sp["maxin"](keys["siglen_rsa"])
            if sp.get("raw") or sp["mech"] == "CKM_RSA_X_509":
                data = (b"\x00" + data + bytes(mx))[:mx]      # exactly modulus length, below the modulus
            else:
                data = data[:mx]
            chunks = [data]
            multi = False
        if kind == "cipher" and not sp["pad"] and sp["block"] > 1:
            # block modes without padding need block-multiple input: cut the tail (keep the chunking)
            total = len(data) - len(data) % sp["block"]
            out, acc = [], 0
            for c in chunks:
                c = c[:max(0, total - acc)]
                acc += len(c)
                out.append(c)
            chunks = out
            data = b"".join(chunks)
        params = {"iv": prog["iv"], "ivlen": prog["ivlen"], "aad": prog["aad"], "tagbits": prog["tagbits"], "ctrbits": prog["ctrbits"]}

        # ---- reference run in session B (plain, big buffers) -------------------------------------------
        B = OpDriver(self, w, sb, sp, keys, params, "enc")
        rvb = B.init()
        if rvb != K.CKR_OK:
            # parameters refused by the library (e.g. tag length): nothing to compare; both sessions must agree
            A = OpDriver(self, w, sa, sp, keys, params, "enc")
            rva = A.init()
            if rva == K.CKR_OK:
                raise self.V("Init refused in one session (%s) and accepted in another" % K.rvname(rvb))
            ctx.case(prog, False, ["init_refused"])
            return
        if kind == "find":
            refout = None
            w.C_FindObjectsFinal(s=sb)
        elif multi:
            for c in chunks:
                if B.update(c, "big", "reference") != K.CKR_OK:
                    break
            rvb = B.final("big", "reference") if B.active else -1
            refout = B.out if rvb == K.CKR_OK else None
        else:
            rvb = B.single(data, "big", "reference")
            refout = B.out if rvb == K.CKR_OK else None
        if refout is None and kind != "find":
            ctx.case(prog, False, ["reference_failed", "reference_failed_%s_%s" % (prog["spec"], "multi" if multi else "single")])
            return
        # for the decrypt / verify direction the input of A is the reference output
        if direction == "dec":
            if kind == "cipher" or kind == "aenc":
                a_chunks, a_data = self.rechunk(refout, prog["chunks"]), refout
            else:
                a_chunks, a_data = chunks, data
        else:
            a_chunks, a_data = chunks, data

        # ---- the run under test in session A ---------------------------------------------------------------
        A = OpDriver(self, w, sa, sp, keys, params, direction)
        noise = {}
        for pos, what in prog["noise"]:
            noise.setdefault(pos, []).append(what)
        active_kind = {"cipher": "encrypt" if direction == "enc" else "decrypt", "aenc": "encrypt" if direction == "enc" else "decrypt",
                       "mac": "sign" if direction == "enc" else "verify", "asign": "sign" if direction == "enc" else "verify",
                       "digest": "digest", "find": "find"}[kind]

        def do_noise(pos, active):
            for what in noise.get(pos, []):
                self.noise(w, sa, what, keys, active_kind if active else None)
        do_noise(0, False)
        rva = A.init()
        if rva != K.CKR_OK:
            raise self.V("Init succeeded in session B but failed in session A: %s" % K.rvname(rva))
        if "init_same" in [x for v in noise.values() for x in v]:
            rv2 = A.init()
            if rv2 != K.CKR_OPERATION_ACTIVE:
                raise self.V("second Init of the same operation -> %s, expected CKR_OPERATION_ACTIVE" % K.rvname(rv2))
            A.active = True
            self.count("noise_active")
        bm = prog["bufmodes"]
        result_rv = None
        if kind == "find":
            do_noise(1, True)
            r = w.C_FindObjects(s=sa, max=8)
            if r["rv"] != K.CKR_OK:
                raise self.V("C_FindObjects during an active search failed: %s" % K.rvname(r["rv"]))
            do_noise(2, True)
            result_rv = w.C_FindObjectsFinal(s=sa)["rv"]
            A.active = False
        elif multi:
            for i, c in enumerate(a_chunks):
                do_noise(1 + i, True)
                if bm[i % len(bm)] != "big" and kind == "cipher" and i > 0:
                    nontrivial = True
                    self.count("mid_multipart_query")
                rv = A.update(c, bm[i % len(bm)], "part %d" % i)
                if rv != K.CKR_OK:
                    result_rv = rv
                    break
                if not A.active:
                    raise self.V("internal: update left the driver inactive")
            if result_rv is None:
                do_noise(6, True)
                if A.fed == A.emitted:
                    nontrivial = nontrivial or kind == "cipher"
                    self.count("final_with_zero_buffered")
                if bm[5] != "big":
                    nontrivial = True
                    self.count("mid_multipart_query")
                result_rv = A.final(bm[5], "final", sig=refout if direction == "dec" else None)
        else:
            do_noise(1, True)
            result_rv = A.single(a_data, bm[0], "single-part", sig=refout if direction == "dec" else None)

        # ---- judgement of the result ------------------------------------------------------------------------
        if kind != "find":
            if direction == "enc":
                if result_rv != K.CKR_OK:
                    raise self.V("the operation failed with queries/noise (%s) but succeeds plainly" % K.rvname(result_rv))
                deterministic = kind in ("cipher", "mac", "digest") or sp.get("det")
                if kind == "aenc" and not sp.get("raw"):
                    deterministic = False
                if deterministic:
                    if A.out != refout:
                        raise self.V("output with size queries / too-small attempts differs from the plain run: %s vs %s" % (A.out.hex()[:80], refout.hex()[:80]))
                    self.count("transparent_outputs")
                else:
                    if len(A.out) != len(refout):
                        raise self.V("randomised output length %d differs from the plain run %d" % (len(A.out), len(refout)))
                    # cross-check: the token verifies / decrypts what it produced under the policy
                    C = OpDriver(self, w, sb, sp, keys, params, "dec")
                    if C.init() == K.CKR_OK:
                        if kind == "asign":
                            rvv = C.single(a_data, "big", "cross-verify", sig=A.out) if not multi else (C.update(a_data, "big", "cv") or C.final("big", "cv", sig=A.out))
                            if rvv != K.CKR_OK:
                                raise self.V("signature produced under the buffer policy does not verify: %s" % K.rvname(rvv))
                        else:
                            rvv = C.single(A.out, "big", "cross-decrypt")
                            if rvv != K.CKR_OK or C.out != a_data:
                                raise self.V("ciphertext produced under the buffer policy does not decrypt to the plaintext")
                        self.count("cross_verified")
                if "fixed" in sp and len(A.out) != sp["fixed"]:
                    raise self.V("output length %d, mechanism's fixed size is %d" % (len(A.out), sp["fixed"]))
            else:
                if result_rv != K.CKR_OK:
                    raise self.V("decrypt/verify of the reference output failed under the buffer policy: %s" % K.rvname(result_rv))
                if kind in ("cipher", "aenc"):
                    want = data
                    if A.out != want:
                        raise self.V("decryption under the buffer policy returns %s, plaintext was %s" % (A.out.hex()[:80], want.hex()[:80]))
                    self.count("transparent_outputs")

        # ---- an operation that finished is gone ----------------------------------------------------------------
        cont = {"encrypt": ("C_EncryptUpdate", dict(data="00" * 16, out=64)), "decrypt": ("C_DecryptUpdate", dict(data="00" * 16, out=64)),
                "sign": ("C_SignUpdate", dict(data="00")), "verify": ("C_VerifyUpdate", dict(data="00")),
                "digest": ("C_DigestUpdate", dict(data="00")), "find": ("C_FindObjects", dict(max=2))}[active_kind]
        r = w.call(cont[0], s=sa, **cont[1])
        if r["rv"] != K.CKR_OPERATION_NOT_INITIALIZED:
            raise self.V("after the operation finished, %s -> %s (expected CKR_OPERATION_NOT_INITIALIZED)" % (cont[0], K.rvname(r["rv"])))
        # ---- an operation that failed is gone ---------------------------------------------------------------------
        if prog["abort"] == "bad_len" and kind == "cipher" and sp["block"] > 1 and not sp["pad"]:
            D = OpDriver(self, w, sa, sp, keys, params, direction)
            if D.init() != K.CKR_OK:
                raise self.V("Init after a finished operation failed")
            r = w.call(D.fns()[1], s=sa, data="00" * (sp["block"] + 3), out=256)
            if r["rv"] == K.CKR_OK:
                raise self.V("single-part call with a non block multiple succeeded on an unpadded block mode")
            r2 = w.call(D.fns()[2], s=sa, data="00" * sp["block"], out=64)
            if r2["rv"] != K.CKR_OPERATION_NOT_INITIALIZED:
                raise self.V("after a failed %s (%s) the operation is still there: %s -> %s" % (D.fns()[1], K.rvname(r["rv"]), D.fns()[2], K.rvname(r2["rv"])))
            self.count("failed_op_gone")
        # ---- any interleaving: single-part after Update, and Final after arbitrary (also invalid) input -----------------------
        # Only the universal clauses are judged here: nothing is written beyond the announced / reported length, a reported
        # length stays within the bound, a buffer of the reported length is not answered with CKR_BUFFER_TOO_SMALL, and the
        # session is usable afterwards.  Which return code the mix produces is not fixed by the statement.
        if kind == "cipher":
            for scenario in ("mix_single_after_update", "final_after_garbage"):
                for d2 in ("enc", "dec"):
                    E = OpDriver(self, w, sa, sp, keys, params, d2)
                    if E.init() != K.CKR_OK:
                        continue
                    g1 = bytes(((prog["seed"] * 5 + j * 3) & 0xFF) for j in range(prog["chunks"][0] % 40))
                    g2 = bytes(((prog["seed"] * 7 + j * 11) & 0xFF) for j in range(prog["chunks"][-1] % 40))
                    rv1 = E.update(g1, bm[1], scenario)
                    if rv1 != K.CKR_OK:
                        continue
                    if scenario == "mix_single_after_update":
                        E.single(g2, bm[2] if bm[2] != "big" else "query", scenario)
                    else:
                        rvf = E.final(bm[3] if bm[3] != "big" else "query", scenario)
                        if rvf == K.CKR_OK or rvf != K.CKR_BUFFER_TOO_SMALL:
                            pass
                    self.count("interleavings_" + scenario)
                    # terminate whatever is left (any error but BUFFER_TOO_SMALL ends it) and check the session is free again
                    for _ in range(3):
                        rz = w.call(E.fns()[3], s=sa, out=70000)
                        if rz["rv"] != K.CKR_BUFFER_TOO_SMALL:
                            break
                    else:
                        raise self.V("%s: the operation cannot be finished: C_*Final keeps answering CKR_BUFFER_TOO_SMALL for a 70000-byte buffer (reports %d)" % (scenario, rz["out"]["len"]))
                    if rz["out"].get("canary") is False:
                        raise self.V("%s: final call wrote outside the buffer" % scenario)
        # a new operation can start: the session is not stuck
        rv = w.C_DigestInit(s=sa, mech={"m": K.CKM_SHA256})["rv"]
        if rv != K.CKR_OK:
            raise self.V("C_DigestInit after everything finished -> %s: the session is stuck in an operation" % K.rvname(rv))
        w.C_DigestFinal(s=sa, out=32)
        labels.add("multi" if multi else "single")
        labels.add("kind_" + kind)
        ctx.case(prog, nontrivial, labels)

    @staticmethod
    def rechunk(data, sizes):
        out, pos = [], 0
        for n in sizes[:-1]:
            out.append(data[pos:pos + n])
            pos += n
        out.append(data[pos:])
        return out


if __name__ == "__main__":
    sys.exit(main(C12))
