#!/usr/bin/env python3
"""C03 - session and login state machine (DESIGN.md section 2, C03).

Program = list of abstract letters; session indices are resolved modulo the list of handles ever
issued in this history (so stale handles are part of the space); a reference model written from the
PKCS#11 rules judges every step and, after EVERY call, C_GetSessionInfo of every handle ever issued.
"""
import itertools
import os
import sys

sys.path.insert(0, os.path.join(os.path.dirname(os.path.abspath(__file__)), "..", "py"))
from hypothesis import strategies as st  # noqa: E402

from vlib import consts as K  # noqa: E402
from vlib.env import Stage, Template, hx, label32  # noqa: E402
from vlib.runner import Check, Violation, main  # noqa: E402

BOGUS = 0x7FFFFFF1
NEWPINS = [b"new-user-pin-A", b"new-so-pin-BBBB", b"abcd", b"x" * 255]

LOGIN_KINDS = [("USER", "right"), ("USER", "wrong"), ("USER", "other"), ("SO", "right"), ("SO", "wrong"),
               ("SO", "other"), ("CTX", "right"), ("CTX", "wrong"), ("BAD", "right")]


def alphabet(nsess, ntok, full):
    a = []
    for t in range(ntok):
        for rw in (0, 1):
            a.append(["open", t, rw])
    for i in range(nsess):
        a.append(["close", i])
    for t in range(ntok):
        a.append(["closeall", t])
    lk = LOGIN_KINDS if full else [("USER", "right"), ("USER", "wrong"), ("USER", "other"), ("SO", "right"),
                                   ("SO", "wrong"), ("CTX", "right")]
    for i in range(nsess if full else min(nsess, 2)):
        for ut, pk in lk:
            a.append(["login", i, ut, pk])
        a.append(["logout", i])
    for t in range(ntok if full else 1):
        a.append(["inittoken", t, "right"])
        a.append(["inittoken", t, "wrong"])
    for i in range(nsess if full else 1):
        a.append(["initpin", i, 0])
        a.append(["setpin", i, "right", 1 if not full else 0])
        a.append(["setpin", i, "wrong", 1])
    if full:
        for i in range(nsess):
            a.append(["setpin", i, "right", 2])
            a.append(["setpin", i, "other", 3])
            a.append(["initpin", i, 3])
    return a


class Model:
    def __init__(self, tokens):
        # per token
        self.login = [None for _ in tokens]           # None | 'user' | 'so'
        self.so_pin = [t.so_pin for t in tokens]
        self.user_pin = [t.user_pin for t in tokens]  # None = not initialised
        self.sessions = {}                              # handle -> (tok, rw)  open sessions
        self.ever = []                                  # every session handle ever issued, in order

    def state_of(self, h):
        tok, rw = self.sessions[h]
        l = self.login[tok]
        if l is None:
            return K.CKS_RW_PUBLIC_SESSION if rw else K.CKS_RO_PUBLIC_SESSION
        if l == "user":
            return K.CKS_RW_USER_FUNCTIONS if rw else K.CKS_RO_USER_FUNCTIONS
        return K.CKS_RW_SO_FUNCTIONS if rw else -1

    def tok_sessions(self, tok):
        return [h for h, (t, _) in self.sessions.items() if t == tok]


class C03(Check):
    pid = "C03"
    level = "exploration"
    variants = ["ossl-asan"]
    rule = ("Programs are sequences over OpenSession(RO|RW, token a|b), CloseSession, CloseAllSessions, Login(USER|SO|"
            "CONTEXT_SPECIFIC|invalid type; right|wrong|other-role PIN), Logout, InitToken(right|wrong SO PIN), InitPIN, "
            "SetPIN(right|wrong old PIN), on up to 4 sessions of 2 tokens, session references resolved modulo all handles "
            "ever issued (stale handles included). Exhaustive up to the stated depth over a reduced alphabet, then "
            "Hypothesis-generated longer sequences over the full alphabet. After every call every handle ever issued is "
            "probed with C_GetSessionInfo and compared with the reference automaton. Non-trivial = the sequence contains "
            "a failed call followed by an observation while >= 1 session is open, or >= 2 open sessions of one token "
            "across a login-state change.")
    assumptions = ["a wrong PIN is accepted with probability 2^-32 by design of the PIN blob check; treated as never",
                   "C_Logout in the public state is read, not predicted"]
    essential_labels = {"failed_call_observed": 50, "multi_session_login_change": 50, "so_login_refused_ro_exists": 5,
                        "ro_open_refused_so": 5, "inittoken_refused_session": 5, "last_close_logout": 5}

    def setup(self, ctx):
        ctx.shared["tpl"] = Template(ctx.env, ntokens=2)
        ctx.shared["stage"] = Stage(ctx.env, ctx.shared["tpl"], reuse=not ctx.replaying)

    def budget(self, tier):
        if tier == "quick":
            return {"examples": 8000, "shards": 16, "depth": 3, "maxlen": 50}
        return {"examples": 16000, "shards": 16, "depth": 4, "maxlen": 100}

    def strategy(self, tier):
        letters = alphabet(4, 2, True) + [["info", i] for i in range(4)] + [["aainit", i] for i in range(4)]
        maxlen = self.budget(tier)["maxlen"]
        # weighted: the interesting transitions need successful opens and logins
        hot = ([l for l in letters if l[0] == "open"] * 3 +
               [l for l in letters if l[0] == "login" and l[3] == "right" and l[2] in ("USER", "SO")] * 3 +
               [l for l in letters if l[0] in ("logout", "close", "closeall")])
        letter = st.one_of(st.sampled_from(hot), st.sampled_from(letters))
        return st.lists(letter, min_size=4, max_size=maxlen)

    # exhaustive leg -------------------------------------------------------------------------------
    def extra(self, ctx, tier, shard, nshards):
        depth = self.budget(tier)["depth"]
        letters = alphabet(3, 2, False)
        n = 0
        total = 0
        for L in range(1, depth + 1):
            for seq in itertools.product(range(len(letters)), repeat=L):
                total += 1
                if total % nshards != shard:
                    continue
                prog = [letters[i] for i in seq]
                try:
                    self.run_program(ctx, prog)
                except Violation as v:
                    v.program = prog
                    return v
                n += 1
        # the same automaton with a re-authentication request pending: every sequence of <= 3 letters after [open RW, user login, aainit]
        tail = [["logout", 0], ["login", 0, "SO", "right"], ["login", 0, "USER", "right"], ["login", 0, "CTX", "right"], ["login", 0, "CTX", "wrong"],
                ["login", 0, "CTX", "other"], ["open", 0, 0], ["open", 0, 1], ["login", 1, "CTX", "wrong"], ["aainit", 0]]
        for L in range(1, 4):
            for seq in itertools.product(range(len(tail)), repeat=L):
                total += 1
                if total % nshards != shard:
                    continue
                prog = [["open", 0, 1], ["login", 0, "USER", "right"], ["aainit", 0]] + [tail[i] for i in seq]
                try:
                    self.run_program(ctx, prog)
                except Violation as v:
                    v.program = prog
                    return v
                n += 1
                ctx.label("reauth_pending_sequences")
        ctx.extra["exhaustive_sequences"] = n
        ctx.extra["exhaustive_params"] = {"depth": depth, "alphabet_size": len(letters), "alphabet": letters}
        ctx.extra["exhaustive"] = True
        return None

    # ----------------------------------------------------------------------------------------------
    def observe(self, w, m, prog, step, what):
        if not m.ever:
            return
        res = w.probe(sessions=m.ever)["sessions"]
        for h, r in zip(m.ever, res):
            if h in m.sessions:
                want = m.state_of(h)
                if r[0] != K.CKR_OK:
                    raise Violation("step %d %s: open session %d: C_GetSessionInfo -> %s" % (step, what, h, K.rvname(r[0])), prog)
                if r[2] != want:
                    raise Violation("step %d %s: session %d reports state %s, automaton says %s" % (
                        step, what, h, K.name("CKS", r[2]), K.name("CKS", want)), prog)
                rwflag = bool(r[3] & K.CKF_RW_SESSION)
                if rwflag != bool(m.sessions[h][1]):
                    raise Violation("step %d %s: session %d RW flag %s differs from how it was opened" % (step, what, h, rwflag), prog)
            else:
                if r[0] == K.CKR_OK:
                    raise Violation("step %d %s: closed session handle %d still answers C_GetSessionInfo" % (step, what, h), prog)

    def run_program(self, ctx, prog):
        stage = ctx.shared["stage"]
        tokens = ctx.shared["tpl"].tokens
        w = stage.fresh()
        m = Model(tokens)
        slots = [t.slot for t in tokens]
        labels = set()
        failed_then_observed = False
        multi_change = False

        def sess(i):
            return m.ever[i % len(m.ever)] if m.ever else BOGUS

        for step, op in enumerate(prog):
            ctx.steps += 1
            kind = op[0]
            before_login = list(m.login)
            rv = None
            if kind == "open":
                tok, rw = op[1], op[2]
                r = w.C_OpenSession(slot=slots[tok], flags=K.CKF_SERIAL_SESSION | (K.CKF_RW_SESSION if rw else 0))
                rv = r["rv"]
                if rv == K.CKR_OK:
                    if not rw and m.login[tok] == "so":
                        raise Violation("step %d: read-only session opened while the SO is logged in" % step, prog)
                    h = r["h"]
                    if h in m.ever:
                        raise Violation("step %d: session handle %d issued twice" % (step, h), prog)
                    m.sessions[h] = (tok, rw)
                    m.ever.append(h)
                elif not rw and m.login[tok] == "so":
                    labels.add("ro_open_refused_so")
            elif kind == "close":
                h = sess(op[1])
                rv = w.C_CloseSession(s=h)["rv"]
                if rv == K.CKR_OK:
                    if h not in m.sessions:
                        raise Violation("step %d: C_CloseSession succeeded on a handle that is not open (%d)" % (step, h), prog)
                    tok = m.sessions.pop(h)[0]
                    if not m.tok_sessions(tok):
                        if m.login[tok] is not None:
                            labels.add("last_close_logout")
                        m.login[tok] = None
                elif h in m.sessions:
                    raise Violation("step %d: C_CloseSession of open session %d failed with %s" % (step, h, K.rvname(rv)), prog)
            elif kind == "closeall":
                tok = op[1]
                rv = w.C_CloseAllSessions(slot=slots[tok])["rv"]
                if rv == K.CKR_OK:
                    for h in m.tok_sessions(tok):
                        del m.sessions[h]
                    m.login[tok] = None
                else:
                    raise Violation("step %d: C_CloseAllSessions failed with %s" % (step, K.rvname(rv)), prog)
            elif kind == "login":
                h = sess(op[1])
                ut, pk = op[2], op[3]
                utype = {"USER": K.CKU_USER, "SO": K.CKU_SO, "CTX": K.CKU_CONTEXT_SPECIFIC, "BAD": 77}[ut]
                tok = m.sessions[h][0] if h in m.sessions else 0
                role_pin = {"USER": m.user_pin[tok], "SO": m.so_pin[tok]}.get(ut)
                if ut in ("CTX", "BAD"):
                    role_pin = m.user_pin[tok] if m.login[tok] != "so" else m.so_pin[tok]
                other_pin = m.so_pin[tok] if ut == "USER" else m.user_pin[tok]
                if pk == "right":
                    pin = role_pin if role_pin is not None else b"no-such-pin"
                elif pk == "other":
                    pin = other_pin if other_pin is not None else b"no-such-pin"
                else:
                    pin = b"definitely-wrong"
                correct = role_pin is not None and pin == role_pin
                rv = w.C_Login(s=h, user=utype, pin=hx(pin))["rv"]
                if rv == K.CKR_OK:
                    if h not in m.sessions:
                        raise Violation("step %d: C_Login succeeded on a closed/invalid session handle" % step, prog)
                    if ut in ("USER", "SO"):
                        if not correct:
                            raise Violation("step %d: C_Login(%s) succeeded with a PIN that is not the %s PIN" % (step, ut, ut), prog)
                        if m.login[tok] is not None:
                            raise Violation("step %d: C_Login(%s) succeeded while %s is logged in" % (step, ut, m.login[tok]), prog)
                        if ut == "SO" and any(not m.sessions[x][1] for x in m.tok_sessions(tok)):
                            raise Violation("step %d: SO login succeeded while a read-only session exists" % step, prog)
                        m.login[tok] = "user" if ut == "USER" else "so"
                    elif ut == "BAD":
                        raise Violation("step %d: C_Login with an invalid user type succeeded" % step, prog)
                    # CTX: login state must not change (checked by observation)
                else:
                    if (ut == "SO" and correct and h in m.sessions and m.login[tok] is None
                            and any(not m.sessions[x][1] for x in m.tok_sessions(tok))):
                        labels.add("so_login_refused_ro_exists")
                    if ut in ("USER", "SO") and correct and h in m.sessions and m.login[tok] is None and not (
                            ut == "SO" and any(not m.sessions[x][1] for x in m.tok_sessions(tok))):
                        labels.add("converse_miss_login")
            elif kind == "logout":
                h = sess(op[1])
                rv = w.C_Logout(s=h)["rv"]
                if rv == K.CKR_OK:
                    if h not in m.sessions:
                        raise Violation("step %d: C_Logout succeeded on a closed/invalid session handle" % step, prog)
                    m.login[m.sessions[h][0]] = None
                elif h in m.sessions and m.login[m.sessions[h][0]] is not None:
                    raise Violation("step %d: C_Logout failed (%s) while %s is logged in" % (step, K.rvname(rv), m.login[m.sessions[h][0]]), prog)
            elif kind == "inittoken":
                tok, pk = op[1], op[2]
                pin = m.so_pin[tok] if pk == "right" else b"wrong-so-pin"
                rv = w.C_InitToken(slot=slots[tok], pin=hx(pin), label=hx(label32("re%d" % step)))["rv"]
                if rv == K.CKR_OK:
                    if m.tok_sessions(tok):
                        raise Violation("step %d: C_InitToken succeeded while %d session(s) are open on the slot" % (step, len(m.tok_sessions(tok))), prog)
                    if pk != "right":
                        raise Violation("step %d: C_InitToken succeeded with a wrong SO PIN" % step, prog)
                    m.user_pin[tok] = None
                    m.login[tok] = None
                elif m.tok_sessions(tok):
                    labels.add("inittoken_refused_session")
            elif kind == "initpin":
                h = sess(op[1])
                new = NEWPINS[op[2]]
                rv = w.C_InitPIN(s=h, pin=hx(new))["rv"]
                if rv == K.CKR_OK:
                    if h not in m.sessions or m.login[m.sessions[h][0]] != "so":
                        raise Violation("step %d: C_InitPIN succeeded outside an SO session" % step, prog)
                    m.user_pin[m.sessions[h][0]] = new
            elif kind == "setpin":
                h = sess(op[1])
                tok = m.sessions[h][0] if h in m.sessions else 0
                so = m.login[tok] == "so"
                cur = m.so_pin[tok] if so else m.user_pin[tok]
                oth = m.user_pin[tok] if so else m.so_pin[tok]
                old = {"right": cur, "other": oth}.get(op[2], b"wrong-old-pin") or b"no-such-pin"
                new = NEWPINS[op[3]]
                rv = w.C_SetPIN(s=h, old=hx(old), new=hx(new))["rv"]
                if rv == K.CKR_OK:
                    if h not in m.sessions:
                        raise Violation("step %d: C_SetPIN succeeded on a closed/invalid session" % step, prog)
                    if not m.sessions[h][1]:
                        raise Violation("step %d: C_SetPIN succeeded in a read-only session" % step, prog)
                    if cur is None or old != cur:
                        raise Violation("step %d: C_SetPIN succeeded with a wrong old PIN" % step, prog)
                    if so:
                        m.so_pin[tok] = new
                    else:
                        m.user_pin[tok] = new
            elif kind == "info":
                h = sess(op[1])
                r = w.C_GetSessionInfo(s=h)
                rv = r["rv"]
            elif kind == "aainit":
                # leaves a re-authentication request pending in the session (private ALWAYS_AUTHENTICATE key + C_SignInit): the context-specific
                # logins of the alphabet then reach the PIN check instead of CKR_OPERATION_NOT_INITIALIZED.  Never changes sessions or login state.
                h = sess(op[1])
                from vlib.objects import T as T_, base_template as bt_
                r = w.C_CreateObject(s=h, tpl=T_(*bt_("rsa_priv", 0)) + T_(("CKA_TOKEN", False), ("CKA_PRIVATE", True), ("CKA_SIGN", True), ("CKA_ALWAYS_AUTHENTICATE", True)))
                rv = r["rv"]
                if rv == K.CKR_OK:
                    rv = w.C_SignInit(s=h, mech={"m": K.CKM_RSA_PKCS}, key=r["h"])["rv"]
                    if rv == K.CKR_OK:
                        labels.add("reauthentication_pending")
            # ---- observation after every call -------------------------------------------------
            self.observe(w, m, prog, step, "%s -> %s" % (op, K.rvname(rv)))
            if rv != K.CKR_OK and m.sessions:
                failed_then_observed = True
            for tok in range(len(tokens)):
                if before_login[tok] != m.login[tok] and len(m.tok_sessions(tok)) >= 2:
                    multi_change = True
        if failed_then_observed:
            labels.add("failed_call_observed")
        if multi_change:
            labels.add("multi_session_login_change")
        ctx.case(prog, failed_then_observed or multi_change, labels)


if __name__ == "__main__":
    sys.exit(main(C03))
