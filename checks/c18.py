#!/usr/bin/env python3
"""C18 - thread safety with locking enabled (DESIGN.md section 2, C18).

N threads of one process, each with its own sessions, run generated programs.  In controlled mode C_Initialize gets
application mutex callbacks and the harness owns the schedule: exactly one thread runs, and at every LockMutex/UnlockMutex
callback (and between calls) a generated schedule decides who runs next; a taken mutex blocks the thread in the scheduler,
so a deadlock is detected exactly.  In free mode (CKF_OS_LOCKING_OK) the threads run freely under ASan.
Oracle: sequential explainability per call (own objects/sessions: exact sequential model; token-wide login state and other
threads' objects: some value possibly in effect during the call's interval), nothing lost or duplicated, handles distinct,
deterministic crypto results equal the reference, no crash, no deadlock.
"""
import hashlib
import hmac
import json
import os
import sys

sys.path.insert(0, os.path.join(os.path.dirname(os.path.abspath(__file__)), "..", "py"))
from hypothesis import strategies as st  # noqa: E402

from vlib import consts as K  # noqa: E402
from vlib.env import Stage, Template, hx  # noqa: E402
from vlib.objects import T, base_template  # noqa: E402
from vlib.runner import Check, Violation, main  # noqa: E402
from vlib.worker import Worker, WorkerDied  # noqa: E402

RW = K.CKF_SERIAL_SESSION | K.CKF_RW_SESSION
OPS = ["open", "close", "create_s", "create_s", "create_t", "create_t", "find_own", "find_own", "find_all", "find_all", "set", "read", "destroy", "destroy",
       "digest", "hmac", "login", "logout", "create_priv", "sessinfo", "genkey", "random", "priv_read", "priv_read", "priv_make", "priv_make", "reauth"]
SHARED_PRIVATE = b"shared-private-value-of-c18-" + bytes(range(40))


def V(i):
    return {"$": i}


class C18(Check):
    pid = "C18"
    level = "exploration"
    variants = ["ossl-asan"]
    rule = ("Programs for 2-6 threads (2-16 thorough) on two tokens, each thread with its own sessions: open/close sessions, create / search / change / read / "
            "destroy own token and session objects, complete searches that see the other threads' objects, login/logout, creation of private objects, "
            "session info, SHA-256, HMAC with an own key, AES key generation, random. Controlled mode (4 of 5 cases): application mutex callbacks; a generated "
            "schedule decides at every LockMutex/UnlockMutex callback and between calls which thread runs; blocked threads wait in the scheduler (deadlock = "
            "nobody runnable). Free mode: CKF_OS_LOCKING_OK, free-running threads. Oracle: every result must be what the sequential model allows for SOME "
            "value the shared state could have had during the call's interval (own objects: exactly the sequential model); after joining, the objects found "
            "equal created minus destroyed; no object found twice; all handles and all generated keys/random values distinct; digests and MACs equal "
            "hashlib's; C_Finalize succeeds. Non-trivial = >= 1 thread switch inside a library call (controlled) or >= 2 threads whose calls overlap (free), "
            "with >= 2 threads on one token.")
    assumptions = ["file backend, as the property says", "preemption points in controlled mode are the mutex callbacks and call boundaries; code that holds no library "
                   "mutex is interleaved only in free mode", "threads change only their own objects and sessions; token-wide calls are C_Login/C_Logout"]
    essential_labels = {"controlled_cases": 150, "free_cases": 30, "switches_inside_calls": 1500, "blocked_on_mutex": 50, "search_all_under_concurrency": 300,
                        "private_reads_judged": 100}

    def setup(self, ctx):
        ctx.shared["tpl"] = Template(ctx.env, ntokens=2)

    def budget(self, tier):
        return {"examples": 1600, "shards": 16} if tier == "quick" else {"examples": 24000, "shards": 16}

    def strategy(self, tier):
        maxt = 6 if tier == "quick" else 16
        op = st.tuples(st.sampled_from(OPS), st.integers(0, 7), st.integers(0, 99)).map(list)
        prog = st.lists(op, min_size=1, max_size=10 if tier == "quick" else 14)
        sched = st.one_of(st.lists(st.integers(0, 15), max_size=60), st.lists(st.integers(0, 15), min_size=60, max_size=400),
                          # bursts: long runs of one thread with few switches (PCT-like low depth)
                          st.lists(st.tuples(st.integers(0, 15), st.integers(1, 60)), max_size=12).map(lambda l: [x for d, n in l for x in [99] * n + [d]]))
        return st.tuples(st.integers(2, maxt), st.lists(prog, min_size=maxt, max_size=maxt), sched, st.sampled_from(["controlled"] * 4 + ["free"]),
                         st.lists(st.integers(0, 1), min_size=maxt, max_size=maxt), st.booleans()).map(
            lambda x: {"nthreads": x[0], "threads": x[1][:x[0]], "schedule": x[2], "mode": x[3], "tokens": x[4][:x[0]], "start_logged_in": x[5],
                       "init_flags": K.CKF_OS_LOCKING_OK | (K.CKF_LIBRARY_CANT_CREATE_OS_THREADS if len(x[2]) % 2 else 0)})

    # ------------------------------------------------------------------------------------------------------
    def compile(self, prog, toks):
        """abstract thread programs -> executor commands + per-command meta"""
        threads, metas = [], []
        for t, ops in enumerate(prog["threads"]):
            tok = toks[prog["tokens"][t]]
            cmds = [{"fn": "C_OpenSession", "slot": tok.slot, "flags": RW, "save": "s0"},
                    {"fn": "C_CreateObject", "s": V("s0"), "save": "hk",
                     "tpl": T(("CKA_CLASS", "CKO_SECRET_KEY"), ("CKA_KEY_TYPE", "CKK_GENERIC_SECRET"), ("CKA_TOKEN", False), ("CKA_PRIVATE", False), ("CKA_SIGN", True),
                              ("CKA_VALUE", b"hmac-key-of-thread-%02d-0123456789abcdef" % t))}]
            meta = [{"op": "prologue_open"}, {"op": "prologue_key"}]
            nobj = nsess = 0
            for name, a, b in ops:
                if name == "open":
                    cmds.append({"fn": "C_OpenSession", "slot": tok.slot, "flags": RW if b % 2 else K.CKF_SERIAL_SESSION, "save": "x%d" % nsess})
                    meta.append({"op": "open", "k": nsess})
                    nsess += 1
                elif name == "close":
                    if nsess:
                        k = a % nsess
                        cmds.append({"fn": "C_CloseSession", "s": V("x%d" % k)})
                        meta.append({"op": "close", "k": k})
                elif name in ("create_s", "create_t"):
                    val = b"c18-t%d-%d" % (t, nobj)
                    cmds.append({"fn": "C_CreateObject", "s": V("s0"), "save": "o%d" % nobj,
                                 "tpl": T(("CKA_CLASS", "CKO_SECRET_KEY"), ("CKA_KEY_TYPE", "CKK_GENERIC_SECRET"), ("CKA_TOKEN", name == "create_t"), ("CKA_PRIVATE", False),
                                          ("CKA_SENSITIVE", False), ("CKA_EXTRACTABLE", True), ("CKA_VALUE", val), ("CKA_LABEL", b"l0"))})
                    meta.append({"op": "create", "k": nobj, "val": val.hex(), "token": name == "create_t"})
                    nobj += 1
                elif name in ("find_own", "set", "read", "destroy") and nobj:
                    k = a % nobj
                    val = b"c18-t%d-%d" % (t, k)
                    if name == "find_own":
                        cmds.append({"fn": "findall", "s": V("s0"), "tpl": T(("CKA_VALUE", val))})
                    elif name == "set":
                        cmds.append({"fn": "C_SetAttributeValue", "s": V("s0"), "o": V("o%d" % k), "tpl": T(("CKA_LABEL", b"l%d" % b))})
                    elif name == "read":
                        cmds.append({"fn": "readattrs", "s": V("s0"), "o": V("o%d" % k), "types": [K.CKA_VALUE, K.CKA_LABEL]})
                    else:
                        cmds.append({"fn": "C_DestroyObject", "s": V("s0"), "o": V("o%d" % k)})
                    meta.append({"op": name, "k": k, "val": val.hex(), "label": (b"l%d" % b).hex()})
                elif name == "find_all":
                    cmds.append({"fn": "census", "s": V("s0"), "types": [K.CKA_VALUE, K.CKA_LABEL]})
                    meta.append({"op": "find_all"})
                elif name == "digest":
                    data = (b"c18-digest-%d-%d-" % (t, b)) * (1 + a * 9)
                    cmds.append({"fn": "C_DigestInit", "s": V("s0"), "mech": {"m": K.CKM_SHA256}})
                    meta.append({"op": "digest_init"})
                    cmds.append({"fn": "C_Digest", "s": V("s0"), "data": data.hex(), "out": 32})
                    meta.append({"op": "digest", "want": hashlib.sha256(data).hexdigest()})
                elif name == "hmac":
                    data = (b"c18-hmac-%d-%d-" % (t, b)) * (1 + a * 5)
                    cmds.append({"fn": "C_SignInit", "s": V("s0"), "mech": {"m": K.CKM_SHA256_HMAC}, "key": V("hk")})
                    meta.append({"op": "hmac_init"})
                    cmds.append({"fn": "C_Sign", "s": V("s0"), "data": data.hex(), "out": 32})
                    meta.append({"op": "hmac", "want": hmac.new(b"hmac-key-of-thread-%02d-0123456789abcdef" % t, data, hashlib.sha256).hexdigest()})
                elif name == "login":
                    cmds.append({"fn": "C_Login", "s": V("s0"), "user": K.CKU_USER, "pin": hx(tok.user_pin)})
                    meta.append({"op": "login"})
                elif name == "logout":
                    cmds.append({"fn": "C_Logout", "s": V("s0")})
                    meta.append({"op": "logout"})
                elif name == "create_priv":
                    cmds.append({"fn": "C_CreateObject", "s": V("s0"), "save": "pv",
                                 "tpl": T(("CKA_CLASS", "CKO_DATA"), ("CKA_TOKEN", False), ("CKA_PRIVATE", True), ("CKA_VALUE", b"private-of-%d" % t))})
                    meta.append({"op": "create_priv"})
                elif name == "priv_read":
                    # the private token object the main thread made before the threads started (when it was logged in)
                    cmds.append({"fn": "findall", "s": V("s0"), "tpl": T(("CKA_LABEL", b"c18-shared-private")), "save_first": "shp"})
                    meta.append({"op": "priv_find"})
                    cmds.append({"fn": "readattrs", "s": V("s0"), "o": V("shp"), "types": [K.CKA_VALUE]})
                    meta.append({"op": "priv_read"})
                elif name == "priv_make":
                    val = b"own-private-of-c18-%d-%d-" % (t, b) + bytes(range(30))
                    cmds.append({"fn": "C_CreateObject", "s": V("s0"), "save": "pm",
                                 "tpl": T(("CKA_CLASS", "CKO_DATA"), ("CKA_TOKEN", False), ("CKA_PRIVATE", True), ("CKA_VALUE", val), ("CKA_LABEL", b"own-private"))})
                    meta.append({"op": "create_priv"})
                    cmds.append({"fn": "readattrs", "s": V("s0"), "o": V("pm"), "types": [K.CKA_VALUE]})
                    meta.append({"op": "priv_own_read", "val": val.hex()})
                elif name == "reauth":
                    # a private-key operation that needs a context-specific login (the PIN is verified with the token's key material)
                    cmds.append({"fn": "C_CreateObject", "s": V("s0"), "save": "aa",
                                 "tpl": T(*base_template("rsa_priv", 0)) + T(("CKA_TOKEN", False), ("CKA_PRIVATE", True), ("CKA_SIGN", True), ("CKA_ALWAYS_AUTHENTICATE", True))})
                    meta.append({"op": "reauth_key"})
                    cmds.append({"fn": "C_SignInit", "s": V("s0"), "mech": {"m": K.CKM_RSA_PKCS}, "key": V("aa")})
                    meta.append({"op": "reauth_init"})
                    cmds.append({"fn": "C_Login", "s": V("s0"), "user": K.CKU_CONTEXT_SPECIFIC, "pin": hx(tok.user_pin)})
                    meta.append({"op": "reauth_login"})
                    cmds.append({"fn": "C_Sign", "s": V("s0"), "data": (b"c18-reauth-%d" % t).hex(), "out": 512})
                    meta.append({"op": "reauth_sign"})
                elif name == "sessinfo":
                    cmds.append({"fn": "C_GetSessionInfo", "s": V("s0")})
                    meta.append({"op": "sessinfo"})
                elif name == "genkey":
                    cmds.append({"fn": "C_GenerateKey", "s": V("s0"), "mech": {"m": K.CKM_AES_KEY_GEN}, "save": "gk",
                                 "tpl": T(("CKA_TOKEN", False), ("CKA_PRIVATE", False), ("CKA_VALUE_LEN", 16), ("CKA_SENSITIVE", False), ("CKA_EXTRACTABLE", True))})
                    meta.append({"op": "genkey"})
                    cmds.append({"fn": "readattrs", "s": V("s0"), "o": V("gk"), "types": [K.CKA_VALUE]})
                    meta.append({"op": "genkey_read"})
                elif name == "random":
                    cmds.append({"fn": "C_GenerateRandom", "s": V("s0"), "out": 16})
                    meta.append({"op": "random"})
            threads.append(cmds)
            metas.append(meta)
        return threads, metas

    def run_program(self, ctx, prog):
        self.execute(ctx, prog)

    def execute(self, ctx, prog):
        """runs the program under its schedule and judges it -> the executor's result"""
        tplt = ctx.shared["tpl"]
        toks = tplt.tokens
        sb = ctx.env.sandbox(template=tplt)
        try:
            threads, metas = self.compile(prog, toks)
            controlled = prog["mode"] == "controlled"
            # free mode: OS locking, requested with or without CKF_LIBRARY_CANT_CREATE_OS_THREADS (both ask the library to lock with OS primitives)
            setup = [{"fn": "init_callbacks"} if controlled else {"fn": "C_Initialize", "flags": prog.get("init_flags", K.CKF_OS_LOCKING_OK)}]
            if prog.get("preinit"):
                # the same process was initialised WITHOUT locking before (provisioning), and finalised: locking must still be switched on now
                setup = [{"fn": "C_Initialize", "null_args": True}, {"fn": "C_Finalize"}] + setup
            for k, tok in enumerate(toks):
                setup.append({"fn": "C_OpenSession", "slot": tok.slot, "flags": RW, "save": "main%d" % k})
                if prog.get("start_logged_in"):
                    setup.append({"fn": "C_Login", "s": V("main%d" % k), "user": K.CKU_USER, "pin": hx(tok.user_pin)})
                    setup.append({"fn": "C_CreateObject", "s": V("main%d" % k), "tpl": T(("CKA_CLASS", "CKO_DATA"), ("CKA_TOKEN", True), ("CKA_PRIVATE", True),
                                                                                   ("CKA_LABEL", b"c18-shared-private"), ("CKA_VALUE", SHARED_PRIVATE))})
            teardown = [{"fn": "census", "s": V("main%d" % k), "types": [K.CKA_VALUE, K.CKA_LABEL]} for k in range(len(toks))] + [{"fn": "C_Finalize"}]
            w = Worker(variant="ossl-asan", conf=sb.conf, binary="p11sched")
            try:
                w.send({"mode": prog["mode"], "setup": setup, "threads": threads, "schedule": prog["schedule"], "teardown": teardown})
                res = w.recv(timeout=300)
            finally:
                w.close()
            ctx.steps += sum(len(t) for t in threads)
            self.judge(ctx, prog, toks, threads, metas, res)
            return res, threads
        finally:
            sb.remove()

    # -- depth-1 preemption sweep: deterministic, no generator ------------------------------------------------------------------------
    # thread 0: set-up calls, then ONE target call; thread 1: a short program.  For EVERY scheduling point inside the target call (every mutex
    # callback) one run: thread 0 runs alone up to that point, then thread 1 runs (to its end, or until it blocks), then thread 0 resumes.
    SWEEP_T0 = {
        "close": ([["open", 0, 1]], ["close", 0, 0], True),
        "open": ([], ["open", 0, 1], True),
        "create_s": ([], ["create_s", 0, 0], True),
        "create_t": ([], ["create_t", 0, 0], True),
        "destroy_s": ([["create_s", 0, 0]], ["destroy", 0, 0], True),
        "destroy_t": ([["create_t", 0, 0]], ["destroy", 0, 0], True),
        "set_t": ([["create_t", 0, 0]], ["set", 0, 5], True),
        "find_all": ([["create_s", 0, 0]], ["find_all", 0, 0], True),
        "logout": ([], ["logout", 0, 0], True),
        "login": ([], ["login", 0, 0], False),
        "priv_make": ([], ["priv_make", 0, 1], True),
        "priv_read": ([], ["priv_read", 0, 0], True),
        "genkey": ([], ["genkey", 0, 0], True),
        "reauth": ([], ["reauth", 0, 0], True),
    }
    SWEEP_T1 = {
        "create_s+find": [["create_s", 0, 0], ["find_own", 0, 0], ["find_all", 0, 0]],
        "create_t+find+read": [["create_t", 0, 0], ["find_own", 0, 0], ["read", 0, 0]],
        "priv_read": [["priv_read", 0, 0]],
        "find_all": [["find_all", 0, 0]],
        "logout+login": [["logout", 0, 0], ["login", 0, 0]],
        "open+close": [["open", 0, 1], ["close", 0, 0]],
        "create_t+set+destroy": [["create_t", 0, 0], ["set", 0, 3], ["destroy", 0, 0]],
        "priv_make": [["priv_make", 0, 2]],
    }

    def stress(self, ctx, tier, shard, nshards):
        """free-running stress under ASan for every way of asking for OS locking: 8 threads, each 6 rounds of open / create / find / read / digest / destroy /
        close on its own session objects (fixed programs, no generator); sequential model for own objects, handles distinct, no crash"""
        rounds = [["open", 0, 1], ["create_s", 0, 0], ["find_own", 0, 0], ["read", 0, 0], ["digest", 1, 3], ["create_t", 0, 0], ["find_own", 1, 0], ["destroy", 0, 0], ["close", 0, 0]]
        combos = [K.CKF_OS_LOCKING_OK, K.CKF_OS_LOCKING_OK | K.CKF_LIBRARY_CANT_CREATE_OS_THREADS]
        runs = [(f, r, pre) for f in combos for r in range(3 if tier == "quick" else 12) for pre in (False, True)]
        runs += [("controlled", r, True) for r in range(2)]
        for i, (flags, r, pre) in enumerate(runs):
            if i % nshards != shard:
                continue
            prog = {"nthreads": 8, "threads": [rounds * 6 for _ in range(8)], "schedule": [], "mode": "free", "tokens": [t % 2 for t in range(8)] if r % 2 else [0] * 8,
                    "start_logged_in": True, "init_flags": flags, "preinit": pre}
            if flags == "controlled":
                prog = {"nthreads": 3, "threads": [rounds for _ in range(3)], "schedule": [0, 1, 2, 99, 99, 1, 0, 2], "mode": "controlled", "tokens": [0, 0, r % 2],
                        "start_logged_in": True, "preinit": True}
            try:
                self.execute(ctx, prog)
            except WorkerDied as d:
                v = self.on_worker_death(ctx, prog, d)
                if v is not None:
                    return v
            ctx.label("stress_runs")
            ctx.label("stress_runs_flags_%s%s" % (flags, "_after_unlocked_init" if pre else ""))
        return None

    def extra(self, ctx, tier, shard, nshards):
        v = self.stress(ctx, tier, shard, nshards)
        if v is not None:
            return v
        pairs = [(a, b) for a in sorted(self.SWEEP_T0) for b in sorted(self.SWEEP_T1)]
        cap = 24 if tier == "quick" else 160          # points per pair: all of a short call, evenly spaced ones (offset rotating with the seed) of a long one
        total = 0
        for n, (a, b) in enumerate(pairs):
            if n % nshards != shard:
                continue
            setup_ops, target, logged_in = self.SWEEP_T0[a]
            base = {"nthreads": 2, "threads": [setup_ops + [target], self.SWEEP_T1[b]], "mode": "controlled", "tokens": [0, 0], "start_logged_in": logged_in,
                    "sweep": [a, b]}
            # where the target call sits in scheduler steps: a run in which thread 0 is never preempted
            res, threads = self.execute(ctx, dict(base, schedule=[0] + [99] * 3000))
            r0 = res["threads"][0]
            ncmd_setup = len(self.compile(dict(base, threads=[setup_ops, []]), ctx.shared["tpl"].tokens)[0][0])
            lo, hi = r0[ncmd_setup]["t0"], r0[-1]["t1"] + 1
            ctx.label("sweep_pairs")
            ctx.label("sweep_points_total", hi - lo + 1)
            if b == sorted(self.SWEEP_T1)[0]:
                ctx.extra.setdefault("sweep_points_of_target_call", {})[a] = hi - lo + 1
            npts = hi - lo + 1
            if npts <= cap:
                points = list(range(lo, hi + 1))
            else:
                points = sorted({lo + ((i * npts) // cap + (ctx.seed * 7 + n) % max(1, npts // cap)) % npts for i in range(cap)})
            for j in points:
                prog = dict(base, schedule=[0] + [99] * (j - 1) + [1] + [99] * 3000)
                try:
                    self.execute(ctx, prog)
                except WorkerDied as d:
                    v = self.on_worker_death(ctx, prog, d)
                    if v is not None:
                        return v
                ctx.label("sweep_runs")
                total += 1
        return None

    def probe_known(self, ctx, entry):
        """KF-C18-01: does a private-object creation still answer CKR_GENERAL_ERROR when a logout of another thread cuts in?"""
        if entry["id"] == "KF-C18-02":
            before = ctx.kf.hits.get("KF-C18-02", 0)
            self.run_program(ctx, {"nthreads": 3, "threads": [[["open", 0, 0]], [["find_all", 0, 0]], [["digest", 0, 0], ["create_t", 0, 0]]], "schedule": [2, 1, 1, 2, 2],
                                   "mode": "controlled", "tokens": [0, 0, 0], "start_logged_in": False})
            return ctx.kf.hits.get("KF-C18-02", 0) > before
        if entry["id"] == "KF-C18-05":
            before = ctx.kf.hits.get("KF-C18-05", 0)
            for _ in range(40):
                self.run_program(ctx, {"nthreads": 8, "threads": [[["priv_read", 0, 0], ["create_t", 0, 0]] * 4 for _ in range(8)], "schedule": [], "mode": "free",
                                       "tokens": [0] * 8, "start_logged_in": True})
                if ctx.kf.hits.get("KF-C18-05", 0) > before:
                    return True
            return False
        if entry["id"] == "KF-C18-03":
            before = ctx.kf.hits.get("KF-C18-03", 0)
            for _ in range(60):
                self.run_program(ctx, {"nthreads": 2, "threads": [[["find_all", 0, 0]] * 4, [["logout", 0, 0], ["create_s", 0, 0], ["logout", 0, 0], ["read", 0, 0]]],
                                       "schedule": [], "mode": "free", "tokens": [1, 1], "start_logged_in": True})
                if ctx.kf.hits.get("KF-C18-03", 0) > before:
                    return True
            return False
        if entry["id"] == "KF-C18-06":
            before = ctx.kf.hits.get("KF-C18-06", 0)
            saved = json.load(open(os.path.join(os.path.dirname(os.path.abspath(__file__)), "..", "replays", "C18", "kf-c18-06-private-read-empty.json")))["program"]
            for _ in range(30):
                self.run_program(ctx, saved)
                if ctx.kf.hits.get("KF-C18-06", 0) > before:
                    return True
            return False
        if entry["id"] != "KF-C18-01":
            return False
        import random
        rnd = random.Random(1801)
        before = ctx.kf.hits.get("KF-C18-01", 0)
        for _ in range(150):
            prog = {"nthreads": 2, "threads": [[["create_priv", 0, 0]] * 4, [["logout", 0, 0], ["login", 0, 0], ["logout", 0, 0]]], "mode": "controlled", "tokens": [0, 0],
                    "start_logged_in": True, "schedule": [rnd.choice([99, 99, 0, 1]) for _ in range(rnd.randint(5, 200))]}
            self.run_program(ctx, prog)
            if ctx.kf.hits.get("KF-C18-01", 0) > before:
                return True
        return False

    # ------------------------------------------------------------------------------------------------------
    def judge(self, ctx, prog, toks, threads, metas, res):
        self._ctx = ctx

        def bad(msg):
            return Violation(msg, prog)
        if res.get("deadlock"):
            raise bad("deadlock: %s" % res["deadlock"])
        if "error" in res:
            raise RuntimeError("executor: %s" % res["error"])
        for r in res["setup"]:
            if r.get("rv") != 0:
                raise bad("setup call failed: %s" % K.rvname(r.get("rv")))
        n = len(threads)
        R = res["threads"]
        for t in range(n):
            if len(R[t]) != len(threads[t]):
                raise bad("thread %d returned from %d of its %d calls" % (t, len(R[t]), len(threads[t])))
            for r in R[t]:
                if "error" in r:
                    raise RuntimeError("executor: %s" % r["error"])
        # ---- shared registers: login state per token, written by successful Login/Logout ---------------------
        writes = {0: [], 1: []}
        for k in (0, 1):
            writes[k].append({"t0": -2, "t1": -1, "state": "in" if prog.get("start_logged_in") else "out"})
        for t in range(n):
            for m, r in zip(metas[t], R[t]):
                if m["op"] in ("login", "logout") and r["rv"] == 0:
                    writes[prog["tokens"][t]].append({"t0": r["t0"], "t1": r["t1"], "state": "in" if m["op"] == "login" else "out", "who": (t, r["t0"])})

        def possible_login(tok, r, exclude=None):
            S = set()
            for W in writes[tok]:
                if (exclude is not None and W.get("who") == exclude) or W["t0"] > r["t1"]:
                    continue
                over = any(W2 is not W and not (exclude is not None and W2.get("who") == exclude) and W2["t0"] > W["t1"] and W2["t1"] < r["t0"] for W2 in writes[tok])
                if not over:
                    S.add(W["state"])
            return S
        # ---- searches (every C_FindObjectsInit validates - and may reload - every object of the token) ---------------
        searches = {0: [], 1: []}
        for t in range(n):
            for m, r in zip(metas[t], R[t]):
                if m["op"] in ("find_all", "find_own", "priv_find"):
                    searches[prog["tokens"][t]].append((r["t0"], r["t1"], t))

        creations = {0: [], 1: []}
        for t in range(n):
            for m, r in zip(metas[t], R[t]):
                if m["op"] in ("prologue_key", "create", "create_priv", "genkey", "set"):          # every call that writes an object other threads can meet
                    creations[prog["tokens"][t]].append((r["t0"], r["t1"], t))
        KF5 = {"op": "search", "rv": "CKR_GENERAL_ERROR", "overlaps": "object_creation_by_other_thread"}

        def creation_overlaps(tok, t, r):
            return any(who != t and a <= r["t1"] and b >= r["t0"] for a, b, who in creations[tok])

        def raced(tok, t, r):
            """did a search of ANOTHER thread on the token overlap this call?"""
            return any(who != t and a <= r["t1"] and b >= r["t0"] for a, b, who in searches[tok])
        KF2 = {"op": "token_object_write", "overlaps": "search_by_other_thread"}
        # two successful logins need a logout that can be ordered between them (whatever the interval logic above allows)
        for k in (0, 1):
            ins = [W for W in writes[k] if W["state"] == "in" and W.get("who")]
            outs = [W for W in writes[k] if W["state"] == "out" and W.get("who")]
            for a in range(len(ins)):
                for b in range(a + 1, len(ins)):
                    lo, hi = min(ins[a]["t0"], ins[b]["t0"]), max(ins[a]["t1"], ins[b]["t1"])
                    if not any(L["t0"] <= hi and L["t1"] >= lo for L in outs):
                        raise bad("two C_Login calls on token %d both returned CKR_OK (threads %d and %d) and no C_Logout could have taken effect between them" % (
                            k, ins[a]["who"][0], ins[b]["who"][0]))
            if prog.get("start_logged_in"):
                for W in ins:
                    if not any(L["t0"] <= W["t1"] for L in outs):
                        raise bad("C_Login on token %d returned CKR_OK although the user was logged in from the start and nobody could have logged out before" % k)

        self._writes = writes

        def logout_overlaps(tok, r):
            return any(W["state"] == "out" and W.get("who") and W["t0"] <= r["t1"] and W["t1"] >= r["t0"] for W in writes[tok])
        # ---- objects: creation / destruction intervals of every thread's objects ---------------------------------
        objs = {}      # value hex -> {"tok", "token_obj", "c": (t0,t1), "d": (t0,t1) or None, "thread"}
        handles = []
        randoms = []
        for t in range(n):
            hk = {"raced_search": False, "c0": 0, "dead": False}
            gk = {"raced_search": False, "c0": 0}
            live, sess_open, dead = {}, {}, set()      # dead: creations that failed as listed known finding (nothing can be said about them)
            tok = prog["tokens"][t]
            for i, (m, r) in enumerate(zip(metas[t], R[t])):
                op, rv = m["op"], r["rv"]
                where = "thread %d call %d (%s)" % (t, i, op)
                if op == "prologue_key" and rv == 0:
                    hk = {"raced_search": raced(tok, t, r), "c0": r["t0"], "dead": False}
                if op == "hmac" and hk["dead"]:
                    continue
                if op == "hmac_init" and (hk["dead"] or (
                        rv == K.CKR_OBJECT_HANDLE_INVALID and hk["raced_search"] and
                        any(W["state"] == "out" and W.get("who") and W["t0"] <= r["t1"] and W["t1"] >= hk["c0"] for W in writes[tok]) and
                        ctx.known({"op": "own_public_object_use", "rv": "CKR_OBJECT_HANDLE_INVALID", "creation_overlaps": "search_by_other_thread", "after": "C_Logout"}))):
                    hk["dead"] = True
                    continue
                if op in ("prologue_open", "prologue_key", "digest_init", "hmac_init"):
                    if rv != 0:
                        raise bad("%s failed: %s" % (where, K.rvname(rv)))
                    if op in ("prologue_open", "prologue_key"):
                        handles.append((r["h"], where))
                elif op == "open":
                    if rv != 0:
                        raise bad("%s: C_OpenSession failed: %s" % (where, K.rvname(rv)))
                    sess_open[m["k"]] = True
                    handles.append((r["h"], where))
                elif op == "close":
                    want = 0 if sess_open.get(m["k"]) else K.CKR_SESSION_HANDLE_INVALID
                    if rv != want:
                        raise bad("%s: closing an own session that is %s returned %s" % (where, "open" if want == 0 else "already closed", K.rvname(rv)))
                    sess_open[m["k"]] = False
                elif op == "create":
                    tainted = m["token"] and raced(tok, t, r)
                    if rv != 0:
                        if tainted and ctx.known(dict(KF2, deviation="create_failed")):
                            dead.add(m["k"])
                            continue
                        raise bad("%s: creating a public object failed: %s" % (where, K.rvname(rv)))
                    live[m["k"]] = {"label": b"l0".hex(), "tainted": tainted, "raced_search": raced(tok, t, r), "c0": r["t0"]}
                    objs[m["val"]] = {"tok": tok, "c": (r["t0"], r["t1"]), "d": None, "thread": t, "token_obj": m["token"], "tainted": tainted,
                                      "raced_search": raced(tok, t, r)}
                    handles.append((r["h"], where))
                elif op in ("find_own", "set", "read", "destroy") and m["k"] in dead:
                    continue
                elif op in ("find_own", "set", "read", "destroy") and m["k"] in live and live[m["k"]].get("tainted") and self.deviates(op, m, r, live):
                    # an attribute of a token object written while another thread's search reloaded it may be lost (known finding)
                    if ctx.known(dict(KF2, deviation="attribute_lost")):
                        dead.add(m["k"])
                        objs[m["val"]]["d"] = (objs[m["val"]]["c"][0], 1 << 61)      # may or may not be found from now on
                        live.pop(m["k"])
                        continue
                    raise bad("%s: own token object deviates from what the thread wrote: %s" % (where, r))
                elif op in ("set", "read", "destroy") and m["k"] in live and live[m["k"]]["raced_search"] and self.handle_invalid(op, r) and \
                        any(W["state"] == "out" and W.get("who") and W["t0"] <= r["t1"] and W["t1"] >= live[m["k"]]["c0"] for W in writes[tok]) and \
                        ctx.known({"op": "own_public_object_use", "rv": "CKR_OBJECT_HANDLE_INVALID", "creation_overlaps": "search_by_other_thread", "after": "C_Logout"}):
                    # the object still exists (a search finds it under a new handle); the thread's handle is gone
                    dead.add(m["k"])
                    live.pop(m["k"])
                    continue
                elif op == "find_own":
                    got = r.get("h", [])
                    if rv == K.CKR_GENERAL_ERROR and logout_overlaps(tok, r) and ctx.known({"op": "search", "rv": "CKR_GENERAL_ERROR", "overlaps": "C_Logout"}):
                        continue
                    if rv == K.CKR_GENERAL_ERROR and creation_overlaps(tok, t, r) and ctx.known(KF5):
                        continue
                    if rv != 0:
                        raise bad("%s: search failed: %s" % (where, K.rvname(rv)))
                    want = 1 if m["k"] in live else 0
                    if len(got) != want:
                        raise bad("%s: a search for the thread's own object %s (which %s) returned %d handles %s" % (
                            where, bytes.fromhex(m["val"]), "exists" if want else "it destroyed", len(got), got))
                elif op == "set":
                    want = 0 if m["k"] in live else K.CKR_OBJECT_HANDLE_INVALID
                    if rv != want:
                        raise bad("%s: C_SetAttributeValue on an own %s object returned %s" % (where, "live" if want == 0 else "destroyed", K.rvname(rv)))
                    if rv == 0:
                        live[m["k"]]["label"] = m["label"]
                        if objs[m["val"]]["token_obj"] and raced(tok, t, r):
                            live[m["k"]]["tainted"] = objs[m["val"]]["tainted"] = True
                elif op == "read":
                    a = r["attrs"]
                    if m["k"] in live:
                        if a[str(K.CKA_VALUE)][0] != 0 or a[str(K.CKA_VALUE)][1] != m["val"] or a[str(K.CKA_LABEL)][1] != live[m["k"]]["label"]:
                            raise bad("%s: own object reads %s, the thread wrote value %s label %s" % (where, a, m["val"], live[m["k"]]["label"]))
                    elif a[str(K.CKA_VALUE)][0] == 0:
                        raise bad("%s: an object the thread destroyed is still readable" % where)
                elif op == "destroy":
                    want = 0 if m["k"] in live else K.CKR_OBJECT_HANDLE_INVALID
                    if rv != want:
                        raise bad("%s: C_DestroyObject on an own %s object returned %s" % (where, "live" if want == 0 else "destroyed", K.rvname(rv)))
                    if rv == 0:
                        live.pop(m["k"])
                        objs[m["val"]]["d"] = (r["t0"], r["t1"])
                elif op in ("digest", "hmac"):
                    if rv != 0 or r["out"].get("data") != m["want"]:
                        raise bad("%s: result %s %s, reference %s" % (where, K.rvname(rv), r["out"].get("data"), m["want"]))
                elif op == "login":
                    S = possible_login(tok, r, exclude=(t, r["t0"]))
                    ok = (rv == 0 and "out" in S) or (rv == K.CKR_USER_ALREADY_LOGGED_IN and "in" in S)
                    if not ok:
                        raise bad("%s: C_Login returned %s although the login state during the call can only have been %s" % (where, K.rvname(rv), sorted(S)))
                elif op == "logout":
                    S = possible_login(tok, r, exclude=(t, r["t0"]))
                    # (this token answers CKR_OK to a logout in the public state as well - read, not predicted, as in C03)
                    ok = rv == 0 or (rv == K.CKR_USER_NOT_LOGGED_IN and "out" in S)
                    if not ok:
                        raise bad("%s: C_Logout returned %s although the login state during the call can only have been %s" % (where, K.rvname(rv), sorted(S)))
                elif op == "create_priv":
                    S = possible_login(tok, r)
                    ok = (rv == 0 and "in" in S) or (rv == K.CKR_USER_NOT_LOGGED_IN and "out" in S)
                    if not ok and rv in (K.CKR_GENERAL_ERROR, K.CKR_TEMPLATE_INCONSISTENT, K.CKR_TEMPLATE_INCOMPLETE):
                        # known finding: login check and use of the token key are not atomic - only when a C_Logout really overlaps
                        if logout_overlaps(tok, r) and ctx.known({"op": "create_private_object", "rv": K.rvname(rv), "overlaps": "C_Logout"}):
                            continue
                    if not ok:
                        raise bad("%s: creating a private object returned %s although the login state during the call can only have been %s" % (where, K.rvname(rv), sorted(S)))
                    if rv == 0:
                        handles.append((r["h"], where))
                elif op == "priv_find":
                    prev_find = r
                elif op == "priv_read":
                    # judged only when the user was logged in during the whole of both calls and the object exists
                    S = possible_login(tok, {"t0": prev_find["t0"], "t1": r["t1"]})
                    if prev_find["rv"] == K.CKR_GENERAL_ERROR and creation_overlaps(tok, t, prev_find) and ctx.known(KF5):
                        continue
                    if prog.get("start_logged_in") and S == {"in"}:
                        v = r["attrs"][str(K.CKA_VALUE)]
                        if prev_find["rv"] != 0 or len(prev_find.get("h", [])) != 1 or v[0] != 0 or v[1] != SHARED_PRIVATE.hex():
                            raise bad("%s: the private token object is not read correctly while the user is logged in all the time: search %s %s, value %s" % (
                                where, K.rvname(prev_find["rv"]), prev_find.get("h"), [K.rvname(v[0]), str(v[1])[:40]]))
                        ctx.label("private_reads_judged")
                elif op == "priv_own_read":
                    prev = R[t][i - 1]
                    if prev["rv"] == 0:
                        S = possible_login(tok, {"t0": prev["t0"], "t1": r["t1"]})
                        v = r["attrs"][str(K.CKA_VALUE)]
                        if S == {"in"}:
                            if v[0] != 0 or v[1] != m["val"]:
                                raise bad("%s: the thread's own private object is not read correctly while the user is logged in all the time: %s" % (
                                    where, [K.rvname(v[0]), str(v[1])[:40]]))
                            ctx.label("private_reads_judged")
                        elif v[0] == 0 and v[1] != m["val"]:
                            if v[1] == "" and logout_overlaps(tok, {"t0": prev["t0"], "t1": r["t1"]}) and \
                                    ctx.known({"op": "private_object_read", "deviation": "ok_with_empty_value", "overlaps": "C_Logout"}):
                                continue
                            raise bad("%s: the thread's own private object reads a wrong value %s" % (where, str(v[1])[:40]))
                elif op == "reauth_sign":
                    # judged only when the user was logged in during the whole of the four calls
                    first = R[t][i - 3]
                    S = possible_login(tok, {"t0": first["t0"], "t1": r["t1"]})
                    if prog.get("start_logged_in") and S == {"in"} and not logout_overlaps(tok, {"t0": first["t0"], "t1": r["t1"]}):
                        rvs = [R[t][j]["rv"] for j in range(i - 3, i + 1)]
                        if rvs != [0, 0, 0, 0]:
                            raise bad("%s: create key / C_SignInit / C_Login(CONTEXT_SPECIFIC) / C_Sign with an ALWAYS_AUTHENTICATE key returned %s while the user "
                                      "is logged in all the time" % (where, [K.rvname(x) for x in rvs]))
                        ctx.label("reauth_judged")
                    if R[t][i - 3]["rv"] == 0:
                        handles.append((R[t][i - 3]["h"], where))
                elif op == "sessinfo":
                    S = possible_login(tok, r)
                    if rv != 0:
                        raise bad("%s: C_GetSessionInfo failed: %s" % (where, K.rvname(rv)))
                    ok = (r["state"] == K.CKS_RW_USER_FUNCTIONS and "in" in S) or (r["state"] == K.CKS_RW_PUBLIC_SESSION and "out" in S)
                    if not ok:
                        raise bad("%s: session state %d although the login state during the call can only have been %s" % (where, r["state"], sorted(S)))
                elif op == "genkey":
                    if rv == K.CKR_FUNCTION_FAILED and raced(tok, t, r) and logout_overlaps(tok, r) and \
                            ctx.known({"op": "own_public_object_use", "rv": "CKR_OBJECT_HANDLE_INVALID", "creation_overlaps": "search_by_other_thread", "after": "C_Logout"}):
                        gk = {"raced_search": False, "c0": 0, "failed": True}     # the key's handle vanished inside C_GenerateKey itself
                        continue
                    if rv != 0:
                        raise bad("%s: C_GenerateKey failed: %s" % (where, K.rvname(rv)))
                    handles.append((r["h"], where))
                    gk = {"raced_search": raced(tok, t, r), "c0": r["t0"]}
                elif op == "genkey_read":
                    if gk.get("failed"):
                        continue
                    v = r["attrs"][str(K.CKA_VALUE)]
                    if v[0] == K.CKR_OBJECT_HANDLE_INVALID and gk["raced_search"] and \
                            any(W["state"] == "out" and W.get("who") and W["t0"] <= r["t1"] and W["t1"] >= gk["c0"] for W in writes[tok]) and \
                            ctx.known({"op": "own_public_object_use", "rv": "CKR_OBJECT_HANDLE_INVALID", "creation_overlaps": "search_by_other_thread", "after": "C_Logout"}):
                        continue
                    if v[0] != 0 or len(v[1]) != 32:
                        raise bad("%s: generated key value unreadable: %s" % (where, v))
                    randoms.append((v[1], where))
                elif op == "random":
                    if rv != 0:
                        raise bad("%s: C_GenerateRandom failed: %s" % (where, K.rvname(rv)))
                    randoms.append((r["out"]["data"], where))
        # ---- complete searches under concurrency -----------------------------------------------------------------
        for t in range(n):
            tok = prog["tokens"][t]
            for i, (m, r) in enumerate(zip(metas[t], R[t])):
                if m["op"] != "find_all":
                    continue
                where = "thread %d call %d (complete search)" % (t, i)
                if r["rv"] == K.CKR_GENERAL_ERROR and logout_overlaps(tok, r) and ctx.known({"op": "search", "rv": "CKR_GENERAL_ERROR", "overlaps": "C_Logout"}):
                    continue
                if r["rv"] == K.CKR_GENERAL_ERROR and creation_overlaps(tok, t, r) and ctx.known(KF5):
                    continue
                if r["rv"] != 0:
                    raise bad("%s failed: %s" % (where, K.rvname(r["rv"])))
                ctx.label("search_all_under_concurrency")
                self.judge_census(bad, where, r, tok, objs, (r["t0"], r["t1"]))
        # ---- after joining -------------------------------------------------------------------------------------
        for k in (0, 1):
            r = res["teardown"][k]
            if r["rv"] != 0:
                raise bad("census after joining failed on token %d: %s" % (k, K.rvname(r["rv"])))
            self.judge_census(bad, "after joining, token %d" % k, r, k, objs, (1 << 60, 1 << 60))
        if res["teardown"][-1]["rv"] != 0:
            raise bad("C_Finalize after joining: %s" % K.rvname(res["teardown"][-1]["rv"]))
        seen = {}
        for h, where in handles:
            if h in seen:
                raise bad("handle %d was issued twice: %s and %s" % (h, seen[h], where))
            seen[h] = where
        seen = {}
        for v, where in randoms:
            if v in seen:
                raise bad("the same 16 random bytes were produced twice: %s and %s" % (seen[v], where))
            seen[v] = where
        # ---- classification --------------------------------------------------------------------------------------
        same_token = len(prog["tokens"]) - len(set(prog["tokens"])) > 0
        if prog["mode"] == "controlled":
            if res.get("lock_calls", 0) == 0:
                raise bad("C_Initialize was given mutex callbacks and answered CKR_OK, but the library never called LockMutex during %d calls of %d threads: locking is "
                          "not in effect" % (sum(len(t_) for t_ in threads), n))
            ctx.label("controlled_cases")
            ctx.label("switches_inside_calls", res["switches_in_call"])
            ctx.label("blocked_on_mutex", res["blocked_events"])
            ctx.label("scheduler_steps", res["steps"])
            nt = res["switches_in_call"] >= 1 and same_token
        else:
            ctx.label("free_cases")
            iv = [(r["t0"], r["t1"], t) for t in range(n) for r in R[t]]
            overlap = any(a[2] != b[2] and a[0] < b[1] and b[0] < a[1] for a in iv for b in iv)
            if overlap:
                ctx.label("free_cases_with_overlapping_calls")
            nt = overlap and same_token
        ctx.label("threads_%02d" % n)
        ctx.case(prog, nt, set())

    def handle_invalid(self, op, r):
        if op == "read":
            return r["attrs"][str(K.CKA_VALUE)][0] == K.CKR_OBJECT_HANDLE_INVALID
        return r.get("rv") == K.CKR_OBJECT_HANDLE_INVALID

    def deviates(self, op, m, r, live):
        rv = r.get("rv", 0)
        if op == "find_own":
            return rv != 0 or len(r.get("h", [])) != 1
        if op in ("set", "destroy"):
            return rv != 0
        a = r["attrs"]
        return a[str(K.CKA_VALUE)][0] != 0 or a[str(K.CKA_VALUE)][1] != m["val"] or a[str(K.CKA_LABEL)][1] != live[m["k"]]["label"]

    def judge_census(self, bad, where, r, tok, objs, iv):
        seen = {}
        for h, a in r.get("objects", {}).items():
            v = a.get(str(K.CKA_VALUE))
            if not v or v[0] != 0 or not v[1]:
                continue
            val = v[1]
            if not bytes.fromhex(val).startswith(b"c18-"):
                continue
            if val in seen:
                raise bad("%s: object %s is found twice (handles %s and %s)" % (where, bytes.fromhex(val), seen[val], h))
            seen[val] = h
            o = objs.get(val)
            if o is None or o["tok"] != tok:
                raise bad("%s: finds object %s which %s" % (where, bytes.fromhex(val), "nobody created" if o is None else "belongs to the other token"))
            if o["c"][0] > iv[1]:
                raise bad("%s: finds object %s whose creation was invoked only after the search returned" % (where, bytes.fromhex(val)))
            if o["d"] is not None and o["d"][1] < iv[0]:
                raise bad("%s: finds object %s whose destruction had returned before the search was invoked (resurrected)" % (where, bytes.fromhex(val)))
        for val, o in objs.items():
            if o["tok"] != tok or val in seen:
                continue
            created_before = o["c"][1] < iv[0]
            maybe_destroyed = o["d"] is not None and o["d"][0] <= iv[1]
            if created_before and not maybe_destroyed:
                if o.get("raced_search") and any(W["state"] == "out" and W.get("who") and W["t0"] <= iv[1] and W["t1"] >= o["c"][0] for W in self._writes[tok]) and \
                        self._ctx.known({"op": "own_public_object_use", "rv": "CKR_OBJECT_HANDLE_INVALID", "creation_overlaps": "search_by_other_thread", "after": "C_Logout"}):
                    continue        # its (shared) handle was registered as private by the racing search: a logout invalidates it under the searching thread's feet
                if o.get("tainted") and self._ctx.known({"op": "token_object_write", "overlaps": "search_by_other_thread", "deviation": "attribute_lost"}):
                    continue
                raise bad("%s: does not find object %s of thread %d, created before the search was invoked and never destroyed (lost)" % (
                    where, bytes.fromhex(val), o["thread"]))


if __name__ == "__main__":
    sys.exit(main(C18))
