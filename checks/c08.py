#!/usr/bin/env python3
"""C08 - attribute policy: read-only, one-way and history attributes hold (DESIGN.md section 2, C08)."""
import os
import sys

sys.path.insert(0, os.path.dirname(os.path.abspath(__file__)))
from keybase import KeyCheck  # noqa: E402
from vlib import consts as K  # noqa: E402
from vlib.env import hx  # noqa: E402
from vlib.objects import (A, BOOL_ATTRS, BYTES_ATTRS, CLASSES, MECHS_ATTRS, T, TPL_ATTRS, ULONG_ATTRS, base_template, class_kind,  # noqa: E402
                          kind_of)
from vlib.runner import Violation, main  # noqa: E402

RW = K.CKF_SERIAL_SESSION | K.CKF_RW_SESSION
# PKCS#11 v2.40: the attributes that MAY be modified after the object exists (footnote 8 of table 10 and of the per-class tables; footnotes
# 11 / 12 for the one-way flags), transcribed per class kind.  Everything else is read-only once the object exists.
_KEYS = ["CKA_ID", "CKA_START_DATE", "CKA_END_DATE", "CKA_DERIVE"]
SPEC_MODIFIABLE = {
    "data": [], "params": [],
    "cert": ["CKA_ID", "CKA_ISSUER", "CKA_SERIAL_NUMBER", "CKA_TRUSTED"],
    "public": _KEYS + ["CKA_SUBJECT", "CKA_ENCRYPT", "CKA_VERIFY", "CKA_VERIFY_RECOVER", "CKA_WRAP", "CKA_TRUSTED"],
    "private": _KEYS + ["CKA_SUBJECT", "CKA_SENSITIVE", "CKA_DECRYPT", "CKA_SIGN", "CKA_SIGN_RECOVER", "CKA_UNWRAP", "CKA_EXTRACTABLE", "CKA_WRAP_WITH_TRUSTED",
                        "CKA_PUBLIC_KEY_INFO"],
    "secret": _KEYS + ["CKA_SENSITIVE", "CKA_ENCRYPT", "CKA_DECRYPT", "CKA_SIGN", "CKA_VERIFY", "CKA_WRAP", "CKA_UNWRAP", "CKA_EXTRACTABLE", "CKA_WRAP_WITH_TRUSTED",
                       "CKA_TRUSTED"],
}
SPEC_COMMON = ["CKA_LABEL", "CKA_COPYABLE", "CKA_DESTROYABLE"]          # (footnote 12: may be set to false once)
SPEC_COPY_ONLY = ["CKA_TOKEN", "CKA_PRIVATE", "CKA_MODIFIABLE"]         # C_CopyObject may also change these
ALL_NAMES = BOOL_ATTRS + ULONG_ATTRS + MECHS_ATTRS + BYTES_ATTRS + TPL_ATTRS


def spec_kind(cls):
    k = class_kind(cls)
    return k if k in SPEC_MODIFIABLE else ("params" if cls.endswith("_params") else "data")


def another_value(name, cur):
    """a well-formed value for attribute `name` that differs from the object's current one"""
    k = kind_of(K.C[name])
    if k == "bool":
        return (not cur) if isinstance(cur, bool) else True
    if k == "ulong":
        return {"CKA_CLASS": "CKO_DATA", "CKA_KEY_TYPE": "CKK_GENERIC_SECRET", "CKA_CERTIFICATE_TYPE": "CKC_WTLS", "CKA_KEY_GEN_MECHANISM": "CKM_DES3_KEY_GEN"}.get(name, 24)
    if k == "mechs":
        return ["CKM_SHA_1"]
    if k == "tpl":
        return [("CKA_EXTRACTABLE", True)]
    if name in ("CKA_START_DATE", "CKA_END_DATE"):
        return b"20300101"
    return b"\x31\x32\x33\x34\x35"


class C08(KeyCheck):
    pid = "C08"
    level = "exploration"
    judge = {"C08"}
    weights = {"gen": 6, "genpair": 1, "create": 6, "unwrap": 3, "derive": 8, "copy": 7, "set": 10, "destroy": 1, "so": 2, "read": 1, "wrap": 1}
    rule = ("Histories over secret and private keys of 8 types made by C_GenerateKey(Pair) / C_CreateObject / C_UnwrapKey / "
            "C_DeriveKey (3 concatenation mechanisms, AES_ECB_ENCRYPT_DATA, ECDH) / C_CopyObject, with generated CKA_SENSITIVE / "
            "CKA_EXTRACTABLE / WRAP_WITH_TRUSTED / MODIFIABLE / COPYABLE / DESTROYABLE / TRUSTED settings, later flips by "
            "C_SetAttributeValue / C_CopyObject (user and SO), copies of copies, derives from derived keys; templates carry a "
            "caller-supplied CKA_LOCAL / KEY_GEN_MECHANISM / ALWAYS_SENSITIVE / NEVER_EXTRACTABLE or a read-only attribute at a "
            "generated position. Oracle: a provenance model computes the four history attributes per PKCS#11 v2.40 (generation, "
            "creation, unwrap, the per-mechanism derive rules, copy inheritance) and they are read back after every successful "
            "step; supplied history attributes and read-only attributes must be rejected; MODIFIABLE/COPYABLE/DESTROYABLE=false "
            "must block set/copy/destroy; TRUSTED=true only by the SO; one-way flags never move back. Non-trivial = a template "
            "with a forbidden attribute at a position > 0, or a history attribute read on a key that is not freshly generated.")
    assumptions = ["the judged read-only set is the conservative subset no token may allow to change (class, key type, value, "
                   "value length, history attributes; for C_SetAttributeValue also TOKEN and PRIVATE)",
                   "default values of unspecified flags are read, not predicted"]
    rule_table = ("Attribute-policy table, enumerated completely in every run: 20 object classes x 70 attribute types x {C_SetAttributeValue, C_CopyObject} with a "
                  "well-formed value that differs from the current one: IF the call succeeds THEN PKCS#11 v2.40 lets that attribute be modified for that class "
                  "(footnote 8 / 11 / 12 tables, transcribed); and for every class and every modifiable attribute: an object with CKA_MODIFIABLE=false refuses the "
                  "change, with CKA_COPYABLE=false the copy, with CKA_DESTROYABLE=false the destruction.")
    essential_labels = {"history_attr_checked": 10000, "history_attr_supplied": 3000, "readonly_attempts": 1500, "derive_ok": 1000, "copy_ok": 500}

    # -- the attribute-policy table: small scope, enumerated completely -------------------------------------------------------------------
    def extra(self, ctx, tier, shard, nshards):
        cells = [(cls, name, op) for cls in CLASSES for name in ALL_NAMES for op in ("set", "copy")]
        cells += [(cls, name, "locked") for cls in CLASSES for name in SPEC_COMMON[:1] + SPEC_MODIFIABLE[spec_kind(cls)]]
        cells += [(cls, None, op) for cls in CLASSES for op in ("nocopy", "nodestroy")]
        ctx.extra["policy_cells_total"] = len(cells) if shard == 0 else 0
        w = ctx.shared["stage"].fresh()
        tok = ctx.shared["tpl"].tokens[0]
        s = w.C_OpenSession(slot=tok.slot, flags=RW)["h"]
        if w.C_Login(s=s, user=K.CKU_USER, pin=hx(tok.user_pin))["rv"] != 0:
            raise RuntimeError("login failed")
        try:
            for i, (cls, name, op) in enumerate(cells):
                if i % nshards != shard:
                    continue
                prog = {"policy_cell": [cls, name, op]}
                extra_ = {"locked": [("CKA_MODIFIABLE", False)], "nocopy": [("CKA_COPYABLE", False)], "nodestroy": [("CKA_DESTROYABLE", False)]}.get(op, [])
                r = w.C_CreateObject(s=s, tpl=T(*base_template(cls, 1)) + T(("CKA_TOKEN", False), ("CKA_PRIVATE", False)) + T(*extra_))
                if r["rv"] != 0:
                    ctx.label("policy_object_not_creatable")
                    continue
                h = r["h"]
                ctx.steps += 1
                try:
                    if op == "nocopy":
                        rr = w.C_CopyObject(s=s, o=h, tpl=[])
                        if rr["rv"] == 0:
                            return Violation("[policy table] C_CopyObject copied a %s object whose CKA_COPYABLE is false" % cls, prog)
                        ctx.label("policy_cells")
                        continue
                    if op == "nodestroy":
                        rr = w.C_DestroyObject(s=s, o=h)
                        if rr["rv"] == 0:
                            return Violation("[policy table] C_DestroyObject destroyed a %s object whose CKA_DESTROYABLE is false" % cls, prog)
                        ctx.label("policy_cells")
                        continue
                    cur = w.readattrs(s=s, o=h, types=[K.C[name]])["attrs"][str(K.C[name])]
                    curv = (cur[1] == "01") if (cur[0] == 0 and kind_of(K.C[name]) == "bool") else None
                    tpl = [A(name, another_value(name, curv))]
                    if op in ("set", "locked"):
                        rr = w.C_SetAttributeValue(s=s, o=h, tpl=tpl)
                    else:
                        rr = w.C_CopyObject(s=s, o=h, tpl=tpl)
                        if rr["rv"] == 0:
                            w.C_DestroyObject(s=s, o=rr["h"])
                    if op == "locked":
                        if rr["rv"] == 0:
                            return Violation("[policy table] C_SetAttributeValue(%s) changed a %s object whose CKA_MODIFIABLE is false" % (name, cls), prog)
                    elif rr["rv"] == 0:
                        allowed = SPEC_COMMON + SPEC_MODIFIABLE[spec_kind(cls)] + (SPEC_COPY_ONLY if op == "copy" else [])
                        if name not in allowed:
                            return Violation("[policy table] %s accepted %s on a %s object; PKCS#11 does not let that attribute be modified once the object exists" % (
                                "C_SetAttributeValue" if op == "set" else "C_CopyObject", name, cls), prog)
                        ctx.label("policy_cells_accepted")
                    else:
                        ctx.label("policy_cells_refused")
                    ctx.label("policy_cells")
                    ctx.case(prog, rr["rv"] != 0 and op != "locked", ["policy"])
                finally:
                    w.C_DestroyObject(s=s, o=h)
        finally:
            w.C_CloseSession(s=s)
        return None

    def run_program(self, ctx, prog):
        if isinstance(prog, dict) and prog.get("policy_cell"):
            cls, name, op = prog["policy_cell"]
            v = self._one_policy_cell(ctx, cls, name, op)
            if v is not None:
                raise v
            return
        return KeyCheck.run_program(self, ctx, prog)

    def _one_policy_cell(self, ctx, cls, name, op):
        """replay of one cell (same code path as the sweep, restricted to the cell)"""
        saved = list(CLASSES)
        import vlib.objects as O
        try:
            keep = [(cls, name, op)]
            w = ctx.shared["stage"].fresh()
            tok = ctx.shared["tpl"].tokens[0]
            s = w.C_OpenSession(slot=tok.slot, flags=RW)["h"]
            w.C_Login(s=s, user=K.CKU_USER, pin=hx(tok.user_pin))
            extra_ = {"locked": [("CKA_MODIFIABLE", False)], "nocopy": [("CKA_COPYABLE", False)], "nodestroy": [("CKA_DESTROYABLE", False)]}.get(op, [])
            r = w.C_CreateObject(s=s, tpl=T(*base_template(cls, 1)) + T(("CKA_TOKEN", False), ("CKA_PRIVATE", False)) + T(*extra_))
            if r["rv"] != 0:
                return None
            h = r["h"]
            prog = {"policy_cell": [cls, name, op]}
            if op == "nocopy":
                return Violation("[policy table] C_CopyObject copied a %s object whose CKA_COPYABLE is false" % cls, prog) if w.C_CopyObject(s=s, o=h, tpl=[])["rv"] == 0 else None
            if op == "nodestroy":
                return Violation("[policy table] C_DestroyObject destroyed a %s object whose CKA_DESTROYABLE is false" % cls, prog) if w.C_DestroyObject(s=s, o=h)["rv"] == 0 else None
            cur = w.readattrs(s=s, o=h, types=[K.C[name]])["attrs"][str(K.C[name])]
            curv = (cur[1] == "01") if (cur[0] == 0 and kind_of(K.C[name]) == "bool") else None
            tpl = [A(name, another_value(name, curv))]
            rr = w.C_SetAttributeValue(s=s, o=h, tpl=tpl) if op in ("set", "locked") else w.C_CopyObject(s=s, o=h, tpl=tpl)
            if rr["rv"] != 0:
                return None
            if op == "locked":
                return Violation("[policy table] C_SetAttributeValue(%s) changed a %s object whose CKA_MODIFIABLE is false" % (name, cls), prog)
            allowed = SPEC_COMMON + SPEC_MODIFIABLE[spec_kind(cls)] + (SPEC_COPY_ONLY if op == "copy" else [])
            if name not in allowed:
                return Violation("[policy table] %s accepted %s on a %s object; PKCS#11 does not let that attribute be modified once the object exists" % (
                    "C_SetAttributeValue" if op == "set" else "C_CopyObject", name, cls), prog)
            return None
        finally:
            pass


if __name__ == "__main__":
    sys.exit(main(C08))
