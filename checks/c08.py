#!/usr/bin/env python3
"""C08 - attribute policy: read-only, one-way and history attributes hold (DESIGN.md section 2, C08)."""
import os
import sys

sys.path.insert(0, os.path.dirname(os.path.abspath(__file__)))
from keybase import KeyCheck  # noqa: E402
from vlib.runner import main  # noqa: E402


class C08(KeyCheck):
    pid = "C08"
    level = "exploration"
    judge = {"C08"}
    weights = {"gen": 6, "genpair": 1, "create": 6, "unwrap": 3, "derive": 8, "copy": 7, "set": 10, "destroy": 1, "so": 2, "read": 1, "wrap": 1}
    rule = ("Histories over secret and private keys of 8 types made by C_GenerateKey(Pair) / C_CreateObject / C_UnwrapKey / "
            "C_DeriveKey (3 concatenation mechanisms, AES_ECB_ENCRYPT_DATA, ECDH) / C_CopyObject, with generated CKA_SENSITIVE / "
            "CKA_EXTRACTABLE / WRAP_WITH_TRUSTED / MODIFIABLE / COPYABLE / DESTROYABLE / TRUSTED settings, later flips by "
            "C_SetAttributeValue / C_CopyObject (user and SO), copies of copies, derives from derived keys; templates carry a "
            "caller-supplied CKA_LOCAL / KEY_GEN_MECHANISM / ALWAYS_SENSITIVE / NEVER_EXTRACTABLE or a read-only attribute at a "
            "generated position. Oracle: a provenance model computes the four history attributes per PKCS#11 v2.40 (generation, "
            "creation, unwrap, the per-mechanism derive rules, copy inheritance) and they are read back after every successful "
            "step; supplied history attributes and read-only attributes must be rejected; MODIFIABLE/COPYABLE/DESTROYABLE=false "
            "must block set/copy/destroy; TRUSTED=true only by the SO; one-way flags never move back. Non-trivial = a template "
            "with a forbidden attribute at a position > 0, or a history attribute read on a key that is not freshly generated.")
    assumptions = ["the judged read-only set is the conservative subset no token may allow to change (class, key type, value, "
                   "value length, history attributes; for C_SetAttributeValue also TOKEN and PRIVATE)",
                   "default values of unspecified flags are read, not predicted"]
    essential_labels = {"history_attr_checked": 10000, "history_attr_supplied": 3000, "readonly_attempts": 1500, "derive_ok": 1000, "copy_ok": 500}


if __name__ == "__main__":
    sys.exit(main(C08))
