#!/usr/bin/env python3
"""C07 - key usage flags, key type and mechanism restrictions are enforced (DESIGN.md section 2, C07).

Exhaustive table: operation x key x usage flag x mechanism x CKA_ALLOWED_MECHANISMS x slots.mechanisms configuration.
The oracle is a reference table (mechanism -> admissible key class/type per operation) transcribed from the PKCS#11
v2.40 mechanism specification, independent of the code: IF a call succeeds THEN every condition holds.
"""
import itertools
import os
import sys

sys.path.insert(0, os.path.join(os.path.dirname(os.path.abspath(__file__)), "..", "py"))
from hypothesis import strategies as st  # noqa: E402

from vlib import consts as K  # noqa: E402
from vlib.env import Stage, Template, hx  # noqa: E402
from vlib.objects import T, base_template, keypool  # noqa: E402
from vlib.runner import Check, Violation, main  # noqa: E402
from vlib.worker import WorkerDied  # noqa: E402

RW = K.CKF_SERIAL_SESSION | K.CKF_RW_SESSION

# ---- reference table (PKCS#11 v2.40 mechanisms): mechanism -> {operation: set of admissible key kinds} ----------
AES, DES, DES23, GEN = {"aes"}, {"des"}, {"des2", "des3"}, {"generic"}
RSAPUB, RSAPRV = {"rsa_pub"}, {"rsa_priv"}
SECRET_ANY = {"aes", "des", "des2", "des3", "generic"}
TABLE = {}


def M(name, **ops):
    TABLE[name] = ops


for m in ("CKM_AES_ECB", "CKM_AES_CBC", "CKM_AES_CBC_PAD", "CKM_AES_CTR", "CKM_AES_GCM"):
    M(m, encrypt=AES, decrypt=AES)
TABLE["CKM_AES_CBC"].update(wrap=AES, unwrap=AES)
TABLE["CKM_AES_CBC_PAD"].update(wrap=AES, unwrap=AES)
for m in ("CKM_DES3_ECB", "CKM_DES3_CBC", "CKM_DES3_CBC_PAD"):
    M(m, encrypt=DES23, decrypt=DES23)
TABLE["CKM_DES3_CBC_PAD"].update(unwrap=DES23)
TABLE["CKM_DES3_CBC"].update(unwrap=DES23)
for m in ("CKM_DES_ECB", "CKM_DES_CBC", "CKM_DES_CBC_PAD"):
    M(m, encrypt=DES, decrypt=DES)
for h in ("MD5", "SHA_1", "SHA224", "SHA256", "SHA384", "SHA512"):
    M("CKM_%s_HMAC" % h, sign=GEN, verify=GEN)
M("CKM_AES_CMAC", sign=AES, verify=AES)
M("CKM_DES3_CMAC", sign=DES23, verify=DES23)
M("CKM_RSA_PKCS", encrypt=RSAPUB, decrypt=RSAPRV, sign=RSAPRV, verify=RSAPUB, wrap=RSAPUB, unwrap=RSAPRV)
M("CKM_RSA_X_509", encrypt=RSAPUB, decrypt=RSAPRV, sign=RSAPRV, verify=RSAPUB)
M("CKM_RSA_PKCS_OAEP", encrypt=RSAPUB, decrypt=RSAPRV, wrap=RSAPUB, unwrap=RSAPRV)
for m in ("CKM_MD5_RSA_PKCS", "CKM_SHA1_RSA_PKCS", "CKM_SHA224_RSA_PKCS", "CKM_SHA256_RSA_PKCS", "CKM_SHA384_RSA_PKCS",
          "CKM_SHA512_RSA_PKCS", "CKM_RSA_PKCS_PSS", "CKM_SHA1_RSA_PKCS_PSS", "CKM_SHA224_RSA_PKCS_PSS",
          "CKM_SHA256_RSA_PKCS_PSS", "CKM_SHA384_RSA_PKCS_PSS", "CKM_SHA512_RSA_PKCS_PSS"):
    M(m, sign=RSAPRV, verify=RSAPUB)
for m in ("CKM_DSA", "CKM_DSA_SHA1", "CKM_DSA_SHA224", "CKM_DSA_SHA256", "CKM_DSA_SHA384", "CKM_DSA_SHA512"):
    M(m, sign={"dsa_priv"}, verify={"dsa_pub"})
M("CKM_ECDSA", sign={"ec_priv"}, verify={"ec_pub"})
M("CKM_EDDSA", sign={"ed_priv"}, verify={"ed_pub"})
M("CKM_AES_KEY_WRAP", wrap=AES, unwrap=AES)
M("CKM_AES_KEY_WRAP_PAD", wrap=AES, unwrap=AES)
M("CKM_DH_PKCS_DERIVE", derive={"dh_priv"})
M("CKM_ECDH1_DERIVE", derive={"ec_priv", "x_priv"})
M("CKM_DES_ECB_ENCRYPT_DATA", derive=DES)
M("CKM_DES_CBC_ENCRYPT_DATA", derive=DES)
M("CKM_DES3_ECB_ENCRYPT_DATA", derive=DES23)
M("CKM_DES3_CBC_ENCRYPT_DATA", derive=DES23)
M("CKM_AES_ECB_ENCRYPT_DATA", derive=AES)
M("CKM_AES_CBC_ENCRYPT_DATA", derive=AES)
M("CKM_CONCATENATE_DATA_AND_BASE", derive=SECRET_ANY)
M("CKM_CONCATENATE_BASE_AND_DATA", derive=SECRET_ANY)
M("CKM_CONCATENATE_BASE_AND_KEY", derive=SECRET_ANY)
# mechanisms that take no key (configuration clause only)
DIGESTS = ["CKM_MD5", "CKM_SHA_1", "CKM_SHA224", "CKM_SHA256", "CKM_SHA384", "CKM_SHA512"]
KEYGEN = ["CKM_AES_KEY_GEN", "CKM_DES3_KEY_GEN", "CKM_DES2_KEY_GEN", "CKM_GENERIC_SECRET_KEY_GEN"]
KEYPAIRGEN = ["CKM_EC_KEY_PAIR_GEN", "CKM_EC_EDWARDS_KEY_PAIR_GEN", "CKM_DSA_KEY_PAIR_GEN", "CKM_DH_PKCS_KEY_PAIR_GEN"]

OPS = ["encrypt", "decrypt", "sign", "verify", "wrap", "unwrap", "derive"]
FLAG = {"encrypt": "CKA_ENCRYPT", "decrypt": "CKA_DECRYPT", "sign": "CKA_SIGN", "verify": "CKA_VERIFY", "wrap": "CKA_WRAP",
        "unwrap": "CKA_UNWRAP", "derive": "CKA_DERIVE"}
KEYS = ["aes", "des", "des2", "des3", "generic", "rsa_pub", "rsa_priv", "dsa_pub", "dsa_priv", "dh_pub", "dh_priv", "ec_pub",
        "ec_priv", "ed_pub", "ed_priv"]
# flags a key class defines (an attribute the class lacks cannot be supplied; it then reads as false)
CLASS_FLAGS = {"secret": {"CKA_ENCRYPT", "CKA_DECRYPT", "CKA_SIGN", "CKA_VERIFY", "CKA_WRAP", "CKA_UNWRAP", "CKA_DERIVE"},
               "public": {"CKA_ENCRYPT", "CKA_VERIFY", "CKA_WRAP", "CKA_DERIVE"},
               "private": {"CKA_DECRYPT", "CKA_SIGN", "CKA_UNWRAP", "CKA_DERIVE"}}

ALL_MECHS = sorted(TABLE) + DIGESTS + KEYGEN + KEYPAIRGEN
S_SET = [m for i, m in enumerate(ALL_MECHS) if i % 2 == 0]
T_SET = [m for i, m in enumerate(ALL_MECHS) if i % 2 == 1]
CONFIGS = {"ALL": "ALL", "pos_S": ",".join(S_SET), "pos_T": ",".join(T_SET), "neg_S": "-" + ",".join(S_SET),
           "neg_T": "-" + ",".join(T_SET)}


def kclass(k):
    return "secret" if k in SECRET_ANY else "public" if k.endswith("_pub") else "private"


GENERIC32 = bytes((i * 13 + 5) & 0xFF for i in range(32))


def key_template(k, flagname, flagval, allowed):
    cls = {"x_priv": "ec_priv"}.get(k, k)
    tpl = T(*base_template(cls, 0))
    if k == "generic":
        # 32 bytes: also a legal AES length, so that "the right bytes under the wrong key type" exists for the type check to refuse
        tpl = [e for e in tpl if e[0] != K.CKA_VALUE] + T(("CKA_VALUE", GENERIC32))
    tpl += T(("CKA_TOKEN", False), ("CKA_PRIVATE", False))
    if flagname in CLASS_FLAGS[kclass(k)]:
        tpl += T((flagname, flagval))
    if allowed is not None:
        tpl += T(("CKA_ALLOWED_MECHANISMS", allowed))
    if kclass(k) != "public":
        tpl += T(("CKA_SENSITIVE", False), ("CKA_EXTRACTABLE", True))
    return tpl


def mech_params(m, op):
    """valid parameters for mechanism m (so that only the guard under test can refuse)"""
    iv16, iv8 = "11" * 16, "22" * 8
    kp = keypool()
    if m in ("CKM_AES_CBC", "CKM_AES_CBC_PAD"):
        return {"raw": iv16}
    if m in ("CKM_DES3_CBC", "CKM_DES3_CBC_PAD", "CKM_DES_CBC", "CKM_DES_CBC_PAD"):
        return {"raw": iv8}
    if m == "CKM_AES_CTR":
        return {"ctr": {"bits": 64, "cb": iv16}}
    if m == "CKM_AES_GCM":
        return {"gcm": {"iv": "33" * 12, "aad": "", "tagBits": 128}}
    if m == "CKM_RSA_PKCS_OAEP":
        return {"oaep": {"hash": K.CKM_SHA_1, "mgf": K.CKG_MGF1_SHA1, "source": K.CKZ_DATA_SPECIFIED}}
    if m.endswith("_PSS"):
        h = {"CKM_RSA_PKCS_PSS": "SHA256", "CKM_SHA1_RSA_PKCS_PSS": "SHA_1"}.get(m, m[4:m.index("_RSA")])
        hm = "CKM_" + h
        g = "CKG_MGF1_" + h.replace("SHA_1", "SHA1")
        return {"pss": {"hash": K.C[hm], "mgf": K.C[g], "slen": 20}}
    if m == "CKM_DH_PKCS_DERIVE":
        return {"raw": kp["dh"][1]["y"]}
    if m == "CKM_ECDH1_DERIVE":
        return {"ecdh": {"kdf": K.CKD_NULL, "pub": kp["ec"][1]["point"][4:]}}
    if m.endswith("ECB_ENCRYPT_DATA"):
        return {"strdata": "44" * 32}
    if m == "CKM_AES_CBC_ENCRYPT_DATA":
        return {"cbcenc": {"iv": iv16, "data": "55" * 32, "ivlen": 16}}
    if m in ("CKM_DES_CBC_ENCRYPT_DATA", "CKM_DES3_CBC_ENCRYPT_DATA"):
        return {"cbcenc": {"iv": iv8, "data": "55" * 32, "ivlen": 8}}
    if m in ("CKM_CONCATENATE_DATA_AND_BASE", "CKM_CONCATENATE_BASE_AND_DATA"):
        return {"strdata": "66" * 8}
    return None


# calls placed between the Init on a CKA_ALWAYS_AUTHENTICATE key and the call that produces output
REAUTH_ACTIONS = ["ctx_wrong", "ctx_right", "ctx_sopin", "ctx_empty", "ctx_prefix", "logout", "logout_relogin", "user_login_again", "so_login",
                  "query", "ctx_right_other_session", "other_session_logout_relogin"]


class C07(Check):
    pid = "C07"
    level = "exploration"
    variants = ["ossl-asan"]
    rule = ("Exhaustive enumeration of the table operation (encrypt/decrypt/sign/verify Init, C_WrapKey, C_UnwrapKey, C_DeriveKey) "
            "x key (AES, DES, DES2, DES3, generic, RSA/DSA/DH/EC/EdDSA public and private, imported from fixed material) x usage "
            "flag (true/false) x every mechanism the token advertises for keyed operations (%d) x CKA_ALLOWED_MECHANISMS "
            "(absent, {m}, {another mechanism}) x slots.mechanisms in {ALL, two complementary positive lists, two complementary "
            "negative lists} (so every mechanism is once in and once out of a positive and of a negative list), with valid "
            "mechanism parameters (valid wrapped blobs for unwrap); plus C_DigestInit / C_GenerateKey / C_GenerateKeyPair for the "
            "configuration clause and the CKA_ALWAYS_AUTHENTICATE protocol (sign/decrypt, single- and multi-part, right / "
            "wrong / no context-specific login, and exhaustively every sequence of up to two intervening calls out of %d - wrong / right / SO / empty / "
            "prefix PIN context logins, logout, logout+login, logins of other kinds, size queries, the same on a second session - between "
            "the Init and the producing call, followed by a second operation that needs its own authentication). IF the call succeeds THEN flag true AND class/type admissible per the "
            "PKCS#11 reference table AND allowed list empty or containing m AND m in C_GetMechanismList. Non-trivial = a cell "
            "in which exactly one condition is violated.") % (len(TABLE), len(REAUTH_ACTIONS))
    assumptions = ["only pMechanism->mechanism is judged against the configuration, not hash/MGF identifiers nested in parameters",
                   "the converse (a canonical cell succeeds) is tracked as coverage, not judged"]
    essential_labels = {"nt_cells": 2000, "canonical_ok": 300}

    def setup(self, ctx):
        ctx.shared["tpl"] = Template(ctx.env, ntokens=1)
        ctx.shared["stages"] = {}

    def stage_for(self, ctx, conf):
        st_ = ctx.shared["stages"].get(conf)
        if st_ is None and conf.startswith("re:"):
            # the SAME process first runs under another configuration (and starts keyed operations there), is finalised, and is initialised again
            # under this one: whatever the library keeps between two initialisations must not carry the old mechanism list over
            frm, to = conf[3:].split(">")
            st_ = Stage(ctx.env, ctx.shared["tpl"], reuse=True, mechanisms=CONFIGS[frm])
            w = st_.fresh()
            slot = ctx.shared["tpl"].tokens[0].slot
            s = w.C_OpenSession(slot=slot, flags=RW)["h"]
            for k_, m_, fn_ in (("aes", "CKM_AES_ECB", "C_EncryptInit"), ("aes", "CKM_AES_CBC", "C_DecryptInit"), ("generic", "CKM_SHA256_HMAC", "C_SignInit"),
                                ("generic", "CKM_SHA512_HMAC", "C_VerifyInit"), ("des3", "CKM_DES3_CBC", "C_EncryptInit")):
                r = w.C_CreateObject(s=s, tpl=key_template(k_, "CKA_ENCRYPT", True, None) + T(("CKA_DECRYPT", True), ("CKA_SIGN", True), ("CKA_VERIFY", True)))
                if r["rv"] == 0:
                    mech = {"m": K.C[m_]}
                    p_ = mech_params(m_, "encrypt")
                    if p_ is not None:
                        mech["p"] = p_
                    w.call(fn_, s=s, mech=mech, key=r["h"])
            w.C_CloseSession(s=s)
            w.C_Finalize()
            st_.sb.write_conf(mechanisms=CONFIGS[to])
            if w.C_Initialize()["rv"] != 0:
                raise RuntimeError("re-initialisation under configuration %s failed" % to)
            st_.initialised = True
            ctx.shared["stages"][conf] = st_
            st_.mechlist = set(w.C_GetMechanismList(slot=slot)["mechs"])
            ctx.label("reconfigured_processes")
            return st_
        if st_ is None:
            st_ = Stage(ctx.env, ctx.shared["tpl"], reuse=True, mechanisms=CONFIGS[conf])
            st_.fresh()
            ctx.shared["stages"][conf] = st_
            r = st_.w.C_GetMechanismList(slot=ctx.shared["tpl"].tokens[0].slot)
            st_.mechlist = set(r["mechs"])
        return st_

    def budget(self, tier):
        # the table is enumerated completely in both tiers; thorough adds generated cells with random parameters
        return {"examples": 0, "shards": 16} if tier == "quick" else {"examples": 0, "shards": 16, "full": True}

    def strategy(self, tier):
        return st.just([["cell", "ALL", "encrypt", "aes", True, "CKM_AES_ECB", "none"]])

    def extra(self, ctx, tier, shard, nshards):
        n = 0
        cells = []
        for conf in CONFIGS:
            for op in OPS:
                mechs = [m for m in TABLE if op in TABLE[m]] + (["CKM_AES_ECB", "CKM_SHA256_HMAC", "CKM_RSA_PKCS", "CKM_ECDSA"] if conf == "ALL" else [])
                for m in sorted(set(mechs)):
                    for k in KEYS + (["x_priv"] if m == "CKM_ECDH1_DERIVE" else []):
                        for flag in (True, False):
                            for allowed in ("none", "self", "other"):
                                cells.append(["cell", conf, op, k, flag, m, allowed])
            for m in DIGESTS + KEYGEN + KEYPAIRGEN:
                cells.append(["nokey", conf, m])
        for conf in CONFIGS:
            cells.append(["mechlist", conf])
        # configuration changed between two initialisations of ONE process: every mechanism / operation with its natural keys, flag true
        for rc in ("re:ALL>pos_S", "re:ALL>neg_S", "re:pos_T>pos_S", "re:neg_S>neg_T"):
            cells.append(["mechlist", rc])
            for op in OPS:
                for m in sorted(m_ for m_ in TABLE if op in TABLE[m_]):
                    for k in sorted(TABLE[m][op]):
                        cells.append(["cell", rc, op, k, True, m, "none"])
        for who in ("rsa", "ec"):
            for how in ("sign_single", "sign_multi", "decrypt"):
                for login in ("none", "wrong", "right"):
                    cells.append(["reauth", who, how, login])
        # the CKA_ALWAYS_AUTHENTICATE protocol as a small-scope exhaustive enumeration: every sequence of up to two
        # intervening calls between Init and the producing call (and, after a legitimate result, a second operation)
        import itertools
        for who, how in (("rsa", "sign_single"), ("rsa", "sign_multi"), ("rsa", "decrypt"), ("ec", "sign_single")):
            for n_ in (0, 1, 2):
                for seq in itertools.product(REAUTH_ACTIONS, repeat=n_):
                    for again in (False, True):
                        cells.append(["reauth2", who, how, list(seq), again])
        ctx.extra["table_cells_total"] = len(cells) if shard == 0 else 0
        first, distinct = None, {}
        for i, cell in enumerate(cells):
            if i % nshards != shard:
                continue
            try:
                self.run_program(ctx, [cell])
            except Violation as v:
                if ctx.known(getattr(v, "sig", {})):
                    continue
                v.program = [cell]
                first = first or v
                key = (v.sig.get("fn"), v.sig.get("deviation")) if hasattr(v, "sig") else v.what[:60]
                if key not in distinct:
                    distinct[key] = v.what
            except WorkerDied as d:
                # a crash is a C17 matter; it is counted here and the table continues in a fresh worker
                ctx.worker_deaths += 1
                ctx.label("worker_died")
                ctx.extra.setdefault("worker_death_cells", []).append(cell)
                for st_ in ctx.shared["stages"].values():
                    if st_.w is not None and st_.w.dead:
                        st_.w.kill()
                ctx.shared["stages"] = {k_: v_ for k_, v_ in ctx.shared["stages"].items() if not (v_.w is None or v_.w.dead)}
        if first is not None:
            ctx.extra["distinct_deviations"] = [w_ for w_ in distinct.values()][:12]
            return first
        ctx.extra["exhaustive"] = True
        return None

    # ----------------------------------------------------------------------------------------------
    def run_program(self, ctx, prog):
        for cell in prog:
            ctx.steps += 1
            if cell[0] == "cell":
                self.run_cell(ctx, cell)
            elif cell[0] == "nokey":
                self.run_nokey(ctx, cell)
            elif cell[0] == "mechlist":
                self.run_mechlist(ctx, cell)
            elif cell[0] == "reauth2":
                self.run_reauth2(ctx, cell)
            else:
                self.run_reauth(ctx, cell)

    def viol(self, msg, prog, **sig):
        v = Violation(msg, prog)
        v.sig = sig
        return v

    def run_mechlist(self, ctx, cell):
        """C_GetMechanismList under a configuration == the unrestricted list filtered by the configuration text"""
        conf = cell[1]
        full = self.stage_for(ctx, "ALL").mechlist
        got = self.stage_for(ctx, conf).mechlist
        text = CONFIGS[conf.split(">")[-1]]
        if text == "ALL":
            want = set(full)
        elif text.startswith("-"):
            want = set(full) - {K.C[n] for n in text[1:].split(",")}
        else:
            want = set(full) & {K.C[n] for n in text.split(",")}
        if got != want:
            extra_ = sorted(K.name("CKM", x) for x in got - want)
            miss = sorted(K.name("CKM", x) for x in want - got)
            raise self.viol("[%s] C_GetMechanismList does not reflect slots.mechanisms: advertised although removed: %s; missing although enabled: %s" % (
                conf, extra_, miss), [cell], fn="C_GetMechanismList", deviation="list_vs_config")
        ctx.label("nt_cells")
        ctx.case(cell, conf != "ALL", ["mechlist"])

    def run_nokey(self, ctx, cell):
        _, conf, m = cell
        stage = self.stage_for(ctx, conf)
        w = stage.w
        slot = ctx.shared["tpl"].tokens[0].slot
        s = w.C_OpenSession(slot=slot, flags=RW)["h"]
        try:
            enabled = K.C[m] in stage.mechlist
            if m in DIGESTS:
                rv = w.C_DigestInit(s=s, mech={"m": K.C[m]})["rv"]
                fn = "C_DigestInit"
            elif m in KEYGEN:
                tpl = T(("CKA_TOKEN", False), ("CKA_PRIVATE", False))
                if m in ("CKM_AES_KEY_GEN", "CKM_GENERIC_SECRET_KEY_GEN"):
                    tpl += T(("CKA_VALUE_LEN", 16))
                rv = w.C_GenerateKey(s=s, mech={"m": K.C[m]}, tpl=tpl)["rv"]
                fn = "C_GenerateKey"
            else:
                kp = keypool()
                pub = T(("CKA_TOKEN", False), ("CKA_PRIVATE", False))
                if m == "CKM_EC_KEY_PAIR_GEN":
                    pub += T(("CKA_EC_PARAMS", "06082a8648ce3d030107"))
                elif m == "CKM_EC_EDWARDS_KEY_PAIR_GEN":
                    pub += T(("CKA_EC_PARAMS", "06032b6570"))
                elif m == "CKM_DSA_KEY_PAIR_GEN":
                    d = kp["dsa"][0]
                    pub += T(("CKA_PRIME", d["p"]), ("CKA_SUBPRIME", d["q"]), ("CKA_BASE", d["g"]))
                else:
                    d = kp["dh"][0]
                    pub += T(("CKA_PRIME", d["p"]), ("CKA_BASE", d["g"]))
                rv = w.C_GenerateKeyPair(s=s, mech={"m": K.C[m]}, pub=pub, prv=T(("CKA_TOKEN", False), ("CKA_PRIVATE", False)))["rv"]
                fn = "C_GenerateKeyPair"
            if rv == K.CKR_OK and not enabled:
                raise self.viol("[%s] %s(%s) succeeded although the configuration removed the mechanism from C_GetMechanismList" % (conf, fn, m),
                                [cell], fn=fn, deviation="config_ignored")
            nt = not enabled
            if enabled:
                ctx.label("canonical_ok" if rv == K.CKR_OK else "canonical_fail")
                if rv != K.CKR_OK:
                    ctx.label("canonical_fail_%s_%s" % (fn, m))
            else:
                ctx.label("nt_cells")
            ctx.case(cell, nt, ["nokey"])
        finally:
            w.C_CloseSession(s=s)

    def run_cell(self, ctx, cell):
        _, conf, op, k, flag, m, allowed = cell
        stage = self.stage_for(ctx, conf)
        w = stage.w
        slot = ctx.shared["tpl"].tokens[0].slot
        s = w.C_OpenSession(slot=slot, flags=RW)["h"]
        try:
            other = "CKM_SHA512_HMAC" if m != "CKM_SHA512_HMAC" else "CKM_AES_CMAC"
            al = {"none": None, "self": [m], "other": [other]}[allowed]
            r = w.C_CreateObject(s=s, tpl=key_template(k, FLAG[op], flag, al))
            if r["rv"] != K.CKR_OK:
                ctx.label("key_not_creatable_%s" % k)
                ctx.case(cell, False, [])
                return
            key = r["h"]
            mech = {"m": K.C[m]}
            p = mech_params(m, op)
            if p is not None:
                mech["p"] = p
            fn = {"encrypt": "C_EncryptInit", "decrypt": "C_DecryptInit", "sign": "C_SignInit", "verify": "C_VerifyInit",
                  "wrap": "C_WrapKey", "unwrap": "C_UnwrapKey", "derive": "C_DeriveKey"}[op]
            newtpl = T(("CKA_CLASS", "CKO_SECRET_KEY"), ("CKA_KEY_TYPE", "CKK_GENERIC_SECRET"), ("CKA_TOKEN", False), ("CKA_PRIVATE", False),
                       ("CKA_VALUE_LEN", 8))
            if op in ("encrypt", "decrypt", "sign", "verify"):
                rv = w.call(fn, s=s, mech=mech, key=key)["rv"]
            elif op == "wrap":
                tgt = w.C_CreateObject(s=s, tpl=T(("CKA_CLASS", "CKO_SECRET_KEY"), ("CKA_KEY_TYPE", "CKK_AES"), ("CKA_VALUE", b"T" * 16),
                                                  ("CKA_TOKEN", False), ("CKA_PRIVATE", False), ("CKA_EXTRACTABLE", True)))["h"]
                rv = w.C_WrapKey(s=s, mech=mech, wkey=key, key=tgt, out=1024)["rv"]
            elif op == "unwrap":
                blob = self.make_blob(w, s, k, m, mech)
                ut = T(("CKA_CLASS", "CKO_SECRET_KEY"), ("CKA_KEY_TYPE", "CKK_AES"), ("CKA_TOKEN", False), ("CKA_PRIVATE", False))
                rv = w.C_UnwrapKey(s=s, mech=mech, key=key, data=blob, tpl=ut)["rv"]
            else:
                if m == "CKM_CONCATENATE_BASE_AND_KEY":
                    k2 = w.C_CreateObject(s=s, tpl=T(("CKA_CLASS", "CKO_SECRET_KEY"), ("CKA_KEY_TYPE", "CKK_GENERIC_SECRET"), ("CKA_VALUE", b"2" * 8),
                                                     ("CKA_TOKEN", False), ("CKA_PRIVATE", False)))["h"]
                    mech["p"] = {"ulong": k2}
                dt = list(newtpl)
                if m in ("CKM_DH_PKCS_DERIVE", "CKM_ECDH1_DERIVE"):
                    dt = T(("CKA_CLASS", "CKO_SECRET_KEY"), ("CKA_KEY_TYPE", "CKK_GENERIC_SECRET"), ("CKA_TOKEN", False), ("CKA_PRIVATE", False),
                           ("CKA_VALUE_LEN", 16))
                rv = w.C_DeriveKey(s=s, mech=mech, key=key, tpl=dt)["rv"]
            # ---- oracle ---------------------------------------------------------------------------------
            flag_eff = flag and FLAG[op] in CLASS_FLAGS[kclass(k)]
            admissible = k in TABLE.get(m, {}).get(op, set())
            allowed_ok = allowed in ("none", "self")
            enabled = K.C[m] in stage.mechlist
            conds = {"usage flag %s true" % FLAG[op]: flag_eff, "key class/type admissible for the mechanism": admissible,
                     "mechanism in CKA_ALLOWED_MECHANISMS": allowed_ok, "mechanism enabled by slots.mechanisms": enabled}
            bad = [c for c, ok in conds.items() if not ok]
            if rv == K.CKR_OK and bad:
                raise self.viol("[%s] %s(%s) with a %s key (flag=%s, allowed=%s) succeeded although: NOT %s" % (
                    conf, fn, m, k, flag, allowed, "; NOT ".join(bad)), [cell],
                    fn=fn, mech=m, key=k, deviation="+".join(sorted(x.split()[0] for x in bad)))
            if len(bad) == 1:
                ctx.label("nt_cells")
                ctx.label("nt_" + bad[0].split()[0])
            if not bad:
                ctx.label("canonical_ok" if rv == K.CKR_OK else "canonical_fail")
                if rv != K.CKR_OK:
                    ctx.label("canonical_fail_%s_%s_%s" % (op, m, K.rvname(rv)))
            ctx.case(cell, len(bad) == 1, [])
        finally:
            w.C_CloseSession(s=s)

    def make_blob(self, w, s, k, m, mech):
        """a wrapped AES key that unwraps correctly under key kind k with mechanism m (using a twin key with CKA_WRAP)"""
        try:
            if k == "rsa_priv":
                tw = w.C_CreateObject(s=s, tpl=T(*base_template("rsa_pub", 0)) + T(("CKA_TOKEN", False), ("CKA_PRIVATE", False), ("CKA_WRAP", True)))["h"]
            elif k in SECRET_ANY:
                tw = w.C_CreateObject(s=s, tpl=T(*base_template(k, 0)) + T(("CKA_TOKEN", False), ("CKA_PRIVATE", False), ("CKA_WRAP", True), ("CKA_ENCRYPT", True)))["h"]
            else:
                return "ab" * 24
            tgt = w.C_CreateObject(s=s, tpl=T(("CKA_CLASS", "CKO_SECRET_KEY"), ("CKA_KEY_TYPE", "CKK_AES"), ("CKA_VALUE", b"U" * 16),
                                              ("CKA_TOKEN", False), ("CKA_PRIVATE", False), ("CKA_EXTRACTABLE", True)))["h"]
            r = w.C_WrapKey(s=s, mech=mech, wkey=tw, key=tgt, out=1024)
            if r["rv"] == K.CKR_OK:
                return r["out"]["data"]
            # mechanisms the token unwraps but does not wrap with (DES3_CBC*): encrypt the key bytes instead
            r0 = w.C_EncryptInit(s=s, mech=mech, key=tw)
            if r0["rv"] == K.CKR_OK:
                data = (b"U" * 16).hex() if m.endswith("_PAD") else (b"U" * 16).hex()
                r1 = w.C_Encrypt(s=s, data=data, out=256)
                if r1["rv"] == K.CKR_OK:
                    return r1["out"]["data"]
            # a key of the WRONG type cannot make the blob itself: make it with a key of the right type that has the same bytes, so that only the
            # class / type check (and not an undecipherable blob) can refuse the unwrap
            if k in SECRET_ANY:
                raw = GENERIC32 if k == "generic" else dict(base_template(k, 0))["CKA_VALUE"]
                raw = bytes.fromhex(raw) if isinstance(raw, str) else bytes(raw)
                for kt, lens in (("CKK_AES", (16, 24, 32)), ("CKK_DES3", (24,))):
                    if len(raw) not in lens and not (kt == "CKK_AES" and len(raw) > 16):
                        continue
                    val = raw if len(raw) in lens else raw[:16]
                    tw2 = w.C_CreateObject(s=s, tpl=T(("CKA_CLASS", "CKO_SECRET_KEY"), ("CKA_KEY_TYPE", kt), ("CKA_VALUE", val), ("CKA_TOKEN", False), ("CKA_PRIVATE", False),
                                                     ("CKA_WRAP", True), ("CKA_ENCRYPT", True)))
                    if tw2["rv"] != K.CKR_OK:
                        continue
                    r = w.C_WrapKey(s=s, mech=mech, wkey=tw2["h"], key=tgt, out=1024)
                    if r["rv"] == K.CKR_OK:
                        return r["out"]["data"]
        except Exception:
            pass
        return "ab" * 24

    def run_reauth(self, ctx, cell):
        _, who, how, login = cell
        stage = self.stage_for(ctx, "ALL")
        w = stage.w
        tok = ctx.shared["tpl"].tokens[0]
        s = w.C_OpenSession(slot=tok.slot, flags=RW)["h"]
        try:
            if w.C_Login(s=s, user=K.CKU_USER, pin=hx(tok.user_pin))["rv"] != 0:
                raise Violation("setup: login failed", [cell])
            cls = "rsa_priv" if who == "rsa" else "ec_priv"
            r = w.C_CreateObject(s=s, tpl=T(*base_template(cls, 0)) + T(("CKA_TOKEN", False), ("CKA_PRIVATE", True), ("CKA_SIGN", True), ("CKA_DECRYPT", True),
                                                                      ("CKA_ALWAYS_AUTHENTICATE", True)))
            if r["rv"] != 0:
                ctx.label("reauth_key_not_creatable")
                return
            key = r["h"]
            if how == "decrypt":
                if who != "rsa":
                    return
                pub = w.C_CreateObject(s=s, tpl=T(*base_template("rsa_pub", 0)) + T(("CKA_TOKEN", False), ("CKA_ENCRYPT", True)))["h"]
                w.C_EncryptInit(s=s, mech={"m": K.CKM_RSA_PKCS}, key=pub)
                ct = w.C_Encrypt(s=s, data="41" * 16, out=512)["out"]["data"]
                rv0 = w.C_DecryptInit(s=s, mech={"m": K.CKM_RSA_PKCS}, key=key)["rv"]
            else:
                if who == "rsa":
                    mech = {"m": K.CKM_RSA_PKCS} if how == "sign_single" else {"m": K.CKM_SHA256_RSA_PKCS}
                else:
                    if how == "sign_multi":
                        return
                    mech = {"m": K.CKM_ECDSA}
                rv0 = w.C_SignInit(s=s, mech=mech, key=key)["rv"]
            if rv0 != K.CKR_OK:
                ctx.label("reauth_init_failed")
                return
            if login == "wrong":
                w.C_Login(s=s, user=K.CKU_CONTEXT_SPECIFIC, pin=hx(b"wrong-pin-000"))
            elif login == "right":
                rvl = w.C_Login(s=s, user=K.CKU_CONTEXT_SPECIFIC, pin=hx(tok.user_pin))["rv"]
                if rvl != K.CKR_OK:
                    ctx.label("reauth_right_login_refused")
            if how == "decrypt":
                r = w.C_Decrypt(s=s, data=ct, out=512)
            elif how == "sign_single":
                r = w.C_Sign(s=s, data="42" * 32, out=512)
            else:
                r1 = w.C_SignUpdate(s=s, data="42" * 32)
                r = w.C_SignFinal(s=s, out=512) if r1["rv"] == K.CKR_OK else {"rv": r1["rv"], "out": {}}
            produced = r["rv"] == K.CKR_OK or r.get("out", {}).get("data") or r.get("out", {}).get("tail") is False
            if login != "right" and produced:
                raise self.viol("ALWAYS_AUTHENTICATE %s key: %s produced output with %s context-specific login (%s)" % (
                    who, how, login, K.rvname(r["rv"])), [cell], fn=how, deviation="always_authenticate_bypassed")
            ctx.label("nt_cells" if login != "right" else "reauth_right")
            if login == "right":
                ctx.label("canonical_ok" if r["rv"] == K.CKR_OK else "canonical_fail")
            ctx.case(cell, login != "right", ["reauth"])
        finally:
            w.C_CloseSession(s=s)


    def run_reauth2(self, ctx, cell):
        """IF a private-key operation on an ALWAYS_AUTHENTICATE key yields output THEN a C_Login(CKU_CONTEXT_SPECIFIC) with the
        correct PIN returned CKR_OK on this session after the operation was initialised (and the user was not logged out since)"""
        _, who, how, seq, again = cell
        stage = self.stage_for(ctx, "ALL")
        w = stage.w
        tok = ctx.shared["tpl"].tokens[0]
        s = w.C_OpenSession(slot=tok.slot, flags=RW)["h"]
        s2 = w.C_OpenSession(slot=tok.slot, flags=RW)["h"]
        try:
            if w.C_Login(s=s, user=K.CKU_USER, pin=hx(tok.user_pin))["rv"] != 0:
                raise Violation("setup: login failed", [cell])
            cls = "rsa_priv" if who == "rsa" else "ec_priv"
            r = w.C_CreateObject(s=s, tpl=T(*base_template(cls, 0)) + T(("CKA_TOKEN", False), ("CKA_PRIVATE", True), ("CKA_SIGN", True), ("CKA_DECRYPT", True),
                                                                      ("CKA_ALWAYS_AUTHENTICATE", True)))
            if r["rv"] != 0:
                ctx.label("reauth_key_not_creatable")
                return
            key = r["h"]
            ct = None
            if how == "decrypt":
                pub = w.C_CreateObject(s=s, tpl=T(*base_template("rsa_pub", 0)) + T(("CKA_TOKEN", False), ("CKA_ENCRYPT", True)))["h"]
                w.C_EncryptInit(s=s, mech={"m": K.CKM_RSA_PKCS}, key=pub)
                ct = w.C_Encrypt(s=s, data="41" * 16, out=512)["out"]["data"]

            def init():
                if how == "decrypt":
                    return w.C_DecryptInit(s=s, mech={"m": K.CKM_RSA_PKCS}, key=key)["rv"]
                if who == "rsa":
                    return w.C_SignInit(s=s, mech={"m": K.CKM_RSA_PKCS} if how == "sign_single" else {"m": K.CKM_SHA256_RSA_PKCS}, key=key)["rv"]
                return w.C_SignInit(s=s, mech={"m": K.CKM_ECDSA}, key=key)["rv"]

            def produce():
                if how == "decrypt":
                    r_ = w.C_Decrypt(s=s, data=ct, out=512)
                elif how == "sign_single":
                    r_ = w.C_Sign(s=s, data="42" * 32, out=512)
                else:
                    r1 = w.C_SignUpdate(s=s, data="42" * 32)
                    r_ = w.C_SignFinal(s=s, out=512) if r1["rv"] == K.CKR_OK else {"rv": r1["rv"], "out": {}}
                return r_, bool(r_["rv"] == K.CKR_OK or r_.get("out", {}).get("data") or r_.get("out", {}).get("tail") is False)

            def act(a):
                """-> True iff a correct context-specific login returned CKR_OK on s"""
                if a == "ctx_wrong":
                    return w.C_Login(s=s, user=K.CKU_CONTEXT_SPECIFIC, pin=hx(b"wrong-pin-000"))["rv"] == K.CKR_OK and None
                if a == "ctx_right":
                    return w.C_Login(s=s, user=K.CKU_CONTEXT_SPECIFIC, pin=hx(tok.user_pin))["rv"] == K.CKR_OK
                if a == "ctx_sopin":
                    w.C_Login(s=s, user=K.CKU_CONTEXT_SPECIFIC, pin=hx(tok.so_pin))
                elif a == "ctx_empty":
                    w.C_Login(s=s, user=K.CKU_CONTEXT_SPECIFIC, pin="")
                elif a == "ctx_prefix":
                    w.C_Login(s=s, user=K.CKU_CONTEXT_SPECIFIC, pin=hx(tok.user_pin[:-1]))
                elif a == "logout":
                    w.C_Logout(s=s)
                    return False
                elif a == "logout_relogin":
                    w.C_Logout(s=s)
                    w.C_Login(s=s, user=K.CKU_USER, pin=hx(tok.user_pin))
                    return False
                elif a == "other_session_logout_relogin":
                    w.C_Logout(s=s2)
                    w.C_Login(s=s2, user=K.CKU_USER, pin=hx(tok.user_pin))
                    return False
                elif a == "user_login_again":
                    w.C_Login(s=s, user=K.CKU_USER, pin=hx(tok.user_pin))
                elif a == "so_login":
                    w.C_Login(s=s, user=K.CKU_SO, pin=hx(tok.so_pin))
                elif a == "query":
                    if how == "decrypt":
                        w.C_Decrypt(s=s, data=ct, out=None)
                    elif how == "sign_single":
                        w.C_Sign(s=s, data="42" * 32, out=None)
                    else:
                        w.C_SignFinal(s=s, out=None)
                elif a == "ctx_right_other_session":
                    w.C_Login(s=s2, user=K.CKU_CONTEXT_SPECIFIC, pin=hx(tok.user_pin))
                return False

            if init() != K.CKR_OK:
                ctx.label("reauth_init_failed")
                return
            authed = False
            for a in seq:
                if act(a) is True:
                    authed = True           # (a later logout does not make the statement stricter: it only asks for a successful login before output)
            r, produced = produce()
            if produced and not authed:
                raise self.viol("ALWAYS_AUTHENTICATE %s key: %s produced output although no correct context-specific login succeeded after the Init "
                                "(calls in between: %s) -> %s" % (who, how, seq or "none", K.rvname(r["rv"])), [cell], fn=how, deviation="always_authenticate_bypassed")
            if authed:
                ctx.label("reauth2_authed_ok" if produced else "reauth2_authed_fail")
            nt = not authed and len(seq) > 0
            if again and produced:
                # a second operation needs its own authentication
                if init() == K.CKR_OK:
                    r, produced2 = produce()
                    if produced2:
                        raise self.viol("ALWAYS_AUTHENTICATE %s key: a second %s operation produced output without a new context-specific login "
                                        "(the first one was authenticated) -> %s" % (who, how, K.rvname(r["rv"])), [cell], fn=how, deviation="always_authenticate_not_rearmed")
                    ctx.label("reauth2_second_op_refused")
                    nt = True
            ctx.label("nt_cells" if nt else "reauth2_other")
            ctx.case(cell, nt, ["reauth2"])
        finally:
            w.C_CloseSession(s=s)
            w.C_CloseSession(s=s2)


if __name__ == "__main__":
    sys.exit(main(C07))
