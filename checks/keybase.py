"""Shared base of the key-world checks (C02, C08)."""
import os
import sys

sys.path.insert(0, os.path.join(os.path.dirname(os.path.abspath(__file__)), "..", "py"))
from vlib.env import Stage, Template  # noqa: E402
from vlib.keyworld import KeyWorld, program_st  # noqa: E402
from vlib.runner import Check  # noqa: E402


class KeyCheck(Check):
    variants = ["ossl-asan"]
    judge = set()
    weights = {}

    def setup(self, ctx):
        ctx.shared["tpl"] = Template(ctx.env, ntokens=1)
        ctx.shared["stage"] = Stage(ctx.env, ctx.shared["tpl"], reuse=not ctx.replaying)

    def budget(self, tier):
        return {"examples": 3200, "shards": 16, "maxlen": 32} if tier == "quick" else {"examples": 32000, "shards": 16, "maxlen": 56}

    def strategy(self, tier):
        return program_st(self.weights, self.budget(tier)["maxlen"])

    def run_program(self, ctx, prog):
        w = ctx.shared["stage"].fresh()
        world = KeyWorld(ctx, w, ctx.shared["tpl"].tokens[0], prog, self.judge)
        world.run()
        for k, v in world.counts.items():
            ctx.label(k, v)
        ctx.case(prog, world.nontrivial, [])
