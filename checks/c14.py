#!/usr/bin/env python3
"""C14 - token initialisation, re-initialisation and isolation between tokens (DESIGN.md section 2, C14)."""
import os
import sys

sys.path.insert(0, os.path.join(os.path.dirname(os.path.abspath(__file__)), "..", "py"))
from hypothesis import strategies as st  # noqa: E402

from vlib import consts as K  # noqa: E402
from vlib.env import Stage, Template, hx, label32  # noqa: E402
from vlib.objects import T, census  # noqa: E402
from vlib.runner import Check, Violation, main  # noqa: E402

RW = K.CKF_SERIAL_SESSION | K.CKF_RW_SESSION
MASK = ~(K.CKF_SO_PIN_COUNT_LOW | K.CKF_USER_PIN_COUNT_LOW | K.CKF_SO_PIN_FINAL_TRY | K.CKF_USER_PIN_FINAL_TRY) & 0xFFFFFFFF


class Tok:
    def __init__(self, label, so, user, slot, serial=None):
        self.label, self.so, self.user, self.slot, self.serial = label, so, user, slot, serial
        self.objects = {}        # label -> (private, value)
        self.sessions = []       # open session handles
        self.login = None


class C14(Check):
    pid = "C14"
    level = "exploration"
    variants = ["ossl-asan", "ossl-shared"]
    rule = ("Histories over up to 4 tokens (2 pre-initialised + up to 2 created by C_InitToken on the free slot): C_InitToken "
            "(fresh / re-init, right / wrong SO PIN, with / without open sessions), sessions, logins, object creation / "
            "destruction, C_SetPIN / C_InitPIN on each token through its own sessions and handles, interleaved with "
            "C_Finalize/C_Initialize and process restarts, and with the repository's own softhsm2-util (--init-token --free / --delete-token by label or serial, built "
            "from the working tree together with a shared library) run between two processes, on the file and the SQLite backend. Oracle: a model label -> {SO PIN, "
            "user PIN, objects, sessions, login}. InitToken on the free slot creates the token and C_GetSlotList shows a new free "
            "slot; on an initialised token it succeeds IFF correct SO PIN and no session, then objects and user PIN are gone, SO "
            "PIN kept, label replaced. ISOLATION: after every operation on token X the label / serial / flags, session states "
            "and public object census of every other token are unchanged; at every restart and at the end every token is "
            "found under slot int(serial[-8:],16) & 0x7fffffff with label, serial, flags, both PINs and all objects unchanged. "
            "Non-trivial = >= 2 tokens with objects and an InitToken or login on one followed by a census of the other.")
    assumptions = ["softhsm2-util runs only while no library process has the directory open (as its manual demands)",
                   "colliding serial numbers are not crafted (serials come from random UUIDs)"]
    essential_labels = {"isolation_checks": 3000, "reinit_ok": 150, "fresh_init_ok": 150, "restart_checks": 400, "util_init_ok": 60, "util_delete_ok": 60}

    def setup(self, ctx):
        ctx.shared["tpls"] = {b: Template(ctx.env, ntokens=2, backend=b) for b in ("file", "db")}
        ctx.shared["stages"] = {b: Stage(ctx.env, t, reuse=not ctx.replaying) for b, t in ctx.shared["tpls"].items()}

    def budget(self, tier):
        return {"examples": 1600, "shards": 16, "maxlen": 30} if tier == "quick" else {"examples": 16000, "shards": 16, "maxlen": 60}

    def strategy(self, tier):
        t = st.integers(0, 3)
        op = st.one_of(
            st.tuples(st.just("init_new"), st.integers(0, 9)),
            st.tuples(st.just("util_init"), st.integers(0, 9)),
            st.tuples(st.just("util_delete"), st.integers(0, 3), st.booleans()),
            st.tuples(st.just("reinit"), t, st.sampled_from(["right", "right", "wrong", "user_pin"]), st.booleans()),
            st.tuples(st.just("open"), t, st.booleans()),
            st.tuples(st.just("open"), t, st.booleans()),
            st.tuples(st.just("close"), t, st.integers(0, 3)),
            st.tuples(st.just("closeall"), t),
            st.tuples(st.just("login"), t, st.sampled_from(["USER", "USER", "SO"])),
            st.tuples(st.just("logout"), t),
            st.tuples(st.just("create"), t, st.booleans(), st.integers(0, 99)),
            st.tuples(st.just("create"), t, st.booleans(), st.integers(0, 99)),
            st.tuples(st.just("destroy"), t, st.integers(0, 9)),
            st.tuples(st.just("setpin"), t, st.integers(0, 99)),
            st.tuples(st.just("restart")),
            st.tuples(st.just("libreinit")),
        ).map(list)
        n = self.budget(tier)["maxlen"]
        part = st.lists(op, min_size=0, max_size=n // 3)
        prefix = [["open", 0, True], ["open", 1, True], ["login", 0, "USER"], ["create", 0, True, 1], ["create", 1, False, 2]]
        return st.tuples(st.sampled_from(["file", "file", "db"]), part, part, part).map(lambda x: {"backend": x[0], "ops": prefix + x[1] + x[2] + x[3]})

    # ----------------------------------------------------------------------------------------------
    def run_program(self, ctx, prog):
        backend = prog["backend"]
        stage = ctx.shared["stages"][backend]
        w = [stage.fresh()]
        toks = [Tok(t.label, t.so_pin, t.user_pin, t.slot, t.serial) for t in ctx.shared["tpls"][backend].tokens]
        step = [-1]
        labels = set()
        flags = {"nt": False, "touched": set()}
        ro_sessions = {}         # id(token) -> handles of its read-only sessions

        def V(msg):
            return Violation("[%s] step %d %s: %s" % (backend, step[0], prog["ops"][step[0]] if 0 <= step[0] < len(prog["ops"]) else "", msg), prog)

        def tk(i):
            return toks[i % len(toks)]

        def token_facts(t):
            ti = w[0].C_GetTokenInfo(slot=t.slot)
            if ti["rv"] != 0:
                raise V("C_GetTokenInfo of token %s (slot %d) failed: %s" % (t.label, t.slot, K.rvname(ti["rv"])))
            return (bytes.fromhex(ti["label"]).decode("latin-1").rstrip(), bytes.fromhex(ti["serial"]).decode("latin-1"), ti["flags"] & MASK)

        def public_census(t):
            tmp = None
            if t.sessions:
                s = t.sessions[0]
            else:
                r = w[0].C_OpenSession(slot=t.slot, flags=K.CKF_SERIAL_SESSION)
                if r["rv"] != 0:
                    # an RO session cannot be opened while the SO is logged in - impossible without sessions
                    raise V("temporary session on token %s failed: %s" % (t.label, K.rvname(r["rv"])))
                s = tmp = r["h"]
            rv, objs = census(w[0], s, types=[K.CKA_LABEL, K.CKA_VALUE, K.CKA_PRIVATE])
            if tmp is not None:
                w[0].C_CloseSession(s=tmp)
            if rv != 0:
                raise V("census on token %s failed: %s" % (t.label, K.rvname(rv)))
            return sorted((a.get(K.CKA_LABEL), a.get(K.CKA_VALUE), a.get(K.CKA_PRIVATE)) for a in objs.values())

        def expected_census(t):
            vis = [(lab.hex(), val.hex(), prv) for lab, (prv, val) in t.objects.items() if (not prv or t.login == "user")]
            return sorted(vis)

        def session_states(t):
            res = w[0].probe(sessions=t.sessions)["sessions"] if t.sessions else []
            return [tuple(r) for r in res]

        def snapshot(t):
            return (token_facts(t), session_states(t), public_census(t))

        def check_model(t, why):
            """token t agrees with the model"""
            lab, ser, fl = token_facts(t)
            if lab != t.label:
                raise V("%s: token label is %r, expected %r" % (why, lab, t.label))
            if t.serial is not None and ser != t.serial:
                raise V("%s: token %s serial changed from %s to %s" % (why, t.label, t.serial, ser))
            t.serial = ser
            has_user = bool(fl & K.CKF_USER_PIN_INITIALIZED)
            if has_user != (t.user is not None):
                raise V("%s: token %s CKF_USER_PIN_INITIALIZED=%s but the model's user PIN is %s" % (why, t.label, has_user, "set" if t.user else "unset"))
            got = public_census(t)
            want = expected_census(t)
            if got != want:
                raise V("%s: token %s objects %s, expected %s" % (why, t.label, [(a, (b or "")[:12]) for a, b, c in got], [(a, b[:12]) for a, b, c in want]))
            for s, r in zip(t.sessions, session_states(t)):
                if r[0] != 0:
                    raise V("%s: session %d of token %s is gone" % (why, s, t.label))
                st_ = r[2]
                exp_login = {0: None, 2: None, 1: "user", 3: "user", 4: "so"}[st_]
                if exp_login != t.login:
                    raise V("%s: session %d of token %s reports login %s, model %s" % (why, s, t.label, exp_login, t.login))

        def deep_check(why):
            """no sessions anywhere: PINs, private objects, slot-from-serial (used after restarts and at the end)"""
            for t in toks:
                want_slot = int(t.serial[-8:], 16) & 0x7FFFFFFF
                if t.slot != want_slot:
                    raise V("%s: token %s is expected under slot %d" % (why, t.label, want_slot))
                check_model(t, why)
                r = w[0].C_OpenSession(slot=t.slot, flags=RW)
                if r["rv"] != 0:
                    raise V("%s: C_OpenSession on token %s failed: %s" % (why, t.label, K.rvname(r["rv"])))
                s = r["h"]
                rv = w[0].C_Login(s=s, user=K.CKU_SO, pin=hx(t.so))["rv"]
                if rv != 0:
                    raise V("%s: the SO PIN of token %s no longer logs in (%s)" % (why, t.label, K.rvname(rv)))
                w[0].C_Logout(s=s)
                rv = w[0].C_Login(s=s, user=K.CKU_USER, pin=hx(t.user if t.user is not None else b"whatever-pin"))["rv"]
                if (rv == 0) != (t.user is not None):
                    raise V("%s: user login on token %s -> %s, the model's user PIN is %s" % (why, t.label, K.rvname(rv), "set" if t.user else "unset"))
                if rv == 0:
                    t.login = "user"
                    t.sessions = [s]
                    check_model(t, why + " (user view)")
                    t.login = None
                    t.sessions = []
                w[0].C_CloseSession(s=s)
                labels.add("restart_checks")

        def all_gone():
            for t in toks:
                t.sessions = []
                t.login = None
                for lab in [l for l, (p, v) in t.objects.items() if l.startswith(b"s-")]:
                    del t.objects[lab]

        for t in toks:
            check_model(t, "initial state")
        for i, op in enumerate(prog["ops"]):
            step[0] = i
            ctx.steps += 1
            kind = op[0]
            target = None
            others_before = None
            if kind in ("util_init", "util_delete"):
                self.util_op(ctx, stage, backend, w, toks, op, V, all_gone, deep_check, labels)
                continue
            if kind not in ("restart", "libreinit", "init_new"):
                target = tk(op[1])
                others_before = {id(o): snapshot(o) for o in toks if o is not target}
            elif kind == "init_new":
                others_before = {id(o): snapshot(o) for o in toks}
            if kind == "init_new":
                if len(toks) >= 4:
                    continue
                slots = w[0].C_GetSlotList()["slots"]
                known = {t.slot for t in toks}
                free = [s for s in slots if s not in known]
                if len(free) != 1:
                    raise V("expected exactly one free slot, C_GetSlotList shows %s (tokens at %s)" % (slots, sorted(known)))
                label = "new%d-%d" % (len(toks), op[1])
                so = b"so-pin-new-%d" % op[1]
                rv = w[0].C_InitToken(slot=free[0], pin=hx(so), label=hx(label32(label)))["rv"]
                if rv != 0:
                    raise V("C_InitToken on the free slot failed: %s" % K.rvname(rv))
                t = Tok(label, so, None, free[0])
                toks.append(t)
                check_model(t, "after fresh C_InitToken")
                slots2 = w[0].C_GetSlotList()["slots"]
                free2 = [s for s in slots2 if s not in {x.slot for x in toks}]
                if len(free2) != 1:
                    raise V("after initialising the free slot C_GetSlotList shows %s: no new free slot" % slots2)
                # the SO gives the new token a user PIN so that it can take part fully
                s = w[0].C_OpenSession(slot=t.slot, flags=RW)["h"]
                up = b"user-pin-new-%d" % op[1]
                if w[0].C_Login(s=s, user=K.CKU_SO, pin=hx(so))["rv"] == 0 and w[0].C_InitPIN(s=s, pin=hx(up))["rv"] == 0:
                    t.user = up
                w[0].C_CloseSession(s=s)
                labels.add("fresh_init_ok")
            elif kind == "reinit":
                t = target
                pin = {"right": t.so, "wrong": b"wrong-so-pin-1", "user_pin": t.user or b"no-user-pin-x"}[op[2]]
                if op[3] and t.sessions:
                    w[0].C_CloseAllSessions(slot=t.slot)
                    t.sessions, t.login = [], None
                    for lab in [l for l in t.objects if l.startswith(b"s-")]:
                        del t.objects[lab]
                newlabel = "re%d-%s" % (i, t.label[:10])
                rv = w[0].C_InitToken(slot=t.slot, pin=hx(pin), label=hx(label32(newlabel)))["rv"]
                allowed = pin == t.so and not t.sessions
                if rv == 0 and not allowed:
                    raise V("C_InitToken on token %s succeeded with %s SO PIN and %d open session(s)" % (t.label, op[2], len(t.sessions)))
                if rv != 0 and allowed:
                    raise V("C_InitToken with the correct SO PIN and no session failed: %s" % K.rvname(rv))
                if rv == 0:
                    old_user = t.user
                    t.label = newlabel
                    t.objects = {}
                    t.user = None
                    labels.add("reinit_ok")
                    # in the SAME library instance the old user PIN must be gone at once
                    if old_user is not None:
                        r_ = w[0].C_OpenSession(slot=t.slot, flags=RW)
                        if r_["rv"] == 0:
                            rvl = w[0].C_Login(s=r_["h"], user=K.CKU_USER, pin=hx(old_user))["rv"]
                            if rvl == 0:
                                raise V("after re-initialisation the OLD user PIN still logs in (same library instance)")
                            rvs = w[0].C_SetPIN(s=r_["h"], old=hx(old_user), new=hx(b"sneaked-in-pin"))["rv"]
                            if rvs == 0:
                                raise V("after re-initialisation C_SetPIN with the OLD user PIN succeeds and re-creates a user PIN")
                            w[0].C_CloseSession(s=r_["h"])
                    flags["nt"] = flags["nt"] or sum(1 for x in toks if x.objects) >= 1
                else:
                    labels.add("reinit_refused")
                check_model(t, "after C_InitToken")
            elif kind == "open":
                r = w[0].C_OpenSession(slot=target.slot, flags=RW if op[2] else K.CKF_SERIAL_SESSION)
                if r["rv"] == 0:
                    target.sessions.append(r["h"])
                    ro_sessions.setdefault(id(target), set())
                    if not op[2]:
                        ro_sessions[id(target)].add(r["h"])
            elif kind == "close":
                if target.sessions:
                    s = target.sessions.pop(op[2] % len(target.sessions))
                    w[0].C_CloseSession(s=s)
                    for lab in [l for l, v in target.objects.items() if l.startswith(b"s-%d-" % s)]:
                        del target.objects[lab]
                    if not target.sessions:
                        target.login = None
                        for lab in [l for l in target.objects if l.startswith(b"s-")]:
                            del target.objects[lab]
            elif kind == "closeall":
                w[0].C_CloseAllSessions(slot=target.slot)
                target.sessions, target.login = [], None
                for lab in [l for l in target.objects if l.startswith(b"s-")]:
                    del target.objects[lab]
            elif kind == "login":
                if target.sessions:
                    who = op[2]
                    pin = target.user if who == "USER" else target.so
                    rv = w[0].C_Login(s=target.sessions[0], user=K.CKU_USER if who == "USER" else K.CKU_SO, pin=hx(pin or b"unset-pin-x"))["rv"]
                    # isolation: the answers that speak about THIS token's sessions / login state must be true of this token (whatever another
                    # token's sessions and logins are)
                    own_ro = [h_ for h_ in target.sessions if h_ in ro_sessions.get(id(target), ())]
                    if rv == K.CKR_SESSION_READ_ONLY_EXISTS and not own_ro:
                        raise V("C_Login(%s) on token %s answers CKR_SESSION_READ_ONLY_EXISTS although none of its %d sessions is read-only (read-only sessions "
                                "of other tokens: %s)" % (who, target.label, len(target.sessions),
                                                          {x.label: len([h_ for h_ in x.sessions if h_ in ro_sessions.get(id(x), ())]) for x in toks if x is not target}))
                    if rv in (K.CKR_USER_ALREADY_LOGGED_IN, K.CKR_USER_ANOTHER_ALREADY_LOGGED_IN) and target.login is None:
                        raise V("C_Login(%s) on token %s answers %s although nobody is logged in on it (other tokens: %s)" % (
                            who, target.label, K.rvname(rv), {x.label: x.login for x in toks if x is not target}))
                    if rv == 0:
                        target.login = "user" if who == "USER" else "so"
                        flags["nt"] = flags["nt"] or sum(1 for x in toks if x.objects) >= 2
            elif kind == "logout":
                if target.sessions:
                    if w[0].C_Logout(s=target.sessions[0])["rv"] == 0:
                        target.login = None
                        for lab in [l for l, (p, v) in target.objects.items() if l.startswith(b"s-") and p]:
                            del target.objects[lab]
            elif kind == "create":
                rw = [s for s in target.sessions]
                if rw:
                    s = rw[0]
                    private = bool(op[2]) and target.login == "user"
                    token_obj = op[3] % 3 != 0
                    lab = (b"t-" if token_obj else b"s-%d-" % s) + b"%s-%d-%d" % (target.label.encode()[:6], i, op[3])
                    val = b"value-of-%s-%d" % (target.label.encode(), i)
                    r = w[0].C_CreateObject(s=s, tpl=T(("CKA_CLASS", "CKO_DATA"), ("CKA_TOKEN", token_obj), ("CKA_PRIVATE", private), ("CKA_LABEL", lab), ("CKA_VALUE", val)))
                    if r["rv"] == 0:
                        target.objects[lab] = (private, val)
                        flags["touched"].add(id(target))
            elif kind == "destroy":
                if target.sessions and target.objects:
                    vis = sorted(l for l, (p, v) in target.objects.items() if not p or target.login == "user")
                    if vis:
                        lab = vis[op[2] % len(vis)]
                        hs = w[0].findall(s=target.sessions[0], tpl=T(("CKA_LABEL", lab)))["h"]
                        if hs and w[0].C_DestroyObject(s=target.sessions[0], o=hs[0])["rv"] == 0:
                            del target.objects[lab]
            elif kind == "setpin":
                rws = [s for s in target.sessions]
                if rws and target.login in (None, "user") and target.user is not None:
                    new = b"pin-%s-%d" % (target.label.encode()[:6], op[2])
                    if w[0].C_SetPIN(s=rws[0], old=hx(target.user), new=hx(new))["rv"] == 0:
                        target.user = new
            elif kind in ("restart", "libreinit"):
                all_gone()
                if kind == "restart":
                    r = stage.restart()
                    w[0] = stage.w
                    if r["rv"] != 0:
                        raise V("C_Initialize in a new process failed: %s" % K.rvname(r["rv"]))
                else:
                    r1, r2 = stage.reinit()
                    if r1["rv"] != 0 or r2["rv"] != 0:
                        raise V("C_Finalize/C_Initialize failed")
                for t in toks:
                    t.slot = int(t.serial[-8:], 16) & 0x7FFFFFFF
                slots = w[0].C_GetSlotList()["slots"]
                if sorted(slots[:-1]) != sorted(t.slot for t in toks):
                    raise V("after %s the slot list %s does not consist of the slots derived from the serials %s plus one free slot" % (
                        kind, slots, sorted(t.slot for t in toks)))
                deep_check("after %s" % kind)
                continue
            # ---- isolation: every other token is exactly as before ------------------------------------------------------
            if target is not None:
                check_model(target, "after %s" % kind)
            for o in toks:
                if id(o) in (others_before or {}):
                    now = snapshot(o)
                    if now != others_before[id(o)]:
                        raise V("operation on token %s changed token %s: before %s, after %s" % (
                            target.label if target else "(free slot)", o.label, str(others_before[id(o)])[:300], str(now)[:300]))
                    labels.add("isolation_checks")
                    ctx.label("isolation_checks")
        step[0] = len(prog["ops"])
        all_gone()
        stage.restart()
        w[0] = stage.w
        for t in toks:
            t.slot = int(t.serial[-8:], 16) & 0x7FFFFFFF
        deep_check("final restart")
        for l in labels:
            if l != "isolation_checks":
                ctx.label(l)
        ctx.label("backend_" + backend)
        ctx.case(prog, flags["nt"], [])


    def util_op(self, ctx, stage, backend, w, toks, op, V, all_gone, deep_check, labels):
        """softhsm2-util between two library processes: a new token appears / one token disappears, every other token is untouched"""
        import subprocess
        from vlib.worker import BUILD
        util = os.path.join(BUILD, "ossl-shared", "softhsm2-util")
        module = os.path.join(BUILD, "ossl-shared", "libsofthsm2.so")
        kind = op[0]
        if kind == "util_init" and len(toks) >= 4:
            return
        if kind == "util_delete" and len(toks) <= 1:
            return
        all_gone()
        try:
            w[0].C_Finalize()
        except Exception:
            pass
        stage.w.close()
        stage.w = None
        env = dict(os.environ, SOFTHSM2_CONF=stage.sb.conf)
        if kind == "util_init":
            n = len(toks)
            label, so, user = "util-%d-%d" % (n, op[1]), b"util-so-pin-%d" % op[1], b"util-user-pin-%d" % op[1]
            cmd = [util, "--module", module, "--init-token", "--free", "--label", label, "--so-pin", so.decode(), "--pin", user.decode()]
        else:
            victim = toks[op[1] % len(toks)]
            cmd = [util, "--module", module, "--delete-token"] + (["--serial", victim.serial] if op[2] else ["--token", victim.label])
        p = subprocess.run(cmd, env=env, stdout=subprocess.PIPE, stderr=subprocess.STDOUT, timeout=120)
        out = p.stdout.decode("latin-1")
        # a label carried by several tokens does not identify one: the tool must refuse and delete nothing
        ambiguous = kind == "util_delete" and not op[2] and sum(1 for t in toks if t.label == victim.label) > 1
        if ambiguous:
            if p.returncode == 0:
                raise V("softhsm2-util --delete-token --token %s succeeded although %d tokens carry that label" % (victim.label, sum(1 for t in toks if t.label == victim.label)))
            labels.add("util_delete_ambiguous_refused")
        elif p.returncode != 0:
            raise V("softhsm2-util %s failed (%d): %s" % (" ".join(cmd[3:]), p.returncode, out[-300:]))
        r = stage.restart()
        w[0] = stage.w
        if r["rv"] != 0:
            raise V("C_Initialize after softhsm2-util failed: %s" % K.rvname(r["rv"]))
        if kind == "util_init":
            # the new token is identified by its label; its serial and slot are read once, then it is a token like the others
            # the new token is the one whose serial no token of the model carries (labels may repeat: a label is not an identity)
            found = None
            known_serials = {t.serial for t in toks}
            news = []
            for sl in w[0].C_GetSlotList()["slots"]:
                ti = w[0].C_GetTokenInfo(slot=sl)
                if ti["rv"] == 0 and (ti["flags"] & K.CKF_TOKEN_INITIALIZED):
                    ser = bytes.fromhex(ti["serial"]).decode("latin-1")
                    if ser not in known_serials:
                        news.append((sl, ser, bytes.fromhex(ti["label"]).decode("latin-1").rstrip()))
            if len(news) == 1 and news[0][2] == label:
                found = news[0][:2]
            elif news:
                raise V("after softhsm2-util --init-token --free --label %s a new process lists %d new token(s): %s" % (label, len(news), news))
            if found is None:
                raise V("the token made by softhsm2-util --init-token --free --label %s is not listed by a new process" % label)
            toks.append(Tok(label, so, user, found[0], found[1]))
            labels.add("util_init_ok")
        elif ambiguous:
            pass
        else:
            toks.remove(victim)
            for sl in w[0].C_GetSlotList()["slots"]:
                ti = w[0].C_GetTokenInfo(slot=sl)
                if ti["rv"] == 0 and bytes.fromhex(ti["serial"]).decode("latin-1") == victim.serial:
                    raise V("the token deleted by softhsm2-util (%s, serial %s) is still listed" % (victim.label, victim.serial))
            labels.add("util_delete_ok")
        for t in toks:
            t.slot = int(t.serial[-8:], 16) & 0x7FFFFFFF
        slots = w[0].C_GetSlotList()["slots"]
        if sorted(slots[:-1]) != sorted(t.slot for t in toks):
            raise V("after %s the slot list %s does not consist of the slots derived from the serials %s plus one free slot" % (kind, slots, sorted(t.slot for t in toks)))
        deep_check("after softhsm2-util %s" % kind[5:])


if __name__ == "__main__":
    sys.exit(main(C14))
