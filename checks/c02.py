#!/usr/bin/env python3
"""C02 - sensitive or unextractable key material never leaves the token in the clear (DESIGN.md section 2, C02)."""
import os
import sys

sys.path.insert(0, os.path.dirname(os.path.abspath(__file__)))
from keybase import KeyCheck  # noqa: E402
from vlib.runner import main  # noqa: E402


class C02(KeyCheck):
    pid = "C02"
    level = "exploration"
    judge = {"C02"}
    weights = {"gen": 4, "genpair": 1, "create": 8, "unwrap": 3, "derive": 5, "copy": 5, "set": 7, "destroy": 1, "so": 2, "read": 12, "wrap": 8}
    rule = ("Histories over keys with KNOWN material (imported AES/DES3/generic/RSA/DSA/DH/EC/EdDSA private keys, unwrapped blobs, "
            "generated keys read once while readable, concatenation-derived keys, copies) x CKA_SENSITIVE / CKA_EXTRACTABLE in "
            "{T,F}^2 x later one-way flips by C_SetAttributeValue / C_CopyObject; probes: C_GetAttributeValue with secret "
            "attributes (VALUE, PRIVATE_EXPONENT, PRIME_1/2, EXPONENT_1/2, COEFFICIENT) alone or mixed with harmless ones in "
            "generated order with NULL / short / exact / oversized buffers; C_WrapKey under trusted and untrusted keys; attempts "
            "to clear SENSITIVE / set EXTRACTABLE / clear WRAP_WITH_TRUSTED; concatenation derives asking for an unprotected "
            "result. Oracle: CKR_ATTRIBUTE_SENSITIVE, length CK_UNAVAILABLE_INFORMATION, untouched canary buffers; flags never "
            "move back; unextractable never wraps; WRAP_WITH_TRUSTED only under CKA_TRUSTED; derived keys inherit; plus a leak "
            "scan: no 8-byte window of any protected value occurs in any byte string the library returned in the whole "
            "history. Non-trivial = a read/wrap/flip attempt against a protected key that is not a key-pair-generated key.")
    assumptions = ["values are high-entropy by construction, so an 8-byte window match is not chance"]
    essential_labels = {"protected_secret_reads": 1200, "wrap_unextractable_attempts": 400, "protection_flip_attempts": 80,
                        "derive_inherits_protection": 150, "wrap_with_untrusted_attempts": 30, "secret_values_scanned": 1000}


if __name__ == "__main__":
    sys.exit(main(C02))
