#!/usr/bin/env python3
"""C02 - sensitive or unextractable key material never leaves the token in the clear (DESIGN.md section 2, C02)."""
import os
import sys

sys.path.insert(0, os.path.dirname(os.path.abspath(__file__)))
from keybase import KeyCheck  # noqa: E402
from vlib.runner import Violation, main  # noqa: E402


class C02(KeyCheck):
    pid = "C02"
    level = "exploration"
    judge = {"C02"}
    weights = {"gen": 4, "genpair": 1, "create": 8, "unwrap": 3, "derive": 5, "copy": 5, "set": 7, "destroy": 1, "so": 2, "read": 12, "wrap": 8}
    rule = ("Histories over keys with KNOWN material (imported AES/DES3/generic/RSA/DSA/DH/EC/EdDSA private keys, unwrapped blobs, "
            "generated keys read once while readable, concatenation-derived keys, copies) x CKA_SENSITIVE / CKA_EXTRACTABLE in "
            "{T,F}^2 x later one-way flips by C_SetAttributeValue / C_CopyObject; probes: C_GetAttributeValue with secret "
            "attributes (VALUE, PRIVATE_EXPONENT, PRIME_1/2, EXPONENT_1/2, COEFFICIENT) alone or mixed with harmless ones in "
            "generated order with NULL / short / exact / oversized buffers; C_WrapKey under trusted and untrusted keys; attempts "
            "to clear SENSITIVE / set EXTRACTABLE / clear WRAP_WITH_TRUSTED; concatenation derives asking for an unprotected "
            "result. Oracle: CKR_ATTRIBUTE_SENSITIVE, length CK_UNAVAILABLE_INFORMATION, untouched canary buffers; flags never "
            "move back; unextractable never wraps; WRAP_WITH_TRUSTED only under CKA_TRUSTED; derived keys inherit; plus a leak "
            "scan: no 8-byte window of any protected value occurs in any byte string the library returned in the whole "
            "history. Non-trivial = a read/wrap/flip attempt against a protected key that is not a key-pair-generated key.")
    assumptions = ["values are high-entropy by construction, so an 8-byte window match is not chance"]
    essential_labels = {"protected_secret_reads": 1200, "wrap_unextractable_attempts": 400, "protection_flip_attempts": 80,
                        "derive_inherits_protection": 150, "wrap_with_untrusted_attempts": 30, "secret_values_scanned": 1000}

    # -- explicit scenario: the trust matrix of C_WrapKey (payload: WRAP_WITH_TRUSTED x TRUSTED x SENSITIVE; wrapping key: TRUSTED) ---------
    def scenarios(self):
        W = [["CKA_WRAP", True]]
        out = []
        for made in ("gen", "create"):
            def mk(kind, sens, extra):
                return [made, kind, sens, True, False, extra, None] if made == "gen" else [made, kind, 1, sens, True, False, extra, None]
            prog = [["so", True],
                    mk("aes", False, W + [["CKA_TRUSTED", True]]),                                   # 0 trusted wrapping key (made by the SO)
                    mk("aes", False, W),                                                             # 1 ordinary wrapping key
                    mk("aes", False, [["CKA_WRAP_WITH_TRUSTED", True], ["CKA_TRUSTED", True]]),      # 2 payload: WWT and itself trusted
                    mk("generic", False, [["CKA_WRAP_WITH_TRUSTED", True]]),                         # 3 payload: WWT
                    mk("des3", True, [["CKA_WRAP_WITH_TRUSTED", True], ["CKA_TRUSTED", True]]),      # 4 payload: WWT, trusted, sensitive
                    mk("generic", False, [["CKA_TRUSTED", True]]),                                   # 5 payload: trusted only
                    ["so", False]]
            for payload in (2, 3, 4, 5):
                for wi in (0, 1):
                    for want in (False, True):
                        prog.append(["wrap", payload, wi, want])
            out.append(prog)
            # the same after copies and flips of the payloads
            out.append(prog[:8] + [["copy", 2, None, None, [], None, None], ["copy", 4, None, None, [], None, None], ["set", 3, [["CKA_WRAP_WITH_TRUSTED", False]], None, None]] +
                       [["wrap", p_, wi, want] for p_ in (2, 3, 4, 6, 7) for wi in (0, 1) for want in (False, True)])
            # copies whose template tries to drop a protection (WRAP_WITH_TRUSTED false, EXTRACTABLE true, SENSITIVE false), then wraps of those copies
            drops = [[["CKA_WRAP_WITH_TRUSTED", False]], [["CKA_WRAP_WITH_TRUSTED", False], ["CKA_DERIVE", True]]]
            out.append(prog[:8] + [["copy", p_, None, None, d_, None, None] for p_ in (2, 3, 4) for d_ in drops] + [["copy", 4, False, True, [], None, None]] +
                       [["wrap", p_, wi, want] for p_ in range(6, 13) for wi in (0, 1) for want in (False,)])
            # concatenation derives from protected bases with every data length / requested length shape
            out.append(prog[:8] + [["set", 3, [["CKA_EXTRACTABLE", False]], None, None]] +
                       [["derive", mech_, base_, oi_, False, True, [], None] for mech_ in ("CKM_CONCATENATE_BASE_AND_DATA", "CKM_CONCATENATE_DATA_AND_BASE")
                        for base_ in (3, 4) for oi_ in range(12)])
        return out

    def extra(self, ctx, tier, shard, nshards):
        for i, prog in enumerate(self.scenarios()):
            if i % nshards != shard:
                continue
            try:
                self.run_program(ctx, prog)
                ctx.label("scenarios_run")
            except Violation as v:
                v.program = prog
                return v
        return None


if __name__ == "__main__":
    sys.exit(main(C02))
