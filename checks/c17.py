#!/usr/bin/env python3
"""C17 - no input makes the library crash, corrupt memory or kill the host process (DESIGN.md section 2, C17).

Three generated input families, all executed in the sanitizer-instrumented executor (ASan+UBSan, exit/abort wrapped):
  api   - sequences of <= 40 well-typed calls over ALL 68 entry points with arbitrary argument values
  store - structure-aware and byte-level mutations of the files of a populated token directory (file and SQLite), then a
          fixed exercise that touches everything (initialize, list, login, read every attribute, use every key, write)
  conf  - arbitrary softhsm2.conf contents
Oracle: every call returns a value that is a PKCS#11 return code; the process is alive afterwards; canaries around every
output buffer are intact; a fixed health epilogue succeeds in the same process.  The libFuzzer targets (native/fuzz_*.cpp,
tools/fuzz.py) run the same decoders coverage-guided; their saved artifacts are replayed here.
"""
import json
import os
import re
import shutil
import subprocess
import sys
import tempfile

sys.path.insert(0, os.path.join(os.path.dirname(os.path.abspath(__file__)), "..", "py"))
from hypothesis import strategies as st  # noqa: E402

from vlib import consts as K  # noqa: E402
from vlib.env import Stage, Template, hx  # noqa: E402
from vlib.objects import T, KIND, ALL_ATTRS, CLASSES, base_template, class_kind, keypool, usage_all  # noqa: E402
from vlib.runner import Check, Violation, main, VERIF  # noqa: E402
from vlib.worker import WorkerDied  # noqa: E402

RW = K.CKF_SERIAL_SESSION | K.CKF_RW_SESSION
FIX = os.path.join(VERIF, "fixtures", "tokens")

# entry point -> argument kinds (keys are the executor's JSON fields)
INITS = ["C_EncryptInit", "C_DecryptInit", "C_SignInit", "C_VerifyInit", "C_SignRecoverInit", "C_VerifyRecoverInit"]
IO = ["C_Encrypt", "C_EncryptUpdate", "C_Decrypt", "C_DecryptUpdate", "C_Digest", "C_Sign", "C_SignRecover", "C_VerifyRecover",
      "C_DigestEncryptUpdate", "C_DecryptDigestUpdate", "C_SignEncryptUpdate", "C_DecryptVerifyUpdate"]
FIN = ["C_EncryptFinal", "C_DecryptFinal", "C_DigestFinal", "C_SignFinal"]
UPD = ["C_DigestUpdate", "C_SignUpdate", "C_VerifyUpdate", "C_VerifyFinal", "C_SeedRandom"]
FUNCS = {
    "C_Initialize": {"flags": "initflags", "null_args": "flag"}, "C_Finalize": {}, "C_GetInfo": {}, "C_GetFunctionList": {},
    "C_GetSlotList": {"present": "flag", "count": "optsmall"}, "C_GetSlotInfo": {"slot": "slot"}, "C_GetTokenInfo": {"slot": "slot"},
    "C_WaitForSlotEvent": {"flags": "small"}, "C_GetMechanismList": {"slot": "slot", "count": "optsmall"},
    "C_GetMechanismInfo": {"slot": "slot", "m": "mechtype"},
    "C_InitToken": {"slot": "slot", "pin": "pin", "label": "label32"}, "C_InitPIN": {"s": "s", "pin": "pin"},
    "C_SetPIN": {"s": "s", "old": "pin", "new": "pin"},
    "C_OpenSession": {"slot": "slot", "flags": "sessflags"}, "C_CloseSession": {"s": "s"}, "C_CloseAllSessions": {"slot": "slot"},
    "C_GetSessionInfo": {"s": "s"}, "C_GetOperationState": {"s": "s", "out": "out"},
    "C_SetOperationState": {"s": "s", "data": "bytes", "ekey": "o", "akey": "o"},
    "C_Login": {"s": "s", "user": "user", "pin": "pin"}, "C_Logout": {"s": "s"},
    "C_CreateObject": {"s": "s", "tpl": "tpl"}, "C_CopyObject": {"s": "s", "o": "o", "tpl": "tpl"},
    "C_DestroyObject": {"s": "s", "o": "o"}, "C_GetObjectSize": {"s": "s", "o": "o"},
    "C_GetAttributeValue": {"s": "s", "o": "o", "attrs": "gattrs"}, "C_SetAttributeValue": {"s": "s", "o": "o", "tpl": "tpl"},
    "C_FindObjectsInit": {"s": "s", "tpl": "tpl"}, "C_FindObjects": {"s": "s", "max": "small"}, "C_FindObjectsFinal": {"s": "s"},
    "C_DigestInit": {"s": "s", "mech": "mech"}, "C_DigestKey": {"s": "s", "key": "o"},
    "C_Verify": {"s": "s", "data": "bytes", "sig": "bytes"}, "C_GenerateRandom": {"s": "s", "out": "outbuf"},
    "C_GenerateKey": {"s": "s", "mech": "mech", "tpl": "tpl"},
    "C_GenerateKeyPair": {"s": "s", "mech": "mech", "pub": "tpl", "prv": "tpl"},
    "C_WrapKey": {"s": "s", "mech": "mech", "wkey": "o", "key": "o", "out": "out"},
    "C_UnwrapKey": {"s": "s", "mech": "mech", "key": "o", "data": "bytes", "tpl": "tpl"},
    "C_DeriveKey": {"s": "s", "mech": "mech", "key": "o", "tpl": "tpl"},
    "C_GetFunctionStatus": {"s": "s"}, "C_CancelFunction": {"s": "s"},
}
for _f in INITS:
    FUNCS[_f] = {"s": "s", "mech": "mech", "key": "o"}
for _f in IO:
    FUNCS[_f] = {"s": "s", "data": "bytes", "out": "out"}
for _f in FIN:
    FUNCS[_f] = {"s": "s", "out": "out"}
for _f in UPD:
    FUNCS[_f] = {"s": "s", "data": "bytes"}
assert len(FUNCS) == 68, len(FUNCS)

CKA = sorted(set(v for n, v in K.C.items() if n.startswith("CKA_")))
CKM = sorted(set(v for n, v in K.C.items() if n.startswith("CKM_")))
CKO = sorted(set(v for n, v in K.C.items() if n.startswith("CKO_")))
CKK = sorted(set(v for n, v in K.C.items() if n.startswith("CKK_")))
CKR = set(v for n, v in K.C.items() if n.startswith("CKR_"))
# "huge" stays either small enough to be cheap or so large that no allocation can succeed (nothing in between: a real
# multi-gigabyte allocation would only measure the sandbox's memory)
ULONGS = [0, 1, 2, 3, 7, 8, 9, 15, 16, 17, 20, 24, 28, 31, 32, 33, 48, 56, 64, 65, 96, 112, 127, 128, 129, 160, 192, 224, 255, 256, 257, 384, 511, 512, 521,
          768, 1023, 1024, 1025, 2048, 65537, 1 << 20, 1 << 48, (1 << 63) - 1, 1 << 63, (1 << 64) - 9, (1 << 64) - 8, (1 << 64) - 2, (1 << 64) - 1]
SLOW_BITS = [K.C["CKA_MODULUS_BITS"], K.C["CKA_PRIME_BITS"], K.C["CKA_SUB_PRIME_BITS"], K.C["CKA_VALUE_BITS"]]
LENS = [0, 1, 2, 3, 7, 8, 9, 15, 16, 17, 23, 24, 25, 31, 32, 33, 47, 48, 63, 64, 65, 100, 127, 128, 129, 255, 256, 257, 512, 1024, 4100]
ARG_CODES = ("CKR_ARGUMENTS_BAD", "CKR_SESSION_HANDLE_INVALID", "CKR_CRYPTOKI_NOT_INITIALIZED", "CKR_OBJECT_HANDLE_INVALID", "CKR_SLOT_ID_INVALID",
             "CKR_KEY_HANDLE_INVALID", "CKR_FUNCTION_NOT_SUPPORTED", "CKR_OPERATION_NOT_INITIALIZED")


def _special_bytes():
    kp = keypool()
    out = []
    for kind in ("rsa", "dsa", "dh", "ec", "ed", "x"):
        for e in kp.get(kind, [])[:2]:
            for k, v in e.items():
                if isinstance(v, str) and len(v) % 2 == 0 and len(v) <= 1100:
                    try:
                        bytes.fromhex(v)
                        out.append(v)
                    except ValueError:
                        pass
    return sorted(set(out))


SPECIAL = _special_bytes()


def bytes_st():
    plain = st.sampled_from(LENS).flatmap(lambda n: st.binary(min_size=n, max_size=n)).map(lambda b: b.hex())
    pattern = st.tuples(st.sampled_from(LENS), st.sampled_from([0x00, 0xFF, 0x30, 0x04, 0x80])).map(lambda x: (bytes([x[1]]) * x[0]).hex())
    special = st.sampled_from(SPECIAL) if SPECIAL else plain
    mutated = st.tuples(special, st.integers(0, 4000), st.integers(0, 255), st.sampled_from(["flip", "cut", "ext"])).map(_mut_hex)
    return st.one_of(plain, plain, pattern, special, mutated, st.just(None))


def _mut_hex(x):
    h, off, v, how = x
    b = bytearray(bytes.fromhex(h))
    if not b:
        return h
    if how == "flip":
        b[off % len(b)] = v
    elif how == "cut":
        b = b[:off % len(b)]
    else:
        b += bytes([v]) * (off % 40)
    return bytes(b).hex()


def ulong_st():
    return st.one_of(st.sampled_from(ULONGS), st.sampled_from(CKO + CKK), st.sampled_from(CKM), st.integers(0, (1 << 64) - 1))


def entry_st(depth=0):
    """one wild template entry [type, kind, value]: the attribute type and the shape of the value vary independently"""
    t = st.one_of(st.sampled_from(ALL_ATTRS), st.sampled_from(ALL_ATTRS), st.sampled_from(CKA), st.sampled_from(ULONGS))
    kinds = ["natural", "natural", "natural", "bool", "ulong", "bytes", "mechs", "raw"] + (["tpl"] if depth < 2 else [])

    def mk(x):
        typ, kind = x
        if kind == "natural":
            kind = KIND.get(typ, "bytes")
            if kind == "tpl" and depth >= 2:
                kind = "bytes"
        if kind == "bool":
            return st.sampled_from([0, 1, 1, 2, 255]).map(lambda v: [typ, "bool", v])
        if kind == "ulong":
            if typ in SLOW_BITS:
                return st.sampled_from([0, 1, 8, 64, 255, 256, 511, 512, 513, 768, 1024, 1 << 48, 1 << 63, (1 << 64) - 1]).map(lambda v: [typ, "ulong", v])
            return ulong_st().map(lambda v: [typ, "ulong", v])
        if kind == "mechs":
            return st.lists(st.one_of(st.sampled_from(CKM), st.sampled_from(ULONGS)), max_size=6).map(lambda v: [typ, "mechs", v])
        if kind == "tpl":
            return st.lists(entry_st(depth + 1), max_size=4).map(lambda v: [typ, "tpl", v])
        if kind == "raw":
            return bytes_st().map(lambda v: [typ, "raw", ({"null": True, "len": 0} if v is None else {"hex": v})])
        return bytes_st().map(lambda v: [typ, "bytes", v or ""])
    return st.tuples(t, st.sampled_from(kinds)).flatmap(mk)


def valid_tpl(cls, variant, token, private):
    pairs = base_template(cls, variant) + [p for p in usage_all(class_kind(cls) if class_kind(cls) in ("public", "private", "secret") else "secret", token, private)
                                           if class_kind(cls) in ("public", "private", "secret") or p[0] in ("CKA_TOKEN", "CKA_PRIVATE")]
    return T(*pairs)


def tpl_st():
    wild = st.lists(entry_st(), max_size=8)
    base = st.tuples(st.sampled_from(CLASSES), st.integers(0, 3), st.booleans(), st.booleans()).map(lambda x: valid_tpl(*x))
    muts = st.lists(st.tuples(st.sampled_from(["drop", "replace", "add", "dup", "swap"]), st.integers(0, 40), entry_st()), max_size=3)

    def apply(x):
        tpl, ms = x
        tpl = [list(e) for e in tpl]
        for how, pos, e in ms:
            if how == "add" or not tpl:
                tpl.insert(pos % (len(tpl) + 1), e)
            elif how == "drop":
                tpl.pop(pos % len(tpl))
            elif how == "replace":
                # keep the type, take the wild value shape (or the other way round)
                i = pos % len(tpl)
                tpl[i] = [tpl[i][0], e[1], e[2]] if pos % 2 else e
            elif how == "dup":
                tpl.append(list(tpl[pos % len(tpl)]))
            else:
                i, j = pos % len(tpl), (pos // 7) % len(tpl)
                tpl[i], tpl[j] = tpl[j], tpl[i]
        return tpl
    return st.one_of(wild, st.tuples(base, muts).map(apply), st.tuples(base, muts).map(apply), st.just(None))


def mech_st():
    m = st.one_of(st.sampled_from(CKM), st.sampled_from(CKM), st.sampled_from(ULONGS))
    hashes = st.one_of(st.sampled_from([K.C[n] for n in ("CKM_SHA_1", "CKM_SHA224", "CKM_SHA256", "CKM_SHA384", "CKM_SHA512", "CKM_MD5")]), ulong_st())
    mgfs = st.one_of(st.sampled_from([1, 2, 3, 4, 5]), ulong_st())
    b = bytes_st()
    p = st.one_of(
        st.just(None),
        b.map(lambda v: {"raw": v} if v is not None else None),
        st.fixed_dictionaries({"iv": b, "aad": b, "tagBits": st.one_of(st.sampled_from([0, 1, 8, 32, 64, 96, 104, 112, 120, 127, 128, 129, 136, 256]), ulong_st()),
                               "ivBits": ulong_st()}).map(lambda g: {"gcm": {k: v for k, v in g.items() if v is not None}}),
        st.fixed_dictionaries({"bits": st.one_of(st.integers(0, 130), ulong_st()), "cb": st.binary(min_size=16, max_size=16).map(bytes.hex)}).map(lambda g: {"ctr": g}),
        st.fixed_dictionaries({"hash": hashes, "mgf": mgfs, "slen": ulong_st()}).map(lambda g: {"pss": g}),
        st.fixed_dictionaries({"hash": hashes, "mgf": mgfs, "source": st.sampled_from([0, 1, 2, 99]), "sourceData": b}).map(
            lambda g: {"oaep": {k: v for k, v in g.items() if v is not None}}),
        st.fixed_dictionaries({"kdf": st.sampled_from([1, 1, 1, 2, 5, 99]), "shared": b, "pub": b}).map(lambda g: {"ecdh": {k: v for k, v in g.items() if v is not None}}),
        b.map(lambda v: {"strdata": v}),
        st.fixed_dictionaries({"iv": st.binary(min_size=16, max_size=16).map(bytes.hex), "data": b, "ivlen": st.sampled_from([8, 16])}).map(
            lambda g: {"cbcenc": {k: v for k, v in g.items() if v is not None}}),
        ulong_st().map(lambda v: {"ulong": v}),
    )
    # a mechanism type matched to the parameter shape half of the time
    match = {"gcm": ["CKM_AES_GCM"], "ctr": ["CKM_AES_CTR"], "pss": ["CKM_RSA_PKCS_PSS", "CKM_SHA256_RSA_PKCS_PSS", "CKM_SHA1_RSA_PKCS_PSS"],
             "oaep": ["CKM_RSA_PKCS_OAEP"], "ecdh": ["CKM_ECDH1_DERIVE"], "strdata": ["CKM_AES_ECB_ENCRYPT_DATA", "CKM_DES3_ECB_ENCRYPT_DATA", "CKM_CONCATENATE_BASE_AND_DATA",
                                                                                          "CKM_CONCATENATE_DATA_AND_BASE"],
             "cbcenc": ["CKM_AES_CBC_ENCRYPT_DATA", "CKM_DES3_CBC_ENCRYPT_DATA"], "ulong": ["CKM_CONCATENATE_BASE_AND_KEY"],
             "raw": ["CKM_AES_CBC", "CKM_AES_CBC_PAD", "CKM_DES3_CBC", "CKM_DES3_CBC_PAD", "CKM_AES_KEY_WRAP", "CKM_DH_PKCS_DERIVE", "CKM_AES_CMAC", "CKM_DES_CBC",
                     "CKM_AES_ECB", "CKM_RSA_X_509", "CKM_RSA_PKCS", "CKM_ECDSA", "CKM_EDDSA", "CKM_SHA256_HMAC", "CKM_DSA_SHA1", "CKM_AES_KEY_WRAP_PAD"]}

    def mk(x):
        mt, pp, use_match, pick = x
        if use_match:
            kind = next(iter(pp)) if pp else "raw"
            cands = [K.C[n] for n in match.get(kind, []) if n in K.C]
            if cands:
                mt = cands[pick % len(cands)]
        return {"m": mt, "p": pp}
    return st.tuples(m, p, st.booleans(), st.integers(0, 50)).map(mk)


def out_st():
    # absent = NULL buffer (size query); N = exact buffer of N bytes inside canaries; [N, L] = N bytes, L <= N announced;
    # "$exact" / "$minus1" = what a caller normally does: ask for the size, then call with a buffer of exactly that size (or one less)
    return st.one_of(st.just(None), st.sampled_from(LENS), st.sampled_from(LENS), st.just("$exact"), st.just("$exact"), st.just("$exact"), st.just("$minus1"),
                     st.tuples(st.sampled_from(LENS), st.integers(0, 4100)).map(lambda x: [x[0], min(x)]))


def arg_st(kind):
    if kind == "s":
        return st.one_of(st.integers(0, 7).map(lambda i: {"$s": i}), st.integers(0, 7).map(lambda i: {"$s": i}), st.sampled_from(ULONGS), st.integers(0, 40))
    if kind == "o":
        return st.one_of(st.integers(0, 40).map(lambda i: {"$o": i}), st.integers(0, 40).map(lambda i: {"$o": i}), st.sampled_from(ULONGS), st.integers(0, 60))
    if kind == "slot":
        return st.one_of(st.integers(0, 3).map(lambda i: {"$slot": i}), st.integers(0, 3).map(lambda i: {"$slot": i}), st.sampled_from(ULONGS))
    if kind == "tpl":
        return tpl_st()
    if kind == "mech":
        return mech_st()
    if kind == "bytes":
        return bytes_st()
    if kind == "pin":
        return st.one_of(st.sampled_from(["$user", "$so", "$user", "$so"]), bytes_st())
    if kind == "label32":
        return st.binary(min_size=32, max_size=32).map(bytes.hex)
    if kind == "out":
        return out_st()
    if kind == "outbuf":
        return st.sampled_from([0, 1, 16, 64, 1024, 4100])
    if kind == "flag":
        return st.booleans()
    if kind == "small":
        return st.sampled_from([0, 1, 2, 3, 10, 100])
    if kind == "optsmall":
        return st.one_of(st.just(None), st.sampled_from([0, 1, 2, 5, 100]))
    if kind == "user":
        return st.sampled_from([0, 1, 1, 1, 2, 3, 1 << 32, (1 << 64) - 1])
    if kind == "mechtype":
        return st.one_of(st.sampled_from(CKM), st.sampled_from(ULONGS))
    if kind == "initflags":
        return st.sampled_from([0, 1, 2, 3, 2, 2, 0xFFFFFFFF])
    if kind == "sessflags":
        return st.sampled_from([0, 2, 4, 6, 6, 6, 4, 7, 0xFFFFFFFF, 1 << 63])
    if kind == "gattrs":
        buf = st.one_of(st.just(None), st.sampled_from([0, 1, 7, 8, 16, 256, 4100]))
        ent = st.one_of(st.tuples(st.one_of(st.sampled_from(ALL_ATTRS), st.sampled_from(CKA), st.sampled_from(ULONGS)), buf).map(list),
                        st.tuples(st.sampled_from([K.C["CKA_WRAP_TEMPLATE"], K.C["CKA_UNWRAP_TEMPLATE"], K.C["CKA_ALLOWED_MECHANISMS"], K.C["CKA_VALUE"]]),
                                  st.lists(st.tuples(st.sampled_from(ALL_ATTRS), buf).map(list), max_size=4).map(lambda l: {"tpl": l})).map(list))
        return st.lists(ent, max_size=8)
    raise KeyError(kind)


def call_st():
    names = sorted(FUNCS)
    # every entry point equally often, plus extra weight on the ones with deep argument structure
    heavy = ["C_CreateObject", "C_GenerateKey", "C_GenerateKeyPair", "C_UnwrapKey", "C_DeriveKey", "C_WrapKey", "C_SetAttributeValue", "C_GetAttributeValue",
             "C_CopyObject", "C_FindObjectsInit"] + INITS + ["C_Encrypt", "C_Decrypt", "C_Sign", "C_Verify", "C_Digest", "C_EncryptUpdate", "C_DecryptUpdate",
                                                             "C_EncryptFinal", "C_DecryptFinal", "C_SignFinal", "C_OpenSession", "C_Login", "C_DigestInit"]

    def mk(fn):
        spec = FUNCS[fn]
        return st.fixed_dictionaries({k: arg_st(v) for k, v in spec.items()}).map(lambda a: dict(a, fn=fn))
    return st.sampled_from(names + heavy + heavy).flatmap(mk)



# -- plausible (structure-aware) macro calls: the arguments fit together, so the call gets past validation ----------------
ROLES = ["aes", "generic", "des3", "rsa_priv", "rsa_pub", "ec_priv", "ec_pub", "ed_priv", "ed_pub", "dsa_priv", "dsa_pub", "dh_priv", "dh_pub", "des", "data"]
HASHES = ["CKM_SHA_1", "CKM_SHA224", "CKM_SHA256", "CKM_SHA384", "CKM_SHA512"]
MGF = {"CKM_SHA_1": 1, "CKM_SHA224": 5, "CKM_SHA256": 2, "CKM_SHA384": 3, "CKM_SHA512": 4}
# (mechanism, parameter family, natural key roles [forward op, backward op])
CIPHERS = [("CKM_AES_ECB", None, "aes"), ("CKM_AES_CBC", "iv16", "aes"), ("CKM_AES_CBC_PAD", "iv16", "aes"), ("CKM_AES_CTR", "ctr", "aes"), ("CKM_AES_GCM", "gcm", "aes"),
           ("CKM_DES3_ECB", None, "des3"), ("CKM_DES3_CBC", "iv8", "des3"), ("CKM_DES3_CBC_PAD", "iv8", "des3"), ("CKM_DES_ECB", None, "des"), ("CKM_DES_CBC", "iv8", "des"),
           ("CKM_DES_CBC_PAD", "iv8", "des"), ("CKM_RSA_PKCS", None, "rsa"), ("CKM_RSA_X_509", None, "rsa"), ("CKM_RSA_PKCS_OAEP", "oaep", "rsa")]
SIGNERS = [("CKM_%s_HMAC" % h[4:], None, "generic") for h in HASHES] + [("CKM_MD5_HMAC", None, "generic"), ("CKM_AES_CMAC", None, "aes"), ("CKM_DES3_CMAC", None, "des3"),
          ("CKM_RSA_PKCS", None, "rsa"), ("CKM_RSA_X_509", None, "rsa"), ("CKM_RSA_PKCS_PSS", "pss", "rsa"), ("CKM_SHA1_RSA_PKCS", None, "rsa"),
          ("CKM_SHA256_RSA_PKCS", None, "rsa"), ("CKM_SHA512_RSA_PKCS", None, "rsa"), ("CKM_SHA1_RSA_PKCS_PSS", "pss", "rsa"), ("CKM_SHA256_RSA_PKCS_PSS", "pss", "rsa"),
          ("CKM_SHA384_RSA_PKCS_PSS", "pss", "rsa"), ("CKM_ECDSA", None, "ec"), ("CKM_EDDSA", None, "ed"), ("CKM_DSA", None, "dsa"), ("CKM_DSA_SHA1", None, "dsa"),
          ("CKM_DSA_SHA256", None, "dsa")]
SIGNERS = [x for x in SIGNERS if x[0].replace("SHA_1_HMAC", "SHA_1_HMAC") in K.C]
DIGESTS = [("CKM_MD5", None, None)] + [(h, None, None) for h in HASHES]
WRAPPERS = [("CKM_AES_KEY_WRAP", None, "aes"), ("CKM_AES_KEY_WRAP_PAD", None, "aes"), ("CKM_RSA_PKCS", None, "rsa"), ("CKM_RSA_PKCS_OAEP", "oaep", "rsa"),
            ("CKM_AES_CBC", "iv16", "aes"), ("CKM_AES_CBC_PAD", "iv16", "aes"), ("CKM_DES3_CBC", "iv8", "des3"), ("CKM_DES3_CBC_PAD", "iv8", "des3")]
DERIVERS = [("CKM_DH_PKCS_DERIVE", "dhpub", "dh_priv"), ("CKM_ECDH1_DERIVE", "ecdh", "ec_priv"), ("CKM_ECDH1_DERIVE", "ecdh", "ed_priv"),
            ("CKM_AES_ECB_ENCRYPT_DATA", "strdata", "aes"), ("CKM_AES_CBC_ENCRYPT_DATA", "cbcenc16", "aes"), ("CKM_DES3_ECB_ENCRYPT_DATA", "strdata", "des3"),
            ("CKM_DES3_CBC_ENCRYPT_DATA", "cbcenc8", "des3"), ("CKM_DES_ECB_ENCRYPT_DATA", "strdata", "des"), ("CKM_CONCATENATE_BASE_AND_KEY", "okey", "generic"),
            ("CKM_CONCATENATE_BASE_AND_DATA", "strdata", "generic"), ("CKM_CONCATENATE_DATA_AND_BASE", "strdata", "aes")]
GENERATORS = [("CKM_AES_KEY_GEN", "aes"), ("CKM_DES3_KEY_GEN", "des3"), ("CKM_DES2_KEY_GEN", "des2"), ("CKM_DES_KEY_GEN", "des"), ("CKM_GENERIC_SECRET_KEY_GEN", "generic"),
              ("CKM_DSA_PARAMETER_GEN", "dsa_params"), ("CKM_DH_PKCS_PARAMETER_GEN", "dh_params")]
PAIRGENS = [("CKM_RSA_PKCS_KEY_PAIR_GEN", "rsa"), ("CKM_EC_KEY_PAIR_GEN", "ec"), ("CKM_EC_EDWARDS_KEY_PAIR_GEN", "ed"), ("CKM_DSA_KEY_PAIR_GEN", "dsa"),
            ("CKM_DH_PKCS_KEY_PAIR_GEN", "dh")]


def fixed_bytes(n):
    return st.one_of(st.binary(min_size=n, max_size=n).map(bytes.hex), st.binary(min_size=n, max_size=n).map(bytes.hex), bytes_st().map(lambda v: v or ""))


def param_st(family):
    b = bytes_st()
    if family is None:
        return st.one_of(st.just(None), st.just(None), st.just(None), b.map(lambda v: {"raw": v or ""}))
    if family == "iv16":
        return fixed_bytes(16).map(lambda v: {"raw": v})
    if family == "iv8":
        return fixed_bytes(8).map(lambda v: {"raw": v})
    if family == "ctr":
        return st.tuples(st.one_of(st.integers(1, 128), st.sampled_from([0, 129, 1 << 63])), st.binary(min_size=16, max_size=16), st.booleans()).map(
            lambda x: {"ctr": {"bits": x[0], "cb": (b"\xff" * 16 if x[2] else x[1]).hex()}})
    if family == "gcm":
        return st.tuples(st.sampled_from([0, 1, 8, 12, 12, 12, 16, 64, 256]), b, st.sampled_from([0, 8, 32, 64, 96, 104, 112, 120, 128, 128, 128, 129, 136, 1 << 32]),
                         st.binary(min_size=256, max_size=256)).map(lambda x: {"gcm": {"iv": x[3][:x[0]].hex(), "aad": x[1] or "", "tagBits": x[2]}})
    if family == "pss":
        return st.tuples(st.sampled_from(HASHES), st.booleans(), st.one_of(st.sampled_from([0, 1, 20, 28, 32, 48, 64, 94, 95, 222, 223, 1 << 32, (1 << 64) - 1]))).map(
            lambda x: {"pss": {"hash": K.C[x[0]], "mgf": MGF[x[0]] if x[1] else 1, "slen": x[2]}})
    if family == "oaep":
        return st.tuples(st.sampled_from(HASHES + ["CKM_SHA_1"] * 4), st.booleans(), b).map(
            lambda x: {"oaep": dict({"hash": K.C[x[0]], "mgf": MGF[x[0]], "source": 1}, **({"sourceData": x[2]} if (x[1] and x[2]) else {}))})
    if family == "dhpub":
        kp = keypool()["dh"]
        return st.one_of(st.sampled_from([e["y"] for e in kp]), b.map(lambda v: v or ""), st.sampled_from(["00", "01", "00" * 128, "ff" * 128])).map(lambda v: {"raw": v})
    if family == "ecdh":
        kp = keypool()
        pts = [e["point"] for e in kp["ec"] + kp["x"] + kp["ed"]] + [e["point"][4:] for e in kp["ec"]] + [e["point"][4:] for e in kp["x"]]
        return st.tuples(st.one_of(st.sampled_from(pts), st.sampled_from(pts), b.map(lambda v: v or "")), st.sampled_from([1, 1, 1, 2]), b).map(
            lambda x: {"ecdh": dict({"kdf": x[1], "pub": x[0]}, **({"shared": x[2]} if (x[1] != 1 and x[2]) else {}))})
    if family == "strdata":
        return b.map(lambda v: {"strdata": v} if v is not None else {"strdata": None})
    if family in ("cbcenc16", "cbcenc8"):
        n = 16 if family.endswith("16") else 8
        return st.tuples(st.binary(min_size=16, max_size=16), b).map(lambda x: {"cbcenc": dict({"iv": x[0].hex(), "ivlen": n}, **({"data": x[1]} if x[1] is not None else {}))})
    if family == "okey":
        return st.integers(0, 14).map(lambda i: {"$okey": i})
    raise KeyError(family)


def keyrole_st(natural, forward):
    """the role of the key handed in: the natural one mostly, any other one sometimes"""
    if natural in ("rsa", "ec", "ed", "dsa", "dh"):
        nat = natural + ("_pub" if forward else "_priv")
    else:
        nat = natural
    return st.one_of(st.just(nat), st.just(nat), st.just(nat), st.just(nat), st.sampled_from(ROLES))


def secret_tpl_st():
    kt = st.sampled_from(["CKK_AES", "CKK_GENERIC_SECRET", "CKK_DES3", "CKK_DES2", "CKK_DES", "CKK_AES", "CKK_GENERIC_SECRET"])
    vl = st.one_of(st.just(None), st.sampled_from([0, 1, 8, 16, 16, 16, 24, 32, 33, 64, 128, 129, 1024, 1 << 48, 1 << 63, (1 << 64) - 1]))

    def mk(x):
        k, n, tok, extra = x
        t = T(("CKA_CLASS", "CKO_SECRET_KEY"), ("CKA_KEY_TYPE", k), ("CKA_TOKEN", tok), ("CKA_PRIVATE", False), ("CKA_SENSITIVE", False), ("CKA_EXTRACTABLE", True),
              ("CKA_ENCRYPT", True), ("CKA_DECRYPT", True), ("CKA_SIGN", True), ("CKA_VERIFY", True), ("CKA_WRAP", True), ("CKA_UNWRAP", True), ("CKA_DERIVE", True))
        if n is not None:
            t.append([K.C["CKA_VALUE_LEN"], "ulong", n])
        return t + extra
    return st.tuples(kt, vl, st.booleans(), st.lists(entry_st(), max_size=2)).map(mk)


def plaus_st():
    step = lambda how: st.tuples(how, bytes_st(), out_st(), bytes_st()).map(list)          # noqa: E731
    anystep = step(st.sampled_from(["single", "single", "update", "update", "final", "final", "init_again"]))
    # free sequences, plus the shapes callers actually produce (and mix up): update* final, update then single-part, single twice
    follow = st.one_of(st.lists(anystep, max_size=5),
                       st.tuples(step(st.just("update")), step(st.just("single"))).map(list),
                       st.tuples(step(st.just("update")), step(st.just("update")), step(st.just("final"))).map(list),
                       st.tuples(step(st.just("single")), step(st.just("single"))).map(list),
                       st.tuples(step(st.just("update")), step(st.just("final")), step(st.just("final"))).map(list))
    sref = st.one_of(st.just({"$s": 0}), st.just({"$s": 0}), st.integers(0, 7).map(lambda i: {"$s": i}))

    def op(kind, table, forward):
        return st.sampled_from(table).flatmap(lambda e: st.fixed_dictionaries({
            "fn": st.just("$op"), "kind": st.just(kind), "mech": st.just(e[0]), "p": param_st(e[1]), "role": keyrole_st(e[2], forward) if e[2] else st.just(None),
            "s": sref, "follow": follow}))
    wrap = st.sampled_from(WRAPPERS).flatmap(lambda e: st.fixed_dictionaries({
        "fn": st.just("$wrap"), "mech": st.just(e[0]), "p": param_st(e[1]), "role": keyrole_st(e[2], True), "target": st.sampled_from(ROLES), "out": out_st(),
        "unrole": keyrole_st(e[2], False), "blob": st.one_of(st.just("$last"), st.just("$last"), bytes_st()), "tpl": st.one_of(secret_tpl_st(), tpl_st()), "s": sref,
        "cut": st.sampled_from([None, None, None, 0, 1, 8, -1, -8])}))
    derive = st.sampled_from(DERIVERS).flatmap(lambda e: st.fixed_dictionaries({
        "fn": st.just("$derive"), "mech": st.just(e[0]), "p": param_st(e[1]), "role": st.one_of(st.just(e[2]), st.just(e[2]), st.just(e[2]), st.sampled_from(ROLES)),
        "tpl": st.one_of(secret_tpl_st(), secret_tpl_st(), tpl_st()), "s": sref}))
    gen = st.sampled_from(GENERATORS).flatmap(lambda e: st.fixed_dictionaries({
        "fn": st.just("$gen"), "mech": st.just(e[0]), "cls": st.just(e[1]), "p": param_st(None), "tpl": st.one_of(secret_tpl_st(), secret_tpl_st(), tpl_st()),
        "bits": st.sampled_from([0, 1, 64, 256, 511, 512, 512, 513, 768, 1024, 1 << 48, (1 << 64) - 1]), "s": sref}))
    pair = st.sampled_from(PAIRGENS).flatmap(lambda e: st.fixed_dictionaries({
        "fn": st.just("$pair"), "mech": st.just(e[0]), "alg": st.just(e[1]), "variant": st.integers(0, 3), "bits": st.sampled_from([0, 8, 256, 511, 512, 512, 513, 1024, 1024, 1 << 48]),
        "exp": st.sampled_from(["010001", "03", "", "00", "01", "02", "010001" * 20, "ff" * 8]),
        # None = valid parameters from the key pool; else wild bytes or EC-parameter shaped values (OID / PrintableString, valid, cut, over-long length)
        "wild": st.one_of(st.just(None), bytes_st(), st.sampled_from(["130c656477617264733235353139", "130a63757276653235353139", "13", "1300", "13ff", "1381", "130c6564", "13820100",
                                                                      "0603", "06032b65", "06ff2b6570", "0600", "06082a8648ce3d0301", "3000", "0500", "13847fffffff", "1305" + "00" * 5])),
        "extra_pub": st.lists(entry_st(), max_size=2), "extra_prv": st.lists(entry_st(), max_size=2), "s": sref}))
    # create a key from a valid template with generated mutations, then use it with the mechanisms natural for its class
    USE = {"rsa_pub": [("enc", "CKM_RSA_PKCS"), ("enc", "CKM_RSA_X_509"), ("enc", "CKM_RSA_PKCS_OAEP"), ("verify", "CKM_RSA_PKCS"), ("verify", "CKM_SHA256_RSA_PKCS"),
                       ("verify", "CKM_SHA256_RSA_PKCS_PSS"), ("verrec", "CKM_RSA_PKCS"), ("wrap", "CKM_RSA_PKCS")],
           "rsa_priv": [("dec", "CKM_RSA_PKCS"), ("dec", "CKM_RSA_X_509"), ("dec", "CKM_RSA_PKCS_OAEP"), ("sign", "CKM_RSA_PKCS"), ("sign", "CKM_SHA256_RSA_PKCS"),
                        ("sign", "CKM_SHA256_RSA_PKCS_PSS"), ("signrec", "CKM_RSA_PKCS"), ("unwrap", "CKM_RSA_PKCS"), ("wrapped", "CKM_AES_KEY_WRAP_PAD")],
           "dsa_pub": [("verify", "CKM_DSA"), ("verify", "CKM_DSA_SHA1")], "dsa_priv": [("sign", "CKM_DSA"), ("sign", "CKM_DSA_SHA1"), ("wrapped", "CKM_AES_KEY_WRAP_PAD")],
           "ec_pub": [("verify", "CKM_ECDSA")], "ec_priv": [("sign", "CKM_ECDSA"), ("derive", "CKM_ECDH1_DERIVE"), ("wrapped", "CKM_AES_KEY_WRAP_PAD")],
           "ed_pub": [("verify", "CKM_EDDSA")], "ed_priv": [("sign", "CKM_EDDSA"), ("derive", "CKM_ECDH1_DERIVE"), ("wrapped", "CKM_AES_KEY_WRAP_PAD")],
           "dh_priv": [("derive", "CKM_DH_PKCS_DERIVE"), ("wrapped", "CKM_AES_KEY_WRAP_PAD")], "dh_pub": [("verify", "CKM_DSA")],
           "aes": [("enc", "CKM_AES_ECB"), ("enc", "CKM_AES_CBC_PAD"), ("enc", "CKM_AES_GCM"), ("enc", "CKM_AES_CTR"), ("sign", "CKM_AES_CMAC"), ("wrap", "CKM_AES_KEY_WRAP"),
                   ("wrap", "CKM_AES_KEY_WRAP_PAD"), ("derive", "CKM_AES_ECB_ENCRYPT_DATA"), ("wrapped", "CKM_AES_KEY_WRAP_PAD")],
           "des3": [("enc", "CKM_DES3_ECB"), ("enc", "CKM_DES3_CBC_PAD"), ("sign", "CKM_DES3_CMAC"), ("derive", "CKM_DES3_ECB_ENCRYPT_DATA")],
           "generic": [("sign", "CKM_SHA256_HMAC"), ("sign", "CKM_SHA512_HMAC"), ("derive", "CKM_CONCATENATE_BASE_AND_DATA")]}
    compmut = st.tuples(st.sampled_from(["empty", "zero", "one", "cut", "ext", "flip", "wild", "drop"]), st.integers(0, 40), st.integers(0, 4000), bytes_st()).map(list)
    keyuse = st.sampled_from(sorted(USE)).flatmap(lambda cls: st.fixed_dictionaries({
        "fn": st.just("$keyuse"), "cls": st.just(cls), "variant": st.integers(0, 3), "token": st.booleans(), "private": st.booleans(),
        "muts": st.lists(compmut, min_size=0, max_size=2), "uses": st.lists(st.tuples(st.sampled_from(USE[cls]), bytes_st(), out_st(), bytes_st()).map(list), min_size=1, max_size=3),
        "s": sref}))
    # length arithmetic of symmetric multi-part/single-part mixtures with valid parameters and exactly-sized buffers
    lenmix = st.fixed_dictionaries({
        "fn": st.just("$lenmix"), "mech": st.sampled_from(["CKM_AES_ECB", "CKM_AES_CBC", "CKM_AES_CBC_PAD", "CKM_AES_CBC_PAD", "CKM_AES_CTR", "CKM_AES_GCM", "CKM_DES3_ECB",
                                                            "CKM_DES3_CBC", "CKM_DES3_CBC_PAD", "CKM_DES3_CBC_PAD"]),
        "dir": st.sampled_from(["enc", "enc", "dec"]), "s": sref,
        "steps": st.lists(st.tuples(st.sampled_from(["update", "update", "single", "final"]), st.one_of(st.integers(0, 40), st.sampled_from([48, 63, 64, 65, 256, 1000])),
                                    st.sampled_from(["$exact", "$exact", "$exact", "$minus1", 4100, None])).map(list), min_size=1, max_size=4)})
    return st.one_of(keyuse, keyuse, keyuse, lenmix, lenmix, op("enc", CIPHERS, True), op("dec", CIPHERS, False), op("sign", SIGNERS, False), op("verify", SIGNERS, True), op("digest", DIGESTS, True),
                     op("signrec", [x for x in SIGNERS if "RSA" in x[0]], False), op("verrec", [x for x in SIGNERS if "RSA" in x[0]], True),
                     wrap, wrap, derive, derive, gen, pair)


# -- store mutations ---------------------------------------------------------------------------------------------
def mut_st():
    u64 = st.sampled_from([0, 1, 2, 3, 4, 5, 6, 8, 16, 255, 256, 4096, 1 << 31, 1 << 32, 1 << 48, (1 << 63) - 1, 1 << 63, (1 << 64) - 1])
    return st.one_of(
        st.tuples(st.just("set8"), st.integers(0, 60), st.integers(0, 400), u64),      # file, 8-byte field index, value (big endian as the format)
        st.tuples(st.just("set8"), st.integers(0, 60), st.integers(0, 40), u64),
        st.tuples(st.just("flip"), st.integers(0, 60), st.integers(0, 1 << 16), st.integers(0, 255)),
        st.tuples(st.just("trunc"), st.integers(0, 60), st.integers(0, 1 << 16)),
        st.tuples(st.just("trunc8"), st.integers(0, 60), st.integers(0, 400)),
        st.tuples(st.just("append"), st.integers(0, 60), st.binary(max_size=64).map(bytes.hex)),
        st.tuples(st.just("del8"), st.integers(0, 60), st.integers(0, 400), st.integers(1, 4)),
        st.tuples(st.just("dup8"), st.integers(0, 60), st.integers(0, 400), st.integers(1, 8)),
        st.tuples(st.just("replace"), st.integers(0, 60), st.binary(max_size=200).map(bytes.hex)),
        st.tuples(st.just("copyfrom"), st.integers(0, 60), st.integers(0, 60)),
        st.tuples(st.just("remove"), st.integers(0, 60)),
        st.tuples(st.just("mkdir"), st.integers(0, 60)),
        # structure-aware (record walker below): attribute record k of an object file gets another stored kind / another
        # attribute type / another length or count field
        st.tuples(st.just("rec_kind"), st.integers(0, 60), st.integers(0, 60), st.sampled_from([0, 1, 2, 3, 4, 5, 6, 255])),
        st.tuples(st.just("rec_kind"), st.integers(0, 60), st.integers(0, 60), st.sampled_from([1, 2, 3, 4, 5])),
        st.tuples(st.just("rec_type"), st.integers(0, 60), st.integers(0, 60), st.sampled_from(ALL_ATTRS)),
        st.tuples(st.just("rec_len"), st.integers(0, 60), st.integers(0, 60), u64),
        st.tuples(st.just("rec_swap"), st.integers(0, 60), st.integers(0, 60), st.integers(0, 60)),
        # SQLite backend, structure-aware (through SQL): attribute rows get boundary integers, mutated blobs (attribute maps and mechanism sets
        # are serialised with native-endian length fields), another attribute type, NULL, or move to the table of another kind
        st.tuples(st.just("sql_blob"), st.sampled_from(["attribute_array", "attribute_array", "attribute_binary"]), st.integers(0, 80),
                  st.sampled_from(["set8", "set8", "set8", "trunc", "flip", "append", "empty"]), st.integers(0, 200), u64),
        st.tuples(st.just("sql_int"), st.sampled_from(["attribute_integer", "attribute_boolean"]), st.integers(0, 80), st.sampled_from([0, 1, 2, -1, 255, 1 << 31, (1 << 63) - 1, -(1 << 63)])),
        st.tuples(st.just("sql_type"), st.sampled_from(["attribute_array", "attribute_binary", "attribute_integer", "attribute_boolean"]), st.integers(0, 80), st.sampled_from(ALL_ATTRS)),
        st.tuples(st.just("sql_null"), st.sampled_from(["attribute_array", "attribute_binary", "attribute_integer", "attribute_boolean"]), st.integers(0, 80)),
        st.tuples(st.just("sql_move"), st.sampled_from(["attribute_array", "attribute_binary", "attribute_integer", "attribute_boolean"]),
                  st.sampled_from(["attribute_array", "attribute_binary", "attribute_integer", "attribute_boolean", "attribute_text", "attribute_real"]), st.integers(0, 80)),
        st.tuples(st.just("sql_delete"), st.sampled_from(["attribute_array", "attribute_binary", "attribute_integer", "attribute_boolean", "object"]), st.integers(0, 80)),
    ).map(list)


def walk_records(b):
    """object file -> [(offset of the type field, offset of the kind field, offset of the length/count field or None, end)]
    (format: u64 generation, then records u64 type, u64 kind, payload by kind: 1 = 1 byte, 2 = u64, 3/4 = u64 length + bytes,
    5 = u64 count + count u64; all big endian)"""
    out = []
    off = 8
    n = len(b)
    while off + 16 <= n:
        kind = int.from_bytes(b[off + 8:off + 16], "big")
        p = off + 16
        if kind == 1:
            end, lf = p + 1, None
        elif kind == 2:
            end, lf = p + 8, None
        elif kind in (3, 4):
            if p + 8 > n:
                break
            end, lf = p + 8 + int.from_bytes(b[p:p + 8], "big"), p
        elif kind == 5:
            if p + 8 > n:
                break
            end, lf = p + 8 + 8 * int.from_bytes(b[p:p + 8], "big"), p
        else:
            break
        if end > n:
            break
        out.append((off, off + 8, lf, end))
        off = end
    return out



# -- well-typedness: the only arguments the generators may not produce are those in which BYTES would be reinterpreted as
#    POINTERS (then the pointer would not reference valid memory, which the property's quantifier excludes) ------------------
TPL_TYPES = set(K.C[n] for n in ("CKA_WRAP_TEMPLATE", "CKA_UNWRAP_TEMPLATE", "CKA_DERIVE_TEMPLATE") if n in K.C)
PTR_MECH = {}      # mechanism -> (structured parameter kind, sizeof the struct)
for _n, _k, _z in (("CKM_AES_GCM", "gcm", 48), ("CKM_RSA_PKCS_OAEP", "oaep", 40), ("CKM_ECDH1_DERIVE", "ecdh", 40), ("CKM_ECDH1_COFACTOR_DERIVE", "ecdh", 40),
                   ("CKM_DES_ECB_ENCRYPT_DATA", "strdata", 16), ("CKM_DES3_ECB_ENCRYPT_DATA", "strdata", 16), ("CKM_AES_ECB_ENCRYPT_DATA", "strdata", 16),
                   ("CKM_CONCATENATE_BASE_AND_DATA", "strdata", 16), ("CKM_CONCATENATE_DATA_AND_BASE", "strdata", 16), ("CKM_XOR_BASE_AND_DATA", "strdata", 16),
                   ("CKM_AES_CBC_ENCRYPT_DATA", "cbcenc", 32), ("CKM_DES_CBC_ENCRYPT_DATA", "cbcenc", 24), ("CKM_DES3_CBC_ENCRYPT_DATA", "cbcenc", 24)):
    if _n in K.C:
        PTR_MECH[K.C[_n]] = (_k, _z)


def param_size(p):
    if not p:
        return 0
    k = next(iter(p))
    if k == "raw":
        v = p["raw"]
        return len(v) // 2 if isinstance(v, str) else (0 if v is None or v.get("null") else len(v.get("hex", "")) // 2)
    return {"gcm": 48, "ctr": 24, "pss": 24, "oaep": 40, "ecdh": 40, "strdata": 16, "ulong": 8}.get(k) or (24 if p[k].get("ivlen", 16) == 8 else 32)


def sane_mech(m):
    """a parameter whose size equals the pointer-bearing struct the mechanism expects must BE that struct"""
    if not isinstance(m, dict):
        return m
    need = PTR_MECH.get(m.get("m"))
    p = m.get("p")
    if need and p and next(iter(p)) != need[0] and param_size(p) == need[1]:
        return {"m": m["m"], "p": None}
    if need and p and need[0] == "cbcenc" and "cbcenc" in p:
        # the struct variant (8- or 16-byte IV) must be the one the mechanism names
        p = {"cbcenc": dict(p["cbcenc"], ivlen=8 if need[1] == 24 else 16)}
        return {"m": m["m"], "p": p}
    return m


def entry_size(e):
    k, v = e[1], e[2]
    if k == "bool":
        return 1
    if k == "ulong":
        return 8
    if k == "mechs":
        return 8 * len(v)
    if k == "bytes":
        return len(v or "") // 2
    if k == "raw":
        return 0 if (v is None or v.get("null")) else len(v.get("hex", "")) // 2
    return 24 * len(v)


def sane_tpl(tpl):
    """an attribute whose value is an array of CK_ATTRIBUTE (nested pointers) is given as a real nested template, or with a
    length that is not a positive multiple of sizeof(CK_ATTRIBUTE)"""
    if not isinstance(tpl, list):
        return tpl
    out = []
    for e in tpl:
        e = list(e)
        if e[1] == "tpl":
            e[2] = sane_tpl(e[2])
        elif e[0] in TPL_TYPES and entry_size(e) % 24 == 0 and entry_size(e) > 0:
            e = [e[0], "bytes", "00" * (entry_size(e) - 1)]
        out.append(e)
    return out


def sane_gattrs(attrs):
    out = []
    for a in attrs:
        if a[0] in TPL_TYPES and not (a[1] is None or isinstance(a[1], dict)):
            a = [a[0], None]
        out.append(a)
    return out


# -- coverage-guided leg: libFuzzer targets native/fuzz_store.cpp and native/fuzz_conf.cpp -----------------------------------
BUILD = os.environ.get("VERIF_BUILD", os.path.join(VERIF, ".build"))
FUZZ_SECONDS = {"quick": 40, "thorough": 900}


def fixture_plain():
    man = json.load(open(os.path.join(FIX, "manifest.json")))["tokens"]["file"]["plain"]
    for d in sorted(os.listdir(os.path.join(FIX, "file"))):
        if d.replace("-", "").endswith(man["serial"][-12:]) or man["serial"] in d.replace("-", ""):
            return os.path.join(FIX, "file", d), bytes.fromhex(man["user_pin"]).decode()
    raise RuntimeError("fixture token 'plain' not found")


def fuzz_env(statsdir=None):
    fx, pin = fixture_plain()
    env = dict(os.environ)
    env.update({"C17_FIXTURE_DIR": fx, "C17_USER_PIN": pin, "ASAN_OPTIONS": "detect_leaks=0:abort_on_error=0:symbolize=1:handle_abort=1",
                "UBSAN_OPTIONS": "print_stacktrace=1:halt_on_error=1"})
    if statsdir:
        env["C17_STATS_DIR"] = statsdir
    return env


def seed_corpus(target, dest):
    os.makedirs(dest, exist_ok=True)
    n = 0
    if target == "store":
        fx, _ = fixture_plain()
        objs = sorted(f for f in os.listdir(fx) if f.endswith(".object") and f != "token.object")
        for i, f in enumerate(objs):
            open(os.path.join(dest, "seed-obj%02d" % i), "wb").write(bytes([(i << 2) & 0xFC]) + open(os.path.join(fx, f), "rb").read())
            n += 1
        open(os.path.join(dest, "seed-token"), "wb").write(bytes([3]) + open(os.path.join(fx, "token.object"), "rb").read())
        n += 1
    elif target == "api":
        import hashlib
        # deterministic byte streams long enough to decode into 10-24 calls each (the decoder gives them meaning; they are not PRNG decisions of a property)
        for i in range(24):
            open(os.path.join(dest, "seed-api%02d" % i), "wb").write(b"".join(hashlib.sha256(b"c17-api-seed-%d-%d" % (i, j)).digest() for j in range(6 + i)))
            n += 1
    else:
        for i, text in enumerate(["directories.tokendir = $T\nobjectstore.backend = file\nlog.level = ERROR\nslots.removable = false\nslots.mechanisms = ALL\n",
                                  "directories.tokendir = $T\nobjectstore.backend = db\nobjectstore.umask = 0077\nlog.level = DEBUG\nslots.removable = true\n"
                                  "slots.mechanisms = -CKM_RSA_PKCS,CKM_AES_CBC\nlibrary.reset_on_fork = true\n", "# comment\n\ndirectories.tokendir=$T\n"]):
            open(os.path.join(dest, "seed-conf%d" % i), "w").write(text)
            n += 1
    extra = os.path.join(VERIF, "corpus", "C17", target)
    if os.path.isdir(extra):
        for f in sorted(os.listdir(extra)):
            shutil.copy(os.path.join(extra, f), os.path.join(dest, "c-" + f))
            n += 1
    return n


def crash_summary(text):
    m = re.search(r"SUMMARY: (.*)", text)
    frames = re.findall(r"#\d+ 0x[0-9a-f]+ in (\S+) /repo/src/lib/(\S+?):(\d+)", text)
    how = m.group(1)[:160] if m else ("fuzz target exited" if "fuzz target exited" in text else "deadly signal" if "deadly signal" in text else "died")
    return "%s | %s" % (how, " < ".join("%s@%s:%s" % f for f in frames[:3]))


def death_signature(d):
    """(how, innermost frames inside the library's sources) - the bucket a process death falls in"""
    import re
    frames = []
    for l in (d.stderr or "").splitlines():
        m = re.search(r"#\d+ 0x[0-9a-f]+ in (.+?) /repo/src/lib/(\S+?):(\d+)", l)
        if m:
            frames.append("%s@%s:%s" % (m.group(1).split("(")[0], m.group(2), m.group(3)))
    kind = ""
    m = re.search(r"SUMMARY: \w+Sanitizer: (\S+)", d.stderr or "")
    if m:
        kind = m.group(1)
    m2 = re.search(r"runtime error: (.{0,80})", d.stderr or "")
    if m2 and not kind:
        kind = "ubsan:" + m2.group(1)
    return "%s %s %s | %s" % (d.how, d.detail, kind, " < ".join(frames[:3]))


class C17(Check):
    pid = "C17"
    level = "exploration"
    variants = ["ossl-asan"]
    rule = ("api: sequences of <= 40 calls over all 68 entry points; every pointer references exactly the announced number of bytes (exact heap "
            "allocations inside canaries, so ASan sees any over-read/-write), nested pointers in templates and mechanism parameter structs likewise; handles "
            "live / stale / foreign / random; lengths, key types, mechanisms and parameter shapes freely mismatched; templates are wild or valid templates of "
            "20 classes with generated mutations. store: 1-4 mutations (8-byte field set to boundary values, truncation at field boundaries, flips, "
            "insert/delete/duplicate fields, whole-file replacement, files swapped/removed/turned into directories) of a populated token directory (file and "
            "SQLite backends), then a fixed exercise reading every attribute of every object and using every key. conf: generated configuration files. "
            "Oracle: every call returns a PKCS#11 return code, the process neither dies nor reports a sanitizer error, canaries intact, and a health "
            "epilogue (initialize, open session, digest, create+destroy an object, finalize) succeeds in the same process. Non-trivial = api: >= 3 calls "
            "got past argument validation; store: the mutated token was opened and listed; conf: any.")
    assumptions = ["NULL pointers are passed only where PKCS#11 permits them (size queries, zero-length inputs, pInitArgs)",
                   "generation sizes that only cost time (RSA/DSA/DH parameter sizes between 1025 and 2^47 bits, buffers above 1 MiB) are not generated",
                   "a call that does not return within 120 s is counted as inconclusive, not as a violation"]
    essential_labels = {"api_cases": 300, "store_cases": 150, "conf_cases": 40, "api_calls_past_validation": 1500, "store_token_listed": 50,
                        "fuzz_store_execs": 200, "fuzz_conf_execs": 200, "fuzz_api_execs": 100}

    def setup(self, ctx):
        ctx.shared["tpl"] = Template(ctx.env, ntokens=2)
        ctx.shared["stage"] = Stage(ctx.env, ctx.shared["tpl"], reuse=False)
        ctx.shared["fn_seen"] = set()

    def budget(self, tier):
        return {"examples": 1600, "shards": 16} if tier == "quick" else {"examples": 40000, "shards": 16}

    def strategy(self, tier):
        wild, plaus = call_st(), plaus_st()
        # (one_of would flatten the alternatives of plaus_st and leave the wild calls 1/14 of the mass)
        calls = st.lists(st.sampled_from([0, 0, 0, 1, 1]).flatmap(lambda k: plaus if k else wild), min_size=0, max_size=14)
        api = st.tuples(calls, calls, calls).map(lambda x: {"kind": "api", "calls": x[0] + x[1] + x[2]})
        store = st.tuples(st.sampled_from(["file", "file", "db"]), st.lists(mut_st(), min_size=1, max_size=4)).map(lambda x: {"kind": "store", "backend": x[0], "muts": x[1]})
        conf = st.lists(conf_line_st(), max_size=12).map(lambda l: {"kind": "conf", "lines": l})
        return st.sampled_from(["api", "api", "api", "store", "store", "conf"]).flatmap(lambda k: {"api": api, "store": store, "conf": conf}[k])

    # ------------------------------------------------------------------------------------------------------
    def run_program(self, ctx, prog):
        try:
            if prog["kind"] == "fuzz":
                return self.run_fuzz_input(ctx, prog)
            if prog["kind"] == "kindcell":
                return self.run_kindcell(ctx, prog)
            if prog["kind"] == "api":
                return self.run_api(ctx, prog)
            if prog["kind"] == "store":
                return self.run_store(ctx, prog)
            return self.run_conf(ctx, prog)
        except WorkerDied as d:
            if d.how == "hang":
                ctx.label("inconclusive_hang")
                ctx.case(prog, False, set())
                return
            if os.environ.get("C17_SURVEY"):
                # survey mode (tools only, never a registered command): bucket deaths by signature and keep searching
                import json
                with open(os.environ["C17_SURVEY"], "a") as f:
                    f.write(json.dumps({"sig": death_signature(d), "program": prog}) + "\n")
                return
            raise

    def check_resp(self, prog, i, cmd, r):
        rv = r.get("rv")
        if rv not in CKR:
            raise Violation("call %d %s returned 0x%x, which is not a PKCS#11 return code" % (i, cmd["fn"], rv), prog)
        outs = [r["out"]] if isinstance(r.get("out"), dict) else []
        outs += [a for a in r.get("attrs", []) if isinstance(a, dict)] if isinstance(r.get("attrs"), list) else []
        for a in list(outs):
            outs += a.get("inner", []) if isinstance(a.get("inner"), list) else []
        for o in outs:
            if o.get("canary") is False:
                raise Violation("call %d %s wrote outside the buffer it was given (canary overwritten)" % (i, cmd["fn"]), prog)
        if r.get("canary") is False:
            raise Violation("call %d %s wrote outside the handle array it was given" % (i, cmd["fn"]), prog)

    def health(self, ctx, prog, w, initialised):
        """the fixed epilogue: a later call must not crash and the library must still work"""
        if initialised:
            w.C_Finalize()
        r = w.C_Initialize()
        if r["rv"] != 0:
            raise Violation("health epilogue: C_Initialize after the sequence: %s" % K.rvname(r["rv"]), prog)
        try:
            slots = w.C_GetSlotList(present=True)
            sl = None
            for x in slots.get("slots", []):
                ti = w.C_GetTokenInfo(slot=x)
                if ti["rv"] == 0 and ti.get("flags", 0) & K.CKF_TOKEN_INITIALIZED:
                    sl = x
                    break
            if sl is None:
                return
            r = w.C_OpenSession(slot=sl, flags=RW)
            if r["rv"] != 0:
                raise Violation("health epilogue: C_OpenSession: %s" % K.rvname(r["rv"]), prog)
            s = r["h"]
            r1 = w.C_DigestInit(s=s, mech={"m": K.CKM_SHA256})
            r2 = w.C_Digest(s=s, data="616263", out=32)
            if r1["rv"] != 0 or r2["rv"] != 0 or r2["out"].get("data") != "ba7816bf8f01cfea414140de5dae2223b00361a396177a9cb410ff61f20015ad":
                raise Violation("health epilogue: SHA-256 digest: %s %s %s" % (K.rvname(r1["rv"]), K.rvname(r2["rv"]), r2.get("out")), prog)
            r = w.C_CreateObject(s=s, tpl=T(("CKA_CLASS", "CKO_DATA"), ("CKA_TOKEN", False), ("CKA_PRIVATE", False), ("CKA_VALUE", b"health")))
            if r["rv"] != 0:
                raise Violation("health epilogue: creating a public session object: %s" % K.rvname(r["rv"]), prog)
            r = w.C_DestroyObject(s=s, o=r["h"])
            if r["rv"] != 0:
                raise Violation("health epilogue: destroying it: %s" % K.rvname(r["rv"]), prog)
        finally:
            r = w.C_Finalize()
        if r["rv"] != 0:
            raise Violation("health epilogue: C_Finalize: %s" % K.rvname(r["rv"]), prog)


    # -- libFuzzer leg -----------------------------------------------------------------------------------------
    def run_fuzz_input(self, ctx, prog):
        """replay one saved libFuzzer input through the target binary (which carries the oracle)"""
        binary = os.path.join(BUILD, "ossl-asan", "fuzz_" + prog["target"])
        with tempfile.NamedTemporaryFile(prefix="c17-in-", dir=ctx.env.root, delete=False) as f:
            f.write(bytes.fromhex(prog["input"]))
        p = subprocess.run([binary, f.name], env=fuzz_env(), stdout=subprocess.PIPE, stderr=subprocess.STDOUT, timeout=600)
        out = p.stdout.decode("latin-1")
        ctx.steps += 1
        if p.returncode != 0:
            raise Violation("fuzz_%s: the process died on a %d-byte %s: %s" % (prog["target"], len(prog["input"]) // 2,
                                                                                {"store": "token file", "conf": "configuration file", "api": "call-sequence input"}[prog["target"]], crash_summary(out)), prog)
        ctx.case(prog, True, set())

    def extra(self, ctx, tier, shard, nshards):
        """deterministic small-scope enumerations (sharded), then the coverage-guided leg"""
        v = self.enumerate_small_scopes(ctx, tier, shard, nshards)
        if v is not None:
            return v
        return self.fuzz_leg(ctx, tier, shard, nshards)

    def enumerate_small_scopes(self, ctx, tier, shard, nshards):
        """(a) every record of every object file of the golden token gets every other stored kind (kind confusion between what the attribute class
        expects and what the store holds), then every attribute is read with exactly-sized buffers; (b) every mixture update(n1) -> single-part(n2) /
        update(n1), update(n2), final of 10 symmetric mechanisms with buffers of exactly the announced size.  Both are finite and run completely."""
        cells = []
        fx, _ = fixture_plain()
        objfiles = sorted(f for f in os.listdir(fx) if f.endswith(".object"))
        for fi, f in enumerate(objfiles):
            nrec = len(walk_records(open(os.path.join(fx, f), "rb").read()))
            for k in range(nrec):
                for kind in (1, 2, 3, 4, 5):
                    cells.append({"kind": "kindcell", "file": f, "rec": k, "to": kind})
                # structure-PRESERVING damage of the same record: deleted, re-serialised with another length, present twice (second copy unreadable)
                # (quick: every record deleted and re-serialised with 3 lengths, the first three records of each file duplicated; thorough: more)
                cells.append({"kind": "kindcell", "file": f, "rec": k, "op": "del", "to": 0})
                for L in ((0, 7, 9) if tier == "quick" else (0, 1, 7, 8, 9, 17, 300)):
                    cells.append({"kind": "kindcell", "file": f, "rec": k, "op": "vallen", "to": L})
                if k < 3 or tier != "quick":
                    for v in (0, 1, 2, 3):
                        cells.append({"kind": "kindcell", "file": f, "rec": k, "op": "dupbad", "to": v})
        mechs = ["CKM_AES_ECB", "CKM_AES_CBC", "CKM_AES_CBC_PAD", "CKM_AES_CTR", "CKM_AES_GCM", "CKM_DES3_ECB", "CKM_DES3_CBC", "CKM_DES3_CBC_PAD"]
        for m in mechs:
            for d in ("enc", "dec"):
                for n1 in (1, 8, 15, 17):
                    for n2 in (0, 1, 7, 9, 15, 16, 17):
                        cells.append({"kind": "api", "calls": [{"fn": "$lenmix", "mech": m, "dir": d, "s": {"$s": 0}, "steps": [["update", n1, "$exact"], ["single", n2, "$exact"]]}]})
                        cells.append({"kind": "api", "calls": [{"fn": "$lenmix", "mech": m, "dir": d, "s": {"$s": 0},
                                                                "steps": [["update", n1, "$exact"], ["update", n2, "$exact"], ["final", 0, "$exact"]]}]})
        # (c) every output-producing call family with a caller buffer that is SMALLER than the result (0, 1, half, result - 1 bytes) and with the
        #     exact size: the call must answer CKR_BUFFER_TOO_SMALL / a return code and never write behind the announced length (canaries, ASan)
        def op(kind, mech, p, role_, follow):
            return {"fn": "$op", "kind": kind, "mech": mech, "p": p, "role": role_, "s": {"$s": 0}, "follow": follow}
        oaep = {"oaep": {"hash": K.CKM_SHA_1, "mgf": K.CKG_MGF1_SHA1, "source": K.CKZ_DATA_SPECIFIED}}
        pss = {"pss": {"hash": K.CKM_SHA256, "mgf": K.CKG_MGF1_SHA256, "slen": 32}}
        smalls = [0, 1, 7, 16, 31, 63, 64, 100, 127, 128, 255, 256]
        for mech, p_, maxmsg in (("CKM_RSA_PKCS", None, 100), ("CKM_RSA_PKCS_OAEP", oaep, 60), ("CKM_RSA_X_509", None, None)):
            for mlen in ((1, 17, maxmsg) if maxmsg else (None,)):
                msg = ("00" + "5a" * 127) if mlen is None else "a7" * mlen
                for n in smalls:
                    cells.append({"kind": "api", "calls": [op("enc", mech, p_, "rsa_pub", [["single", msg, 1024, None]]),
                                                          op("dec", mech, p_, "rsa_priv", [["single", None, n, None]])]})
                    cells.append({"kind": "api", "calls": [op("enc", mech, p_, "rsa_pub", [["single", msg, n, None]])]})
        signers = [("CKM_RSA_PKCS", None, "rsa_priv", "30" * 20, False), ("CKM_SHA256_RSA_PKCS", None, "rsa_priv", "31" * 50, True), ("CKM_SHA256_RSA_PKCS_PSS", pss, "rsa_priv", "32" * 50, True),
                   ("CKM_RSA_X_509", None, "rsa_priv", "00" + "33" * 40, False), ("CKM_ECDSA", None, "ec_priv", "34" * 32, False), ("CKM_EDDSA", None, "ed_priv", "35" * 40, False),
                   ("CKM_DSA", None, "dsa_priv", "36" * 20, False), ("CKM_DSA_SHA1", None, "dsa_priv", "37" * 33, True), ("CKM_SHA256_HMAC", None, "generic", "38" * 33, True),
                   ("CKM_SHA512_HMAC", None, "generic", "39" * 33, True), ("CKM_AES_CMAC", None, "aes", "3a" * 33, True), ("CKM_DES3_CMAC", None, "des3", "3b" * 33, True)]
        for mech, p_, role_, msg, multi in signers:
            for n in smalls:
                cells.append({"kind": "api", "calls": [op("sign", mech, p_, role_, [["single", msg, n, None]])]})
                if multi:
                    cells.append({"kind": "api", "calls": [op("sign", mech, p_, role_, [["update", msg, None, None], ["final", None, n, None]])]})
        for mech in ("CKM_MD5", "CKM_SHA_1", "CKM_SHA224", "CKM_SHA256", "CKM_SHA384", "CKM_SHA512"):
            for n in (0, 1, 15, 16, 19, 20, 27, 28, 31, 32, 47, 48, 63, 64):
                cells.append({"kind": "api", "calls": [op("digest", mech, None, None, [["single", "3c" * 70, n, None]])]})
                cells.append({"kind": "api", "calls": [op("digest", mech, None, None, [["update", "3d" * 70, None, None], ["final", None, n, None]])]})
        # (d) the configuration file: every known key with every value of the value table (and list-shaped values with empty / blank / doubled
        #     separators for slots.mechanisms), in an otherwise sane configuration, with two separator shapes
        _, vals_, listvals = conf_tables()
        sane_lines = [["kv", "directories.tokendir", "$TOKENDIR", " = "], ["kv", "objectstore.backend", "file", " = "], ["kv", "log.level", "ERROR", " = "],
                      ["kv", "slots.removable", "false", " = "]]
        for key in ("directories.tokendir", "objectstore.backend", "objectstore.umask", "log.level", "slots.removable", "slots.mechanisms", "library.reset_on_fork"):
            for val in vals_ + (listvals if key == "slots.mechanisms" else []):
                for sep in (" = ", "="):
                    lines = [ln for ln in sane_lines if ln[1] != key] + [["kv", key, val, sep]]
                    cells.append({"kind": "conf", "lines": lines})
        ctx.extra["enumerated_cells_total"] = len(cells) if shard == 0 else 0
        for i, cell in enumerate(cells):
            if i % nshards != shard:
                continue
            try:
                self.run_program(ctx, cell)
            except Violation as v:
                v.program = cell
                return v
            except WorkerDied as d:
                if d.how == "hang":
                    continue
                v = self.on_worker_death(ctx, cell, d)
                v.program = cell
                return v
            ctx.label("enumerated_cells")
        return None

    def run_kindcell(self, ctx, prog):
        """one record of one object file of the golden token stored with another kind; then every attribute of every object is read"""
        man = ctx.shared.get("fixman")
        if man is None:
            man = ctx.shared["fixman"] = json.load(open(os.path.join(FIX, "manifest.json")))["tokens"]
        fx, pin = fixture_plain()
        sb = ctx.env.sandbox(backend="file")
        try:
            shutil.rmtree(sb.tokendir)
            os.makedirs(sb.tokendir)
            dst = os.path.join(sb.tokendir, os.path.basename(fx))
            shutil.copytree(fx, dst)
            path = os.path.join(dst, prog["file"])
            b = bytearray(open(path, "rb").read())
            recs = walk_records(bytes(b))
            r0 = recs[prog["rec"] % len(recs)]
            op = prog.get("op", "kind")
            kind0 = int.from_bytes(b[r0[1]:r0[1] + 8], "big")
            if op == "kind":
                if kind0 == prog["to"]:
                    return
                b[r0[1]:r0[1] + 8] = int(prog["to"]).to_bytes(8, "big")
            elif op == "del":
                # a well-formed file that lacks one attribute (e.g. a token without serial, a key without value)
                b = b[:r0[0]] + b[r0[3]:]
            elif op == "vallen":
                # a well-formed file in which one byte string has another length (re-serialised consistently)
                if kind0 != 3:
                    return
                old = bytes(b[r0[2] + 8:r0[3]]) or b"\x00"
                L = prog["to"]
                if L == len(b[r0[2] + 8:r0[3]]):
                    return
                new_ = (old * (L // len(old) + 1))[:L]
                b = b[:r0[2]] + L.to_bytes(8, "big") + new_ + b[r0[3]:]
            elif op == "dupbad":
                # the attribute type occurs a second time at the end of the file: as a complete copy, cut short, with an unknown kind, with an
                # over-long length field
                rec = bytes(b[r0[0]:r0[3]])
                v = prog["to"]
                if v == 0:
                    tail = rec
                elif v == 1:
                    tail = rec[:-1]
                elif v == 2:
                    tail = rec[:8] + (255).to_bytes(8, "big") + rec[16:]
                else:
                    if r0[2] is None:
                        return
                    tail = rec[:16] + (1 << 40).to_bytes(8, "big") + rec[24:]
                b = b + tail
            open(path, "wb").write(bytes(b))
            w = sb.worker()
            try:
                n = 0
                if w.C_Initialize()["rv"] == 0:
                    for sl in w.C_GetSlotList(present=True).get("slots", []):
                        r = w.C_OpenSession(slot=sl, flags=RW)
                        if r["rv"] != 0:
                            continue
                        w.C_Login(s=r["h"], user=K.CKU_USER, pin=hx(pin.encode()))
                        c = w.census(s=r["h"], types=ALL_ATTRS)
                        self.check_resp(prog, n, {"fn": "census"}, c)
                        # and once more the caller's way: size query, then a buffer of exactly that size, all attributes in one call
                        for h in sorted(int(x) for x in c.get("objects", {}))[:40]:
                            q = w.C_GetAttributeValue(s=r["h"], o=h, attrs=[[t, None] for t in ALL_ATTRS if t not in TPL_TYPES])
                            lens = [a.get("len", 0) for a in q.get("attrs", [])]
                            ex = [[t, (ln if ln is not None and 0 <= ln <= 65536 else None)] for t, ln in zip([t for t in ALL_ATTRS if t not in TPL_TYPES], lens)]
                            rr = w.C_GetAttributeValue(s=r["h"], o=h, attrs=ex)
                            self.check_resp(prog, n, {"fn": "C_GetAttributeValue"}, rr)
                            n += 1
                        ctx.steps += n
                    w.C_Finalize()
                self.health(ctx, prog, w, False)
            finally:
                w.close()
        finally:
            sb.remove()

    def fuzz_leg(self, ctx, tier, shard, nshards):
        """one libFuzzer process per shard (store on half of the shards, api and conf on a quarter each), fresh corpus, pinned -seed"""
        secs = int(os.environ.get("C17_FUZZ_SECONDS", FUZZ_SECONDS.get(tier, 40)))
        if secs <= 0:
            return None
        target = ["store", "api", "conf", "store"][shard % 4]
        binary = os.path.join(BUILD, "ossl-asan", "fuzz_" + target)
        work = os.path.join(ctx.env.root, "fuzz")
        corpus, arts, stats = os.path.join(work, "corpus"), os.path.join(work, "art"), os.path.join(work, "stats")
        for d in (corpus, arts, stats):
            os.makedirs(d)
        nseeds = seed_corpus(target, corpus)
        cmd = [binary, "-max_total_time=%d" % secs, "-seed=%d" % (ctx.seed * 1000 + shard + 1), "-artifact_prefix=%s/" % arts, "-max_len=8192", "-timeout=120",
               "-rss_limit_mb=4096", "-print_final_stats=1", "-entropic=0"] + (["-len_control=0", "-max_len=2048"] if target == "api" else []) + [corpus]
        p = subprocess.run(cmd, env=fuzz_env(stats), stdout=subprocess.PIPE, stderr=subprocess.STDOUT, timeout=secs + 900)
        out = p.stdout.decode("latin-1")
        m = re.search(r"stat::number_of_executed_units:\s*(\d+)", out)
        execs = int(m.group(1)) if m else 0
        for f in os.listdir(stats):
            try:
                d = json.load(open(os.path.join(stats, f)))
            except ValueError:
                continue
            for k, v in d.items():
                ctx.extra["fuzz_%s_%s" % (target, k)] = ctx.extra.get("fuzz_%s_%s" % (target, k), 0) + v
            execs = max(execs, d.get("execs", 0))
        cov = re.findall(r"cov: (\d+)", out)
        ctx.extra["fuzz_%s_processes" % target] = 1
        ctx.extra["fuzz_%s_seed_inputs" % target] = nseeds
        ctx.extra["fuzz_%s_edges_max" % target] = {"shard%d" % shard: int(cov[-1]) if cov else 0}
        ctx.labels["fuzz_%s_execs" % target] += execs
        found = None
        for f in sorted(os.listdir(arts)):
            data = open(os.path.join(arts, f), "rb").read()
            if f.startswith(("crash-", "leak-")):
                prog = {"kind": "fuzz", "target": target, "input": data.hex()}
                found = found or Violation("fuzz_%s: %s" % (target, crash_summary(out)), prog)
            else:
                ctx.extra["fuzz_inconclusive_artifacts"] = ctx.extra.get("fuzz_inconclusive_artifacts", 0) + 1     # timeout-/oom-/slow-unit-: load noise
        if found is None and p.returncode != 0 and not os.listdir(arts):
            raise RuntimeError("fuzz_%s ended with status %d without an artifact:\n%s" % (target, p.returncode, out[-2000:]))
        # a few interesting inputs the fuzzer made, as evidence samples
        made = sorted(f for f in os.listdir(corpus) if not f.startswith(("seed-", "c-")))
        for f in made[:2]:
            data = open(os.path.join(corpus, f), "rb").read()
            ctx.case({"kind": "fuzz", "target": target, "input": data[:4096].hex()}, True, set())
        return found

    # -- api ---------------------------------------------------------------------------------------------------
    def run_api(self, ctx, prog):
        stage = ctx.shared["stage"]
        toks = ctx.shared["tpl"].tokens
        w = stage.fresh()
        sessions, objects = [], []
        slots = [t.slot for t in toks]
        free = [x for x in w.C_GetSlotList(present=False).get("slots", []) if x not in slots]
        slots += free[:1]
        state = {"initialised": True, "past": 0, "last_out": None, "last_blob": None, "s0": None, "repairs": 0}
        pins = {"user": hx(toks[0].user_pin), "so": hx(toks[0].so_pin)}
        roles = {}

        def ensure():
            """harness housekeeping before a structure-aware macro call: the library is initialised, a logged-in R/W session
            and one live key of every role exist (wild calls before may have finalised, closed, logged out or re-initialised)"""
            if not state["initialised"]:
                if w.C_Initialize()["rv"] == 0:
                    state["initialised"] = True
                del sessions[:]
            r = w.C_GetSessionInfo(s=state["s0"]) if state["s0"] is not None else {"rv": 1}
            if r["rv"] != 0:
                r = w.C_OpenSession(slot=toks[0].slot, flags=RW)
                if r["rv"] != 0:
                    return
                state["s0"] = r["h"]
                sessions.insert(0, r["h"])
                r = w.C_GetSessionInfo(s=state["s0"])
            if r.get("state") != K.CKS_RW_USER_FUNCTIONS:
                if r.get("state") == K.CKS_RW_SO_FUNCTIONS:
                    w.C_Logout(s=state["s0"])
                if w.C_Login(s=state["s0"], user=K.CKU_USER, pin=pins["user"])["rv"] not in (0, K.CKR_USER_ALREADY_LOGGED_IN):
                    # the user PIN is gone (token re-initialised): set it again as SO
                    if w.C_Login(s=state["s0"], user=K.CKU_SO, pin=pins["so"])["rv"] == 0:
                        w.C_InitPIN(s=state["s0"], pin=pins["user"])
                        w.C_Logout(s=state["s0"])
                        w.C_Login(s=state["s0"], user=K.CKU_USER, pin=pins["user"])
            if "aes" not in roles or w.C_GetObjectSize(s=state["s0"], o=roles["aes"])["rv"] != 0:
                state["repairs"] += 1
                for cls in ROLES:
                    # token objects: they survive the sessions that wild calls close
                    r = w.C_CreateObject(s=state["s0"], tpl=valid_tpl(cls, 0, True, False))
                    if r["rv"] == 0:
                        objects.append(r["h"])
                        roles[cls] = r["h"]
        ensure()

        def resolve(k, v):
            if isinstance(v, dict) and len(v) == 1:
                if "$s" in v:
                    if v["$s"] == 0 and state["s0"] is not None:
                        return state["s0"]
                    return sessions[v["$s"] % len(sessions)] if sessions else v["$s"]
                if "$o" in v:
                    return objects[v["$o"] % len(objects)] if objects else v["$o"]
                if "$slot" in v:
                    return slots[v["$slot"] % len(slots)]
            if v == "$user":
                return pins["user"]
            if v == "$so":
                return pins["so"]
            return v

        def do(i, fn, **cmd):
            """one real call: executed, judged, book-kept"""
            ctx.steps += 1
            cmd = {k: v for k, v in cmd.items() if v is not None}
            for k in ("tpl", "pub", "prv"):
                if k in cmd:
                    cmd[k] = sane_tpl(cmd[k])
            if "mech" in cmd:
                cmd["mech"] = sane_mech(cmd["mech"])
            if "attrs" in cmd:
                cmd["attrs"] = sane_gattrs(cmd["attrs"])
            if isinstance(cmd.get("out"), list):
                cmd["out"], cmd["outlen"] = cmd["out"][0], cmd["out"][1]
            if cmd.get("out") in ("$exact", "$minus1"):
                how = cmd.pop("out")
                q = w.call(fn, **cmd)
                self.check_resp(prog, i, {"fn": fn}, q)
                ctx.steps += 1
                n = q["out"]["len"] if (q["rv"] == 0 and isinstance(q.get("out"), dict)) else 0
                if q["rv"] != 0 or n > (1 << 20):
                    ctx.label("fn_" + fn)
                    return q
                cmd["out"] = n if how == "$exact" else max(0, n - 1)
                ctx.label("exact_buffer_calls")
            r = w.call(fn, **cmd)
            self.check_resp(prog, i, {"fn": fn}, r)
            ctx.label("fn_" + fn)
            if K.rvname(r["rv"]) not in ARG_CODES:
                state["past"] += 1
                ctx.label("api_calls_past_validation")
            if r["rv"] == 0:
                ctx.label("ok_" + fn)
                if fn == "C_OpenSession":
                    sessions.append(r["h"])
                elif fn in ("C_CreateObject", "C_CopyObject", "C_GenerateKey", "C_UnwrapKey", "C_DeriveKey"):
                    objects.append(r["h"])
                elif fn == "C_GenerateKeyPair":
                    objects.extend([r["hpub"], r["hprv"]])
                elif fn == "C_FindObjects":
                    objects.extend(r.get("h", [])[:4])
                elif fn == "C_Finalize":
                    state["initialised"] = False
                elif fn == "C_Initialize":
                    state["initialised"] = True
                elif fn in ("C_SetPIN", "C_InitPIN", "C_InitToken"):
                    # which PIN changed? ask the token (only token 0 matters to the housekeeping)
                    self.track_pins(w, toks[0].slot, pins, cmd)
                if isinstance(r.get("out"), dict) and r["out"].get("data"):
                    state["last_out"] = r["out"]["data"]
            return r

        def role(name):
            return roles.get(name, objects[0] if objects else 0) if name else 0

        OPS = {"enc": ("C_EncryptInit", "C_Encrypt", "C_EncryptUpdate", "C_EncryptFinal"), "dec": ("C_DecryptInit", "C_Decrypt", "C_DecryptUpdate", "C_DecryptFinal"),
               "sign": ("C_SignInit", "C_Sign", "C_SignUpdate", "C_SignFinal"), "verify": ("C_VerifyInit", "C_Verify", "C_VerifyUpdate", "C_VerifyFinal"),
               "digest": ("C_DigestInit", "C_Digest", "C_DigestUpdate", "C_DigestFinal"), "signrec": ("C_SignRecoverInit", "C_SignRecover", None, None),
               "verrec": ("C_VerifyRecoverInit", "C_VerifyRecover", None, None)}

        def macro(i, c):
            ensure()
            own = None
            if c["s"] == {"$s": 0}:
                # a session of its own, so that an operation left active by an earlier call is not in the way
                r = w.C_OpenSession(slot=toks[0].slot, flags=RW)
                if r["rv"] == 0:
                    own = r["h"]
            try:
                macro_body(i, c, own if own is not None else resolve("s", c["s"]))
            finally:
                if own is not None and state["initialised"]:
                    w.C_CloseSession(s=own)

        def macro_body(i, c, s_):
            fn = c["fn"]
            if fn == "$op":
                init, single, update, final = OPS[c["kind"]]
                mech = {"m": K.C[c["mech"]], "p": c["p"]}
                kw = {} if c["kind"] == "digest" else {"key": role(c["role"])}
                do(i, init, s=s_, mech=mech, **kw)
                for how, data, out, extra in c["follow"]:
                    if data is None and c["kind"] in ("dec", "verify", "verrec") and state["last_out"]:
                        data = state["last_out"]
                    if how == "init_again":
                        do(i, init, s=s_, mech=mech, **kw)
                    elif how == "single" or update is None:
                        if single == "C_Verify":
                            do(i, single, s=s_, data=data, sig=extra if extra is not None else (state["last_out"] or ""))
                        else:
                            do(i, single, s=s_, data=data, out=out)
                    elif how == "update":
                        if update in ("C_EncryptUpdate", "C_DecryptUpdate"):
                            do(i, update, s=s_, data=data, out=out)
                        else:
                            do(i, update, s=s_, data=data)
                    else:
                        if final == "C_VerifyFinal":
                            do(i, final, s=s_, data=extra if extra is not None else (state["last_out"] or ""))
                        else:
                            do(i, final, s=s_, out=out)
            elif fn == "$wrap":
                mech = {"m": K.C[c["mech"]], "p": c["p"]}
                r = do(i, "C_WrapKey", s=s_, mech=mech, wkey=role(c["role"]), key=role(c["target"]), out=c["out"])
                if r["rv"] == 0 and not r["out"].get("data") and r["out"]["len"] <= 8192:
                    r = do(i, "C_WrapKey", s=s_, mech=mech, wkey=role(c["role"]), key=role(c["target"]), out=r["out"]["len"])
                if r["rv"] == 0 and r["out"].get("data"):
                    state["last_blob"] = r["out"]["data"]
                blob = c["blob"]
                if blob == "$last":
                    blob = state["last_blob"] or ""
                    if c["cut"] is not None:
                        n = c["cut"] if c["cut"] >= 0 else max(0, len(blob) // 2 + c["cut"])
                        blob = blob[:n * 2]
                do(i, "C_UnwrapKey", s=s_, mech=mech, key=role(c["unrole"]), data=blob, tpl=c["tpl"])
            elif fn == "$keyuse":
                tpl = valid_tpl(c["cls"], c["variant"], c["token"], c["private"])
                # mutate the VALUE-carrying (component) entries: these are what the crypto backends consume
                comp = [k for k, e in enumerate(tpl) if e[1] == "bytes" and K.name("CKA", e[0]) not in ("CKA_LABEL", "CKA_ID", "CKA_SUBJECT")]
                for how, pos, off, wildv in c["muts"]:
                    if not comp:
                        break
                    k = comp[pos % len(comp)]
                    b = bytearray(bytes.fromhex(tpl[k][2]))
                    if how == "empty":
                        b = bytearray()
                    elif how == "zero":
                        b = bytearray(max(1, len(b)))
                    elif how == "one":
                        b = bytearray(b"\x01")
                    elif how == "cut" and b:
                        b = b[:off % len(b)]
                    elif how == "ext":
                        b = b + bytes([off % 256]) * (1 + off % 9)
                    elif how == "flip" and b:
                        b[off % len(b)] ^= 1 << (off % 8)
                    elif how == "wild":
                        b = bytearray(bytes.fromhex(wildv or ""))
                    if how == "drop":
                        tpl[k] = None
                        comp.remove(k)
                    else:
                        tpl[k] = [tpl[k][0], "bytes", bytes(b).hex()]
                tpl = [e for e in tpl if e is not None]
                r = do(i, "C_CreateObject", s=s_, tpl=tpl)
                if r["rv"] != 0:
                    return
                ctx.label("keyuse_created")
                h = r["h"]
                defaults = {"CKM_AES_CBC_PAD": {"raw": "00" * 16}, "CKM_DES3_CBC_PAD": {"raw": "00" * 8}, "CKM_AES_GCM": {"gcm": {"iv": "00" * 12, "aad": "", "tagBits": 128}},
                            "CKM_AES_CTR": {"ctr": {"bits": 32, "cb": "00" * 16}}, "CKM_RSA_PKCS_OAEP": {"oaep": {"hash": K.CKM_SHA_1, "mgf": 1, "source": 1}},
                            "CKM_SHA256_RSA_PKCS_PSS": {"pss": {"hash": K.CKM_SHA256, "mgf": 2, "slen": 32}}, "CKM_DH_PKCS_DERIVE": {"raw": keypool()["dh"][0]["y"]},
                            "CKM_ECDH1_DERIVE": {"ecdh": {"kdf": 1, "pub": (keypool()["ec"] if c["cls"].startswith("ec") else keypool()["x"])[0]["point"]}},
                            "CKM_AES_ECB_ENCRYPT_DATA": {"strdata": "00" * 16}, "CKM_DES3_ECB_ENCRYPT_DATA": {"strdata": "00" * 8},
                            "CKM_CONCATENATE_BASE_AND_DATA": {"strdata": "0011"}}
                sec = T(("CKA_CLASS", "CKO_SECRET_KEY"), ("CKA_KEY_TYPE", "CKK_GENERIC_SECRET"), ("CKA_TOKEN", False), ("CKA_VALUE_LEN", 16), ("CKA_SENSITIVE", False),
                        ("CKA_EXTRACTABLE", True))
                for (kind, mname), data, out, extra in c["uses"]:
                    mech = {"m": K.C[mname], "p": defaults.get(mname)}
                    if kind in OPS:
                        init, single, update, final = OPS[kind]
                        if do(i, init, s=s_, mech=mech, key=h)["rv"] != 0:
                            continue
                        ctx.label("keyuse_init_ok")
                        if single == "C_Verify":
                            do(i, single, s=s_, data=data, sig=extra if extra is not None else (state["last_out"] or ""))
                        else:
                            do(i, single, s=s_, data=data if data is not None else state["last_out"], out=out)
                    elif kind == "wrap":
                        do(i, "C_WrapKey", s=s_, mech=mech, wkey=h, key=role("generic"), out=out)
                    elif kind == "wrapped":
                        do(i, "C_WrapKey", s=s_, mech=mech, wkey=role("aes"), key=h, out=out)
                    elif kind == "unwrap":
                        do(i, "C_UnwrapKey", s=s_, mech=mech, key=h, data=data if data is not None else (state["last_blob"] or ""), tpl=sec[:3] + sec[4:])
                    elif kind == "derive":
                        do(i, "C_DeriveKey", s=s_, mech=mech, key=h, tpl=sec)
                do(i, "C_GetAttributeValue", s=s_, o=h, attrs=[[t, None] for t in ALL_ATTRS[:60]])
                do(i, "C_CopyObject", s=s_, o=h, tpl=T(("CKA_TOKEN", False)))
                do(i, "C_DestroyObject", s=s_, o=h)
            elif fn == "$lenmix":
                m = c["mech"]
                aes = "AES" in m
                p_ = {"raw": "00" * (16 if aes else 8)} if "CBC" in m else {"ctr": {"bits": 32, "cb": "00" * 16}} if "CTR" in m else \
                    {"gcm": {"iv": "00" * 12, "aad": "", "tagBits": 128}} if "GCM" in m else None
                init, single, update, final = OPS[c["dir"]]
                if do(i, init, s=s_, mech={"m": K.C[m], "p": p_}, key=role("aes" if aes else "des3"))["rv"] != 0:
                    return
                ctx.label("lenmix_init_ok")
                for how, n, pol in c["steps"]:
                    data = (bytes(range(7, 7 + 64)) * 20)[:n].hex()
                    if how == "update":
                        do(i, update, s=s_, data=data, out=pol)
                    elif how == "single":
                        do(i, single, s=s_, data=data, out=pol)
                    else:
                        do(i, final, s=s_, out=pol)
            elif fn == "$derive":
                pp = c["p"]
                if isinstance(pp, dict) and "$okey" in pp:
                    pp = {"ulong": objects[pp["$okey"] % len(objects)] if objects else 0}
                do(i, "C_DeriveKey", s=s_, mech={"m": K.C[c["mech"]], "p": pp}, key=role(c["role"]), tpl=c["tpl"])
            elif fn == "$gen":
                tpl = c["tpl"]
                if c["cls"] == "dsa_params":
                    tpl = T(("CKA_PRIME_BITS", c["bits"]), ("CKA_SUB_PRIME_BITS", 160), ("CKA_TOKEN", False))
                elif c["cls"] == "dh_params":
                    tpl = T(("CKA_PRIME_BITS", min(c["bits"], 512) if c["bits"] < (1 << 40) else c["bits"]), ("CKA_TOKEN", False))
                do(i, "C_GenerateKey", s=s_, mech={"m": K.C[c["mech"]], "p": c["p"]}, tpl=tpl)
            elif fn == "$pair":
                kp = keypool()
                alg, v = c["alg"], c["variant"]
                pub = [("CKA_TOKEN", False), ("CKA_VERIFY", True), ("CKA_ENCRYPT", True), ("CKA_WRAP", True)]
                prv = [("CKA_TOKEN", False), ("CKA_PRIVATE", False), ("CKA_SIGN", True), ("CKA_DECRYPT", True), ("CKA_UNWRAP", True), ("CKA_DERIVE", True),
                       ("CKA_SENSITIVE", False), ("CKA_EXTRACTABLE", True)]
                wild = c["wild"]
                if alg == "rsa":
                    pub += [("CKA_MODULUS_BITS", c["bits"]), ("CKA_PUBLIC_EXPONENT", c["exp"])]
                elif alg in ("ec", "ed"):
                    e = kp[alg][v % len(kp[alg])] if (alg == "ec" or v % 2 == 0) else kp["x"][v % len(kp["x"])]
                    pub += [("CKA_EC_PARAMS", wild if wild is not None else e["params"])]
                elif alg == "dsa":
                    e = kp["dsa"][v % len(kp["dsa"])]
                    pub += [("CKA_PRIME", e["p"]), ("CKA_SUBPRIME", wild if wild is not None else e["q"]), ("CKA_BASE", e["g"])]
                else:
                    e = kp["dh"][v % len(kp["dh"])]
                    pub += [("CKA_PRIME", wild if wild is not None else e["p"]), ("CKA_BASE", e["g"])]
                    if v % 2:
                        prv += [("CKA_VALUE_BITS", c["bits"])]
                do(i, "C_GenerateKeyPair", s=s_, mech={"m": K.C[c["mech"]]}, pub=T(*pub) + c["extra_pub"], prv=T(*prv) + c["extra_prv"])

        for i, c in enumerate(prog["calls"]):
            fn = c["fn"]
            if fn.startswith("$"):
                ctx.label("macro_" + fn[1:])
                macro(i, c)
                continue
            cmd = {}
            for k, v in c.items():
                if k == "fn" or v is None:
                    continue
                v = resolve(k, v)
                if k in ("null_args",):
                    if v:
                        cmd[k] = True
                else:
                    cmd[k] = v
            if fn == "C_GenerateRandom" and "out" not in cmd:
                cmd["out"] = 16
            if fn == "C_GetAttributeValue" and "attrs" not in cmd:
                cmd["attrs"] = []
            do(i, fn, **cmd)
        initialised, past = state["initialised"], state["past"]
        self.health(ctx, prog, w, initialised)
        ctx.label("api_cases")
        ctx.case(prog, past >= 3, set())

    def track_pins(self, w, slot, pins, cmd):
        """after a successful PIN-changing call: find out (in a scratch session) which of the candidate PINs are now valid"""
        cands = [c for c in (cmd.get("new"), cmd.get("pin")) if isinstance(c, str)]
        if not cands:
            return
        r = w.C_OpenSession(slot=slot, flags=RW)
        if r["rv"] != 0:
            return
        s = r["h"]
        try:
            st_ = w.C_GetSessionInfo(s=s).get("state")
            if st_ != K.CKS_RW_PUBLIC_SESSION:
                return          # somebody is logged in on the token: leave the belief as it is; ensure() copes with a wrong belief
            for who, user in (("user", K.CKU_USER), ("so", K.CKU_SO)):
                for c in cands:
                    if w.C_Login(s=s, user=user, pin=c)["rv"] == 0:
                        pins[who] = c
                        w.C_Logout(s=s)
                        break
        finally:
            w.C_CloseSession(s=s)

    # -- store -------------------------------------------------------------------------------------------------
    def run_store(self, ctx, prog):
        import json
        backend = prog["backend"]
        man = ctx.shared.get("fixman")
        if man is None:
            man = ctx.shared["fixman"] = json.load(open(os.path.join(FIX, "manifest.json")))["tokens"]
        sb = ctx.env.sandbox(backend=backend)
        try:
            shutil.rmtree(sb.tokendir)
            os.makedirs(sb.tokendir)
            # two tokens of the golden fixtures: 'plain' (mutated) and 'minpins' (left alone)
            src = os.path.join(FIX, backend)
            tokdirs = {}
            for d in sorted(os.listdir(src)):
                for name in ("plain", "minpins"):
                    if d.endswith(man[backend][name]["serial"][-12:]) or man[backend][name]["serial"] in d.replace("-", ""):
                        tokdirs[name] = d
            for name, d in tokdirs.items():
                shutil.copytree(os.path.join(src, d), os.path.join(sb.tokendir, d))
            if "plain" not in tokdirs:
                raise RuntimeError("fixture token 'plain' not found for backend %s" % backend)
            target = os.path.join(sb.tokendir, tokdirs["plain"])
            applied = self.apply_muts(target, prog["muts"])
            w = sb.worker()
            try:
                n_listed = self.exercise(ctx, prog, w, man[backend])
                self.health(ctx, prog, w, False)
            finally:
                w.close()
            ctx.label("store_cases")
            ctx.label("store_backend_" + backend)
            if n_listed:
                ctx.label("store_token_listed")
            ctx.case(prog, bool(applied and n_listed), set())
        finally:
            sb.remove()

    def apply_sql(self, db, m):
        import sqlite3
        con = sqlite3.connect(db)
        try:
            how, table = m[0], m[1]
            ids = [r[0] for r in con.execute("select id from %s order by id" % table)]
            if not ids:
                return 0
            if how == "sql_move":
                rid = ids[m[3] % len(ids)]
                row = con.execute("select value, type, object_id from %s where id=?" % table, (rid,)).fetchone()
                con.execute("delete from %s where id=?" % table, (rid,))
                con.execute("insert into %s (value, type, object_id) values (?,?,?)" % m[2], row)
            else:
                rid = ids[m[2] % len(ids)]
                if how == "sql_blob":
                    b = bytearray(con.execute("select value from %s where id=?" % table, (rid,)).fetchone()[0] or b"")
                    op, pos, val = m[3], m[4], m[5]
                    if op == "set8" and len(b) >= 8:
                        off = pos % (len(b) - 7)          # any byte offset: the entries of these blobs are not 8-byte aligned
                        b[off:off + 8] = int(val).to_bytes(8, "little")
                    elif op == "trunc":
                        b = b[:pos % (len(b) + 1)]
                    elif op == "flip" and b:
                        b[pos % len(b)] ^= 1 << (pos % 8)
                    elif op == "append":
                        b += int(val).to_bytes(8, "little")
                    elif op == "empty":
                        b = bytearray()
                    con.execute("update %s set value=? where id=?" % table, (bytes(b), rid))
                elif how == "sql_int":
                    con.execute("update %s set value=? where id=?" % table, (m[3], rid))
                elif how == "sql_type":
                    con.execute("update %s set type=? where id=?" % table, (m[3], rid))
                elif how == "sql_null":
                    con.execute("update %s set value=NULL where id=?" % table, (rid,))
                elif how == "sql_delete":
                    con.execute("delete from %s where id=?" % table, (rid,))
            con.commit()
            return 1
        except sqlite3.Error:
            return 0
        finally:
            con.close()

    def apply_muts(self, target, muts):
        applied = 0
        for m in muts:
            if m[0].startswith("sql_"):
                db = os.path.join(target, "sqlite3.db")
                if os.path.isfile(db):
                    applied += self.apply_sql(db, m)
                continue
            files = sorted(f for f in os.listdir(target))
            # object files and token.object first in the index space (lock files are empty and uninteresting)
            files = [f for f in files if not f.endswith(".lock")] + [f for f in files if f.endswith(".lock")]
            if not files:
                break
            path = os.path.join(target, files[m[1] % len(files)])
            how = m[0]
            try:
                if how == "remove":
                    if os.path.isdir(path):
                        shutil.rmtree(path)
                    else:
                        os.unlink(path)
                    applied += 1
                    continue
                if how == "mkdir":
                    if os.path.isfile(path):
                        os.unlink(path)
                        os.mkdir(path)
                        applied += 1
                    continue
                if not os.path.isfile(path):
                    continue
                b = bytearray(open(path, "rb").read())
                if how == "set8":
                    if len(b) >= 8:
                        off = (m[2] % (len(b) // 8)) * 8
                        b[off:off + 8] = int(m[3]).to_bytes(8, "big")
                elif how == "flip":
                    if b:
                        b[m[2] % len(b)] ^= (m[3] or 1)
                elif how == "trunc":
                    b = b[:m[2] % (len(b) + 1)]
                elif how == "trunc8":
                    b = b[:(m[2] % (len(b) // 8 + 1)) * 8]
                elif how == "append":
                    b += bytes.fromhex(m[2])
                elif how == "del8":
                    if len(b) >= 8:
                        off = (m[2] % (len(b) // 8)) * 8
                        del b[off:off + 8 * m[3]]
                elif how == "dup8":
                    if len(b) >= 8:
                        off = (m[2] % (len(b) // 8)) * 8
                        b[off:off] = b[off:off + 8 * m[3]]
                elif how.startswith("rec_"):
                    recs = walk_records(bytes(b))
                    if not recs:
                        continue
                    r0 = recs[m[2] % len(recs)]
                    if how == "rec_kind":
                        b[r0[1]:r0[1] + 8] = int(m[3]).to_bytes(8, "big")
                    elif how == "rec_type":
                        b[r0[0]:r0[0] + 8] = int(m[3]).to_bytes(8, "big")
                    elif how == "rec_len":
                        lf = [r for r in recs if r[2] is not None]
                        if lf:
                            r1 = lf[m[2] % len(lf)]
                            b[r1[2]:r1[2] + 8] = int(m[3]).to_bytes(8, "big")
                    else:
                        r1 = recs[m[3] % len(recs)]
                        # swap the payloads' kinds and types but keep the payload bytes in place
                        t0, t1 = bytes(b[r0[0]:r0[0] + 16]), bytes(b[r1[0]:r1[0] + 16])
                        b[r0[0]:r0[0] + 16], b[r1[0]:r1[0] + 16] = t1, t0
                elif how == "replace":
                    b = bytearray(bytes.fromhex(m[2]))
                elif how == "copyfrom":
                    other = os.path.join(target, files[m[2] % len(files)])
                    if os.path.isfile(other):
                        b = bytearray(open(other, "rb").read())
                open(path, "wb").write(bytes(b))
                applied += 1
            except OSError:
                pass
        return applied

    def exercise(self, ctx, prog, w, man):
        """touch everything a process normally touches; every answer must be a return code"""
        n = [0]

        def call(fn, **kw):
            r = w.call(fn, **kw)
            self.check_resp(prog, n[0], {"fn": fn}, r)
            n[0] += 1
            ctx.steps += 1
            return r
        r = call("C_Initialize")
        if r["rv"] != 0:
            return 0
        listed = 0
        slots = call("C_GetSlotList", present=True).get("slots", [])
        for sl in slots:
            ti = call("C_GetTokenInfo", slot=sl)
            call("C_GetSlotInfo", slot=sl)
            call("C_GetMechanismList", slot=sl)
            if ti["rv"] != 0 or not (ti.get("flags", 0) & K.CKF_TOKEN_INITIALIZED):
                continue
            rec = [v for v in man.values() if v["slot"] == sl]
            if rec and rec[0]["label"] == "fx-plain":
                listed += 1
            r = call("C_OpenSession", slot=sl, flags=RW)
            if r["rv"] != 0:
                continue
            s = r["h"]
            if rec:
                call("C_Login", s=s, user=K.CKU_USER, pin="00")                       # wrong PIN: rewrites the token flags
                call("C_Login", s=s, user=K.CKU_USER, pin=rec[0]["user_pin"])
            c = call("census", s=s, types=ALL_ATTRS)
            hs = sorted(int(h) for h in c.get("objects", {}))[:40]
            for h in hs:
                call("C_GetObjectSize", s=s, o=h)
                for mname, data in (("CKM_AES_ECB", "00" * 16), ("CKM_AES_CBC_PAD", "00" * 5), ("CKM_DES3_ECB", "00" * 8), ("CKM_RSA_PKCS", "00" * 20),
                                    ("CKM_RSA_X_509", "00" * 64)):
                    mech = {"m": K.C[mname], "p": {"raw": "00" * 16} if "CBC" in mname else None}
                    if call("C_EncryptInit", s=s, mech=mech, key=h)["rv"] == 0:
                        call("C_Encrypt", s=s, data=data, out=1024)
                    if call("C_DecryptInit", s=s, mech=mech, key=h)["rv"] == 0:
                        call("C_Decrypt", s=s, data="00" * 128, out=1024)
                for mname in ("CKM_SHA256_HMAC", "CKM_AES_CMAC", "CKM_SHA256_RSA_PKCS", "CKM_RSA_PKCS", "CKM_ECDSA", "CKM_EDDSA", "CKM_DSA_SHA1", "CKM_DSA"):
                    mech = {"m": K.C[mname]}
                    if call("C_SignInit", s=s, mech=mech, key=h)["rv"] == 0:
                        call("C_Sign", s=s, data="11" * 20, out=1024)
                    if call("C_VerifyInit", s=s, mech=mech, key=h)["rv"] == 0:
                        call("C_Verify", s=s, data="11" * 20, sig="22" * 64)
                for mname, p in (("CKM_DH_PKCS_DERIVE", {"raw": "02" * 128}), ("CKM_ECDH1_DERIVE", {"ecdh": {"kdf": 1, "pub": "04" + "11" * 64}}),
                                 ("CKM_AES_ECB_ENCRYPT_DATA", {"strdata": "00" * 16})):
                    r = call("C_DeriveKey", s=s, mech={"m": K.C[mname], "p": p}, key=h,
                             tpl=T(("CKA_CLASS", "CKO_SECRET_KEY"), ("CKA_KEY_TYPE", "CKK_GENERIC_SECRET"), ("CKA_TOKEN", False), ("CKA_VALUE_LEN", 16)))
                if hs:
                    call("C_WrapKey", s=s, mech={"m": K.CKM_AES_KEY_WRAP_PAD}, wkey=hs[0], key=h, out=4100)
                    call("C_WrapKey", s=s, mech={"m": K.CKM_AES_KEY_WRAP_PAD}, wkey=h, key=hs[-1], out=4100)
                call("C_CopyObject", s=s, o=h, tpl=T(("CKA_TOKEN", False)))
                call("C_SetAttributeValue", s=s, o=h, tpl=T(("CKA_LABEL", b"touched")))
            call("C_CreateObject", s=s, tpl=T(("CKA_CLASS", "CKO_DATA"), ("CKA_TOKEN", True), ("CKA_PRIVATE", False), ("CKA_VALUE", b"new")))
            if hs:
                call("C_DestroyObject", s=s, o=hs[0])
            if rec:
                call("C_SetPIN", s=s, old=rec[0]["user_pin"], new=rec[0]["user_pin"])
            call("C_Logout", s=s)
            if rec:
                call("C_Login", s=s, user=K.CKU_SO, pin=rec[0]["so_pin"])
                call("C_InitPIN", s=s, pin=rec[0]["user_pin"])
                call("C_Logout", s=s)
            call("C_CloseSession", s=s)
        call("C_Finalize")
        return listed

    # -- conf --------------------------------------------------------------------------------------------------
    def run_conf(self, ctx, prog):
        sb = ctx.env.sandbox(template=ctx.shared["tpl"])
        try:
            text = b""
            for ln in prog["lines"]:
                text += self.render_conf_line(ln, sb) + b"\n"
            open(sb.conf, "wb").write(text)
            w = sb.worker()
            try:
                r = w.C_Initialize()
                self.check_resp(prog, 0, {"fn": "C_Initialize"}, r)
                ctx.steps += 1
                if r["rv"] == 0:
                    ctx.label("conf_initialize_ok")
                    sl = w.C_GetSlotList(present=False)
                    self.check_resp(prog, 1, {"fn": "C_GetSlotList"}, sl)
                    for x in sl.get("slots", [])[:3]:
                        for fn, kw in (("C_GetTokenInfo", {}), ("C_GetMechanismList", {}), ("C_GetMechanismInfo", {"m": K.CKM_AES_CBC}), ("C_OpenSession", {"flags": RW})):
                            self.check_resp(prog, 2, {"fn": fn}, w.call(fn, slot=x, **kw))
                            ctx.steps += 1
                    r = w.C_Finalize()
                    self.check_resp(prog, 3, {"fn": "C_Finalize"}, r)
                else:
                    ctx.label("conf_initialize_refused")
                # the process must be able to initialise again with a sane configuration
                open(sb.conf, "w").write("directories.tokendir = %s\nobjectstore.backend = file\nlog.level = ERROR\nslots.removable = false\n" % sb.tokendir)
                r = w.C_Initialize()
                if r["rv"] != 0:
                    raise Violation("after a generated configuration file the same process cannot initialise with a sane one: %s" % K.rvname(r["rv"]), prog)
                w.C_Finalize()
            finally:
                w.close()
            ctx.label("conf_cases")
            ctx.case(prog, True, set())
        finally:
            sb.remove()

    def render_conf_line(self, ln, sb):
        kind = ln[0]
        if kind == "kv":
            key, val = ln[1], ln[2]
            val = val.replace("$TOKENDIR", sb.tokendir).replace("$CONF", sb.conf).replace("$MISSING", os.path.join(sb.root, "missing"))
            return ("%s%s%s" % (key, ln[3], val)).encode("latin-1", "replace")
        return bytes.fromhex(ln[1])


def conf_tables():
    keys = ["directories.tokendir", "objectstore.backend", "objectstore.umask", "log.level", "slots.removable", "slots.mechanisms", "library.reset_on_fork",
            "unknown.key", "", "directories.tokendir ", "slots.mechanisms"]
    # list-shaped values with empty, blank and doubled elements and separators in every position
    listvals = ["CKM_AES_CBC,,CKM_SHA256", "CKM_AES_CBC, ,CKM_SHA256", ",CKM_AES_CBC", "CKM_AES_CBC,", " CKM_AES_CBC", "CKM_AES_CBC ", "CKM_AES_CBC , CKM_SHA256",
                "-,", "-CKM_AES_CBC,,", "- CKM_AES_CBC", "-CKM_AES_CBC,-CKM_SHA256", "ALL,CKM_AES_CBC", "all", "-ALL", "CKM_AES_CBC;CKM_SHA256", "\tCKM_AES_CBC",
                "CKM_AES_CBC\t,\tCKM_SHA256", " ", " , ", "-- ", "CKM_AES_CBC,CKM_AES_CBC", "-CKM_AES_CBC,CKM_AES_CBC,,,,"]
    vals = ["$TOKENDIR", "$TOKENDIR/", "$MISSING", "$CONF", "/", "", "file", "db", "FILE", "nosuch", "0077", "0000", "7777", "8", "-1", "99999999999999999999", "0x77",
            "ERROR", "DEBUG", "INFO", "WARNING", "nolevel", "true", "false", "TRUE", "1", "maybe", "ALL", "CKM_AES_CBC", "CKM_AES_CBC,CKM_SHA256", "-CKM_RSA_PKCS",
            "-", ",", ",,,", "CKM_NOPE", "-CKM_NOPE,CKM_AES_CBC", "A" * 300, "A" * 5000, "CKM_AES_CBC," * 400, "$TOKENDIR" + "/x" * 2100, "\t", " = = ", "é"]
    return keys, vals, listvals


def conf_line_st():
    keys, vals, listvals = conf_tables()
    vals = vals + listvals
    seps = [" = ", "=", " =", "= ", " ", ":", " = = "]
    kv = st.tuples(st.just("kv"), st.sampled_from(keys), st.sampled_from(vals), st.sampled_from(seps)).map(list)
    raw = st.binary(max_size=80).map(lambda b: ["raw", b.replace(b"\n", b" ").hex()])
    comment = st.sampled_from([["raw", b"# comment".hex()], ["raw", b"".hex()], ["raw", b"   ".hex()], ["raw", (b"#" * 4000).hex()]])
    sane = st.sampled_from([["kv", "directories.tokendir", "$TOKENDIR", " = "], ["kv", "objectstore.backend", "file", " = "], ["kv", "objectstore.backend", "db", " = "],
                            ["kv", "slots.removable", "false", " = "], ["kv", "log.level", "ERROR", " = "]])
    return st.one_of(kv, kv, sane, sane, raw, comment)


if __name__ == "__main__":
    sys.exit(main(C17))
