#!/usr/bin/env python3
"""C09 - a call that fails has no effect on objects (DESIGN.md section 2, C09)."""
import os
import sys

sys.path.insert(0, os.path.dirname(os.path.abspath(__file__)))
from objbase import ObjCheck  # noqa: E402
from vlib.objworld import program_st  # noqa: E402
from vlib.runner import main  # noqa: E402

WEIGHTS = {"open": 3, "close": 1, "login": 2, "logout": 1, "create": 10, "copy": 4, "destroy": 2, "set": 6, "gen": 3,
           "genpair": 2, "find": 1, "unwrap": 4, "derive": 3}


class C09(ObjCheck):
    pid = "C09"
    level = "exploration"
    world_kw = {"check_views": "fail", "probe_handles": False, "judge_access": False}
    rule = ("Histories of create/copy/set/destroy/generate on token and session, private and public objects of 11 classes, "
            "biased to FAILING calls: templates corrupted at a generated position (unknown type, read-only attribute, "
            "wrongly sized value, attribute of another class, missing mandatory attribute), wrong session state, dead "
            "handles. After every call that returns != CKR_OK the complete census (C_FindObjects + every attribute) through "
            "EVERY open session is compared with the model state committed by the last successful call, and at the end of "
            "the history again after a user login, after C_Finalize/C_Initialize, and against the decoded token directory. "
            "Non-trivial = a failing call whose template is valid up to a position >= 1 (a prefix could have been applied).")
    essential_labels = {"template_invalid_at_pos>0": 100, "views_checked": 500}

    def budget(self, tier):
        return {"examples": 3200, "shards": 16, "maxlen": 30} if tier == "quick" else {"examples": 16000, "shards": 16, "maxlen": 60}

    def strategy(self, tier):
        return program_st(WEIGHTS, self.budget(tier)["maxlen"], p_bad=0.5, prefix=[("open", 0, 1), ("login", 0, "USER")])

    def finish(self, ctx, world, prog):
        world.step = len(prog)
        if "template_invalid_at_pos>0" in world.labels:
            world.nontrivial = True
        # final user view of token 0 and 1
        world.check_all_views("end of history")


if __name__ == "__main__":
    sys.exit(main(C09))
