#!/usr/bin/env python3
"""C09 - a call that fails has no effect on objects (DESIGN.md section 2, C09)."""
import os
import sys

sys.path.insert(0, os.path.dirname(os.path.abspath(__file__)))
from objbase import ObjCheck  # noqa: E402
from hypothesis import strategies as st  # noqa: E402

from vlib import consts as K  # noqa: E402
from vlib import faultleg  # noqa: E402
from vlib.env import Stage  # noqa: E402
from vlib.objworld import program_st  # noqa: E402
from vlib.worker import WorkerDied  # noqa: E402
from vlib.runner import Violation, main  # noqa: E402

WEIGHTS = {"open": 3, "close": 1, "login": 2, "logout": 1, "create": 10, "copy": 4, "destroy": 2, "set": 6, "gen": 3,
           "genpair": 2, "find": 1, "unwrap": 4, "derive": 3}


class C09(ObjCheck):
    pid = "C09"
    level = "exploration"
    world_kw = {"check_views": "fail", "probe_handles": False, "judge_access": False}
    rule = ("Histories of create/copy/set/destroy/generate on token and session, private and public objects of 11 classes, "
            "biased to FAILING calls: templates corrupted at a generated position (unknown type, read-only attribute, "
            "wrongly sized value, attribute of another class, missing mandatory attribute), wrong session state, dead "
            "handles. After every call that returns != CKR_OK the complete census (C_FindObjects + every attribute) through "
            "EVERY open session is compared with the model state committed by the last successful call, and at the end of "
            "the history again after a user login, after C_Finalize/C_Initialize, and against the decoded token directory; one history in three runs on the SQLite backend. "
            "Non-trivial = a failing call whose template is valid up to a position >= 1 (a prefix could have been applied), or a fault case in which "
            "the injected failure fired and the call returned an error. " + "")
    essential_labels = {"template_invalid_at_pos>0": 100, "views_checked": 500, "fault_cases_call_failed": 40}
    rule_fault = ("Fault leg: for the C16 scenario (two tokens, private key, multi-buffer data object, certificate) and 22 kinds of calls (object management and the key-generation / unwrap / derive paths), ONE "
                  "file-system operation of the call - chosen among the operations a fault-free traced run of the same call performs - is made to fail "
                  "(once, or sticky = the disk stays full; errno by operation or ENOSPC/EIO/EACCES/EMFILE). When the call then returns an error, the view "
                  "through fresh sessions of the same process AND the view of a fresh process on the directory must equal the view before the call.")

    def budget(self, tier):
        return {"examples": 3200, "shards": 16, "maxlen": 30} if tier == "quick" else {"examples": 16000, "shards": 16, "maxlen": 60}

    def strategy(self, tier):
        hist = program_st(WEIGHTS, self.budget(tier)["maxlen"], p_bad=0.5, prefix=[("open", 0, 1), ("login", 0, "USER")])
        fault = faultleg.strategy()
        return st.sampled_from([0] * 12 + [1]).flatmap(lambda k: fault if k else hist)

    def setup(self, ctx):
        ObjCheck.setup(self, ctx)
        ctx.shared["fstage"] = Stage(ctx.env, ctx.shared["tpl"], reuse=False)
        from vlib.env import Template
        ctx.shared["tpl_db"] = Template(ctx.env, ntokens=2, backend="db")
        ctx.shared["stage_db"] = Stage(ctx.env, ctx.shared["tpl_db"], reuse=not ctx.replaying)

    def run_program(self, ctx, prog):
        if isinstance(prog, dict) and prog.get("fault"):
            return self.run_fault(ctx, prog)
        if isinstance(prog, dict) and "ops" in prog:
            # explicit cell of the prefix sweep: the backend is part of the program
            if prog["backend"] == "db":
                return self.run_on_db(ctx, prog["ops"])
            ctx.label("backend_file")
            return ObjCheck.run_program(self, ctx, prog["ops"])
        # one history in three runs on the SQLite backend (chosen by the program's own content, so that a replay takes the same one)
        import json
        if len(json.dumps(prog)) % 3 == 0:
            return self.run_on_db(ctx, prog)
        ctx.label("backend_file")
        return ObjCheck.run_program(self, ctx, prog)

    def run_on_db(self, ctx, prog):
        from vlib.objworld import World
        if ctx.kf.entry("KF-C20-01") and ctx.kf.entry("KF-C20-01")["status"].startswith("open"):
            # known finding excluded by construction (as in C05 / C06): C_CopyObject is unusable on the SQLite backend
            n0 = len(prog)
            prog = [op for op in prog if op[0] != "copy"]
            ctx.label("excluded_db_copy_ops", n0 - len(prog))
        w = ctx.shared["stage_db"].fresh()
        world = World(ctx, w, ctx.shared["tpl_db"].tokens, prog, **self.world_kw)
        world.run()
        self.finish(ctx, world, prog)
        labels = set(world.labels)
        for k, v in world.counts.items():
            ctx.label(k, v)
        ctx.label("backend_db")
        ctx.case(prog, world.nontrivial, labels)

    def probe_known(self, ctx, entry):
        """KF-C09-03: a C_DestroyObject whose unlink fails answers an error - and the object is gone for the process"""
        if entry["id"] != "KF-C09-03":
            return False
        before = ctx.kf.hits.get("KF-C09-03", 0)
        self.run_fault(ctx, {"fault": True, "call": "destroy", "size": 10, "bsize": 4100, "seed": 1, "extra_objs": 0, "pos": 0, "anyop": False, "sticky": False, "errno": "",
                             "opname": "remove"})
        return ctx.kf.hits.get("KF-C09-03", 0) > before

    def prefix_cells(self):
        """'no prefix of a rejected template is applied', enumerated: class x every attribute C_SetAttributeValue may change on it (both boolean
        values) x what follows it in the template and gets the call rejected x token / session object x file / SQLite"""
        from vlib.objects import LIGHT_CLASSES, class_kind
        from vlib.objworld import World
        cells = []
        for backend in ("file", "db"):
            for cls in LIGHT_CLASSES:
                for name in World.SETTABLE.get(class_kind(cls), []):
                    for idx in (0, 1):
                        for badkind in ("unknown_type", "readonly_local", "wrong_size_bool", "other_class_attr", "wrong_size_ulong"):
                            for token in (True, False):
                                cells.append({"backend": backend, "ops": [["open", 0, 1], ["login", 0, "USER"], ["create", 0, cls, 1, token, False, [], None],
                                                                          ["set", 0, 0, [[name, idx]], [1, badkind]], ["find", 0, [], [64]]]})
        return cells

    def extra(self, ctx, tier, shard, nshards):
        cells = self.prefix_cells()
        ctx.extra["prefix_cells_total"] = len(cells) if shard == 0 else 0
        for i, prog in enumerate(cells):
            if i % nshards != shard:
                continue
            try:
                self.run_program(ctx, prog)
                ctx.label("prefix_cells")
            except Violation as v:
                v.program = prog
                return v
            except WorkerDied as d:
                v = self.on_worker_death(ctx, prog, d)
                if v is not None:
                    return v
        return self.fault_sweep(ctx, tier, shard, nshards)

    def fault_sweep(self, ctx, tier, shard, nshards):
        """deterministic sweep of the fault leg over every call kind and (a stated subset of / all) its file-system operations"""
        cells, total = faultleg.sweep_cells(ctx, tier, shard, nshards, ctx.shared["fstage"], ctx.shared["tpl"])
        ctx.extra["fault_sweep_cells_total"] = total if shard == 0 else 0
        for prog in cells:
            try:
                self.run_fault(ctx, prog)
                ctx.label("fault_sweep_cells")
            except Violation as v:
                v.program = prog
                return v
            except WorkerDied as d:
                v = self.on_worker_death(ctx, prog, d)
                if v is not None:
                    return v
        return None

    def run_fault(self, ctx, prog):
        r = faultleg.run(ctx, prog, ctx.shared["fstage"], ctx.shared["tpl"])
        if r is None or not r["fired"]:
            ctx.label("fault_cases_not_fired")
            ctx.case(prog, False, set())
            return
        ctx.label("fault_cases")
        ctx.label("fault_op_" + r["op"])
        if r["rv"] == 0:
            ctx.label("fault_cases_call_ok")          # judged by C05 (the effect must then be persistent)
            ctx.case(prog, False, set())
            return
        ctx.label("fault_cases_call_failed")
        where = "%s with operation %d/%d (%s%s%s) failing returned %s" % (prog["call"], r["k"], r["nops"], r["op"], ", sticky" if prog["sticky"] else "",
                                                                         ", " + prog["errno"] if prog["errno"] else "", K.rvname(r["rv"]))
        for name, view in (("through fresh sessions of the same process", r["mem"]), ("in a fresh process", r["disk"])):
            if view == r["old"]:
                continue
            kinds, other = faultleg.classify(prog["call"], r["old"], view, view is r["mem"])
            if os.environ.get("C09_FAULT_SURVEY"):
                import json
                with open(os.environ["C09_FAULT_SURVEY"], "a") as f:
                    f.write(json.dumps({"call": prog["call"], "op": r["op"], "kinds": sorted(kinds), "other": other, "sticky": prog["sticky"], "rv": K.rvname(r["rv"])}) + "\n")
            for kind in sorted(kinds):
                # the file store rewrites in place and has no rollback (open known finding); only the object the call was writing may deviate
                if not ctx.known({"leg": "fault", "deviation": kind}):
                    other.append(kind)
            if other:
                raise Violation("%s, but the objects %s are not what they were before the call: %s" % (where, name, "; ".join(other[:5])), prog)
        ctx.case(prog, True, set())

    def finish(self, ctx, world, prog):
        world.step = len(prog)
        if "template_invalid_at_pos>0" in world.labels:
            world.nontrivial = True
        # final user view of token 0 and 1
        world.check_all_views("end of history")


if __name__ == "__main__":
    sys.exit(main(C09))
