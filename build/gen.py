#!/usr/bin/env python3
"""Generate ninja build files for the verification variants of SoftHSMv2 and run ninja.

Compiles the *current working tree* of /repo directly (see DESIGN.md 1.1): the repository's own
CMake cannot produce sanitizer / Botan builds.  Output goes to /verif/.build/<variant>/.

usage: gen.py [variant ...] [--targets t1,t2] [--guard]   (no variant = all)
"""
import fcntl
import glob
import os
import re
import subprocess
import sys

REPO = os.environ.get("VERIF_REPO", "/repo")
VERIF = os.path.dirname(os.path.dirname(os.path.abspath(__file__)))
BUILD = os.environ.get("VERIF_BUILD", os.path.join(VERIF, ".build"))
NATIVE = os.path.join(VERIF, "native")

LIBDIRS = [".", "common", "crypto", "data_mgr", "handle_mgr", "object_store", "session_mgr", "slot_mgr"]

UBSAN_OFF = "-fno-sanitize=function,vptr,null,nonnull-attribute,pointer-overflow"
ASAN = "-fsanitize=address,undefined %s -fno-sanitize-recover=undefined" % UBSAN_OFF

WRAPS = ["open", "open64", "fdopen", "fopen", "fopen64", "fread", "fwrite", "fflush", "fclose", "ftruncate", "ftruncate64",
         "fcntl", "fcntl64", "remove", "mkdir", "rmdir", "opendir", "write", "pwrite", "pwrite64", "fsync",
         "fdatasync", "rename", "unlink", "close", "exit", "_exit", "abort", "fseek", "rewind"]

VARIANTS = {
    # name: (compiler, cflags, crypto, ldflags)
    "ossl-asan": dict(cxx="clang++", cflags="-O1 -g -fno-omit-frame-pointer %s -fsanitize=fuzzer-no-link" % ASAN,
                      crypto="openssl", ld=ASAN),
    "botan-asan": dict(cxx="clang++", cflags="-O1 -g -fno-omit-frame-pointer %s" % ASAN,
                       crypto="botan", ld=ASAN),
    "ossl-plain": dict(cxx="g++", cflags="-O1 -g", crypto="openssl", ld=""),
    # shared library + the repository's own softhsm2-util (which loads a module with dlopen); used by C14
    "ossl-shared": dict(cxx="g++", cflags="-O1 -g -fPIC", crypto="openssl", ld=""),
}

CONFIG_COMMON = {
    "CRYPTOKI_VISIBILITY": "1", "DEFAULT_LOG_LEVEL": "INFO", "DEFAULT_OBJECTSTORE_BACKEND": "file",
    "DEFAULT_PKCS11_LIB": "/usr/local/lib/softhsm/libsofthsm2.so", "DEFAULT_SOFTHSM2_CONF": "/etc/softhsm2.conf",
    "DEFAULT_TOKENDIR": "/var/lib/softhsm/tokens/", "DEFAULT_UMASK": "0077",
    "HAVE_CXX11": "1", "HAVE_DLFCN_H": "1", "HAVE_DLOPEN": "1", "HAVE_GETPWUID_R": "1", "HAVE_INTTYPES_H": "1",
    "HAVE_MEMORY_H": "1", "HAVE_PTHREAD_H": "1", "HAVE_STDINT_H": "1", "HAVE_STDLIB_H": "1", "HAVE_STRINGS_H": "1",
    "HAVE_STRING_H": "1", "HAVE_SYS_MMAN_H": "1", "HAVE_SYS_STAT_H": "1", "HAVE_SYS_TYPES_H": "1",
    "HAVE_UNISTD_H": "1", "MAX_PIN_LEN": "255", "MIN_PIN_LEN": "4", "PACKAGE": "softhsm", "PACKAGE_NAME": "SoftHSM",
    "PACKAGE_STRING": "SoftHSM 2.6.1", "PACKAGE_TARNAME": "softhsm", "PACKAGE_VERSION": "2.6.1",
    "SENSITIVE_NON_PAGE": "1", "STDC_HEADERS": "1", "VERSION": "2.6.1", "VERSION_MAJOR": "2", "VERSION_MINOR": "6",
    "WITH_AES_GCM": "1", "WITH_ECC": "1", "WITH_EDDSA": "1", "WITH_RAW_PSS": "1",
    "HAVE_LIBSQLITE3": "1", "HAVE_SQLITE3_H": "1", "HAVE_OBJECTSTORE_BACKEND_DB": "1",
}
CONFIG_CRYPTO = {
    "openssl": {"WITH_OPENSSL": "1", "HAVE_LIBCRYPTO": "1", "HAVE_OPENSSL_SSL_H": "1", "HAVE_AES_KEY_WRAP": "1",
                "HAVE_AES_KEY_WRAP_PAD": "1"},
    "botan": {"WITH_BOTAN": "1", "HAVE_AES_KEY_WRAP": "1", "HAVE_AES_KEY_WRAP_PAD": "1"},
}


def write_if_changed(path, text):
    try:
        if open(path).read() == text:
            return
    except OSError:
        pass
    os.makedirs(os.path.dirname(path), exist_ok=True)
    with open(path, "w") as f:
        f.write(text)


def make_config_h(crypto):
    vals = dict(CONFIG_COMMON)
    vals.update(CONFIG_CRYPTO[crypto])
    out = []
    for line in open(os.path.join(REPO, "config.h.in.cmake")):
        m = re.match(r"\s*#cmakedefine\s+(\w+)(.*)", line)
        if m:
            name, rest = m.group(1), m.group(2)
            if name in vals:
                rest = re.sub(r"@\w+@", vals[name], rest)
                out.append("#define %s%s\n" % (name, rest))
            else:
                out.append("/* #undef %s */\n" % name)
        else:
            out.append(line)
    return "".join(out)


def sources(crypto):
    src = []
    for d in LIBDIRS:
        for f in sorted(glob.glob(os.path.join(REPO, "src/lib", d, "*.cpp"))):
            b = os.path.basename(f)
            if d == "crypto":
                if crypto == "openssl" and b.startswith("Botan"):
                    continue
                if crypto == "botan" and b.startswith("OSSL"):
                    continue
            src.append(f)
    return src


def gen_variant(name, guard):
    v = VARIANTS[name]
    bdir = os.path.join(BUILD, name)
    os.makedirs(bdir, exist_ok=True)
    write_if_changed(os.path.join(bdir, "include", "config.h"), make_config_h(v["crypto"]))
    incs = ["-I" + os.path.join(bdir, "include")]
    for d in LIBDIRS + ["pkcs11"]:
        incs.append("-I" + os.path.join(REPO, "src/lib", d))
    incs.append("-I" + NATIVE)
    if v["crypto"] == "botan":
        incs.append("-I/usr/include/botan-2")
    defs = "-DHAVE_CONFIG_H"
    if guard:
        defs += " -DSOFTHSM_VERIF"
    cryptolib = "-lcrypto" if v["crypto"] == "openssl" else "-lbotan-2 -lcrypto"
    n = []
    n.append("cxx = %s" % v["cxx"])
    n.append("cflags = -std=gnu++14 -w %s %s %s" % (v["cflags"], defs, " ".join(incs)))
    n.append("ldflags = %s" % v["ld"])
    n.append("libs = %s /usr/lib/x86_64-linux-gnu/libsqlite3.a -lpthread -ldl -lm" % cryptolib)
    n.append("rule cxx\n  command = $cxx $cflags $extra -MMD -MF $out.d -c $in -o $out\n  depfile = $out.d\n  deps = gcc\n  description = CXX $out")
    n.append("rule link\n  command = $cxx $ldflags $extra -o $out $in $libs $xlibs\n  description = LINK $out")
    objs = []
    for s in sources(v["crypto"]):
        rel = os.path.relpath(s, os.path.join(REPO, "src/lib")).replace("/", "_")
        o = "obj/%s.o" % rel[:-4]
        objs.append(o)
        n.append("build %s: cxx %s" % (o, s))
    libobjs = " ".join(objs)
    wrapflags = " ".join("-Wl,--wrap=%s" % w for w in WRAPS)

    def native_obj(fn, extra=""):
        o = "obj/native_%s.o" % fn[:-4]
        n.append("build %s: cxx %s\n  extra = %s" % (o, os.path.join(NATIVE, fn), extra))
        return o

    targets = []
    if name in ("ossl-asan", "botan-asan", "ossl-plain"):
        w = native_obj("p11worker.cpp")
        s = native_obj("fs_shim.cpp")
        n.append("build p11worker: link %s %s %s\n  extra = %s" % (w, s, libobjs, wrapflags))
        targets.append("p11worker")
    if name == "ossl-asan":
        for fz in ("fuzz_api", "fuzz_store", "fuzz_conf"):
            if os.path.exists(os.path.join(NATIVE, fz + ".cpp")):
                o = native_obj(fz + ".cpp")
                s2 = "obj/native_fs_shim.o"
                n.append("build %s: link %s %s %s\n  extra = -fsanitize=fuzzer %s" % (fz, o, s2, libobjs, wrapflags))
                targets.append(fz)
        if os.path.exists(os.path.join(NATIVE, "p11sched.cpp")):
            # C18: the executor's handlers driven by N threads under a harness-owned scheduler (mutex callbacks)
            o = native_obj("p11sched.cpp")
            n.append("build p11sched: link %s %s %s\n  extra = %s" % (o, "obj/native_fs_shim.o", libobjs, wrapflags))
            targets.append("p11sched")
    if name == "ossl-shared":
        # (the static libsqlite3.a is not position independent: this variant links the shared one)
        n.append("build libsofthsm2.so: link %s\n  extra = -shared\n  libs = -lcrypto -lsqlite3 -lpthread -ldl -lm" % libobjs)
        targets.append("libsofthsm2.so")
        uobjs = []
        binc = "-I%s -I%s" % (os.path.join(REPO, "src/bin/common"), os.path.join(REPO, "src/bin/util"))
        for src_ in ("src/bin/util/softhsm2-util.cpp", "src/bin/util/softhsm2-util-ossl.cpp", "src/bin/common/findslot.cpp", "src/bin/common/getpw.cpp",
                     "src/bin/common/library.cpp"):
            o = "obj/bin_%s.o" % os.path.basename(src_)[:-4]
            n.append("build %s: cxx %s\n  extra = %s" % (o, os.path.join(REPO, src_), binc))
            uobjs.append(o)
        # the utility links the convenience libraries only (it defines the singletons of SoftHSM.cpp itself)
        sub = " ".join(o for o in objs if os.path.basename(o).split("_")[0] in ("common", "crypto", "data", "object", "handle", "session", "slot"))
        n.append("build softhsm2-util: link %s %s\n  libs = -lcrypto -lsqlite3 -lpthread -ldl -lm" % (" ".join(uobjs), sub))
        targets.append("softhsm2-util")
    n.append("default %s" % " ".join(targets if targets else objs))
    write_if_changed(os.path.join(bdir, "build.ninja"), "\n".join(n) + "\n")
    return bdir, targets


def gen_ref():
    bdir = os.path.join(BUILD, "ref")
    os.makedirs(bdir, exist_ok=True)
    n = []
    n.append("rule cxx\n  command = g++ -std=gnu++14 -O1 -g -w -I/usr/include/botan-2 -I%s -MMD -MF $out.d -c $in -o $out\n  depfile = $out.d\n  deps = gcc" % NATIVE)
    n.append("rule link\n  command = g++ -o $out $in -lbotan-2 -lhogweed -lnettle -lgmp -lpthread")
    t = []
    if os.path.exists(os.path.join(NATIVE, "refworker.cpp")):
        n.append("build obj/refworker.o: cxx %s" % os.path.join(NATIVE, "refworker.cpp"))
        n.append("build refworker: link obj/refworker.o")
        t.append("refworker")
    if not t:
        return None, []
    n.append("default %s" % " ".join(t))
    write_if_changed(os.path.join(bdir, "build.ninja"), "\n".join(n) + "\n")
    return bdir, t


def main():
    args = [a for a in sys.argv[1:] if not a.startswith("--")]
    guard = "--guard" in sys.argv
    quiet = "--quiet" in sys.argv
    names = args or ["ossl-asan", "botan-asan", "ref"]
    os.makedirs(BUILD, exist_ok=True)
    lock = open(os.path.join(BUILD, ".lock"), "w")
    fcntl.flock(lock, fcntl.LOCK_EX)
    rc = 0
    for name in names:
        if name == "ref":
            bdir, _ = gen_ref()
            if bdir is None:
                continue
        else:
            bdir, _ = gen_variant(name, guard)
        p = subprocess.run(["ninja", "-C", bdir, "-j", str(os.cpu_count() or 8)],
                           stdout=subprocess.PIPE, stderr=subprocess.STDOUT, text=True)
        if p.returncode != 0:
            sys.stdout.write(p.stdout)
            rc = p.returncode
        elif not quiet:
            last = p.stdout.strip().splitlines()[-1:] or [""]
            print("[build %s] %s" % (name, last[0]))
    return rc


if __name__ == "__main__":
    sys.exit(main())
